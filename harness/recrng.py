"""Recording / scripted stand-ins for numpy.random.Generator.

`RecRng` wraps a real Generator, forwards every call the library makes and logs it as
(request-token, answers) in the encoding of lean/GridVerse/Model/Draw.lean.  `ScriptRng` replays a
model-chosen answer stream on the implementation."""
import numpy as np


def _ranks(indices, n):
    """sequential-removal encoding of a sequence of distinct indices of range(n)"""
    pool = list(range(n))
    out = []
    for i in indices:
        r = pool.index(int(i))
        out.append(r)
        pool.pop(r)
    return out


class RecRng:
    def __init__(self, seed=None, gen=None):
        self.gen = gen if gen is not None else np.random.default_rng(seed)
        self.log = []  # request tokens
        self.answers = []  # flat answer stream
        self.calls = 0

    # -- the Generator API used by gym_gridverse ------------------------------------------
    def choice(self, a, size=None, replace=True, **kw):
        assert not kw, kw
        self.calls += 1
        n = a if isinstance(a, (int, np.integer)) else len(a)
        if size is None:
            self.log.append(f'c{n}')
            i = self.gen.choice(n)  # raises ValueError for n == 0
            self.answers.append(int(i))
            return i if isinstance(a, (int, np.integer)) else a[i]
        assert replace is False, 'unexpected replace=True with size'
        self.log.append(f'n{n}:{size}')
        idx = self.gen.choice(n, size=size, replace=False)
        self.answers.extend(_ranks(idx, n))
        if isinstance(a, (int, np.integer)):
            return idx
        out = np.empty(len(idx), dtype=object)
        for k, i in enumerate(idx):
            out[k] = a[i]
        return out

    def integers(self, low, high=None, size=None, endpoint=False, **kw):
        assert not kw and size is None, (kw, size)
        self.calls += 1
        if high is None:
            low, high = 0, low
        hi = int(high) + (1 if endpoint else 0)
        self.log.append(f'i{int(low)}:{hi}')
        r = self.gen.integers(low, high, endpoint=endpoint)
        self.answers.append(int(r) - int(low))
        return r

    def shuffle(self, x):
        self.calls += 1
        n = len(x)
        assert list(x) == list(range(n)), 'shuffle of something else than range(n)'
        self.log.append(f's{n}')
        self.gen.shuffle(x)
        self.answers.extend(_ranks(x, n))

    def random(self, size=None):
        self.calls += 1
        u = self.gen.random(size)
        flat = np.asarray(u).reshape(-1)
        self.log.append(f'r{len(flat)}')
        for v in flat:
            m = float(v) * 9007199254740992.0
            assert m == int(m)
            self.answers.append(int(m))
        return u

    def __getattr__(self, name):
        raise AttributeError(f'RecRng: library used unexpected Generator API `{name}`')

    def log_str(self):
        return ','.join(self.log)


class ScriptRng:
    """Feeds a fixed answer stream (model encoding) to the implementation."""

    def __init__(self, answers):
        self.answers = list(answers)
        self.log = []

    def _pop(self):
        return self.answers.pop(0) if self.answers else 0

    def choice(self, a, size=None, replace=True):
        n = a if isinstance(a, (int, np.integer)) else len(a)
        if size is None:
            self.log.append(f'c{n}')
            if n == 0:
                raise ValueError('a must be a positive integer unless no samples are taken')
            i = self._pop() % n
            return i if isinstance(a, (int, np.integer)) else a[i]
        self.log.append(f'n{n}:{size}')
        if size > n:
            raise ValueError('Cannot take a larger sample than population when replace is False')
        pool = list(range(n))
        idx = []
        for _ in range(size):
            idx.append(pool.pop(self._pop() % len(pool)))
        if isinstance(a, (int, np.integer)):
            return np.array(idx, dtype=int)
        out = np.empty(len(idx), dtype=object)
        for k, i in enumerate(idx):
            out[k] = a[i]
        return out

    def integers(self, low, high=None, size=None, endpoint=False):
        if high is None:
            low, high = 0, low
        hi = int(high) + (1 if endpoint else 0)
        self.log.append(f'i{int(low)}:{hi}')
        if hi <= low:
            raise ValueError('low >= high')
        return int(low) + self._pop() % (hi - int(low))

    def shuffle(self, x):
        n = len(x)
        self.log.append(f's{n}')
        pool = list(x)
        out = []
        for _ in range(n):
            out.append(pool.pop(self._pop() % len(pool)))
        x[:] = out

    def random(self, size=None):
        shape = () if size is None else (size if isinstance(size, tuple) else (size,))
        n = int(np.prod(shape)) if shape else 1
        self.log.append(f'r{n}')
        vals = [(self._pop() % 9007199254740992) / 9007199254740992.0 for _ in range(n)]
        return np.array(vals).reshape(shape) if shape else vals[0]

    def log_str(self):
        return ','.join(self.log)
