"""Harness-side environment: makes /repo's gym_gridverse importable with a YAML-subset loader
standing in for PyYAML (not installed in this sandbox; `import yaml` would otherwise resolve to the
namespace package /repo/yaml, the configuration directory)."""
import os
import sys
import types
import warnings

REPO = os.environ.get('GV_REPO', '/repo')
VERIF = os.path.dirname(os.path.dirname(os.path.abspath(__file__)))

warnings.filterwarnings('ignore')
os.environ.setdefault('GYM_GRIDVERSE_VERIF', '1')

if REPO not in sys.path:
    sys.path.insert(0, REPO)
_ex = os.path.join(REPO, 'examples')
if _ex not in sys.path:
    sys.path.append(_ex)

from harness import miniyaml  # noqa: E402

_y = types.ModuleType('yaml')
_y.safe_load = miniyaml.safe_load
_y.__file__ = miniyaml.__file__
sys.modules['yaml'] = _y

import contextlib  # noqa: E402
import io  # noqa: E402

with contextlib.redirect_stderr(io.StringIO()):  # gym prints a deprecation banner on import
    import pkg_resources  # noqa: E402,F401  (makes setuptools' vendored more_itertools importable)
    import gym_gridverse  # noqa: E402,F401
from gym_gridverse.debugging import reset_gv_debug  # noqa: E402

assert os.path.realpath(os.path.dirname(gym_gridverse.__file__)) == os.path.realpath(
    os.path.join(REPO, 'gym_gridverse')
), (gym_gridverse.__file__, REPO)

reset_gv_debug(True)
