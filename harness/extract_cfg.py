"""Translator (data part, configuration side): registries' signatures exactly as each `factory()`
computes them, the shipped YAML files as data, the registered gym ids, byte-identity of the
packaged copies.  Emits lean/GridVerse/Generated/Configs.lean and the protocol encoding."""
import glob
import inspect
import os
import re

from harness import gvenv  # noqa: F401
from harness import miniyaml
from gym_gridverse.action import Action
from gym_gridverse.envs import observation_functions as of
from gym_gridverse.envs import reset_functions as rsf
from gym_gridverse.envs import reward_functions as rf
from gym_gridverse.envs import terminating_functions as tf
from gym_gridverse.envs import transition_functions as trf
from gym_gridverse.envs import visibility_functions as vf
from gym_gridverse.grid_object import Color, grid_object_registry

REGISTRIES = [
    ('reset', rsf.reset_function_registry),
    ('transition', trf.transition_function_registry),
    ('reward', rf.reward_function_registry),
    ('observation', of.observation_function_registry),
    ('visibility', vf.visibility_function_registry),
    ('terminating', tf.terminating_function_registry),
]
BUILTIN_MODULE_PREFIX = 'gym_gridverse.'


def signatures(registry, builtin_only=True):
    out = []
    for name, fn in registry.items():
        if builtin_only and not getattr(fn, '__module__', '').startswith(BUILTIN_MODULE_PREFIX):
            continue
        sig = inspect.signature(fn)
        params = registry.get_nonprotocol_parameters(sig)
        req = [p.name for p in params if p.default is inspect.Parameter.empty]
        opt = [p.name for p in params if p.default is not inspect.Parameter.empty]
        out.append((name, req, opt))
    return out


def object_names(builtin_only=True):
    return [c.__name__ for c in grid_object_registry if not builtin_only or c.__module__.startswith(BUILTIN_MODULE_PREFIX)]


def regs():
    d = {k: signatures(r) for k, r in REGISTRIES}
    d['objects'] = object_names()
    d['colors'] = [c.name for c in Color]
    d['actions'] = [a.name for a in Action]
    return d


def tok_list(items):
    return f'{len(items)} ' + ' '.join(items) if items else '0'


def regs_tokens():
    r = regs()
    parts = []
    for k, _ in REGISTRIES:
        sigs = r[k]
        parts.append(str(len(sigs)))
        for name, req, opt in sigs:
            parts.append(f'{name} {tok_list(req)} {tok_list(opt)}')
    parts += [tok_list(r['objects']), tok_list(r['colors']), tok_list(r['actions'])]
    return ' '.join(parts)


def dec_float(text):
    """exact decimal (m, e) of a float literal as written"""
    t = text.strip()
    neg = t.startswith('-')
    t = t.lstrip('+-')
    if 'e' in t.lower():
        raise ValueError(text)
    ip, _, fp = t.partition('.')
    m = int((ip or '0') + fp)
    return (-m if neg else m), len(fp)


def yaml_tokens(v):
    if v is None:
        return 'n'
    if isinstance(v, bool):
        return 'b1' if v else 'b0'
    if isinstance(v, int):
        return f'i{v}'
    if isinstance(v, float):
        m, e = dec_float(repr(v))
        return f'f{m}e{e}'
    if isinstance(v, str):
        assert ' ' not in v and v != '', repr(v)
        return 's' + v
    if isinstance(v, (list, tuple)):
        return f'l {len(v)} ' + ' '.join(yaml_tokens(x) for x in v) if v else 'l 0'
    if isinstance(v, dict):
        return f'm {len(v)} ' + ' '.join('s' + str(k) + ' ' + yaml_tokens(x) for k, x in v.items()) if v else 'm 0'
    raise TypeError(type(v))


def l_str(s):
    return '"' + s.replace('\\', '\\\\').replace('"', '\\"') + '"'


def l_yaml(v):
    if v is None:
        return 'Yaml.null'
    if isinstance(v, bool):
        return f'(Yaml.bool {"true" if v else "false"})'
    if isinstance(v, int):
        return f'(Yaml.int ({v}))'
    if isinstance(v, float):
        m, e = dec_float(repr(v))
        return f'(Yaml.float ({m}) {e})'
    if isinstance(v, str):
        return f'(Yaml.str {l_str(v)})'
    if isinstance(v, (list, tuple)):
        return '(Yaml.list [' + ', '.join(l_yaml(x) for x in v) + '])'
    if isinstance(v, dict):
        return '(Yaml.map [' + ', '.join(f'({l_str(str(k))}, {l_yaml(x)})' for k, x in v.items()) + '])'
    raise TypeError(type(v))


def shipped():
    """(relative name, data, packaged copy identical?)"""
    out = []
    top = os.path.join(gvenv.REPO, 'yaml')
    pkg = os.path.join(gvenv.REPO, 'gym_gridverse', 'registered_envs')
    for path in sorted(glob.glob(os.path.join(top, '*.yaml'))):
        name = os.path.basename(path)
        with open(path, 'rb') as f:
            raw = f.read()
        try:
            with open(os.path.join(pkg, name), 'rb') as f:
                same = f.read() == raw
        except FileNotFoundError:
            same = False
        out.append((name, miniyaml.safe_load(raw.decode()), same))
    return out


def packaged_files():
    pkg = os.path.join(gvenv.REPO, 'gym_gridverse', 'registered_envs')
    return sorted(os.path.basename(p) for p in glob.glob(os.path.join(pkg, '*.yaml')))



def l_reset(d):
    """the reset function of a configuration as a Lean `ResetSpec` term (numpy's split vectors included)"""
    from gym_gridverse.envs import reset_functions as rsf
    from gym_gridverse.grid_object import Color
    from harness import envspec

    LK = {'NoneGridObject': '.noneObj', 'Hidden': '.hidden', 'Floor': '.floor', 'Wall': '.wall', 'Exit': '.exit', 'Door': '.door', 'Key': '.key',
          'MovingObstacle': '.obstacle', 'Box': '.box', 'Telepod': '.telepod', 'Beacon': '.beacon'}
    LC = {'NONE': '.none', 'RED': '.red', 'GREEN': '.green', 'BLUE': '.blue', 'YELLOW': '.yellow'}
    name = d['name']
    p = envspec.defaults(rsf.reset_function_registry[name])
    p.update({k: v for k, v in d.items() if k != 'name'})
    h, w = p['shape']
    b = lambda x: 'true' if x else 'false'  # noqa: E731
    il = lambda l: '[' + ', '.join(str(int(x)) for x in l) + ']'  # noqa: E731
    cols = lambda cs: '[' + ', '.join(LC[c.name] for c in sorted({Color[c] for c in cs}, key=lambda c: c.value)) + ']'  # noqa: E731
    if name == 'empty':
        return f".empty ⟨{h}, {w}⟩ {b(p['random_agent'])} {b(p['random_exit'])}"
    if name == 'rooms':
        lh, lw = p['layout']
        return f".rooms ⟨{h}, {w}⟩ {lh} {lw} {il(envspec.splits(h, lh))} {il(envspec.splits(w, lw))}"
    if name == 'dynamic_obstacles':
        return f".dynamicObstacles ⟨{h}, {w}⟩ {p['num_obstacles']} {b(p['random_agent'])}"
    if name == 'keydoor':
        return f'.keydoor ⟨{h}, {w}⟩'
    if name == 'crossing':
        ot = p['object_type']
        ot = ot if isinstance(ot, str) else ot.__name__
        return f".crossing ⟨{h}, {w}⟩ {p['num_rivers']} {LK[ot]}"
    if name == 'teleport':
        return f'.teleport ⟨{h}, {w}⟩'
    if name == 'memory':
        return f".memory ⟨{h}, {w}⟩ {cols(p['colors'])}"
    if name == 'memory_rooms':
        lh, lw = p['layout']
        return f".memoryRooms ⟨{h}, {w}⟩ {lh} {lw} {il(envspec.splits(h, lh))} {il(envspec.splits(w, lw))} {cols(p['colors'])} {p['num_beacons']} {p['num_exits']}"
    raise KeyError(name)


def l_term(d, LK):
    n = d['name']
    if n in ('reduce_any', 'reduce_all'):
        subs = ', '.join(l_term(x, LK) for x in d['terminating_functions'])
        return f"(.{'any' if n == 'reduce_any' else 'all'} [{subs}])"
    if n == 'overlap':
        return f"(.overlap {LK[d['object_type']]})"
    return {'reach_exit': '.reachExit', 'bump_moving_obstacle': '.bumpObstacle', 'bump_into_wall': '.bumpWall'}[n]


def generate_envs():
    """semantic description of every shipped environment the model can express: state space, reset
    function with its parameters, transition chain"""
    LK = {'NoneGridObject': '.noneObj', 'Hidden': '.hidden', 'Floor': '.floor', 'Wall': '.wall', 'Exit': '.exit', 'Door': '.door', 'Key': '.key',
          'MovingObstacle': '.obstacle', 'Box': '.box', 'Telepod': '.telepod', 'Beacon': '.beacon'}
    LC = {'NONE': '.none', 'RED': '.red', 'GREEN': '.green', 'BLUE': '.blue', 'YELLOW': '.yellow'}
    LT = {'move_agent': '.moveAgent', 'turn_agent': '.turnAgent', 'pickndrop': '.pickndrop', 'move_obstacles': '.moveObstacles',
          'actuate_door': '.actuateDoor', 'actuate_box': '.actuateBox', 'teleport': '.teleport'}
    out = ['/- GENERATED by harness/extract_cfg.py from /repo — do not edit. -/', 'import GridVerse.Model.Reset', 'import GridVerse.Model.Spaces', 'import GridVerse.Model.Reward', 'namespace GV.Gen', '',
           '/-- a shipped environment: file name, declared state space, reset function with parameters, transition chain -/',
           'structure ShippedEnv where', '  name : String', '  space : StateSpace', '  reset : ResetSpec', '  trans : List TransAtom', '  term : TermFn', '',
           'def shippedEnvs : List ShippedEnv := [']
    rows = []
    for n, d, _ in shipped():
        try:
            h, w = d['reset_function']['shape']
            kinds = '[' + ', '.join(LK[k] for k in d['state_space']['objects']) + ']'
            colors = '[' + ', '.join(LC[c] for c in d['state_space']['colors']) + ']'
            trans = '[' + ', '.join(LT[t['name']] for t in d['transition_functions']) + ']'
            rows.append(f'  ⟨{l_str(n)}, ⟨{h}, {w}, {kinds}, {colors}⟩, {l_reset(d["reset_function"])}, {trans}, {l_term(d["terminating_function"], LK)}⟩')
        except KeyError:
            continue  # a custom component: outside the model
    out.append(',\n'.join(rows))
    out.append(']')
    out.append('')
    out.append('end GV.Gen')
    return '\n'.join(out) + '\n'


def generate():
    from gym_gridverse.gym import STRING_TO_YAML_FILE

    r = regs()
    out = ['/- GENERATED by harness/extract_cfg.py from /repo — do not edit. -/', 'import GridVerse.Model.Config', 'namespace GV.Gen', '']

    def sigs(k):
        return '[' + ', '.join(f'⟨{l_str(n)}, [{", ".join(map(l_str, req))}], [{", ".join(map(l_str, opt))}]⟩' for n, req, opt in r[k]) + ']'

    out.append('def regs : Regs := {')
    for k, _ in REGISTRIES:
        out.append(f'  {k} := {sigs(k)}')
    out.append(f'  objects := [{", ".join(map(l_str, r["objects"]))}]')
    out.append(f'  colors := [{", ".join(map(l_str, r["colors"]))}]')
    out.append(f'  actions := [{", ".join(map(l_str, r["actions"]))}] }}')
    out.append('')
    sh = shipped()
    out.append('def shippedConfigs : List (String × Yaml) := [')
    out.append(',\n'.join(f'  ({l_str(n)}, {l_yaml(d)})' for n, d, _ in sh))
    out.append(']')
    out.append('def packagedIdentical : List (String × Bool) := [' + ', '.join(f'({l_str(n)}, {"true" if s else "false"})' for n, _, s in sh) + ']')
    out.append('def packagedFiles : List String := [' + ', '.join(map(l_str, packaged_files())) + ']')
    out.append('def registeredIds : List (String × String) := [' + ', '.join(f'({l_str(k)}, {l_str(v)})' for k, v in STRING_TO_YAML_FILE.items()) + ']')
    out.append('')
    out.append('end GV.Gen')
    return {'Configs.lean': '\n'.join(out) + '\n', 'Envs.lean': generate_envs()}
