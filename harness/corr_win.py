"""Winnability (C14): plans produced by the Lean model -- the closed-form witnesses of the theorems
(`planEmpty`, `planMemory`, `planKeydoor`) and the breadth-first solver's certificates -- are
executed on the REAL reset / transition / terminating functions; plans found by searching the
real dynamics are checked by the model; and the two sides must agree on which initial states are
solvable at all."""
import random
from collections import deque

from harness import gvenv  # noqa: F401
from harness.codec import ACTIONS, enc_state
from harness.recrng import ScriptRng
from gym_gridverse.action import Action
from gym_gridverse.envs import reward_functions as rf
from gym_gridverse.envs import terminating_functions as tf
from gym_gridverse.envs import transition_functions as trf
from gym_gridverse.grid_object import Color

TRANS_NAMES = ['move_agent', 'turn_agent', 'pickndrop', 'move_obstacles', 'actuate_door', 'actuate_box', 'teleport']

# the dynamics each layout ships with: (transition atoms, terminating function token, goal kind)
SETUPS = {
    'empty': ([0, 1], 're', 'e'),
    'rooms': ([0, 1], 're', 'e'),
    'crossing': ([0, 1], 're', 'e'),
    'keydoor': ([0, 1, 4, 2], 're', 'e'),
    'teleport': ([0, 1, 6], 're', 'e'),
    'memory': ([0, 1], 're', 'm'),
    'memory_rooms': ([0, 1], 're', 'm'),
    'dynamic_obstacles': ([0, 1, 3], 'any 3 re bo bw', 'e'),
}
THEOREM_PLAN = {'empty': 'empty', 'memory': 'memory', 'keydoor': 'keydoor', 'teleport': 'teleport'}
MOVES = [Action.MOVE_FORWARD, Action.MOVE_BACKWARD, Action.MOVE_LEFT, Action.MOVE_RIGHT]


def real_setup(name):
    atoms, term_tok, goal = SETUPS[name]
    chain = trf.factory('chain', transition_functions=[trf.factory(TRANS_NAMES[i]) for i in atoms])
    if term_tok == 're':
        term = tf.factory('reach_exit')
    else:
        term = tf.factory('reduce_any', terminating_functions=[tf.factory('reach_exit'), tf.factory('bump_moving_obstacle'), tf.factory('bump_into_wall')])
    reach = tf.factory('reach_exit')
    if goal == 'e':
        goal_fn = lambda s, a, s2: reach(s, a, s2)  # noqa: E731
    else:
        mem = rf.factory('reach_exit_memory', reward_good=1.0, reward_bad=-1.0)
        goal_fn = lambda s, a, s2: mem(s, a, s2) == 1.0  # noqa: E731
    return chain, term, goal_fn


def goal_now(name, s):
    """goal test on a state by itself (the model tests the current state before every action)"""
    _, _, goal_fn = real_setup(name)
    return goal_fn(s, Action.MOVE_FORWARD, s)


def real_run_plan(name, s, acts, answers):
    """mirror of the driver's `runPlan`: WIN/LOSE/SHORT k <state>"""
    chain, term, goal_fn = real_setup(name)
    rng = ScriptRng(list(answers))
    k = 0
    for a in acts:
        if goal_fn(s, a, s):
            return f'WIN {k} {enc_state(s)}', True
        try:
            s2 = trf.transition_with_copy(chain, s, a, rng=rng)
        except Exception as e:
            return f'ERR {type(e).__name__}', False
        k += 1
        if goal_fn(s, a, s2):
            return f'WIN {k} {enc_state(s2)}', True
        if term(s, a, s2):
            return f'LOSE {k} {enc_state(s2)}', False
        s = s2
    won = goal_fn(s, Action.MOVE_FORWARD, s)
    return ('WIN ' if won else 'SHORT ') + f'{k} {enc_state(s)}', won


def real_solvable(name, s, limit=20000):
    """breadth-first search over the real dynamics for layouts whose grid never changes (no pick,
    door, box, obstacle): nodes keyed by the agent's position; returns a plan or None"""
    chain, term, goal_fn = real_setup(name)
    if goal_fn(s, Action.MOVE_FORWARD, s):
        return []
    seen = {s.agent.position.yx}
    frontier = deque([(s, [])])
    n = 0
    while frontier and n < limit:
        cur, plan = frontier.popleft()
        for a in MOVES:
            n += 1
            s2 = trf.transition_with_copy(chain, cur, a, rng=ScriptRng([]))
            if goal_fn(cur, a, s2):
                return plan + [a]
            if term(cur, a, s2) or s2.agent.position.yx in seen:
                continue
            seen.add(s2.agent.position.yx)
            frontier.append((s2, plan + [a]))
    return None


def win_line(mode, name, s_enc, acts=None, answers=None):
    atoms, term_tok, goal = SETUPS[name]
    line = f'win {mode} {len(atoms)} {" ".join(map(str, atoms))} {term_tok} {goal} {s_enc}'
    if acts is not None:
        line += f' {len(acts)} ' + ' '.join(str(a.value) for a in acts)
        line = line.rstrip() + f' {len(answers)} ' + ' '.join(map(str, answers))
    return line.rstrip()


def valid_params(rng, name, shipped_bias=0.3):
    """valid parameters for a reset function (JSON form of the C13 oracle), shipped sets included"""
    COLS = [c.name for c in Color][1:]
    if name == 'empty':
        if rng.random() < shipped_bias:
            h, w = rng.choice([(4, 4), (8, 8)])
            return dict(h=h, w=w, random_agent=True, random_exit=True)
        return dict(h=rng.randint(4, 9), w=rng.randint(4, 9), random_agent=rng.random() < 0.5, random_exit=rng.random() < 0.5)
    if name == 'teleport':
        if rng.random() < shipped_bias:
            h = rng.choice([5, 7])
            return dict(h=h, w=h)
        return dict(h=rng.randint(4, 8), w=rng.randint(4, 8))
    if name == 'keydoor':
        if rng.random() < shipped_bias:
            h = rng.choice([5, 7, 9])
            return dict(h=h, w=h)
        return dict(h=rng.randint(4, 9), w=rng.randint(5, 10))
    if name == 'memory':
        if rng.random() < shipped_bias:
            h = rng.choice([5, 9])
            return dict(h=h, w=h, colors=COLS)
        return dict(h=rng.randint(5, 11), w=rng.choice([5, 7, 9, 11]), colors=rng.sample(COLS, rng.randint(2, 4)))
    if name == 'crossing':
        if rng.random() < shipped_bias:
            h = rng.choice([5, 7])
            return dict(h=h, w=h, n=1 if h == 5 else rng.choice([1, 2]), object_type='Wall')
        return dict(h=rng.choice([5, 7, 9, 11]), w=rng.choice([5, 7, 9, 11]), n=rng.randint(1, 5), object_type='Wall')
    if name == 'rooms':
        if rng.random() < shipped_bias:
            h, l = rng.choice([(7, 2), (9, 2), (10, 3), (13, 3)])
            return dict(h=h, w=h, lh=l, lw=l)
        if rng.random() < 0.4:
            # rooms of unequal size (the side does not divide evenly): the narrowest rooms are one cell wide
            (h, lh), (w, lw) = rng.choice([(8, 2), (9, 3), (10, 2), (11, 3), (12, 2), (15, 3), (8, 3), (14, 4)]), rng.choice([(8, 2), (9, 3), (10, 2), (11, 3), (12, 2), (15, 3), (7, 2), (13, 3)])
            return dict(h=h, w=w, lh=lh, lw=lw)
        return dict(h=rng.choice([7, 9, 10, 11, 13]), w=rng.choice([7, 9, 10, 11, 13]), lh=rng.randint(1, 3), lw=rng.randint(1, 3))
    if name == 'memory_rooms':
        if rng.random() < shipped_bias:
            h, l = rng.choice([(7, 2), (9, 2), (10, 3), (13, 3)])
            return dict(h=h, w=h, lh=l, lw=l, colors=COLS, nb=1, ne=2)
        cs = rng.sample(COLS, rng.randint(2, 4))
        if rng.random() < 0.3:
            # crowded: agent, beacons and exits take every floor cell, or all but one (the sampling without
            # replacement has no slack; whatever is accepted must still be winnable)
            h, w, lh, lw, floor = rng.choice([(4, 4, 1, 1, 4), (4, 5, 1, 1, 6), (5, 4, 1, 1, 6), (5, 5, 1, 1, 9), (4, 7, 1, 2, 9), (7, 4, 2, 1, 9)])
            ne = rng.randint(2, min(len(cs), floor - 2))
            nb = max(1, floor - 1 - ne - rng.choice([0, 0, 1]))
            return dict(h=h, w=w, lh=lh, lw=lw, colors=cs, nb=nb, ne=ne)
        return dict(h=rng.choice([7, 9, 10, 13]), w=rng.choice([7, 9, 10, 13]), lh=rng.randint(1, 3), lw=rng.randint(1, 3), colors=cs, nb=rng.randint(1, 2), ne=rng.randint(2, len(cs)))
    if name == 'dynamic_obstacles':
        if rng.random() < 0.12:
            # crowded rooms (small enough for an exhaustive exists-actions/exists-draws search)
            h, w = rng.choice([(4, 4), (4, 5), (5, 4), (5, 5)])
            return dict(h=h, w=w, n=rng.randint(2, (h - 2) * (w - 2) - 2), random_agent=False)
        if rng.random() < 0.6:
            h, n = rng.choice([(5, 1), (7, 2)])
            return dict(h=h, w=h, n=n, random_agent=False)
        return dict(h=rng.randint(4, 6), w=rng.randint(4, 6), n=rng.randint(0, 2), random_agent=rng.random() < 0.5)
    raise KeyError(name)


def near_valid_params(rng, name):
    """parameters at and just beyond the border of what the reset function accepts (sizes one off,
    other parities, counts one more): most are rejected; whatever is accepted is a valid parameter set
    and the property speaks about it"""
    p = dict(valid_params(rng, name, shipped_bias=0.1))
    for k in ('h', 'w'):
        r = rng.random()
        if r < 0.4:
            p[k] = p[k] + rng.choice((-1, 1))
        elif r < 0.5:
            p[k] = rng.randint(3, 12)
    for k in ('n', 'lh', 'lw', 'nb', 'ne'):
        if k in p and rng.random() < 0.3:
            p[k] = max(0, p[k] + rng.choice((-1, 1, 2)))
    return p


def reset_state(name, params, seed):
    from harness.oracles import reset_call

    return reset_call({'name': name, 'params': params, 'seed': seed})


def _driver(lines):
    from harness import lean

    return lean.driver(lines, workers=1)


def _plans_family(seed, shard, nshards, n, names, mode_of, tagp):
    """reset on the real code -> the model proposes a plan and judges it -> the plan is executed on
    the real dynamics; both verdicts are compared (and a proposed plan must be a winning one)"""
    rng = random.Random(f'{tagp}-{seed}-{shard}')
    cases = []
    for k in range(n // nshards):
        name = names[k % len(names)]
        params = valid_params(rng, name)
        try:
            s = reset_state(name, params, rng.randrange(2**31))
        except Exception:
            continue
        cases.append((name, s, enc_state(s)))
    lines = [win_line(mode_of(name), name, enc) for name, s, enc in cases]
    outs = _driver(lines) if lines else []
    for (name, s, enc), line, out in zip(cases, lines, outs):
        if out.startswith('PLAN'):
            body, verdict = out[5:].rsplit(' | ', 1) if ' | ' in out else (out[5:], '?')
            acts = [ACTIONS[int(t)] for t in body.split()]
            res, won = real_run_plan(name, s, acts, [])
            # (1) the model's plan, judged by the model, must be judged a win
            yield line, 'PLAN ' + body + ' | T', f'{tagp}-proposed-{name}'
            # (2) the same plan executed by the implementation gives the same run
            yield win_line('check', name, enc, acts, []), res + ' | ' + ('T' if won else 'F'), f'{tagp}-executed-{name}'
        else:
            # the model found no plan: the implementation must have none either
            plan = real_solvable(name, s)
            yield line, 'NOPLAN' if plan is None else 'PLAN-EXISTS ' + ' '.join(str(a.value) for a in plan), f'{tagp}-noplan-{name}'


def fam_win_theorem_plans(seed, shard, nshards, n):
    """the closed-form plans that the theorems prove winning (empty, memory, keydoor, teleport), run on the real code"""
    return _plans_family(seed, shard, nshards, n, ['empty', 'memory', 'keydoor', 'teleport'], lambda nm: THEOREM_PLAN[nm], 'win-thm')


def fam_win_solver(seed, shard, nshards, n):
    """certificates from the model's breadth-first solver for every layout with a static grid"""
    return _plans_family(seed, shard, nshards, n, ['rooms', 'crossing', 'teleport', 'memory_rooms', 'empty', 'memory'], lambda nm: 'solve', 'win-bfs')


def fam_win_real_plans(seed, shard, nshards, n):
    """the other direction: plans found by searching the REAL dynamics (deterministic layouts:
    breadth-first; `dynamic_obstacles`: greedy with recorded draws) are judged by the model"""
    rng = random.Random(f'win-real-{seed}-{shard}')
    names = ['rooms', 'crossing', 'teleport', 'memory_rooms', 'dynamic_obstacles', 'dynamic_obstacles']
    for k in range(n // nshards):
        name = names[k % len(names)]
        params = valid_params(rng, name)
        try:
            s = reset_state(name, params, rng.randrange(2**31))
        except Exception:
            continue
        enc = enc_state(s)
        if name != 'dynamic_obstacles':
            plan = real_solvable(name, s)
            if plan is None:
                yield win_line('solve', name, enc), 'NOPLAN', f'win-real-noplan-{name}'
                continue
            answers = []
        else:
            found = search_with_draws(name, s, rng)
            if found is None:
                continue
            plan, answers = found
        res, won = real_run_plan(name, s, plan, answers)
        yield win_line('check', name, enc, plan, answers), res + ' | ' + ('T' if won else 'F'), f'win-real-{name}'


def search_with_draws(name, s, rng, tries=60, horizon=60):
    """randomised greedy search over the real stochastic dynamics with a scripted generator: returns
    (plan, answers) of a run that reaches the goal, or None"""
    chain, term, goal_fn = real_setup(name)
    from gym_gridverse.grid_object import Exit

    ex = next(p for p in s.grid.area.positions() if isinstance(s.grid[p], Exit))
    for _ in range(tries):
        cur, plan, answers = s, [], []
        for _step in range(horizon):
            best = None
            order = MOVES[:]
            rng.shuffle(order)
            for a in order:
                ans = [rng.randrange(4) for _ in range(16)]
                r = ScriptRng(list(ans))
                s2 = trf.transition_with_copy(chain, cur, a, rng=r)
                used = ans[: len(ans) - len(r.answers)]
                if goal_fn(cur, a, s2):
                    best = (a, s2, used, True, 0)
                    break
                if term(cur, a, s2):
                    continue
                dist = abs(s2.agent.position.y - ex.y) + abs(s2.agent.position.x - ex.x)
                if best is None or dist < best[4] or (dist == best[4] and rng.random() < 0.3):
                    best = (a, s2, used, False, dist)
            if best is None:
                break
            plan.append(best[0])
            answers.extend(best[2])
            cur = best[1]
            if best[3]:
                return plan, answers
    return None
