"""Correspondence families for the observation pipeline (slice -> rotate -> mask) and the
visibility functions."""
import itertools as itt
import random

import numpy as np

from harness import gvenv  # noqa: F401
from harness import gen
from harness.codec import enc_area, enc_exc, enc_grid, enc_pos, enc_rays, enc_state
from harness.recrng import RecRng
from gym_gridverse.envs import observation_functions as of
from gym_gridverse.envs import visibility_functions as vf
from gym_gridverse.geometry import Area, Position
from gym_gridverse.grid import Grid
from gym_gridverse.utils.raytracing import cached_compute_rays_fancy

TWO53 = 9007199254740992


def rand_area(rng, lim=3, force_bottom=False, contains_origin=False):
    ys = sorted((rng.randint(-lim, lim), rng.randint(-lim, lim)))
    xs = sorted((rng.randint(-lim, lim), rng.randint(-lim, lim)))
    if force_bottom:
        ys = [ys[0] - ys[1], 0]
    if contains_origin:
        ys = [min(ys[0], 0), max(ys[1], 0)]
        xs = [min(xs[0], 0), max(xs[1], 0)]
    return Area((ys[0], ys[1]), (xs[0], xs[1]))


def rays_for(area):
    """the fan the code uses for a view of this area ('' when the origin is outside: ValueError)"""
    pov = Position(-area.ymin, -area.xmin)
    garea = Area((0, area.height - 1), (0, area.width - 1))
    if not garea.contains(pov):
        return None
    return cached_compute_rays_fancy(pov, garea)


def counts(grid, rays):
    h, w = grid.shape.height, grid.shape.width
    num = np.zeros((h, w), dtype=int)
    den = np.zeros((h, w), dtype=int)
    for ray in rays:
        light = True
        for pos in ray:
            num[pos.y, pos.x] += int(light)
            den[pos.y, pos.x] += 1
            light = light and not grid[pos].blocks_vision
    return num, den


def obs_line(which, state, area, rng_seed):
    """(line, expected) for one observation function on one state"""
    rec = RecRng(rng_seed)
    try:
        o = of.observation_function_registry[which](state, area=area, rng=rec)
        exp = enc_state(o)
    except Exception as e:
        exp = enc_exc(e)
    short = {'fully_transparent': 'ft', 'partially_occluded': 'po', 'raytracing': 'rt', 'stochastic_raytracing': 'srt'}[which]
    line = f'obs {short} {enc_state(state)} {enc_area(area)}'
    if short in ('rt', 'srt'):
        rays = rays_for(area)
        line += ' ' + (enc_rays(rays) if rays is not None else '0')
        if short == 'srt':
            n = area.height * area.width
            if rays is None:
                return None
            pov_area = state.agent.transform * area
            view = state.grid.subgrid(pov_area) * state.agent.orientation
            num, den = counts(view, rays)
            with np.errstate(all='ignore'):
                probs = np.nan_to_num(num / den)
            ps = []
            for v in probs.reshape(-1):
                a, b = float(v).as_integer_ratio()
                ps.append(f'{a} {b}')
            us = rec.answers if rec.answers else [0] * n
            if len(us) != n:
                return None
            line += ' ' + ' '.join(ps) + ' ' + ' '.join(map(str, us))
    return line, exp


WHICH = ['fully_transparent', 'partially_occluded', 'raytracing', 'stochastic_raytracing']


def fam_obs_random(seed, shard, nshards, n):
    rng = random.Random(f'obs-{seed}-{shard}')
    for k in range(n // nshards):
        s = gen.random_state(rng, max_h=5, max_w=5, p_floor=0.55)
        if k % 7 == 0:
            s.agent.position = Position(rng.randint(-1, 5), rng.randint(-1, 5))  # agent may be outside
        which = WHICH[k % 4]
        area = rand_area(rng, lim=3, force_bottom=(which == 'partially_occluded' and rng.random() < 0.85), contains_origin=(which in ('raytracing', 'stochastic_raytracing') and rng.random() < 0.9))
        r = obs_line(which, s, area, rng.randrange(2**32))
        if r is None:
            continue
        line, exp = r
        yield line, exp, f'obs-{which}' + ('-err' if exp.startswith('ERR') else '')


BIG_VIEWS = [(15, 15), (7, 31), (31, 7), (3, 63), (1, 127), (15, 31), (7, 7), (9, 9), (11, 11), (13, 13)]


def fam_obs_bigviews(seed, shard, nshards, n):
    """large views, in particular those whose ray count (h+1)(w+1) is a multiple of 256: counters
    kept in a narrow integer type would wrap there"""
    rng = random.Random(f'obsbig-{seed}')
    k = 0
    for rep in range(max(1, n // (2 * len(BIG_VIEWS)))):
        for (h, w) in BIG_VIEWS:
            for which in ('raytracing', 'stochastic_raytracing'):
                k += 1
                if k % nshards != shard:
                    continue
                ymin = -rng.randint(0, h - 1)
                xmin = -rng.randint(0, w - 1)
                area = Area((ymin, ymin + h - 1), (xmin, xmin + w - 1))
                s = gen.random_state(rng, max_h=6, max_w=6, min_h=3, min_w=3, p_floor=0.7)
                r = obs_line(which, s, area, rng.randrange(2**32))
                if r is None:
                    continue
                yield r[0], r[1], f'obsbig-{which}-{h}x{w}' + ('-err' if r[1].startswith('ERR') else '')


def fam_obs_smallscope(seed, shard, nshards, n):
    """all poses on labelled grids <= 3x3 x all areas with -2 <= ymin <= ymax <= 2 (same for x),
    sharded; fully transparent + partially occluded (the shipped function) + raytracing"""
    rng = random.Random(f'obss-{seed}')
    areas = [Area((a, b), (c, d)) for a in range(-2, 3) for b in range(a, 3) for c in range(-2, 3) for d in range(c, 3)]
    k = 0
    for (h, w) in [(1, 1), (1, 2), (2, 1), (2, 3), (3, 2), (3, 3)]:
        # a fixed asymmetric labelling with one opaque cell
        labels = ['K1', 'W', 'E2', 'O', 'D11', 'T3', 'B4', 'K2', 'XF']
        cells = {(i, j): labels[(i * w + j) % len(labels)] for i in range(h) for j in range(w)}
        for y in range(h):
            for x in range(w):
                for o in gen.ORIENTS:
                    s = gen.mk_state(h, w, cells, y, x, o, 'K4')
                    for area in areas:
                        k += 1
                        if k % nshards != shard:
                            continue
                        if n and (k // nshards) % max(1, (len(areas) * 200) // max(n, 1)) != 0:
                            continue
                        for which in ('fully_transparent', 'partially_occluded', 'raytracing'):
                            if which == 'partially_occluded' and area.ymax != 0 and k % 9:
                                continue
                            r = obs_line(which, s, area, k)
                            if r is None:
                                continue
                            yield r[0], r[1], f'obss-{which}' + ('-err' if r[1].startswith('ERR') else '')


def _mask_str(m):
    return ''.join('1' if v else '0' for v in np.asarray(m).reshape(-1))


def fam_vis_patterns(seed, shard, nshards, n):
    """visibility functions on all opacity patterns of small views (agent on the bottom row for the
    flood fill, anywhere for ray tracing)"""
    k = 0
    for (h, w) in [(1, 1), (1, 3), (2, 2), (2, 3), (3, 3), (3, 4), (4, 3)]:
        cells_n = h * w
        pats = range(2**cells_n) if cells_n <= 9 else None
        rng = random.Random(f'vis-{seed}-{h}-{w}')
        if pats is None:
            pats = [rng.getrandbits(cells_n) for _ in range(600)]
        for pat in pats:
            k += 1
            if k % nshards != shard:
                continue
            rows = [[('W' if (pat >> (i * w + j)) & 1 else 'F') for j in range(w)] for i in range(h)]
            g = Grid([[gen.dec_obj(t) for t in row] for row in rows])
            for x in range(w):
                p = Position(h - 1, x)
                m = vf.partially_occluded(g, p)
                yield f'vis po {enc_grid(g)} {enc_pos(p)}', _mask_str(m), 'vis-po'
            py, px = (pat * 7 + k) % h, (pat * 3 + k) % w
            p = Position(py, px)
            rays = cached_compute_rays_fancy(p, g.area)
            m = vf.raytracing(g, p)
            yield f'vis rt {enc_grid(g)} {enc_pos(p)} {enc_rays(rays)}', _mask_str(m), 'vis-rt'
            num, den = counts(g, rays)
            exp = ' '.join(f'{a}/{b}' for a, b in zip(num.reshape(-1), den.reshape(-1)))
            yield f'vis cnt {enc_grid(g)} {enc_pos(p)} {enc_rays(rays)}', exp, 'vis-cnt'
            if py != h - 1 and k % 5 == 0:
                try:
                    vf.partially_occluded(g, p)
                    exp = 'no-error'
                except Exception as e:
                    exp = enc_exc(e)
                yield f'vis po {enc_grid(g)} {enc_pos(p)}', exp, 'vis-po-err'
