"""Identity-level correspondence (Layer H, property C03): the real in-place transition functions,
`transition_with_copy`, `from_visibility` and `fast_copy` against the reference-level model.  For
every call: which pre-existing nodes (outer list, row lists, GridObject instances, Agent, Transform)
had their contents changed, and from which pre-existing node -- or from a new allocation -- every
container, cell object (with its box-content chain) and the held object of the result comes."""
import random

import numpy as np

from harness import gvenv  # noqa: F401
from harness import gen
from harness.codec import ACTIONS, enc_action, enc_area, enc_exc, enc_obj, enc_state
from harness.corr_core import TRANS_NAMES, _sprinkle, _trans_fns
from harness.recrng import RecRng
from gym_gridverse.envs import observation_functions as of
from gym_gridverse.envs import transition_functions as trf
from gym_gridverse.geometry import Area
from gym_gridverse.grid_object import Box, GridObject
from gym_gridverse.utils.fast_copy import fast_copy

BOX_FUEL = 8


def shallow(o):
    return 'X' if type(o) is Box else enc_obj(o)


def obj_chain(o, name, fuel=BOX_FUEL):
    out = [(o, name, 'obj')]
    while fuel > 0 and isinstance(getattr(o, 'content', None), GridObject):
        o = o.content
        name += '.1'
        fuel -= 1
        out.append((o, name, 'obj'))
    return out


def name_nodes(state):
    """[(node, name, kind)] in the model's order: o, r<i>, c<i>,<j>(.1)*, a, t, h(.1)*; plus the
    State and Grid wrapper objects (S, G) which the model has no node for"""
    rows = state.grid.objects
    nodes = [(rows, 'o', 'outer')]
    nodes += [(r, f'r{i}', 'row') for i, r in enumerate(rows)]
    for i, r in enumerate(rows):
        for j, c in enumerate(r):
            nodes += obj_chain(c, f'c{i},{j}')
    nodes += [(state.agent, 'a', 'agent'), (state.agent.transform, 't', 'tf')]
    nodes += obj_chain(state.agent.grid_object, 'h')
    nodes += [(state, 'S', 'wrap'), (state.grid, 'G', 'wrap')]
    return nodes


def content_of(node, kind):
    """what the node holds, with references to other mutable nodes as identities"""

    def ref(v):
        if isinstance(v, (GridObject, list)) or hasattr(v, '__dict__') and not isinstance(v, type) and not _is_value(v):
            return ('@', id(v))
        return ('=', repr(v))

    if kind in ('outer', 'row'):
        return tuple(id(x) for x in node)
    d = dict(vars(node))
    return (type(node).__name__,) + tuple((k, ref(v)) for k, v in sorted(d.items()))


def _is_value(v):
    from gym_gridverse.geometry import Position, Shape

    import enum

    return isinstance(v, (Position, Shape, Area, enum.Enum, int, float, str, tuple, frozenset))


def snapshot(nodes):
    return [content_of(n, k) for n, _, k in nodes]


def report(nodes, before, res_grid_rows, res_agent, res_state_enc):
    after = snapshot(nodes)
    changed = [nm for (n, nm, k), b, a in zip(nodes, before, after) if a != b]
    names = {id(n): nm for n, nm, _ in nodes}

    def nm(x):
        return names.get(id(x), 'n')

    def descr(o, fuel=BOX_FUEL):
        s = f'{nm(o)}:{shallow(o)}'
        if type(o) is Box and fuel > 0:
            s += '>' + descr(o.content, fuel - 1)
        return s

    containers = [nm(res_grid_rows)] + [nm(r) for r in res_grid_rows] + [nm(res_agent), nm(res_agent.transform)]
    cells = [descr(c) for r in res_grid_rows for c in r]
    return ' | '.join(
        [' '.join(changed) if changed else '-', ' '.join(containers), ' '.join(cells), descr(res_agent.grid_object), res_state_enc]
    )


def chain_line(which, atoms, state_enc, action, answers):
    return (
        f'heap {which} {len(atoms)} {" ".join(map(str, atoms))} {state_enc} {enc_action(action)} '
        f'{len(answers)} {" ".join(map(str, answers))}'
    ).rstrip()


def real_chain(which, atoms, state, action, seed):
    """runs the real functions; returns (answers, expected output)"""
    rng = RecRng(seed)
    nodes = name_nodes(state)
    before = snapshot(nodes)
    try:
        if which == 'inplace':
            for i in atoms:
                _trans_fns()[i](state, action, rng=rng)
            res = state
        else:
            chain = trf.factory('chain', transition_functions=[trf.factory(TRANS_NAMES[i]) for i in atoms])
            res = trf.transition_with_copy(chain, state, action, rng=rng)
        out = report(nodes, before, res.grid.objects, res.agent, enc_state(res)) + ' | ref=T | ' + rng.log_str()
    except Exception as e:
        out = enc_exc(e)
    return rng.answers, out


def _random_state(rng, k):
    s = gen.valid_random_state(rng, max_h=5, max_w=5, p_floor=0.55)
    mode = k % 4
    if mode == 1:
        _sprinkle(rng, s, 'O', rng.randint(1, 3))
    if mode == 2:
        c = rng.randint(0, 4)
        _sprinkle(rng, s, f'T{c}', rng.randint(1, 3))
        if rng.random() < 0.7:
            from harness.codec import dec_obj

            s.grid[s.agent.position] = dec_obj(f'T{c}')
    return s


def fam_heap_inplace(seed, shard, nshards, n):
    """the seven transition functions run in place: the model's heap updates against the real
    assignments, node by node"""
    rng = random.Random(f'heap-inplace-{seed}-{shard}')
    for k in range(n // nshards):
        s = _random_state(rng, k)
        a = rng.choice(ACTIONS)
        atoms = [rng.randrange(7) for _ in range(rng.choice([1, 1, 1, 2, 3, 7]))]
        enc = enc_state(s)
        ans, out = real_chain('inplace', atoms, s, a, rng.randrange(2**32))
        yield chain_line('inplace', atoms, enc, a, ans), out, 'heap-inplace-' + ('err' if out.startswith('ERR') else TRANS_NAMES[atoms[0]])


def fam_heap_smallscope(seed, shard, nshards, n):
    """every primitive transition in place on the exhaustive small scope"""
    k = 0
    for s, a in gen.smallscope_steps():
        k += 1
        if k % nshards != shard:
            continue
        if not (0 <= s.agent.position.y < s.grid.shape.height and 0 <= s.agent.position.x < s.grid.shape.width):
            continue
        for atom in (0, 1, 2, 4, 5, 6):
            s2 = fast_copy(s)
            enc = enc_state(s2)
            ans, out = real_chain('inplace', [atom], s2, a, k)
            yield chain_line('inplace', [atom], enc, a, ans), out, f'heap-small-{TRANS_NAMES[atom]}'


def fam_heap_step(seed, shard, nshards, n):
    """`transition_with_copy` over chains: nothing pre-existing changes, nothing is shared"""
    rng = random.Random(f'heap-step-{seed}-{shard}')
    for k in range(n // nshards):
        s = _random_state(rng, k)
        a = rng.choice(ACTIONS)
        atoms = [rng.randrange(7) for _ in range(rng.choice([1, 2, 3, 5, 7]))]
        enc = enc_state(s)
        ans, out = real_chain('step', atoms, s, a, rng.randrange(2**32))
        yield chain_line('step', atoms, enc, a, ans), out, 'heap-step-' + ('err' if out.startswith('ERR') else 'ok')


def fam_heap_obs(seed, shard, nshards, n):
    """`from_visibility` with a scripted visibility mask: fresh containers, the state's own cell
    objects where visible, new Hidden() elsewhere, the state's held object"""
    rng = random.Random(f'heap-obs-{seed}-{shard}')
    for k in range(n // nshards):
        s = _random_state(rng, k)
        y0, x0 = -rng.randint(0, 4), -rng.randint(0, 3)
        y1, x1 = rng.randint(0, 2), rng.randint(0, 3)
        area = Area((y0, y1), (x0, x1))
        h, w = area.height, area.width
        p = rng.choice([0.0, 0.3, 0.7, 1.0])
        bits = [[rng.random() >= p for _ in range(w)] for _ in range(h)]
        mask = np.array(bits, dtype=bool)
        enc = enc_state(s)
        nodes = name_nodes(s)
        before = snapshot(nodes)
        try:
            o = of.from_visibility(s, area=area, visibility_function=lambda g, pos, rng=None: mask)
            out = report(nodes, before, o.grid.objects, o.agent, enc_state(o))
        except Exception as e:
            out = enc_exc(e)
        line = f'heap obs {enc} {enc_area(area)} ' + ''.join('1' if b else '0' for r in bits for b in r)
        yield line, out, 'heap-obs'


def fam_heap_copy(seed, shard, nshards, n):
    rng = random.Random(f'heap-copy-{seed}-{shard}')
    for k in range(n // nshards):
        s = _random_state(rng, k)
        enc = enc_state(s)
        nodes = name_nodes(s)
        before = snapshot(nodes)
        c = fast_copy(s)
        out = report(nodes, before, c.grid.objects, c.agent, enc_state(c))
        yield f'heap copy {enc}', out, 'heap-copy'
