"""Rays: every ray of every fan the implementation computes is validated by the Lean checkers, its
raw float sample sequence by `sampleOK`, and the model's `unique_everseen . takewhile` of the samples
must equal the implementation's ray."""
import itertools as itt
import random

from harness import gvenv  # noqa: F401
from harness.codec import enc_area, enc_pos, enc_rays
from gym_gridverse.geometry import Area, Position
from gym_gridverse.utils import raytracing


def fan_with_samples(pos, area):
    """(rays, raw in-area sample prefixes) of compute_rays_fancy, by intercepting compute_ray"""
    orig = raytracing.compute_ray
    raw = []

    def spy(position, area_, *, radians, step_size, unique=True):
        raw.append(orig(position, area_, radians=radians, step_size=step_size, unique=False))
        return orig(position, area_, radians=radians, step_size=step_size, unique=unique)

    raytracing.compute_ray = spy
    try:
        rays = raytracing.compute_rays_fancy(pos, area)
    finally:
        raytracing.compute_ray = orig
    return rays, raw


def areas(max_h, max_w, shifted):
    for h in range(1, max_h + 1):
        for w in range(1, max_w + 1):
            yield Area((0, h - 1), (0, w - 1))
            if shifted:
                yield Area((-h + 1, 0), (-(w // 2), w - 1 - (w // 2)))


def fam_rays(seed, shard, nshards, n):
    """n encodes the maximal side length (areas up to n x n, every origin)"""
    k = 0
    side = n or 5
    rng = random.Random(f'rays-{seed}')
    for area in areas(side, side, shifted=True):
        for pos in area.positions():
            k += 1
            if k % nshards != shard:
                continue
            rays, raw = fan_with_samples(pos, area)
            cached = raytracing.cached_compute_rays_fancy(pos, area)
            same = [[p.yx for p in r] for r in rays] == [[p.yx for p in r] for r in cached]
            exp_n = (area.height + 1) * (area.width + 1)
            ok_count = len(rays) == exp_n
            yield (f'raycheck {enc_area(area)} {enc_pos(pos)} {enc_rays(rays)}', 'T T' if (same and ok_count) else 'CACHE-OR-COUNT-MISMATCH', 'raycheck')
            # every ray against its raw samples (subsampled per fan in large areas)
            idx = range(len(rays)) if len(rays) <= 40 else rng.sample(range(len(rays)), 40)
            for i in idx:
                smp = raw[i]
                line = f'raysamples {enc_area(area)} {len(smp)} ' + ' '.join(enc_pos(p) for p in smp)
                yield line, ' '.join(enc_pos(p) for p in rays[i]) + ' | T', 'raysamples'
