"""Property oracles: literal executable transcriptions of the properties on the REAL code.

They never let a check pass; they turn a broken proof obligation / correspondence (or their own
small budget) into a concrete failing input.  Each oracle offers
    gen(rng)        -> iterator of cases (dict with 'kind')
    check(case)     -> list of violations, each {'signature', 'what'}
    from_line(line) -> case | None   (to judge an input on which model and code disagreed)
"""
import math
import random

from harness import gvenv  # noqa: F401
from harness import gen
from harness.codec import (
    ACTIONS,
    ORIENT_TOK,
    TOK_ORIENT,
    dec_state,
    enc_action,
    enc_state,
    state_from_str,
)
from gym_gridverse.action import Action
from gym_gridverse.envs.utils import get_next_position
from gym_gridverse.geometry import Area, Orientation, Position, Transform
from gym_gridverse.utils.fast_copy import fast_copy

O = Orientation
ORIENTS = [O.F, O.B, O.L, O.R]


# what a move action means (the property's own words: forward/left/right/backward relative to the
# heading) - a literal, not the library's private table, so the oracles keep working when that table
# is rewritten
mv = {
    Action.MOVE_FORWARD: O.F,
    Action.MOVE_LEFT: O.L,
    Action.MOVE_RIGHT: O.R,
    Action.MOVE_BACKWARD: O.B,
}


class Oracle:
    prop = None

    def gen(self, rng):
        return iter(())

    def check(self, case):
        return []

    def from_line(self, line):
        return None

    def nontrivial(self, case):
        return True


def V(signature, what):
    return {'signature': signature, 'what': what}


# ---------------------------------------------------------------------------------------------
class C18(Oracle):
    prop = 'C18'

    def gen(self, rng):
        while True:
            big = rng.random() < 0.5
            m = 10**6 if big else 5
            if rng.random() < 0.15:
                m = 2**62  # the laws are laws over the integers: far beyond what a double holds exactly
            ri = lambda: rng.randint(-m, m)  # noqa: E731
            ys, xs = sorted((ri(), ri())), sorted((ri(), ri()))
            yield {
                'kind': 'geom',
                'o': [ORIENT_TOK[rng.choice(ORIENTS)] for _ in range(3)],
                'p': [ri(), ri()],
                'q': [ri(), ri()],
                'r': [ri(), ri()],
                'area': [ys[0], ys[1], xs[0], xs[1]],
                'action': rng.randrange(8),
                'grid': enc_state(gen.random_state(rng, max_h=4, max_w=4, p_floor=0.3, p_wall_border=0.0)),
            }

    def check(self, c):
        out = []
        a, b, cc = (TOK_ORIENT[t] for t in c['o'])
        p, q, r = Position(*c['p']), Position(*c['q']), Position(*c['r'])
        ar = Area((c['area'][0], c['area'][1]), (c['area'][2], c['area'][3]))
        F = O.F
        if (a * b) * cc != a * (b * cc):
            out.append(V('orientation/assoc', f'({a}*{b})*{cc}'))
        if F * a != a or a * F != a:
            out.append(V('orientation/identity', f'{a}'))
        if a * -a != F or -a * a != F:
            out.append(V('orientation/inverse', f'{a}'))
        if a * a * a * a != F:
            out.append(V('orientation/order4', f'{a}'))
        if (a * b) * p != a * (b * p):
            out.append(V('orientation/action-homomorphism', f'{a},{b},{p}'))
        if a * (p + q) != a * p + a * q:
            out.append(V('orientation/action-additive', f'{a},{p},{q}'))
        if Position.manhattan_distance(a * p, a * q) != Position.manhattan_distance(p, q):
            out.append(V('orientation/isometry-manhattan', f'{a},{p},{q}'))
        d1, d2 = (a * p) - (a * q), p - q
        if d1.y**2 + d1.x**2 != d2.y**2 + d2.x**2:
            out.append(V('orientation/isometry-euclid', f'{a},{p},{q}'))
        t, u, v = Transform(p, a), Transform(q, b), Transform(r, cc)
        ident = Transform(Position(0, 0), F)
        if (t * u) * v != t * (u * v):
            out.append(V('transform/assoc', f'{t},{u},{v}'))
        if ident * t != t or t * ident != t:
            out.append(V('transform/identity', f'{t}'))
        if t * -t != ident or -t * t != ident:
            out.append(V('transform/inverse', f'{t}'))
        if (t * u) * r != t * (u * r):
            out.append(V('transform/action', f'{t},{u},{r}'))
        # what a helper hands out stays what it is, whatever the caller does with its own variable
        for o_ in ORIENTS:
            unit = Position.from_orientation(o_)
            snap = unit.yx
            d_ = Position.from_orientation(o_)
            d_ += q
            d_ -= p
            e_ = get_next_position(p, o_, ACTIONS[0])
            e_ += r
            if Position.from_orientation(o_).yx != snap or unit.yx != snap:
                out.append(V('position/augmented-assignment-changes-a-shared-constant', f'{o_}: from_orientation now gives {Position.from_orientation(o_)}'))
                break
        pa = Position(p.y, p.x)
        pb = pa
        pb += q
        if pa != p or pb != p + q:
            out.append(V('position/augmented-assignment-aliases', f'{p} += {q}'))
        # a composed pose is the caller's own: moving it in place (as Agent moves its pose) does not change
        # what the same composition gives the next time
        x_ = Transform(p, a) * Transform(q, b)
        exp_ = (x_.position.yx, x_.orientation)
        x_.position = x_.position + Position(3, -2)
        x_.orientation = x_.orientation * O.L
        y_ = Transform(p, a) * Transform(q, b)
        if (y_.position.yx, y_.orientation) != exp_ or y_ is x_:
            out.append(V('transform/composition-returns-a-pose-moved-by-an-earlier-caller', f'{t} * {u}: {y_} after an earlier result was moved in place'))
        # an inverse is a value: the inverse of an inverse taken earlier is the pose as it was then, not the
        # pose object as it has become since
        pose_ = Transform(p, a)
        inv_ = -pose_
        pose_.position = q
        pose_.orientation = b
        back_ = -inv_
        if back_ != Transform(p, a) or back_ is pose_ or inv_ * Transform(p, a) != ident:
            out.append(V('transform/inverse-follows-a-pose-changed-later', f'-(-{Transform(p, a)}) = {back_} after the pose was moved to {pose_}'))
        # `pose *= motion` is `pose = pose * motion`: the object the name stood for (a shared identity, an
        # agent's pose under another name) is left as it was
        ident2 = Transform(Position(0, 0), F)
        acc = ident2
        acc *= t
        acc *= u
        alias = t
        keep_t = (t.position.yx, t.orientation)
        alias *= u
        if ident2 != Transform(Position(0, 0), F) or (t.position.yx, t.orientation) != keep_t or acc != t * u or alias != t * u:
            out.append(V('transform/augmented-assignment-changes-the-left-operand-in-place', f'{t} *= {u}: identity now {ident2}, left operand now {t}'))
            return out
        # a pose is a mutable object (Agent moves and turns by assigning to it): the laws must hold for
        # its current value at every point of its life, whatever was computed from it before
        tm = Transform(p, a)
        before = (-tm, tm * u, tm * r, tm * ar, hash(tm))
        tm.position = q
        tm.orientation = b
        if tm != u or hash(tm) != hash(u):
            out.append(V('transform/value-after-mutation', f'{t}->{u}'))
        if tm * -tm != ident or -tm * tm != ident or -tm != -u:
            out.append(V('transform/inverse-after-mutation', f'{t}->{u}'))
        if tm * v != u * v or tm * r != u * r or tm * ar != u * ar:
            out.append(V('transform/action-after-mutation', f'{t}->{u}'))
        if before != (-t, t * u, t * r, t * ar, hash(t)):
            out.append(V('transform/result-aliases-mutable-pose', f'{t}->{u}'))
        if (t * ar).contains(t * q) != ar.contains(q):
            out.append(V('area/contains', f'{t},{ar},{q}'))
        if ar.height * ar.width <= 64:
            img = sorted((t * pp).yx for pp in ar.positions())
            if img != sorted(pp.yx for pp in (t * ar).positions()):
                out.append(V('area/image', f'{t},{ar}'))
        act = ACTIONS[c['action']]
        np_ = get_next_position(p, a, act)

        exp = t * Position.from_orientation(mv[act]) if act in mv else p
        if np_ != exp:
            out.append(V('nextpos/pose-algebra', f'{p},{a},{act}'))
        s = state_from_str(c['grid'])
        g = s.grid
        layout = [[id(x) for x in row] for row in g.objects]
        gr = g * a
        if [[id(x) for x in row] for row in g.objects] != layout:
            out.append(V('gridrot/mutates-source-grid', f'{a} {c["grid"]}'))
        gr_again = g * a
        if gr_again.shape != gr.shape or any(gr_again[pp] is not gr[pp] for pp in gr.area.positions()):
            out.append(V('gridrot/second-rotation-of-same-grid-differs', f'{a} {c["grid"]}'))
        # the other spelling of the same product (`orientation * grid`, the one the docstring writes): the
        # same rotated Grid, object for object
        from gym_gridverse.grid import Grid

        try:
            gl = a * g
            if not isinstance(gl, Grid) or gl.shape != gr.shape or any(gl[pp] is not gr[pp] for pp in gr.area.positions()):
                out.append(V('gridrot/orientation-times-grid-differs-from-grid-times-orientation', f'{a} {c["grid"]}: {type(gl).__name__}'))
            else:
                bl = (-a) * gl
                if not isinstance(bl, Grid) or bl.shape != g.shape or any(bl[pp] is not g[pp] for pp in g.area.positions()):
                    out.append(V('gridrot/inverse', f'{a} {c["grid"]} (orientation on the left)'))
        except Exception as e:
            out.append(V('gridrot/orientation-times-grid-raises', f'{a} {c["grid"]}: {type(e).__name__}: {e}'))
        back = gr * (-a)
        if back.shape != g.shape or any(back[pp] is not g[pp] for pp in g.area.positions()):
            out.append(V('gridrot/inverse', f'{a} {c["grid"]}'))
        ids = sorted(id(x) for row in g.objects for x in row)
        if ids != sorted(id(x) for row in gr.objects for x in row):
            out.append(V('gridrot/permutation', f'{a} {c["grid"]}'))
        return out



# ---------------------------------------------------------------------------------------------
# shared "step" cases: (atoms, state, action, answers) — replayable on the implementation with a
# scripted generator, and constructible from a `trans` protocol line
# ---------------------------------------------------------------------------------------------
TRANS_NAMES = ['move_agent', 'turn_agent', 'pickndrop', 'move_obstacles', 'actuate_door', 'actuate_box', 'teleport']
_SMALL = None


def _small_steps():
    global _SMALL
    if _SMALL is None:
        _SMALL = [(enc_state(s), a.value) for s, a in gen.smallscope_steps(alphabet=gen.ALPHABET_CORE, helds=['N', 'K1', 'K4', 'W'])]
    return _SMALL


def step_case_from_line(line):
    t = line.split()
    if not t or t[0] != 'trans':
        return None
    n = int(t[1])
    atoms = [int(x) for x in t[2 : 2 + n]]
    i = 2 + n
    st, j = dec_state(t, i)
    action = int(t[j])
    k = int(t[j + 1])
    answers = [int(x) for x in t[j + 2 : j + 2 + k]]
    return {'kind': 'step', 'atoms': atoms, 'state': ' '.join(t[i:j]), 'action': action, 'answers': answers}


def gen_step_cases(rng, atoms_choices=None, valid=False, obstacles=False, telepods=False):
    small = _small_steps()
    while True:
        r = rng.random()
        if r < 0.35:
            st, a = rng.choice(small)
        else:
            s = (gen.valid_random_state if valid or rng.random() < 0.7 else gen.random_state)(rng, max_h=6, max_w=6, p_floor=0.6)
            h, w = s.grid.shape.height, s.grid.shape.width
            from harness.codec import dec_obj

            if obstacles or rng.random() < 0.3:
                for _ in range(rng.randint(1, 4)):
                    p = (rng.randrange(h), rng.randrange(w))
                    if valid and p == s.agent.position.yx and False:
                        continue
                    s.grid[p] = dec_obj('O')
            if telepods or rng.random() < 0.3:
                c = rng.randint(0, 4)
                for _ in range(rng.randint(1, 3)):
                    s.grid[rng.randrange(h), rng.randrange(w)] = dec_obj(f'T{c}')
                if rng.random() < 0.6:
                    s.grid[s.agent.position] = dec_obj(f'T{c}')
            st, a = enc_state(s), rng.randrange(8)
        if atoms_choices is None:
            atoms = [rng.randrange(7) for _ in range(rng.choice([1, 1, 2, 4, 7]))]
        else:
            atoms = list(rng.choice(atoms_choices))
        yield {'kind': 'step', 'atoms': atoms, 'state': st, 'action': a, 'answers': [rng.randrange(64) for _ in range(12)]}


def run_step(case):
    """runs the real transition functions (in place on a copy) with the scripted answers"""
    from harness.recrng import ScriptRng
    from gym_gridverse.envs import transition_functions as trf

    s0 = state_from_str(case['state'])
    if case.get('alias'):
        gen.alias_equal(s0)
    s = fast_copy(s0)
    a = ACTIONS[case['action']]
    rng = ScriptRng(case['answers'])
    err = None
    try:
        for i in case['atoms']:
            trf.transition_function_registry[TRANS_NAMES[i]](s, a, rng=rng)
    except Exception as e:  # noqa
        err = e
    return s0, a, s, err, rng


def _mutable_nodes(x):
    """ids of the parts of a state that the library updates in place: the state, its grid, the row lists,
    doors (and anything holding one), the agent and its pose"""
    from gym_gridverse.grid_object import Box, Door

    ids = {id(x), id(x.grid), id(x.grid.objects), id(x.agent), id(x.agent.transform)}
    ids.update(id(r) for r in x.grid.objects)

    def walk(o):
        if isinstance(o, Door):
            ids.add(id(o))
            return True
        if isinstance(o, Box) and walk(o.content):
            ids.add(id(o))  # a box is only as immutable as what it holds
            return True
        return False

    for r in x.grid.objects:
        for o in r:
            walk(o)
    walk(x.agent.grid_object)
    return ids


def functional_interface_violations(c):
    """the step of a `step` case taken through the functional interface - `transition_with_copy` and
    `GridWorld.functional_step` - instead of in place: same next state as the in-place dynamics on a
    fresh state, input state untouched, nothing mutable shared between input and result (a later change
    of either is invisible in the other), reward and flag equal to the components evaluated on the
    untouched triple.  Shared by the oracles of the dynamics properties, whose statements are about
    what a step does to *a* state: a step that also edits the state it started from is a violation of
    each of them."""
    import functools
    from harness.recrng import ScriptRng
    from gym_gridverse.envs import observation_functions as of
    from gym_gridverse.envs import reset_functions as rsf
    from gym_gridverse.envs import reward_functions as rf
    from gym_gridverse.envs import terminating_functions as tf
    from gym_gridverse.envs import transition_functions as trf
    from gym_gridverse.envs.gridworld import GridWorld
    from gym_gridverse.geometry import Shape
    from gym_gridverse.grid_object import Color, Door, Key, grid_object_registry
    from gym_gridverse.spaces import ActionSpace, ObservationSpace, StateSpace

    out = []
    a = ACTIONS[c['action']]
    fresh = lambda: state_from_str(c['state'])  # noqa: E731
    ref = fresh()
    if not in_grid(ref.grid, ref.agent.position):
        return out
    try:
        r0 = ScriptRng(list(c['answers']))
        for i in c['atoms']:
            trf.transition_function_registry[TRANS_NAMES[i]](ref, a, rng=r0)
    except Exception:
        return out  # totality is C01's business
    want = enc_state(ref)
    fns = [trf.transition_function_registry[TRANS_NAMES[i]] for i in c['atoms']]
    chain = functools.partial(trf.chain, transition_functions=fns)
    rewards = [
        functools.partial(rf.actuate_door, reward_open=3.0, reward_close=-2.0),
        functools.partial(rf.pickndrop, object_type=Key, reward_pick=1.5, reward_drop=-0.5),
        functools.partial(rf.bump_into_wall, reward=-1.0),
        functools.partial(rf.reach_exit, reward_on=5.0, reward_off=0.25),
        functools.partial(rf.bump_moving_obstacle, reward=-4.0),
    ]
    rew = functools.partial(rf.reduce_sum, reward_functions=rewards)
    term = functools.partial(tf.reduce_any, terminating_functions=[tf.reach_exit, tf.bump_moving_obstacle, tf.bump_into_wall])
    h, w = ref.grid.shape.as_tuple
    kinds = [k for k in grid_object_registry if k.__name__ not in ('NoneGridObject', 'Hidden')]
    env = GridWorld(
        StateSpace(Shape(h, w), kinds, list(Color)),
        ActionSpace(list(ACTIONS)),
        ObservationSpace(Shape(3, 3), list(grid_object_registry), list(Color)),
        functools.partial(rsf.empty, shape=Shape(4, 4)),
        chain,
        functools.partial(of.fully_transparent, area=Area((-2, 0), (-1, 1))),
        rew,
        term,
    )
    for via in ('transition_with_copy', 'functional_step'):
        s0 = fresh()
        rng = ScriptRng(list(c['answers']))
        try:
            if via == 'transition_with_copy':
                s1, r, d = trf.transition_with_copy(chain, s0, a, rng=rng), None, None
            else:
                env._rng = rng
                s1, r, d = env.functional_step(s0, a)
        except Exception as e:
            if via == 'functional_step' and isinstance(e, ValueError):
                continue  # the debug-gated membership checks (states outside the declared space)
            out.append(V(f'{via}/raises-where-the-in-place-dynamics-do-not', f'{type(e).__name__} on {c["state"]} a={a.name} atoms={c["atoms"]}'))
            continue
        if enc_state(s1) != want:
            out.append(V(f'{via}/next-state-differs-from-in-place-dynamics', f'{c["state"]} a={a.name} atoms={c["atoms"]}: {enc_state(s1)} instead of {want}'))
        if enc_state(s0) != c['state']:
            out.append(V(f'{via}/input-state-changed', f'{c["state"]} a={a.name} atoms={c["atoms"]}: the state stepped from now reads {enc_state(s0)}'))
        elif _mutable_nodes(s0) & _mutable_nodes(s1):
            out.append(V(f'{via}/next-state-shares-mutable-part-with-input', f'{c["state"]} a={a.name} atoms={c["atoms"]}'))
        if not out:
            # the same State object again, after it has been changed in place: the step starts from the
            # state as it is now, not as it was at the earlier call
            b = ACTIONS[(c['action'] + 3) % len(ACTIONS)]
            try:
                for f in (trf.turn_agent, trf.move_agent, trf.pickndrop, trf.actuate_door):
                    f(s0, b)
                mid = enc_state(s0)
                ref2 = state_from_str(mid)
                r2 = ScriptRng(list(c['answers']))
                for i in c['atoms']:
                    trf.transition_function_registry[TRANS_NAMES[i]](ref2, a, rng=r2)
                rng2 = ScriptRng(list(c['answers']))
                if via == 'transition_with_copy':
                    s1b = trf.transition_with_copy(chain, s0, a, rng=rng2)
                else:
                    env._rng = rng2
                    s1b = env.functional_step(s0, a)[0]
                if enc_state(s1b) != enc_state(ref2):
                    out.append(V(f'{via}/steps-from-a-stale-copy-of-the-state', f'{mid} a={a.name} atoms={c["atoms"]} (the same State object had been stepped before and then changed in place): {enc_state(s1b)} instead of {enc_state(ref2)}'))
            except ValueError:
                pass
            except Exception:
                pass
        if r is not None and not out:
            p0, p1 = fresh(), state_from_str(want)
            exp_r, exp_d = sum(f(p0, a, p1) for f in rewards), term(p0, a, p1)
            if r != exp_r or d != exp_d:
                out.append(V('functional_step/reward-or-flag-differs-from-components-on-the-triple', f'{c["state"]} a={a.name} atoms={c["atoms"]}: got {(r, d)}, the components give {(exp_r, exp_d)}'))
    return out



def in_grid(g, p):
    return 0 <= p.y < g.shape.height and 0 <= p.x < g.shape.width


def blocks(obj):
    """what blocks movement, by type and status (not read from the object's own attribute)"""
    from gym_gridverse.grid_object import Box, Door, Wall

    if isinstance(obj, Door):
        return obj.state is not Door.Status.OPEN
    return isinstance(obj, (Wall, Box))


def is_valid(s):
    return in_grid(s.grid, s.agent.position) and not blocks(s.grid[s.agent.position])


class C08(Oracle):
    prop = 'C08'

    def gen(self, rng):
        singles = [[i] for i in range(7)]
        g1 = gen_step_cases(rng, atoms_choices=singles)
        g2 = gen_step_cases(rng, valid=True)
        while True:
            yield next(g1)
            c = next(g2)
            c['history'] = [rng.randrange(8) for _ in range(rng.randint(1, 12))]
            yield c
            # a door in front of the agent, the dynamics that can open it, then a walk through it
            h, w = rng.randint(1, 4), rng.randint(2, 5)
            y, x = rng.randrange(h), rng.randrange(w - 1)
            status = rng.choice([0, 1, 1, 2])
            col = rng.randint(0, 4)
            held = rng.choice(['N', f'K{col}', f'K{col}', f'K{(col + 1) % 5}'])
            s = gen.mk_state(h, w, {(y, x + 1): f'D{status}{col}'}, y, x, O.R, held)
            yield {'kind': 'step', 'atoms': rng.choice([[0, 1, 4], [4, 0, 1], [0, 4], [0, 1, 4, 2]]), 'state': enc_state(s), 'action': 6,
                   'answers': [0] * 4, 'history': rng.choice([[6, 0], [6, 0, 1, 0], [6, 6, 0], [0, 6, 0, 0], [6, 0, 0]])}
            if rng.random() < 0.15:
                # long corridors: coordinates around 127 / 255 (and, rarely, 32767) are coordinates like any other
                n = rng.choice([130, 140, 200, 260, 300]) if rng.random() < 0.93 else 32800
                edge = rng.choice([b for b in (127, 255, 32767) if b < n - 1])
                pos = edge + rng.randint(-2, 1)
                along_x = rng.random() < 0.5
                hh, ww = (rng.randint(1, 2), n) if along_x else (n, rng.randint(1, 2))
                y, x = (rng.randrange(hh), pos) if along_x else (pos, rng.randrange(ww))
                o = rng.choice(gen.ORIENTS)
                s = gen.mk_state(hh, ww, {}, y, x, o)
                yield {'kind': 'step', 'atoms': [0], 'state': enc_state(s), 'action': rng.randrange(4), 'answers': [0] * 4, 'history': [rng.randrange(4) for _ in range(6)]}

    def from_line(self, line):
        return step_case_from_line(line)

    def check(self, c):
        out = []
        s0, a, s1, err, _ = run_step(c)
        atoms = c['atoms']
        if len(atoms) == 1 and in_grid(s0.grid, s0.agent.position):
            name = TRANS_NAMES[atoms[0]]
            if err is not None:
                if not (name == 'teleport'):
                    out.append(V(f'{name}/raises', f'{type(err).__name__} on {c["state"]} a={a}'))
                return out
            p0, o0 = s0.agent.position, s0.agent.orientation
            p1, o1 = s1.agent.position, s1.agent.orientation
            if name == 'move_agent':
                if o1 != o0:
                    out.append(V('move_agent/changes-heading', c['state']))
                if a.is_move():

                    tgt = p0 + (o0 * mv[a]) * Position(-1, 0)
                    free = in_grid(s0.grid, tgt) and not blocks(s0.grid[tgt])
                    if free and p1 != tgt:
                        out.append(V('move_agent/free-target-not-reached', f'{c["state"]} a={a}'))
                    if not free and p1 != p0:
                        sig = 'move_agent/target-outside-grid-wraps' if not in_grid(s0.grid, tgt) else 'move_agent/moves-into-blocking-cell'
                        out.append(V(sig, f'{c["state"]} a={a} -> {p1}'))
                elif p1 != p0:
                    out.append(V('move_agent/non-move-action-displaces', f'{c["state"]} a={a}'))
            elif name == 'turn_agent':
                if p1 != p0:
                    out.append(V('turn_agent/displaces', c['state']))
                exp = {'TURN_LEFT': o0 * O.L, 'TURN_RIGHT': o0 * O.R}.get(a.name, o0)
                if o1 != exp:
                    out.append(V('turn_agent/wrong-heading', f'{c["state"]} a={a}'))
                if a.is_turn() and o1 == o0:
                    out.append(V('turn_agent/no-quarter-turn', f'{c["state"]} a={a}'))
            elif name == 'teleport':
                if o1 != o0:
                    out.append(V('teleport/changes-heading', c['state']))
                from gym_gridverse.grid_object import Telepod

                # teleportation is what telepods do: an agent that does not stand on one keeps its pose
                if type(s0.grid[p0]) is not Telepod and p1 != p0:
                    out.append(V('teleport/displaces-agent-not-on-a-telepod', f'{c["state"]} a={a} -> {p1}'))
            else:
                if p1 != p0 or o1 != o0:
                    out.append(V(f'{name}/changes-pose', f'{c["state"]} a={a}'))
        # turn laws
        if atoms == [1]:
            from gym_gridverse.envs import transition_functions as trf
            from gym_gridverse.action import Action

            s = fast_copy(s0)
            trf.turn_agent(s, Action.TURN_LEFT)
            trf.turn_agent(s, Action.TURN_RIGHT)
            if s.agent.orientation != s0.agent.orientation:
                out.append(V('turn_agent/left-right-not-identity', c['state']))
            for t in (Action.TURN_LEFT, Action.TURN_RIGHT):
                s = fast_copy(s0)
                for _ in range(4):
                    trf.turn_agent(s, t)
                if s.agent.orientation != s0.agent.orientation:
                    out.append(V('turn_agent/four-turns-not-identity', c['state']))
        # history invariant
        if 'history' in c and is_valid(s0):
            from harness.recrng import ScriptRng
            from gym_gridverse.envs import transition_functions as trf

            s = fast_copy(s0)
            rng = ScriptRng(c['answers'] * 20)

            for k, ai in enumerate(c['history']):
                act = ACTIONS[ai]
                bad = False
                try:
                    for i in atoms:
                        # the kinematic law at every move_agent of the history, judged on what the cells
                        # are *now* (a door opened earlier in the history must let the agent through)
                        pb, ob = s.agent.position, s.agent.orientation
                        tgt = pb + (ob * mv[act]) * Position(-1, 0) if act in mv else None
                        free = tgt is not None and in_grid(s.grid, tgt) and not blocks(s.grid[tgt])
                        trf.transition_function_registry[TRANS_NAMES[i]](s, act, rng=rng)
                        if TRANS_NAMES[i] == 'move_agent' and tgt is not None:
                            if free and s.agent.position != tgt:
                                out.append(V('history/free-target-not-reached', f'step {k} ({act.name}) of {atoms} x {c["history"]} from {c["state"]}: stays at {pb}, target {tgt} holds {s.grid[tgt]!r}'))
                                bad = True
                            if not free and s.agent.position != pb:
                                out.append(V('history/moves-into-blocking-cell', f'step {k} ({act.name}) of {atoms} x {c["history"]} from {c["state"]}'))
                                bad = True
                except Exception as e:
                    out.append(V('history/raises', f'{type(e).__name__} after {k} steps from {c["state"]}'))
                    break
                if bad:
                    break
                if not is_valid(s):
                    out.append(V('history/agent-invalid', f'after {k+1} steps of {atoms} from {c["state"]}: {s.agent.position}'))
                    break
        return out

    def nontrivial(self, c):
        return True



def run_atoms_stepwise(case):
    """yields (atom_name, state_before(copy), state_after(copy), error) for each atom of the chain"""
    from harness.recrng import ScriptRng
    from gym_gridverse.envs import transition_functions as trf

    s = fast_copy(state_from_str(case['state']))
    a = ACTIONS[case['action']]
    rng = ScriptRng(case['answers'])
    for i in case['atoms']:
        before = fast_copy(s)
        try:
            trf.transition_function_registry[TRANS_NAMES[i]](s, a, rng=rng)
        except Exception as e:  # noqa
            yield TRANS_NAMES[i], before, None, e
            return
        yield TRANS_NAMES[i], before, fast_copy(s), None


_FRONT = {'F': (-1, 0), 'B': (1, 0), 'L': (0, -1), 'R': (0, 1)}


def lit_front(s):
    """the cell in front of the agent, from its position and heading alone (never from anything the
    library may have remembered about an earlier pose)"""
    dy, dx = _FRONT[s.agent.orientation.name[0]]
    return Position(s.agent.position.y + dy, s.agent.position.x + dx)


def run_history_stepwise(case):
    """the chain applied in place to ONE state object for the case's action and then for every action of
    case['history']; yields (atom_name, value of the state before, value after, error, action) per atom.
    The before/after values are rebuilt from their description, so they carry nothing but the value."""
    from harness.recrng import ScriptRng
    from gym_gridverse.envs import transition_functions as trf

    s = fast_copy(state_from_str(case['state']))
    hist = case.get('history') or []
    rng = ScriptRng(list(case['answers']) * (1 + len(hist)))
    via_copy = case.get('via_copy')
    for ai in [case['action']] + list(hist):
        a = ACTIONS[ai]
        if via_copy:
            s = fast_copy(s)  # what functional_step / transition_with_copy do between steps
        for i in case['atoms']:
            before = state_from_str(enc_state(s))
            try:
                trf.transition_function_registry[TRANS_NAMES[i]](s, a, rng=rng)
            except Exception as e:  # noqa
                yield TRANS_NAMES[i], before, None, e, a
                return
            yield TRANS_NAMES[i], before, state_from_str(enc_state(s)), None, a


def gen_history_cases(rng):
    """multi-step histories on worlds that mix what no shipped layout mixes (telepods next to doors,
    boxes and keys), with chains in which the teleport comes last, and repeated pose-preserving actions"""
    g = gen_step_cases(rng, valid=True, telepods=True)
    while True:
        c = next(g)
        s = state_from_str(c['state'])
        h, w = s.grid.shape.height, s.grid.shape.width
        from harness.codec import dec_obj

        for _ in range(rng.randint(0, 4)):
            col = rng.randrange(5)
            s.grid[rng.randrange(h), rng.randrange(w)] = dec_obj(rng.choice([f'D1{col}', f'D2{col}', f'K{col}', 'XK1', 'XF', f'D0{col}']))
        if blocks(s.grid[s.agent.position]):
            continue
        c['state'] = enc_state(s)
        c['atoms'] = rng.choice([[0, 1, 4, 5, 2, 6], [4, 5, 2, 6], [2, 6], [4, 6], [5, 6], [6, 4, 5, 2], [0, 1, 6, 2, 4], rng.sample(range(7), 5)])
        c['action'] = rng.choice([6, 7, 6, 7, rng.randrange(8)])
        c['history'] = [rng.choice([6, 7, 6, 7, rng.randrange(8)]) for _ in range(rng.randint(1, 5))]
        c['via_copy'] = rng.random() < 0.5
        yield c


def inventory(s, box_deep=False):
    from collections import Counter
    from gym_gridverse.grid_object import Box, Floor, NoneGridObject

    c = Counter()

    def add(o):
        if isinstance(o, (Floor, NoneGridObject)):
            return
        c[(type(o).__name__, o.color.name)] += 1
        if box_deep and isinstance(o, Box):
            add(o.content)

    for row in s.grid.objects:
        for o in row:
            add(o)
    add(s.agent.grid_object)
    return c


class C09(Oracle):
    prop = 'C09'

    def gen(self, rng):
        g, gh = gen_step_cases(rng), gen_history_cases(rng)
        while True:
            yield next(g)
            yield next(g)
            yield next(gh)

    def from_line(self, line):
        return step_case_from_line(line)

    def check(self, c):
        from gym_gridverse.grid_object import Beacon, Box, Door, Exit, Floor, NoneGridObject, Telepod, Wall

        out = []
        for name, b, s, err, a in run_history_stepwise(c):
            if out:
                return out
            if not in_grid(b.grid, b.agent.position) and name == 'teleport':
                return out
            front = lit_front(b)
            if err is not None:
                sig = 'pickndrop/front-outside-grid' if name == 'pickndrop' and not in_grid(b.grid, front) else f'{name}/raises'
                out.append(V(sig, f'{type(err).__name__} in {name} on {enc_state(b)} a={a}'))
                return out
            fin = in_grid(b.grid, front)
            ib, ia = inventory(b), inventory(s)
            if name != 'actuate_box':
                if ib != ia:
                    sig = 'pickndrop/front-outside-grid' if name == 'pickndrop' and not fin else f'{name}/inventory-changed'
                    out.append(V(sig, f'{name} on {enc_state(b)} a={a}: {dict(ib)} -> {dict(ia)}'))
            else:
                if ib != ia:
                    ok = fin and isinstance(b.grid[front], Box) and a.name == 'ACTUATE'
                    if ok:
                        exp = ib.copy()
                        exp[('Box', 'NONE')] -= 1
                        cont = b.grid[front].content
                        if not isinstance(cont, Floor):
                            exp[(type(cont).__name__, cont.color.name)] += 1
                        exp = +exp
                        ok = exp == ia
                    if not ok:
                        out.append(V('actuate_box/inventory-changed', f'{enc_state(b)} a={a}'))
            # scenery never moves
            for p in b.grid.area.positions():
                o = b.grid[p]
                if isinstance(o, (Wall, Exit, Door, Beacon, Telepod)):
                    o2 = s.grid[p]
                    if type(o2) is not type(o) or o2.color != o.color:
                        out.append(V(f'{name}/scenery-changed', f'{enc_state(b)} a={a} at {p}'))
                        break
            if name == 'pickndrop':
                fo = b.grid[front] if fin else None
                fires = a.name == 'PICK_N_DROP' and fin and (isinstance(fo, Floor) or fo.holdable)
                changed = [p for p in b.grid.area.positions() if s.grid[p] is not None and enc_state_cell(s, p) != enc_state_cell(b, p)]
                if not fires:
                    if changed or enc_held(s) != enc_held(b):
                        sig = 'pickndrop/front-outside-grid' if not fin else 'pickndrop/acts-when-it-should-not'
                        out.append(V(sig, f'{enc_state(b)} a={a}'))
                else:
                    if any(p != front for p in changed):
                        out.append(V('pickndrop/writes-other-cell', f'{enc_state(b)} a={a}'))
                    held = b.agent.grid_object
                    empty = isinstance(held, NoneGridObject)
                    exp_front = Floor() if empty else held
                    exp_held = fo if fo.holdable else NoneGridObject()
                    from harness.codec import enc_obj

                    if enc_obj(s.grid[front]) != enc_obj(exp_front) or enc_obj(s.agent.grid_object) != enc_obj(exp_held):
                        out.append(V('pickndrop/wrong-effect', f'{enc_state(b)} a={a} -> {enc_state(s)}'))
                    if not isinstance(s.agent.grid_object, NoneGridObject) and not s.agent.grid_object.holdable:
                        out.append(V('pickndrop/non-holdable-in-hand', f'{enc_state(b)} a={a}'))
        if out or 6 in c['atoms']:
            return out
        # a chain that fails half-way (a component of the user's own raising after the built-in ones have
        # acted, in place): whatever the state is afterwards, nothing was lost or duplicated
        from harness.recrng import ScriptRng
        from gym_gridverse.envs import transition_functions as trf

        def boom(state, action, *, rng=None):
            raise RuntimeError('a component of the user fails')

        st = state_from_str(c['state'])
        if not in_grid(st.grid, st.agent.position):
            return out
        inv0 = inventory(st, box_deep=True)
        a0 = ACTIONS[c['action']]
        try:
            trf.chain(st, a0, transition_functions=[trf.transition_function_registry[TRANS_NAMES[i]] for i in c['atoms'] if i != 5] + [boom], rng=ScriptRng(list(c['answers'])))
        except RuntimeError:
            pass
        except Exception:
            return out
        inv1 = inventory(st, box_deep=True)
        if inv0 != inv1:
            out.append(V('chain/objects-lost-or-duplicated-after-a-failed-chain', f'{c["state"]} a={a0} atoms={c["atoms"]}: {dict(inv0)} -> {dict(inv1)}'))
        return out


def enc_obj_of(o):
    from harness.codec import enc_obj

    return enc_obj(o)


def enc_state_cell(s, p):
    from harness.codec import enc_obj

    return enc_obj(s.grid[p])


def enc_held(s):
    from harness.codec import enc_obj

    return enc_obj(s.agent.grid_object)


class C10(Oracle):
    prop = 'C10'

    def gen(self, rng):
        from harness.codec import dec_obj

        base = gen_step_cases(rng)
        hist = gen_history_cases(rng)
        while True:
            r = rng.random()
            if r < 0.25:
                yield next(hist)
                continue
            if r < 0.6:
                yield next(base)
                continue
            # door/box focused: every status x colour x held x relative pose
            h, w = rng.randint(1, 4), rng.randint(1, 4)
            cells = {}
            dy, dx = rng.randrange(h), rng.randrange(w)
            st, col = rng.randrange(3), rng.randrange(5)
            cells[(dy, dx)] = rng.choice([f'D{st}{col}', f'D{st}{col}', 'XK1', 'XF', f'XD{st}{col}', 'XXF'])
            y, x = rng.randrange(h), rng.randrange(w)
            held = rng.choice(['N', f'K{col}', f'K{rng.randrange(5)}', 'W', 'O', 'XF', f'D2{col}'])
            s = gen.mk_state(h, w, cells, y, x, rng.choice(gen.ORIENTS), held)
            atoms = rng.choice([[4], [5], [0, 1, 4, 2], [0, 1, 4, 2, 5], [6, 4, 5], [3, 4]])
            yield {'kind': 'step', 'atoms': atoms, 'state': enc_state(s), 'action': rng.choice([6, 6, 6, 7, 0, 4, rng.randrange(8)]), 'answers': [rng.randrange(8) for _ in range(6)]}

    def from_line(self, line):
        return step_case_from_line(line)

    def check(self, c):
        from gym_gridverse.grid_object import Box, Door, Key
        from harness.codec import enc_obj

        out = []
        for name, b, s, err, a in run_history_stepwise(c):
            if err is not None or out:
                return out  # totality is C01's business
            front = lit_front(b)
            for p in b.grid.area.positions():
                o = b.grid[p]
                if isinstance(o, Door):
                    o2 = s.grid[p]
                    if not isinstance(o2, Door) or o2.color != o.color:
                        out.append(V(f'{name}/door-replaced', f'{enc_state(b)} a={a} at {p}'))
                        continue
                    may = name == 'actuate_door' and a.name == 'ACTUATE' and p == front and (
                        o.state is Door.Status.CLOSED
                        or (o.state is Door.Status.LOCKED and isinstance(b.agent.grid_object, Key) and b.agent.grid_object.color == o.color)
                    )
                    if o2.state != o.state:
                        if not may:
                            out.append(V(f'{name}/door-status-changed-unduly', f'{enc_state(b)} a={a} at {p}: {o.state}->{o2.state}'))
                        elif o2.state is not Door.Status.OPEN:
                            out.append(V('actuate_door/not-towards-open', f'{enc_state(b)} a={a}'))
                    elif may:
                        out.append(V('actuate_door/does-not-open', f'{enc_state(b)} a={a} at {p}'))
                if isinstance(o, Box):
                    o2 = s.grid[p]
                    may = name == 'actuate_box' and a.name == 'ACTUATE' and p == front
                    if may:
                        if o2 is not o.content and enc_obj(o2) != enc_obj(o.content):
                            out.append(V('actuate_box/not-replaced-by-content', f'{enc_state(b)} a={a}'))
                    elif enc_obj(o2) != enc_obj(o):
                        out.append(V(f'{name}/box-changed-unduly', f'{enc_state(b)} a={a} at {p}'))
            if name in ('actuate_door', 'actuate_box') and enc_obj(s.agent.grid_object) != enc_obj(b.agent.grid_object):
                out.append(V(f'{name}/held-item-changed', f'{enc_state(b)} a={a}'))
        return out



class C11(Oracle):
    prop = 'C11'

    def gen(self, rng):
        g3 = gen_step_cases(rng, atoms_choices=[[3]], obstacles=True)
        g6 = gen_step_cases(rng, atoms_choices=[[6]], telepods=True)
        while True:
            c = next(g3)
            c['answers'] = [rng.randrange(4) for _ in range(40)]
            c['alias'] = rng.random() < 0.3
            yield c
            c = next(g6)
            c['alias'] = rng.random() < 0.4
            yield c

    def from_line(self, line):
        return step_case_from_line(line)

    def check(self, c):
        from gym_gridverse.grid_object import Floor, MovingObstacle, Telepod
        from harness.codec import enc_obj
        from harness.recrng import ScriptRng
        from gym_gridverse.envs import transition_functions as trf

        out = []
        if c['atoms'] == [3]:
            s0, a, s1, err, rng = run_step(c)
            if err is not None:
                return [V('move_obstacles/raises', f'{type(err).__name__} on {c["state"]}')]
            g0, g1 = s0.grid, s1.grid
            h, w = g0.shape.height, g0.shape.width
            obs0 = [p for p in g0.area.positions() if (type(g0[p]) is MovingObstacle)]
            obs1 = [p for p in g1.area.positions() if (type(g1[p]) is MovingObstacle)]
            if len(obs0) != len(obs1):
                out.append(V('move_obstacles/obstacle-count-changed', f'{c["state"]}: {len(obs0)} -> {len(obs1)}'))
            for p in g0.area.positions():
                o0, o1 = g0[p], g1[p]
                if type(o0) not in (Floor, MovingObstacle) and enc_obj(o0) != enc_obj(o1):
                    out.append(V('move_obstacles/non-floor-cell-changed', f'{c["state"]} at {p}'))
                    break
                if type(o0) in (Floor, MovingObstacle) and type(o1) not in (Floor, MovingObstacle):
                    out.append(V('move_obstacles/non-floor-cell-changed', f'{c["state"]} at {p}'))
                    break
            # reference sweep (the property statement, literally)
            cur = [[enc_obj(g0[y, x]) for x in range(w)] for y in range(h)]
            answers = list(c['answers'])
            for p in obs0:
                nb = [(p.y - 1, p.x), (p.y, p.x + 1), (p.y + 1, p.x), (p.y, p.x - 1)]
                free = [q for q in nb if 0 <= q[0] < h and 0 <= q[1] < w and cur[q[0]][q[1]] == 'F']
                if not free:
                    continue
                k = (answers.pop(0) if answers else 0) % len(free)
                q = free[k]
                cur[p.y][p.x], cur[q[0]][q[1]] = cur[q[0]][q[1]], cur[p.y][p.x]
            got = [[enc_obj(g1[y, x]) for x in range(w)] for y in range(h)]
            if cur != got:
                out.append(V('move_obstacles/deviates-from-sweep-rule', f'{c["state"]} answers={c["answers"][:len(obs0)]}'))
            if enc_obj(s1.agent.grid_object) != enc_obj(s0.agent.grid_object) or s1.agent.transform != s0.agent.transform:
                out.append(V('move_obstacles/touches-agent', c['state']))
            # every free neighbour of a single obstacle is attainable
            if len(obs0) == 1:
                p = obs0[0]
                nb = [(p.y - 1, p.x), (p.y, p.x + 1), (p.y + 1, p.x), (p.y, p.x - 1)]
                free = [q for q in nb if 0 <= q[0] < h and 0 <= q[1] < w and (type(g0[q]) is Floor)]
                reached = set()
                for k in range(len(free)):
                    s = fast_copy(s0)
                    trf.move_obstacles(s, a, rng=ScriptRng([k]))
                    reached |= {q.yx for q in s.grid.area.positions() if (type(s.grid[q]) is MovingObstacle)}
                if free and reached != set(free):
                    out.append(V('move_obstacles/free-neighbour-unreachable', f'{c["state"]}'))
            # a grid with a past: the stepped state (and a copy of it) is stepped again after obstacles
            # entered or left it by other routes (a cell assignment, a box opened onto an obstacle): every
            # obstacle that is there *now* follows the sweep rule
            if not out:
                from harness.codec import dec_obj

                r0 = random.Random(len(c['state']) * 7919 + sum(c['answers']))
                for st, tag in ((s1, 'the stepped state'), (fast_copy(s1), 'a copy of the stepped state')):
                    floors = [p for p in st.grid.area.positions() if type(st.grid[p]) is Floor]
                    if not floors:
                        continue
                    p_new = r0.choice(floors)
                    if r0.random() < 0.5:
                        st.grid[p_new] = MovingObstacle()
                        how = f'grid[{p_new.y},{p_new.x}] = MovingObstacle()'
                    else:
                        st.grid[p_new] = dec_obj('XO')
                        st.agent.position = p_new  # any pose facing the box would do; the box is opened directly
                        st.grid[p_new] = st.grid[p_new].content
                        how = f'a box at ({p_new.y},{p_new.x}) opened onto its MovingObstacle'
                    if r0.random() < 0.3:
                        gone = [p for p in st.grid.area.positions() if type(st.grid[p]) is MovingObstacle and p != p_new]
                        if gone:
                            st.grid[r0.choice(gone)] = Floor()
                    st.agent.position = s1.agent.position
                    before = [[enc_obj(st.grid[y, x]) for x in range(w)] for y in range(h)]
                    ans2 = [r0.randrange(4) for _ in range(40)]
                    try:
                        trf.move_obstacles(st, a, rng=ScriptRng(list(ans2)))
                    except Exception as e:
                        out.append(V('move_obstacles/raises', f'{type(e).__name__} on {tag} of {c["state"]} after {how}'))
                        break
                    cur = [row[:] for row in before]
                    answers = list(ans2)
                    for y in range(h):
                        for x in range(w):
                            if before[y][x] != 'O':
                                continue
                            nb = [(y - 1, x), (y, x + 1), (y + 1, x), (y, x - 1)]
                            free = [q for q in nb if 0 <= q[0] < h and 0 <= q[1] < w and cur[q[0]][q[1]] == 'F']
                            if not free or cur[y][x] != 'O':
                                continue
                            q = free[(answers.pop(0) if answers else 0) % len(free)]
                            cur[y][x], cur[q[0]][q[1]] = cur[q[0]][q[1]], cur[y][x]
                    got = [[enc_obj(st.grid[y, x]) for x in range(w)] for y in range(h)]
                    if cur != got:
                        out.append(V('move_obstacles/deviates-from-sweep-rule', f'{tag} of {c["state"]} after {how}: {before} -> {got}, expected {cur}'))
                        break
        elif c['atoms'] == [6]:
            s0 = state_from_str(c['state'])
            if not in_grid(s0.grid, s0.agent.position):
                return out
            s0, a, s1, err, rng = run_step(c)
            tag = ' [one shared instance per distinct object]' if c.get('alias') else ''
            c = dict(c, state=c['state'] + tag)
            here = s0.grid[s0.agent.position]
            partners = []
            if type(here) is Telepod:
                partners = [p for p in s0.grid.area.positions() if p != s0.agent.position and type(s0.grid[p]) is Telepod and s0.grid[p].color == here.color]
            if err is not None:
                sig = 'teleport/unpaired-telepod-raises' if type(here) is Telepod and not partners else 'teleport/raises'
                return [V(sig, f'{type(err).__name__} on {c["state"]}')]
            if enc_state(s1)[: len(enc_state(s1)) - 0].split()[:-4] != enc_state(s0).split()[:-4]:
                out.append(V('teleport/changes-grid', c['state']))
            if s1.agent.orientation != s0.agent.orientation or enc_obj(s1.agent.grid_object) != enc_obj(s0.agent.grid_object):
                out.append(V('teleport/changes-heading-or-item', c['state']))
            if partners:
                if s1.agent.position not in partners:
                    out.append(V('teleport/not-sent-to-partner', f'{c["state"]} -> {s1.agent.position}'))
                reached = set()
                for k in range(len(partners)):
                    s = fast_copy(s0)
                    trf.teleport(s, a, rng=ScriptRng([k]))
                    reached.add(s.agent.position)
                if reached != set(partners):
                    out.append(V('teleport/partner-unreachable', c['state']))
            elif s1.agent.position != s0.agent.position:
                out.append(V('teleport/displaces-without-partner', f'{c["state"]} -> {s1.agent.position}'))
        return out



REW_ARGC = {'ov': 3, 'lv': 1, 're': 2, 'bo': 1, 'pd': 3, 'gc': 4, 'sp': 3, 'bw': 1, 'ad': 2, 'pk': 3, 'rm': 2}


def triple_case_from_line(line):
    t = line.split()
    if not t or t[0] not in ('reward', 'term', 'rewsum'):
        return None
    try:
        if t[0] == 'reward':
            i = 2 + REW_ARGC[t[1]]
        elif t[0] == 'rewsum':
            n = int(t[1])
            i = 2
            for _ in range(n):
                i += 1 + REW_ARGC[t[i]]
        else:
            # termination spec: scan for the first position that decodes as a state
            i = 1
            while i < len(t):
                try:
                    dec_state(t, i)
                    if t[i].isdigit() and t[i + 1].isdigit():
                        break
                except Exception:
                    pass
                i += 1
        s, j = dec_state(t, i)
        a = int(t[j])
        s2, k = dec_state(t, j + 1)
        return {'kind': 'triple', 's': ' '.join(t[i:j]), 'a': a, 's2': ' '.join(t[j + 1 : k])}
    except Exception:
        return None


def bfs_dist(st, src):
    """4-neighbour walking distances from src over cells that do not block movement (independent BFS)"""
    from collections import deque

    h, w = st.grid.shape.height, st.grid.shape.width
    dist = {src.yx: 0}
    dq = deque([src.yx])
    while dq:
        y, x = dq.popleft()
        for dy, dx in ((-1, 0), (1, 0), (0, -1), (0, 1)):
            q = (y + dy, x + dx)
            if 0 <= q[0] < h and 0 <= q[1] < w and q not in dist and not blocks(st.grid[q]):
                dist[q] = dist[(y, x)] + 1
                dq.append(q)
    return dist


def lit_distance_reward(kind, st, st2, typ, closer, further):
    """the distance-shaping rewards from positions alone (kind: 'manhattan' | 'euclidean' | 'path')"""
    def where(x):
        ps = [p for p in x.grid.area.positions() if type(x.grid[p]) is typ]
        return ps[0] if len(ps) == 1 else None

    p1, p2 = where(st), where(st2)
    if p1 is None or p2 is None:
        return None
    if kind == 'path':
        d1 = bfs_dist(st, p1).get(st.agent.position.yx, math.inf)
        d2 = bfs_dist(st2, p2).get(st2.agent.position.yx, math.inf)
    else:
        def dist(a_, b_):
            dy, dx = abs(a_.y - b_.y), abs(a_.x - b_.x)
            return dy + dx if kind == 'manhattan' else dy * dy + dx * dx  # squared: same order

        d1, d2 = dist(st.agent.position, p1), dist(st2.agent.position, p2)
    return closer if d2 < d1 else further if d2 > d1 else 0.0


def gen_episode_world(rng, h=None, w=None):
    """a walled or open world with exactly one Exit and one Key and some walls, the agent on a free cell"""
    h, w = h or rng.randint(2, 6), w or rng.randint(2, 6)
    cells = {}
    for i in range(h):
        for j in range(w):
            if rng.random() < 0.25:
                cells[(i, j)] = 'W'
    free = [(i, j) for i in range(h) for j in range(w) if (i, j) not in cells]
    if len(free) < 3:
        return None
    e, k, ag = rng.sample(free, 3)
    cells[e] = 'E0'
    cells[k] = 'K2'
    return gen.mk_state(h, w, cells, ag[0], ag[1], rng.choice(gen.ORIENTS))


class C12(Oracle):
    prop = 'C12'

    def gen(self, rng):
        from harness import corr_core

        k = 0
        steps = C10().gen(rng)
        while True:
            k += 1
            if k % 4 == 0:
                # the reward and flag an environment actually returns for a step (door / key / wall / exit
                # focused states): those of the components on that step's own (state, action, next state)
                yield next(steps)
                continue
            if k % 29 == 7:
                # a described environment whose groups repeat a component name with other parameters: the
                # reward of a step is the sum of all the listed parts, the episode ends when any listed test says so
                yield {'kind': 'cfgsum', 'file': rng.choice(shipped_files()), 'seed': rng.randrange(2**31), 'actions': [rng.randrange(6) for _ in range(rng.randint(4, 25))], 'dups': rng.randrange(2**31)}
                continue
            if k % 9 == 5:
                # an episode: consecutive triples share their state objects (the next state of one step is the
                # state of the following one), several shaping parts with different targets are asked in turn
                st = gen_episode_world(rng)
                if st is not None:
                    yield {'kind': 'episode', 'state': enc_state(st), 'actions': [rng.randrange(6) for _ in range(rng.randint(3, 10))], 'pick': rng.randrange(10**6)}
                continue
            s, a, s2 = corr_core._reward_triples(rng, k)
            corr_core._uniquify(rng, s, s2)
            yield {'kind': 'triple', 's': enc_state(s), 'a': a.value, 's2': enc_state(s2)}

    def from_line(self, line):
        return triple_case_from_line(line)

    def _episode(self, c):
        from gym_gridverse.envs import reward_functions as rf
        from gym_gridverse.envs import transition_functions as trf
        from gym_gridverse.grid_object import Exit, Key

        out = []
        chain = trf.factory('chain', transition_functions=[trf.factory('move_agent'), trf.factory('turn_agent')])
        specs = [('manhattan', Key, 1.0, -1.0), ('euclidean', Exit, 10.0, -10.0), ('path', Exit, 100.0, -100.0), ('manhattan', Exit, 1000.0, -1000.0), ('path', Key, 0.25, -0.5)]
        dfn = {'manhattan': Position.manhattan_distance, 'euclidean': Position.euclidean_distance}

        def part(kind, typ, cl, fu):
            if kind == 'path':
                return rf.factory('getting_closer_shortest_path', object_type=typ, reward_closer=cl, reward_further=fu)
            return rf.factory('getting_closer', distance_function=dfn[kind], object_type=typ, reward_closer=cl, reward_further=fu)

        parts = [part(*sp) for sp in specs]
        total = rf.factory('reduce_sum', reward_functions=parts)
        st = state_from_str(c['state'])
        rr = random.Random(c['pick'])
        for k, ai in enumerate(c['actions']):
            a = ACTIONS[ai]
            nxt = trf.transition_with_copy(chain, st, a, rng=None)
            if rr.random() < 0.25:
                # the caller moves the agent of the state it holds (in place) before asking
                free = [p for p in nxt.grid.area.positions() if not blocks(nxt.grid[p])]
                nxt.agent.position = rr.choice(free)
            exp = [lit_distance_reward(sp[0], st, nxt, sp[1], sp[2], sp[3]) for sp in specs]
            where = f'step {k} ({a.name}) of the episode {c["actions"]} from {c["state"]}: {enc_state(st)} -> {enc_state(nxt)}'
            try:
                got = [f(st, a, nxt) for f in parts]
                tot = total(st, a, nxt)
            except Exception as e:
                out.append(V('episode/reward-raises', f'{type(e).__name__}: {e} at {where}'))
                return out
            if got != exp:
                out.append(V('episode/shaping-reward-differs-from-the-triple-on-its-own', f'{where}: parts {got}, expected {exp}'))
                return out
            if tot != sum(exp):
                out.append(V('reduce_sum/not-sum-of-parts', f'{where}: {tot} vs {exp}'))
                return out
            st = nxt
        return out

    def _cfgsum(self, c):
        import copy
        from harness import envspec
        from gym_gridverse.envs.yaml.factory import factory_env_from_data

        out = []
        data = load_cfg(c['file'])
        rr = random.Random(c['dups'])
        rws = data['reward_functions']
        for _ in range(rr.randint(1, 3)):
            d = copy.deepcopy(rr.choice(rws))
            for k_, v_ in d.items():
                if isinstance(v_, float):
                    d[k_] = rr.choice([v_ + 1.0, -v_, 2.5, 0.0])
            rws.insert(rr.randrange(len(rws) + 1), d)
        if rr.random() < 0.5:
            t = data['terminating_function']
            data['terminating_function'] = {'name': 'reduce_any', 'terminating_functions': [copy.deepcopy(t), {'name': 'bump_into_wall'}, copy.deepcopy(t)]}
        import os

        where = f'{os.path.basename(c["file"])} with reward_functions {[(r["name"], {k_: v_ for k_, v_ in r.items() if isinstance(v_, float)}) for r in rws]}'
        try:
            eh = envspec.hand_assemble(copy.deepcopy(data))
        except Exception:
            return out
        try:
            e1 = factory_env_from_data(copy.deepcopy(data))
        except Exception as e:
            return [V('described-environment/repeated-component-rejected', f'{where}: {type(e).__name__}: {e}')]
        for e in (e1, eh):
            e.set_seed(c['seed'])
            e.reset()
        n = len(e1.action_space.actions)
        for k, ai in enumerate(c['actions']):
            a = e1.action_space.actions[ai % n]
            r1, r2 = e1.step(a), eh.step(a)
            if r1 != r2:
                out.append(V('described-environment/reward-is-not-the-sum-of-the-listed-parts', f'{where} step {k}: {r1} instead of {r2}'))
                return out
            if r1[1]:
                e1.reset()
                eh.reset()
        return out

    def check(self, c):
        if c.get('kind') == 'step':
            return functional_interface_violations(c)
        if c.get('kind') == 'episode':
            return self._episode(c)
        if c.get('kind') == 'cfgsum':
            return self._cfgsum(c)
        from gym_gridverse.envs import reward_functions as rf
        from gym_gridverse.envs import terminating_functions as tf
        from gym_gridverse.grid_object import Beacon, Door, Exit, Key, MovingObstacle, Wall

        out = []
        s, s2 = state_from_str(c['s']), state_from_str(c['s2'])
        a = ACTIONS[c['a']]
        if not in_grid(s2.grid, s2.agent.position) or not in_grid(s.grid, s.agent.position):
            return out
        if s.grid.shape != s2.grid.shape:
            return out

        def call(f, **kw):
            try:
                return f(s, a, s2, **kw), None
            except Exception as e:  # noqa
                return None, e

        cell2 = s2.grid[s2.agent.position]
        on_exit = isinstance(cell2, Exit)
        # reach_exit reward/termination and their agreement
        r, e = call(rf.reach_exit, reward_on=5.0, reward_off=-0.25)
        t, e2 = call(tf.reach_exit)
        if e or e2:
            out.append(V('reach_exit/raises', f'{c}'))
        else:
            if (r == 5.0) != on_exit or (r != 5.0 and r != -0.25):
                out.append(V('reach_exit/reward-not-iff-on-exit', f'{c} r={r}'))
            if t is not on_exit:
                out.append(V('reach_exit/termination-not-iff-on-exit', f'{c} t={t}'))
            if (r == 5.0) != (t is True):
                out.append(V('reach_exit/reward-termination-disagree', f'{c}'))
        # bump obstacle
        r, e = call(rf.bump_moving_obstacle, reward=-3.0)
        t, e2 = call(tf.bump_moving_obstacle)
        on_obs = isinstance(cell2, MovingObstacle)
        if e or e2 or (r == -3.0) != on_obs or (not on_obs and r != 0.0) or t is not on_obs:
            out.append(V('bump_moving_obstacle/wrong', f'{c} r={r} t={t}'))
        # bump wall
        if a in mv:
            tgt = s.agent.position + (s.agent.orientation * mv[a]) * Position(-1, 0)
        else:
            tgt = s.agent.position
        hit = in_grid(s.grid, tgt) and isinstance(s.grid[tgt], Wall)
        r, e = call(rf.bump_into_wall, reward=-2.0)
        t, e2 = call(tf.bump_into_wall)
        if e or e2 or (r == -2.0) != hit or (not hit and r != 0.0) or bool(t) is not hit or type(t) is not bool:
            out.append(V('bump_into_wall/wrong', f'{c} r={r} t={t!r}'))
        # distance shaping (needs a unique Exit)
        ex1 = [p for p in s.grid.area.positions() if isinstance(s.grid[p], Exit)]
        ex2 = [p for p in s2.grid.area.positions() if isinstance(s2.grid[p], Exit)]
        if len(ex1) == 1 and len(ex2) == 1:
            for name, dfn in (('manhattan', Position.manhattan_distance), ('euclidean', Position.euclidean_distance)):
                d1, d2 = dfn(s.agent.position, ex1[0]), dfn(s2.agent.position, ex2[0])
                r, e = call(rf.getting_closer, distance_function=dfn, object_type=Exit, reward_closer=2.0, reward_further=-7.0)
                exp = 2.0 if d2 < d1 else -7.0 if d2 > d1 else 0.0
                if e or r != exp:
                    out.append(V('getting_closer/wrong-sign', f'{c} {name} r={r} exp={exp}'))
                r, e = call(rf.proportional_to_distance, distance_function=dfn, object_type=Exit, reward_per_unit_distance=-1.5)
                if e or r != -1.5 * d2:
                    out.append(V('proportional_to_distance/wrong', f'{c} {name} r={r}'))
            # shortest path variant against an independent BFS
            def bfs(st, src):
                from collections import deque

                h, w = st.grid.shape.height, st.grid.shape.width
                dist = {src.yx: 0}
                dq = deque([src.yx])
                while dq:
                    y, x = dq.popleft()
                    for dy, dx in ((-1, 0), (1, 0), (0, -1), (0, 1)):
                        q = (y + dy, x + dx)
                        if 0 <= q[0] < h and 0 <= q[1] < w and q not in dist and not st.grid[q].blocks_movement:
                            dist[q] = dist[(y, x)] + 1
                            dq.append(q)
                return dist

            d1 = bfs(s, ex1[0]).get(s.agent.position.yx, math.inf)
            d2 = bfs(s2, ex2[0]).get(s2.agent.position.yx, math.inf)
            r, e = call(rf.getting_closer_shortest_path, object_type=Exit, reward_closer=2.0, reward_further=-7.0)
            exp = 2.0 if d2 < d1 else -7.0 if d2 > d1 else 0.0
            if e or r != exp:
                out.append(V('getting_closer_shortest_path/wrong-sign', f'{c} r={r} exp={exp} d={d1}->{d2}'))
        # pick/drop
        h1, h2 = isinstance(s.agent.grid_object, Key), isinstance(s2.agent.grid_object, Key)
        r, e = call(rf.pickndrop, object_type=Key, reward_pick=4.0, reward_drop=-4.5)
        exp = 4.0 if (not h1 and h2) else -4.5 if (h1 and not h2) else 0.0
        if e or r != exp:
            out.append(V('reward-pickndrop/wrong', f'{c} r={r}'))
        # door reward
        front = lit_front(s)
        r, e = call(rf.actuate_door, reward_open=3.0, reward_close=-3.5)
        exp = 0.0
        if a.name == 'ACTUATE' and in_grid(s.grid, front):
            d1, d2 = s.grid[front], s2.grid[front]
            if isinstance(d1, Door) and isinstance(d2, Door):
                exp = 3.0 if (not d1.is_open and d2.is_open) else -3.5 if (d1.is_open and not d2.is_open) else 0.0
        if e is not None:
            sig = 'reward-actuate_door/front-outside-grid' if not in_grid(s.grid, front) else 'reward-actuate_door/raises'
            out.append(V(sig, f'{c} {type(e).__name__}'))
        elif r != exp:
            sig = 'reward-actuate_door/front-outside-grid' if not in_grid(s.grid, front) else 'reward-actuate_door/wrong'
            out.append(V(sig, f'{c} r={r} exp={exp}'))
        # memory
        beacons = [s2.grid[p] for p in s2.grid.area.positions() if isinstance(s2.grid[p], Beacon)]
        if beacons:
            r, e = call(rf.reach_exit_memory, reward_good=6.0, reward_bad=-6.5)
            exp = (6.0 if cell2.color == beacons[0].color else -6.5) if on_exit else 0.0
            if e or r != exp:
                out.append(V('reach_exit_memory/wrong', f'{c} r={r}'))
        r, e = call(rf.living_reward, reward=-0.75)
        if e or r != -0.75:
            out.append(V('living_reward/wrong', f'{c}'))
        # a component obtained by name without parameters has the function's own defaults, whatever was built
        # under that name before (with other values)
        for nm, custom in (('reach_exit', {'reward_on': 10.0, 'reward_off': -0.25}), ('living_reward', {'reward': 3.0}), ('bump_into_wall', {'reward': 7.0}),
                           ('bump_moving_obstacle', {'reward': 9.0}), ('actuate_door', {'reward_open': 2.0, 'reward_close': 4.0})):
            try:
                rf.factory(nm, **custom)
                got = rf.factory(nm)(s, a, s2)
                exp = rf.reward_function_registry[nm](s, a, s2)
                if got != exp:
                    out.append(V('factory/defaults-depend-on-what-was-built-before', f'{nm}: {got} instead of {exp} on {c}'))
            except Exception as e:
                out.append(V('factory/defaults-depend-on-what-was-built-before', f'{nm}: {type(e).__name__}: {e}'))
        # composites
        parts = [rf.factory('reach_exit', reward_on=5.0, reward_off=0.0), rf.factory('living_reward', reward=-0.05), rf.factory('bump_into_wall', reward=-0.2), rf.factory('pickndrop', object_type=Key, reward_pick=1.0, reward_drop=-1.0)]
        tot, e = call(rf.factory('reduce_sum', reward_functions=parts))
        vals = [f(s, a, s2) for f in parts]
        if e or tot != sum(vals):
            out.append(V('reduce_sum/not-sum-of-parts', f'{c} {tot} vs {vals}'))
        tparts = [tf.factory('reach_exit'), tf.factory('bump_into_wall'), tf.factory('bump_moving_obstacle')]
        tv = [f(s, a, s2) for f in tparts]
        ta, e = call(tf.factory('reduce_any', terminating_functions=tparts))
        tl, e2 = call(tf.factory('reduce_all', terminating_functions=tparts))
        if e or e2 or ta is not any(tv) or tl is not all(tv):
            out.append(V('reduce_any_all/wrong', f'{c} {ta} {tl} {tv}'))
        if (vals[0] == 5.0) != (tv[0] is True):
            out.append(V('reach_exit/reward-termination-disagree', f'{c}'))
        # a component obtained by name with parameters pays what the function called with those parameters
        # pays - zero is a value like any other
        for nm, kw in (('reach_exit', dict(reward_on=0.0, reward_off=-1.0)), ('reach_exit', dict(reward_on=2.0, reward_off=0.0)),
                       ('living_reward', dict(reward=0.0)), ('bump_into_wall', dict(reward=0.0)), ('bump_moving_obstacle', dict(reward=0.0)),
                       ('bump_into_wall', dict(reward=-1.5))):
            try:
                got = rf.factory(nm, **kw)(s, a, s2)
                exp = rf.reward_function_registry[nm](s, a, s2, **kw)
            except Exception as e:
                out.append(V('factory/component-by-name-raises', f'{nm} {kw}: {type(e).__name__}'))
                continue
            if got != exp:
                out.append(V('factory/component-by-name-pays-differently', f'{nm} {kw}: {got} instead of {exp}'))
        return out



OBS_SHORT = {'ft': 'fully_transparent', 'po': 'partially_occluded', 'rt': 'raytracing', 'srt': 'stochastic_raytracing'}


def obs_case_from_line(line):
    t = line.split()
    if not t or t[0] != 'obs':
        return None
    try:
        st, j = dec_state(t, 2)
        area = [int(x) for x in t[j : j + 4]]
        return {'kind': 'obs', 'which': OBS_SHORT[t[1]], 'state': ' '.join(t[2:j]), 'area': area, 'seed': 0}
    except Exception:
        return None


def gen_obs_cases(rng, whichs=('fully_transparent', 'partially_occluded', 'raytracing', 'stochastic_raytracing'), lim=3):
    from harness.corr_obs import rand_area

    while True:
        which = rng.choice(whichs)
        area = rand_area(rng, lim=lim, force_bottom=(which == 'partially_occluded'), contains_origin=(which in ('raytracing', 'stochastic_raytracing')))
        if rng.random() < 0.3:
            # boundary views: the agent in the first or last column (or row) of its view, in a world large
            # enough to hold the whole view, with a varying density of walls
            if rng.random() < 0.5:
                area = Area((area.ymin, area.ymax), (0, max(area.xmax, 1)) if rng.random() < 0.5 else (min(area.xmin, -1), 0))
            elif which != 'partially_occluded':
                area = Area((0, max(area.ymax, 1)) if rng.random() < 0.5 else (min(area.ymin, -1), 0), (area.xmin, area.xmax))
            s = gen.random_state(rng, min_h=3, min_w=3, max_h=6, max_w=6, p_floor=rng.choice((0.3, 0.45, 0.6, 0.75)), p_wall_border=0.2)
        else:
            s = gen.random_state(rng, max_h=5, max_w=5, p_floor=0.55)
        yield {'kind': 'obs', 'which': which, 'state': enc_state(s), 'area': [area.ymin, area.ymax, area.xmin, area.xmax], 'seed': rng.randrange(2**32)}


def real_obs(which, s, area, seed=0, rng=None):
    import numpy as np
    from gym_gridverse.envs import observation_functions as of

    return of.observation_function_registry[which](s, area=area, rng=rng if rng is not None else np.random.default_rng(seed))


class C05(Oracle):
    prop = 'C05'

    def gen(self, rng):
        return gen_obs_cases(rng)

    def from_line(self, line):
        return obs_case_from_line(line)

    def check(self, c):
        import numpy as np
        from gym_gridverse.envs import observation_functions as of

        s = state_from_str(c['state'])
        a = c['area']
        area = Area((a[0], a[1]), (a[2], a[3]))
        out = self._one(c, c['which'], s, area, lambda: real_obs(c['which'], s, area, c['seed']))
        if out:
            return out
        # the same state object after a caller did things to it (rejected writes outside the grid, doors set
        # in place, a cell replaced): observed as the freshly built equal state is
        try:
            done = world_with_a_past(s, random.Random(c['seed']))
            got = enc_state(real_obs(c['which'], s, area, c['seed']))
            exp = enc_state(real_obs(c['which'], state_from_str(enc_state(s)), area, c['seed']))
            if got != exp:
                return [V('observation/shows-wrong-object', f'{c} (a state already observed, then: {"; ".join(done)}): {got} instead of {exp}')]
            c = dict(c, state=enc_state(s))
        except (NotImplementedError, ValueError):
            pass
        # an observation is a value of its own: one that was handed out earlier is not changed by observing
        # another state later (same view, the agent holding something else, standing elsewhere)
        try:
            from harness.codec import dec_obj

            first = real_obs(c['which'], s, area, c['seed'])
            snap = enc_state(first)
            other = state_from_str(c['state'])
            other.agent.grid_object = dec_obj('K3' if enc_held(other) != 'K3' else 'N')
            other.agent.orientation = other.agent.orientation * O.R
            second = real_obs(c['which'], other, area, c['seed'])
            if enc_state(first) != snap:
                out.append(V('observation/earlier-observation-changed-by-a-later-one', f'{c}: {snap} -> {enc_state(first)}'))
            if out:
                return out
        except (NotImplementedError, ValueError):
            pass
        # the same state object again, through the other functions: what an earlier call computed (or
        # masked) must not show in a later one
        out = self._one(c, 'fully_transparent', s, area, lambda: real_obs('fully_transparent', s, area, c['seed']), tag=' (after an earlier observation of the same state object)')
        if out:
            return out
        # a function obtained by name, used on this state and then on an equal state made of other objects
        # (equality ignores what a Box contains): each observation shows the objects of its own state
        try:
            f = of.factory(c['which'], area=area)
        except Exception as e:
            return [V('observation/factory-raises', f'{type(e).__name__} {c}')]
        out = self._one(c, c['which'], s, area, lambda: f(s, rng=np.random.default_rng(c['seed'])), tag=' (function obtained by name)')
        s2 = state_from_str(c['state'])
        out += self._one(c, c['which'], s2, area, lambda: f(s2, rng=np.random.default_rng(c['seed'])), tag=' (function obtained by name, second equal state)')
        if enc_state(s) != c['state']:
            out.append(V('observation/modifies-state', f'{c}'))
        if not out and c['which'] != 'stochastic_raytracing' and area.width % 2 == 1:
            out += self._through_env(c, area)
        return out

    def _through_env(self, c, area):
        """the functional observation of an environment, asked about the environment's own current state
        object after that object has been read and then changed in place (a user may drive the in-place
        transition functions on `env.state`): it is the observation of the state as it is now"""
        from gym_gridverse.envs import transition_functions as trf

        rr = random.Random(c['seed'])
        try:
            env = custom_env({'state': c['state'], 'area': c['area'], 'obs': c['which'], 'trans': ['move_agent', 'turn_agent']})
        except Exception:
            return []
        env.set_seed(c['seed'])
        try:
            env.reset()
            _ = env.observation
        except Exception:
            return []
        s = env.state
        for _ in range(rr.randint(1, 3)):
            a = rr.choice(ACTIONS[:6])
            trf.move_agent(s, a)
            trf.turn_agent(s, a)
        return self._one(c, c['which'], s, area, lambda: env.functional_observation(s), tag=' (functional_observation of the environment on its current state object, changed in place after a read)')

    @staticmethod
    def _one(c, which, s, area, call, tag=''):
        from gym_gridverse.grid_object import Hidden

        out = []
        try:
            o = call()
        except NotImplementedError:
            if which == 'partially_occluded' and area.ymax != 0:
                return out
            return [V('observation/raises', f'{c}{tag}')]
        except ValueError:
            pov = Position(-area.ymin, -area.xmin)
            if which in ('raytracing', 'stochastic_raytracing') and not (0 <= pov.y < area.height and 0 <= pov.x < area.width):
                return out
            return [V('observation/raises', f'{c}{tag}')]
        except Exception as e:
            return [V('observation/raises', f'{type(e).__name__} {c}{tag}')]
        if o.grid.shape.as_tuple != (area.height, area.width):
            out.append(V('observation/shape', f'{c}{tag}'))
            return out
        t = s.agent.transform
        for i in range(area.height):
            for j in range(area.width):
                wp = t * Position(i + area.ymin, j + area.xmin)
                cell = o.grid[i, j]
                inside = in_grid(s.grid, wp)
                if not inside:
                    if not isinstance(cell, Hidden):
                        out.append(V('observation/outside-grid-not-hidden', f'{c} cell {(i, j)}{tag}'))
                elif not isinstance(cell, Hidden):
                    if cell is not s.grid[wp]:
                        out.append(V('observation/shows-wrong-object', f'{c} cell {(i, j)} world {wp}{tag}'))
                elif which == 'fully_transparent' and not isinstance(s.grid[wp], Hidden):
                    out.append(V('observation/transparent-hides-cell', f'{c} cell {(i, j)}{tag}'))
        if o.agent.position != Position(-area.ymin, -area.xmin) or o.agent.orientation != O.F:
            out.append(V('observation/agent-pose', f'{c}{tag}'))
        if o.agent.grid_object is not s.agent.grid_object:
            out.append(V('observation/held-item', f'{c}{tag}'))
        return out


def rot_world(s, k):
    """the world rotated by k: library grid product, agent carried along"""
    from gym_gridverse.agent import Agent
    from gym_gridverse.state import State

    g = s.grid
    h, w = g.shape.height, g.shape.width
    p = s.agent.position
    rho = {O.F: Position(p.y, p.x), O.R: Position(w - 1 - p.x, p.y), O.B: Position(h - 1 - p.y, w - 1 - p.x), O.L: Position(p.x, h - 1 - p.y)}[k]
    return State(g * k, Agent(rho, (-k) * s.agent.orientation, s.agent.grid_object))


def world_with_a_past(s, rr):
    """things a caller may have done to a world object that was already looked at, all of which leave (or
    put) it in a well-defined value: writes just outside the grid (rejected with IndexError, nothing
    changes), door statuses changed in place (as actuate_door does), a cell replaced.  Returns a
    description of what was done."""
    from gym_gridverse.grid_object import Door, Floor, Key, Color

    done = []
    h, w = s.grid.shape.height, s.grid.shape.width
    for pos_ in (Position(h, rr.randrange(w)), Position(rr.randrange(h), w), Position(h, w), Position(h + 1, rr.randrange(w))):
        try:
            s.grid[pos_] = Key(Color.RED)
            done.append(f'write at {pos_.yx} accepted')
        except IndexError:
            done.append(f'write at {pos_.yx} rejected')
    doors = [p for p in s.grid.area.positions() if type(s.grid[p]) is Door]
    for p in doors:
        if rr.random() < 0.7:
            d = s.grid[p]
            d.state = rr.choice([x for x in Door.Status if x is not d.state])
            done.append(f'door at {p.yx} set to {d.state.name} in place')
    if rr.random() < 0.5:
        p = Position(rr.randrange(h), rr.randrange(w))
        s.grid[p] = rr.choice([Floor(), Door(Door.Status.CLOSED, Color.BLUE), Key(Color.GREEN)])
        done.append(f'cell {p.yx} replaced by {s.grid[p]!r}')
    return done


class C07(Oracle):
    prop = 'C07'

    def gen(self, rng):
        g0 = gen_obs_cases(rng, whichs=('fully_transparent', 'partially_occluded', 'raytracing'))
        while True:
            c = next(g0)
            c['k'] = ORIENT_TOK[rng.choice(ORIENTS)]
            yield c

    def from_line(self, line):
        c = obs_case_from_line(line)
        if c is None or c['which'] == 'stochastic_raytracing':
            return None
        c['k'] = 'R'
        return c

    def check(self, c):
        out = []
        s = state_from_str(c['state'])
        a = c['area']
        area = Area((a[0], a[1]), (a[2], a[3]))
        ks = [TOK_ORIENT[c['k']]] if c.get('k') else ORIENTS
        for k in ks:
            s2 = rot_world(s, k)
            # sanity of the rotated world itself (object identities)
            p = s.agent.position
            if in_grid(s.grid, p) and s2.grid[s2.agent.position] is not s.grid[p]:
                out.append(V('rotworld/ill-defined', f'{c} k={k}'))
                continue
            r1 = r2 = None
            try:
                r1 = enc_state(real_obs(c['which'], s, area))
            except Exception as e:
                r1 = 'ERR ' + type(e).__name__
            try:
                r2 = enc_state(real_obs(c['which'], s2, area))
            except Exception as e:
                r2 = 'ERR ' + type(e).__name__
            if r1 != r2:
                out.append(V('observation/not-rotation-invariant', f'{c} k={k}: {r1} vs {r2}'))
        if out or not in_grid(s.grid, s.agent.position):
            return out
        # the same world object, already observed above, after a caller did things to it: it is observed like
        # the freshly built rotated copy of what it is now
        done = world_with_a_past(s, random.Random(len(c['state']) + a[0] * 7 + a[3]))
        fresh = state_from_str(enc_state(s))
        for k in ks:
            s2 = rot_world(fresh, k)
            try:
                r1 = enc_state(real_obs(c['which'], s, area))
            except Exception as e:
                r1 = 'ERR ' + type(e).__name__
            try:
                r2 = enc_state(real_obs(c['which'], s2, area))
            except Exception as e:
                r2 = 'ERR ' + type(e).__name__
            if r1 != r2:
                out.append(V('observation/not-rotation-invariant', f'{c} k={k} (a world already observed, then: {"; ".join(done)}): {r1} vs {r2}'))
        return out


class C06(Oracle):
    prop = 'C06'

    #: opaque cell kinds used by the opacity patterns (a wall, a closed door, a locked door)
    OPAQUE = ('W', 'D11', 'D22')

    def _pattern_case(self, rng):
        """an opacity pattern of a small view: the world IS the view (agent facing north at the point of
        view), every cell either transparent or opaque, for every position of the agent in the view
        (first/last column and row included).  Sampled uniformly from all (shape, point of view, pattern)
        with at most 12 cells; the thorough tier draws enough to cover most of that space."""
        which = rng.choice(('partially_occluded', 'raytracing'))
        while True:
            H, W = rng.randint(1, 4), rng.randint(1, 4)
            if H * W <= 12:
                break
        py = H - 1 if which == 'partially_occluded' else rng.randrange(H)
        px = rng.randrange(W)
        bits = rng.getrandbits(H * W)
        if rng.random() < 0.3:
            bits |= rng.getrandbits(H * W)  # denser walls
        cells = {}
        for i in range(H):
            for j in range(W):
                if (bits >> (i * W + j)) & 1 and (i, j) != (py, px):
                    cells[(i, j)] = rng.choice(self.OPAQUE)
                elif rng.random() < 0.15:
                    cells[(i, j)] = rng.choice(('K1', 'E0', 'D03', 'T2'))
        s = gen.mk_state(H, W, cells, py, px, gen.ORIENTS[0])
        return {'kind': 'obs', 'which': which, 'state': enc_state(s), 'area': [-py, H - 1 - py, -px, W - 1 - px], 'seed': 0, 'pattern': True}

    def gen(self, rng):
        g0 = gen_obs_cases(rng, whichs=('partially_occluded', 'raytracing', 'stochastic_raytracing'))
        while True:
            c = self._pattern_case(rng) if rng.random() < 0.3 else next(g0)
            c['pick'] = rng.randrange(10**6)
            c['repl'] = rng.choice(gen.ALPHABET_FULL)
            yield c

    def from_line(self, line):
        c = obs_case_from_line(line)
        if c is None or c['which'] == 'fully_transparent':
            return None
        c['pick'] = 0
        c['repl'] = 'W'
        return c

    def check(self, c):
        from gym_gridverse.grid_object import Floor, Hidden
        from harness.codec import dec_obj
        from harness.recrng import ScriptRng

        out = []
        s = state_from_str(c['state'])
        a = c['area']
        area = Area((a[0], a[1]), (a[2], a[3]))
        if not in_grid(s.grid, s.agent.position):
            return out
        which = c['which']
        t = s.agent.transform
        H, W = area.height, area.width
        if which == 'stochastic_raytracing':
            from harness.corr_obs import counts, rays_for

            rays = rays_for(area)
            if rays is None:
                return out
            try:
                det = real_obs('raytracing', s, area)
                lo = real_obs(which, s, area, rng=ScriptRng([0] * (H * W)))
                hi = real_obs(which, s, area, rng=ScriptRng([2**53 - 1] * (H * W)))
                rnd = real_obs(which, s, area, c['seed'])
            except Exception as e:
                return [V('stochastic_raytracing/raises', f'{type(e).__name__} {c}')]
            view = s.grid.subgrid(t * area) * s.agent.orientation
            num, den = counts(view, rays)
            for i in range(H):
                for j in range(W):
                    for name, o in (('zero-draw', lo), ('max-draw', hi), ('random', rnd)):
                        if not isinstance(o.grid[i, j], Hidden) and isinstance(det.grid[i, j], Hidden):
                            out.append(V('stochastic_raytracing/shows-never-lit-cell', f'{c} cell {(i, j)} ({name})'))
                    if num[i, j] == den[i, j] and den[i, j] > 0 and not isinstance(view[i, j], Hidden):
                        for name, o in (('zero-draw', lo), ('max-draw', hi), ('random', rnd)):
                            if isinstance(o.grid[i, j], Hidden):
                                out.append(V('stochastic_raytracing/hides-always-lit-cell', f'{c} cell {(i, j)} ({name})'))
            return out
        pov = Position(-area.ymin, -area.xmin)
        if 0 <= pov.y < H and 0 <= pov.x < W:
            # a request that fails half-way (a view of the same shape holding something that is not a grid
            # object) comes first: it leaves nothing behind for the valid request that follows
            try:
                from gym_gridverse.envs import visibility_functions as vf_
                from gym_gridverse.grid import Grid

                bad = Grid([[Floor() for _ in range(W)] for _ in range(H)])
                bad.objects[0 if pov.y else H - 1][0 if pov.x else W - 1] = object()
                vf_.visibility_function_registry['raytracing' if which != 'partially_occluded' else which](bad, pov)
            except Exception:
                pass
        try:
            o = real_obs(which, s, area)
        except (NotImplementedError, ValueError):
            return out
        except Exception as e:
            if not (0 <= pov.y < H and 0 <= pov.x < W):
                return out  # the agent is outside its own view: the property says nothing
            return [V(f'{which}/raises', f'{type(e).__name__}: {e} {c}')]
        if not (0 <= pov.y < H and 0 <= pov.x < W):
            return out
        vis = [[not isinstance(o.grid[i, j], Hidden) for j in range(W)] for i in range(H)]
        view = s.grid.subgrid(t * area) * s.agent.orientation
        # self-visible (the own cell holds a world object, so it is shown as such)
        if not vis[pov.y][pov.x] and not isinstance(view[pov], Hidden):
            out.append(V(f'{which}/own-cell-hidden', f'{c}'))
        # chain: flood over visible transparent cells (8-adjacency) reaches every visible cell
        seen = {(pov.y, pov.x)}
        stack = [(pov.y, pov.x)]
        while stack:
            y, x = stack.pop()
            if view[y, x].blocks_vision:
                continue
            for dy in (-1, 0, 1):
                for dx in (-1, 0, 1):
                    q = (y + dy, x + dx)
                    if 0 <= q[0] < H and 0 <= q[1] < W and q not in seen and vis[q[0]][q[1]]:
                        seen.add(q)
                        stack.append(q)
        for i in range(H):
            for j in range(W):
                if vis[i][j] and (i, j) not in seen and not isinstance(view[i, j], Hidden):
                    out.append(V(f'{which}/visible-cell-not-linked', f'{c} cell {(i, j)}'))
        # non-interference: replace a hidden / out-of-view world cell
        gh, gw = s.grid.shape.height, s.grid.shape.width
        inview = {}
        for i in range(H):
            for j in range(W):
                wp = t * Position(i + area.ymin, j + area.xmin)
                inview[wp.yx] = (i, j)
        cands = [p for p in s.grid.area.positions() if p.yx not in inview or not vis[inview[p.yx][0]][inview[p.yx][1]]]
        if cands:
            p = cands[c['pick'] % len(cands)]
            s2 = fast_copy(s)
            s2.grid[p] = dec_obj(c['repl'])
            try:
                o2 = real_obs(which, s2, area)
                if enc_state(o2) != enc_state(o):
                    out.append(V(f'{which}/hidden-cell-interferes', f'{c} world cell {p} -> {c["repl"]}'))
            except Exception as e:
                out.append(V(f'{which}/hidden-cell-interferes', f'{c} world cell {p}: {type(e).__name__}'))
        # monotonicity: make a visible opaque cell transparent
        opq = [(i, j) for i in range(H) for j in range(W) if vis[i][j] and view[i, j].blocks_vision and (i, j) != (pov.y, pov.x)]
        if opq:
            i, j = opq[c['pick'] % len(opq)]
            wp = t * Position(i + area.ymin, j + area.xmin)
            s2 = fast_copy(s)
            s2.grid[wp] = Floor()
            o2 = real_obs(which, s2, area)
            for y in range(H):
                for x in range(W):
                    if vis[y][x] and isinstance(o2.grid[y, x], Hidden) and not isinstance(view[y, x], Hidden):
                        out.append(V(f'{which}/not-monotone', f'{c} opening {(i, j)} hides {(y, x)}'))
        if out:
            return out
        # a world with a past: the same world object, already observed above, is looked at from other poses;
        # a cell reported Hidden there is replaced in place: the observation does not change
        rr = random.Random(c['pick'])
        for _ in range(2):
            s.agent.position = Position(rr.randrange(gh), rr.randrange(gw))
            s.agent.orientation = rr.choice(gen.ORIENTS)
            try:
                ob = real_obs(which, s, area)
            except Exception:
                continue
            ref = enc_state(ob)
            tb = s.agent.transform
            hidden = []
            for i in range(H):
                for j in range(W):
                    wp = tb * Position(i + area.ymin, j + area.xmin)
                    if isinstance(ob.grid[i, j], Hidden) and in_grid(s.grid, wp):
                        hidden.append(wp)
            if not hidden:
                continue
            wp = hidden[rr.randrange(len(hidden))]
            original = s.grid[wp]
            for tok in (c['repl'], 'F', 'W', 'K4'):
                s.grid[wp] = dec_obj(tok)
                try:
                    changed = enc_state(real_obs(which, s, area)) != ref
                except Exception:
                    changed = True
                s.grid[wp] = original
                if changed:
                    out.append(V(f'{which}/hidden-cell-interferes', f'{c}: the same world seen again from {s.agent.position} {s.agent.orientation.name}: world cell {wp} is reported Hidden, replacing it in place with {tok} changes the observation'))
                    return out
        return out



_ENV_CACHE = {}


def shipped_files():
    import glob
    import os

    return sorted(glob.glob(os.path.join(gvenv.REPO, 'yaml', '*.yaml')))


def load_cfg(path):
    from harness import miniyaml

    with open(path) as f:
        return miniyaml.safe_load(f)


def build_env(cfg_key, data=None):
    """fresh GridWorld from a shipped file name or an explicit configuration dict"""
    import copy
    from gym_gridverse.envs.yaml.factory import factory_env_from_data

    if data is None:
        data = load_cfg(cfg_key)
    return factory_env_from_data(copy.deepcopy(data))


def gen_env_cases(rng, p_random=0.4):
    from harness import corr_env

    files = shipped_files()
    while True:
        if rng.random() < p_random:
            data = corr_env.random_config(rng, stochastic_obs=0.25)
            src = {'config': data}
            nact = len(data.get('action_space') or ACTIONS)
        else:
            f = rng.choice(files)
            src = {'file': f}
            d = load_cfg(f)
            nact = len(d.get('action_space') or ACTIONS)
        n = rng.randint(3, 40)
        acts = [rng.randrange(nact) for _ in range(n)]
        reads = [rng.choice(['', 'o', 'oo', 's', 'os', 'r', 'b'] if rng.random() < 0.3 else ['', 'o', 'oo', 's', 'os', 'r']) for _ in range(n)]
        # seed 0 is a seed like any other (a boundary value: it is falsy)
        yield dict(kind='env', seed=0 if rng.random() < 0.12 else rng.randrange(2**31), actions=acts, reads=reads, **src)


def custom_env(cu):
    """an environment assembled by hand around a *user-supplied* reset function (it returns a fresh copy of
    a given state: borderless rooms, the agent on an edge, any heading) - what a user of the library may
    do, and what reaches poses no built-in layout contains (e.g. a view that is exactly the whole grid)"""
    import functools
    from gym_gridverse.envs import observation_functions as of
    from gym_gridverse.envs import reward_functions as rf
    from gym_gridverse.envs import terminating_functions as tf
    from gym_gridverse.envs import transition_functions as trf
    from gym_gridverse.envs.gridworld import GridWorld
    from gym_gridverse.geometry import Shape
    from gym_gridverse.grid_object import Color, Hidden, grid_object_registry
    from gym_gridverse.spaces import ActionSpace, ObservationSpace, StateSpace

    s0 = cu['state']

    def reset(*, rng=None):
        return state_from_str(s0)

    y0, y1, x0, x1 = cu['area']
    area = Area((y0, y1), (x0, x1))
    st = state_from_str(s0)
    h, w = st.grid.shape.as_tuple
    kinds = [k for k in grid_object_registry if k.__name__ not in ('NoneGridObject', 'Hidden')]
    if cu.get('representable'):
        kinds = [k for k in kinds if k.can_be_represented_in_state()]
    if cu.get('kinds'):
        kinds = [k for k in kinds if k.__name__ in cu['kinds']]
    chain = functools.partial(trf.chain, transition_functions=[trf.transition_function_registry[n] for n in cu['trans']])
    rewards = [functools.partial(rf.living_reward, reward=-0.5), functools.partial(rf.reach_exit, reward_on=5.0, reward_off=0.0),
               functools.partial(rf.bump_into_wall, reward=-1.0)]
    return GridWorld(
        StateSpace(Shape(h, w), kinds, list(Color)),
        ActionSpace(list(ACTIONS)),
        ObservationSpace(Shape(area.height, area.width), kinds + [Hidden], list(Color)),
        reset,
        chain,
        functools.partial(of.observation_function_registry[cu['obs']], area=area),
        functools.partial(rf.reduce_sum, reward_functions=rewards),
        tf.reach_exit,
    )


def gen_custom_env_case(rng):
    """a user-reset environment; half of the time the view is exactly the whole grid"""
    for _ in range(50):
        s = gen.valid_random_state(rng, max_h=5, max_w=5, min_h=2, min_w=3, p_floor=0.6, p_wall_border=0.1, helds=['N', 'N', 'K1', 'K4'])
        h, w = s.grid.shape.as_tuple
        if w % 2 == 0:
            continue
        if rng.random() < 0.5:
            from gym_gridverse.grid_object import Floor

            y, x = rng.randrange(h), (w - 1) // 2
            s.agent.position = Position(y, x)
            s.agent.orientation = O.F if rng.random() < 0.7 else rng.choice(ORIENTS)
            if s.grid[s.agent.position].blocks_movement:
                s.grid[s.agent.position] = Floor()
            area = [-y, h - 1 - y, -x, x]
        else:
            hw = rng.randint(0, 2)
            area = [-rng.randint(0, 4), rng.choice([0, 0, 1, 2]), -hw, hw]
        if area[1] == 0:
            obs = rng.choice(['fully_transparent', 'partially_occluded', 'raytracing'])
        else:
            obs = rng.choice(['fully_transparent', 'raytracing'])
        trans = rng.choice([['move_agent', 'turn_agent'], ['turn_agent', 'move_agent', 'actuate_door', 'pickndrop'], ['move_agent', 'turn_agent', 'move_obstacles']])
        n = rng.randint(3, 25)
        return dict(kind='env', seed=0 if rng.random() < 0.12 else rng.randrange(2**31), actions=[rng.randrange(8) for _ in range(n)],
                    reads=[rng.choice(['', 'o', 'oo', 's', 'os', 'o', 'so']) for _ in range(n)],
                    custom={'state': enc_state(s), 'area': area, 'obs': obs, 'trans': trans})
    return None


def env_of_case(c):
    if 'custom' in c:
        return custom_env(c['custom'])
    return build_env(c.get('file'), c.get('config'))


def obs_eq(a, b):
    return enc_state(a) == enc_state(b)


class C04(Oracle):
    prop = 'C04'

    def gen(self, rng):
        g = gen_env_cases(rng)
        k = 0
        while True:
            k += 1
            c = gen_custom_env_case(rng) if k % 3 == 0 else None
            yield c if c is not None else next(g)

    def check(self, c):
        import numpy as np

        out = []
        env = env_of_case(c)
        ref = env_of_case(c)
        acts = env.action_space.actions
        # before the first reset
        for name, f in (('state', lambda: env.state), ('observation', lambda: env.observation), ('step', lambda: env.step(acts[0]))):
            try:
                f()
                out.append(V('stateful/no-error-before-reset', f'{name} {c.get("file")}'))
            except RuntimeError:
                pass
            except Exception as e:
                out.append(V('stateful/wrong-error-before-reset', f'{name}: {type(e).__name__}'))
        env.set_seed(c['seed'])
        ref.set_seed(c['seed'])
        env.reset()
        s = ref.functional_reset()
        if not obs_eq(env.state, s):
            out.append(V('stateful/reset-differs-from-functional', f'{c.get("file")} seed={c["seed"]}'))
            return out
        deterministic_obs = True
        for k, (ai, rd) in enumerate(zip(c['actions'], c['reads'])):
            a = acts[ai]
            for ch in rd:
                if ch == 'o':
                    before = env._rng.bit_generator.state
                    had = env._observation is not None
                    st_before = enc_state(env.state)
                    o1 = env.observation
                    mid = env._rng.bit_generator.state
                    o2 = env.observation
                    if enc_state(env.state) != st_before:
                        out.append(V('stateful/reading-the-observation-changes-the-state', f'{c.get("file", "user-reset environment")} step {k}: {st_before} -> {enc_state(env.state)}'))
                        return out
                    if o2 is not o1:
                        out.append(V('stateful/observation-recomputed', f'step {k}'))
                    if env._rng.bit_generator.state != mid or (had and mid != before):
                        out.append(V('stateful/observation-read-consumes-randomness', f'step {k}'))
                    # freshness: it is the observation of the current state
                    ref._rng.bit_generator.state = before if not had else ref._rng.bit_generator.state
                    s_enc = enc_state(s)
                    exp = ref.functional_observation(s) if not had else None
                    if enc_state(s) != s_enc:
                        out.append(V('functional/observation-changes-the-state', f'{c.get("file", "user-reset environment")} step {k}'))
                        return out
                    if exp is not None and not obs_eq(o1, exp):
                        out.append(V('stateful/stale-or-wrong-observation', f'{c.get("file")} step {k}'))
                    if exp is not None:
                        ref._rng.bit_generator.state = env._rng.bit_generator.state
                elif ch == 's':
                    if not obs_eq(env.state, s):
                        out.append(V('stateful/state-differs', f'step {k}'))
                elif ch == 'r':
                    env.reset()
                    s = ref.functional_reset()
                elif ch == 'b':
                    # a look-ahead branch: a deep copy of the environment is driven on its own (steps, a reset);
                    # the original goes on as if nothing had happened
                    import copy

                    try:
                        br = copy.deepcopy(env)
                        for j in range(3):
                            _, db = br.step(acts[(ai + j) % len(acts)])
                            br.observation
                            if db or j == 1:
                                br.reset()
                    except Exception:
                        pass
            err1 = err2 = None
            try:
                r, d = env.step(a)
            except Exception as e:
                err1 = e
            try:
                s2, r2, d2 = ref.functional_step(s, a)
            except Exception as e:
                err2 = e
            if err1 is not None or err2 is not None:
                if type(err1) is not type(err2):
                    out.append(V('stateful/step-raises-differently-from-functional', f'{c.get("file", "user-reset environment")} step {k}: stateful {type(err1).__name__}, functional {type(err2).__name__} ({err1 or err2})'))
                return out
            if not obs_eq(env.state, s2) or r != r2 or d != d2:
                out.append(V('stateful/step-differs-from-functional', f'{c.get("file")} step {k}: {r} {d} vs {r2} {d2}'))
                return out
            if env._observation is not None:
                out.append(V('stateful/observation-not-invalidated', f'step {k}'))
            s = s2
            if d:
                env.reset()
                s = ref.functional_reset()
        out.extend(self._outer(c))
        if not out and 'custom' in c:
            out.extend(self._odd_reward(c))
        return out

    def _odd_reward(self, c):
        """an environment of the user's whose reward function answers with something that is no number for one
        action (a branch that forgot its return): whether the step then raises or not, the observation read
        afterwards is the observation of the state the environment is in"""
        out = []
        try:
            env = custom_env(c['custom'])
        except Exception:
            return out
        orig = env._reward_function
        odd = ACTIONS[c['seed'] % 6]
        env._reward_function = lambda s, a, s2, rng=None: None if a is odd else orig(s, a, s2, rng=rng)
        env.set_seed(c['seed'])
        env.reset()
        for k, ai in enumerate([odd.value] + list(c['actions'][:6]) + [odd.value]):
            try:
                env.observation
                env.step(ACTIONS[ai])
            except Exception:
                pass
            try:
                if not obs_eq(env.observation, env.functional_observation(env.state)):
                    out.append(V('stateful/stale-or-wrong-observation', f'user-reset environment {c["custom"]} whose reward is None for {odd.name}: after step {k} ({ACTIONS[ai].name}) the observation is not that of the current state'))
                    break
            except Exception:
                break
        return out

    def _outer(self, c):
        """the numeric shell: at every point of a history of reset / step / reads, OuterEnv's state
        and observation are the conversions of the inner environment's current ones"""
        import numpy as np
        from gym_gridverse.outer_env import OuterEnv
        from gym_gridverse.representations.observation_representations import make_observation_representation
        from gym_gridverse.representations.state_representations import make_state_representation

        out = []
        try:
            inner = env_of_case(c)
            srep = make_state_representation('default', inner.state_space)
            orep = make_observation_representation('default', inner.observation_space)
        except Exception:
            return out
        outer = OuterEnv(inner, state_representation=srep, observation_representation=orep)
        acts = inner.action_space.actions
        inner.set_seed(c['seed'])
        # a second, independent numeric environment of the same description, used in between: what one
        # instance shows must never depend on another instance
        inner2 = env_of_case(c)
        outer2 = OuterEnv(inner2, state_representation=make_state_representation('default', inner2.state_space), observation_representation=make_observation_representation('default', inner2.observation_space))
        inner2.set_seed(c['seed'] + 7)
        outer2.reset()
        for a in list(inner2.action_space.actions)[:3]:
            outer2.step(a)
        _ = (outer2.state, outer2.observation)
        for what in ('state', 'observation'):
            try:
                getattr(outer, what)
                out.append(V('outer/read-before-reset-does-not-raise', f'{what} of a never-reset environment (another instance had been used)'))
            except RuntimeError:
                pass
            except Exception as e:
                out.append(V('outer/read-before-reset-wrong-error', f'{what}: {type(e).__name__}'))

        def same(a, b):
            return a.keys() == b.keys() and all(np.array_equal(a[k], b[k]) for k in a)

        def probe(where):
            try:
                o2, s2_ = outer2.observation, outer2.state
                if not same(o2, outer2.observation_representation.convert(inner2.observation)) or not same(s2_, outer2.state_representation.convert(inner2.state)):
                    out.append(V('outer/other-instance-not-current', f'{c.get("file", "random composition")} seed={c["seed"]} {where}'))
                o = outer.observation
                exp = orep.convert(inner.observation)
                if not same(o, exp):
                    out.append(V('outer/observation-not-current', f'{c.get("file", "random composition")} seed={c["seed"]} {where}'))
                st = outer.state
                if not same(st, srep.convert(inner.state)):
                    out.append(V('outer/state-not-current', f'{c.get("file", "random composition")} seed={c["seed"]} {where}'))
            except Exception as e:
                out.append(V('outer/read-raises', f'{type(e).__name__}: {e} {where}'))

        def switch_and_scribble(where):
            # between two reads of the same inner state: the caller scribbles over the arrays it was handed,
            # and the representations are replaced (as the gym adapter's set_*_representation does); the next
            # read is the conversion, by the representation in force, of the inner state as it is
            nonlocal srep, orep
            try:
                for d_ in (outer.observation, outer.state):
                    for v_ in d_.values():
                        if isinstance(v_, np.ndarray) and v_.size:
                            v_.fill(-7)
                if (c['seed'] + len(where)) % 2 == 0:
                    name = ('default', 'no-overlap', 'compact')[(c['seed'] + len(where)) % 3]
                    srep = make_state_representation(name, inner.state_space)
                    orep = make_observation_representation(name, inner.observation_space)
                    outer.state_representation = srep
                    outer.observation_representation = orep
            except Exception as e:
                out.append(V('outer/read-raises', f'{type(e).__name__}: {e} {where}'))
            probe(where + ' (after the caller overwrote the returned arrays / replaced the representations)')

        outer.reset()
        probe('after reset')
        switch_and_scribble('after reset')
        for k, (ai, rd) in enumerate(zip(c['actions'], c['reads'])):
            if 'o' in rd or 's' in rd:
                probe(f'before step {k}')
                if k % 3 == 1:
                    switch_and_scribble(f'before step {k}')
            if 'r' in rd:
                outer.reset()
                probe(f'after reset before step {k}')
            try:
                _, d = outer.step(acts[ai])
            except Exception:
                return out
            if k % 2 == 0 or d:
                probe(f'after step {k}')
            if k % 5 == 3:
                outer2.step(inner2.action_space.actions[ai % len(inner2.action_space.actions)])
                probe(f'after a step of the other instance at {k}')
            if k % 7 == 4 and not d:
                # the inner environment is the user's too: driving it directly must show through
                try:
                    _, d = inner.step(acts[ai])
                except Exception:
                    return out
                probe(f'after a direct inner step at {k}')
            if d:
                outer.reset()
                probe(f'after reset following termination at step {k}')
        return out


class C20(Oracle):
    prop = 'C20'

    def gen(self, rng):
        g = gen_env_cases(rng, p_random=0.3)
        while True:
            c = next(g)
            c['enc'] = rng.choice(['default', 'no-overlap', 'compact'])
            c['mode'] = rng.choice(['make', 'direct', 'state'])
            if 'config' in c:
                # a composition no file describes (non-square grids among them), wrapped directly
                c['mode'] = rng.choice(['direct', 'state'])
                c['reads'] = [r.replace('b', '') for r in c['reads']]
            # another environment lives in the same process and was used first: the same description with
            # another colour set of the same extent
            c['decoy'] = rng.random() < 0.5
            if rng.random() < 0.15:
                # a user-reset world (wide or tall, no border wall, the agent anywhere) behind the adapter
                hh, ww = rng.choice([(2, rng.randint(4, 12)), (rng.randint(4, 12), 2), (3, 9), (9, 3), (rng.randint(2, 6), rng.randint(2, 6))])
                st = gen.mk_state(hh, ww, {(rng.randrange(hh), rng.randrange(ww)): rng.choice(['W', 'K1', 'E0', 'D11'])}, 0, 0, rng.choice(gen.ORIENTS))
                free = [p for p in st.grid.area.positions() if not blocks(st.grid[p])]
                st.agent.position = rng.choice(free) if rng.random() < 0.5 else max(free, key=lambda p: (p.x, p.y) if ww > hh else (p.y, p.x))
                yield {'kind': 'customgym', 'custom': {'state': enc_state(st), 'area': [-2, 0, -1, 1], 'obs': 'fully_transparent', 'trans': ['move_agent', 'turn_agent'], 'representable': True},
                       'seed': rng.randrange(2**31), 'actions': [rng.randrange(6) for _ in range(rng.randint(2, 12))], 'enc': c['enc']}
            # keep stepping after a terminal step (the adapter forwards every step) in half of the cases
            c['noreset'] = rng.random() < 0.5
            if rng.random() < 0.5:
                # resets in a row (episodes of length zero), right at the start and in mid-episode
                c['extra_resets'] = {str(k_): rng.randint(1, 2) for k_ in ([0] if rng.random() < 0.6 else []) + rng.sample(range(len(c['actions']) + 1), min(2, len(c['actions'])))}
            if rng.random() < 0.4:
                # the same description with another action list: index i must mean the i-th listed action
                names = [a.name for a in ACTIONS]
                rng.shuffle(names)
                c['action_list'] = names[: rng.randint(2, len(names))]
                c['actions'] = [ai % len(c['action_list']) for ai in c['actions']]
                if c['mode'] == 'make':
                    c['mode'] = 'direct'
            yield c

    def check(self, c):
        import os
        import gym
        import numpy as np
        from gym_gridverse.gym import STRING_TO_YAML_FILE, GymEnvironment, GymStateWrapper, outer_env_factory
        from gym_gridverse.outer_env import OuterEnv
        from gym_gridverse.representations.observation_representations import make_observation_representation
        from gym_gridverse.representations.state_representations import make_state_representation

        out = []
        import copy

        if c.get('kind') == 'customgym':
            try:
                inner = custom_env(c['custom'])
            except Exception:
                return out
            genv = GymEnvironment(OuterEnv(inner, observation_representation=make_observation_representation('default', inner.observation_space)))
            genv.set_observation_representation(c['enc'])
            if not inner.state_space.can_be_represented:
                return out
            genv.set_state_representation(c['enc'])
            w = GymStateWrapper(genv)
            inner.set_seed(c['seed'])
            where = f'user-reset world {c["custom"]["state"]} enc={c["enc"]}'
            try:
                o = w.reset()
                o = o[0] if isinstance(o, tuple) else o
                k = -1
                while True:
                    h_, w_ = inner.state.grid.shape.as_tuple
                    p_ = inner.state.agent.position
                    if not w.observation_space.contains(o) or not genv.state_space.contains(genv.state):
                        out.append(V('gym/state-outside-advertised-space', f'{where} step {k}: agent at {p_} gives {list(o["agent"][:2])}'))
                        break
                    k += 1
                    if k >= len(c['actions']):
                        break
                    res = w.step(c['actions'][k] % genv.action_space.n)
                    o = res[0]
                    if not genv.observation_space.contains(res[-1]['observation']):
                        out.append(V('gym/observation-outside-advertised-space', f'{where} step {k}'))
                        break
            except Exception as e:
                out.append(V('gym/state-wrapper-raises', f'{where}: {type(e).__name__}: {e}'))
            return out
        base = copy.deepcopy(c['config']) if 'config' in c else load_cfg(c['file'])
        if c.get('decoy'):
            try:
                dd = copy.deepcopy(base)
                names = ['NONE', 'RED', 'GREEN', 'BLUE', 'YELLOW']
                for sp_ in ('state_space', 'observation_space'):
                    cols = list(dd[sp_]['colors'])
                    top = max(names.index(x) for x in cols)
                    lower = [x for x in names[1:top] if x not in cols]
                    if lower:
                        cols.insert(1, lower[0])
                    elif len(cols) > 2:
                        cols.remove(sorted(cols, key=names.index)[1])
                    dd[sp_]['colors'] = cols
                di = build_env(None, dd)
                dg = GymEnvironment(OuterEnv(di, observation_representation=make_observation_representation('default', di.observation_space)))
                dg.set_observation_representation(c['enc'])
                if di.state_space.can_be_represented:
                    dg.set_state_representation(c['enc'])
                di.set_seed(c['seed'] + 1)
                dg.reset()
            except Exception:
                pass
        fname = os.path.basename(c['file']) if 'file' in c else 'random composition'
        path = os.path.join(gvenv.REPO, 'gym_gridverse', 'registered_envs', fname)
        gid = [k for k, v in STRING_TO_YAML_FILE.items() if v == fname]
        data = None
        if 'config' in c:
            data = copy.deepcopy(c['config'])
            if 'action_list' in c:
                data['action_space'] = list(c['action_list'])
            inner0 = build_env(None, data)
            genv = GymEnvironment(OuterEnv(inner0, observation_representation=make_observation_representation('default', inner0.observation_space)))
            w = genv
        elif c['mode'] == 'make' and gid:
            w = gym.make(gid[0], disable_env_checker=True)
            genv = w.unwrapped
        elif 'action_list' in c:
            data = load_cfg(c['file'])
            data['action_space'] = list(c['action_list'])
            inner0 = build_env(None, data)
            genv = GymEnvironment(OuterEnv(inner0, observation_representation=make_observation_representation('default', inner0.observation_space)))
            w = genv
        else:
            genv = GymEnvironment(outer_env_factory(path))
            w = genv
        genv.set_observation_representation(c['enc'])
        shadow = build_env(None, data) if data is not None else build_env(c['file'])
        listed = [Action[n] for n in c['action_list']] if 'action_list' in c else list(shadow.action_space.actions)
        inner = genv.outer_env.inner_env
        orep = make_observation_representation(c['enc'], shadow.observation_space)
        state_mode = c['mode'] == 'state' and inner.state_space.can_be_represented
        if state_mode:
            genv.set_state_representation(c['enc'])
            w = GymStateWrapper(genv)
            srep = make_state_representation(c['enc'], shadow.state_space)
            if w.observation_space != genv.state_space:
                out.append(V('gym/state-wrapper-space', 'advertised space is not the state space'))
        inner.set_seed(c['seed'])
        shadow.set_seed(c['seed'])

        def same(d1, d2):
            return list(d1.keys()) == list(d2.keys()) and all(np.array_equal(d1[k], d2[k]) and d1[k].dtype == d2[k].dtype for k in d1)

        def do_reset(tag=''):
            # every reset (the first, one after a terminal step, one right after another reset: an episode
            # of length zero) returns the observation of the fresh state
            o = w.reset()
            if isinstance(o, tuple):
                o = o[0]
            shadow.reset()
            exp_o = orep.convert(shadow.observation)
            if state_mode:
                if not same(o, srep.convert(shadow.state)) or not w.observation_space.contains(o):
                    out.append(V('gym/state-wrapper-reset', f'{fname}{tag}'))
            elif not same(o, exp_o) or not genv.observation_space.contains(o):
                out.append(V('gym/reset-observation', f'{fname} enc={c["enc"]}{tag}'))
            if not same(genv.observation, exp_o):
                out.append(V('gym/observation-after-reset', f'{fname} enc={c["enc"]}{tag}'))

        do_reset()
        extra = {int(k_): v_ for k_, v_ in (c.get('extra_resets') or {}).items()}
        nact = genv.action_space.n
        if nact != len(listed):
            out.append(V('gym/action-space-size', fname))
        for k, ai in enumerate(c['actions']):
            for j in range(extra.get(k, 0)):
                do_reset(f' (reset number {j + 1} in a row before step {k})')
            if out:
                break
            try:
                res = w.step(ai)
            except Exception as e:
                out.append(V('gym/valid-index-rejected', f'{fname} index {ai} of {[a.name for a in listed]}: {type(e).__name__}'))
                break
            o, r, d, info = res[0], res[1], res[2], res[-1]
            r2, d2 = shadow.step(listed[ai])
            exp_o = orep.convert(shadow.observation)
            if r != r2 or d != d2:
                out.append(V('gym/reward-or-flag', f'{fname} step {k} index {ai}'))
                break
            if state_mode:
                if not same(o, srep.convert(shadow.state)) or not w.observation_space.contains(o):
                    out.append(V('gym/state-wrapper-step', f'{fname} step {k}'))
                if list(info.keys()) != ['observation'] or not same(info['observation'], exp_o):
                    out.append(V('gym/state-wrapper-info', f'{fname} step {k}'))
            else:
                if not same(o, exp_o):
                    out.append(V('gym/step-observation', f'{fname} step {k} index {ai} enc={c["enc"]}'))
                if not genv.observation_space.contains(o):
                    out.append(V('gym/observation-outside-advertised-space', f'{fname} step {k} enc={c["enc"]}'))
                if info != {}:
                    out.append(V('gym/info-not-empty', fname))
            if d and not c.get('noreset'):
                do_reset(f' (after the terminal step {k})')
        # a refused switch (a name that is no representation) changes nothing: the advertised spaces are still
        # the spaces of what is returned
        for setter in ('set_observation_representation', 'set_state_representation'):
            try:
                getattr(genv, setter)('no_overlap' if c['seed'] % 2 else 'Compact')
            except Exception:
                pass
        try:
            if not genv.observation_space.contains(genv.observation):
                out.append(V('gym/observation-outside-advertised-space', f'{fname} after a refused switch of representation'))
            if state_mode and (genv.state_space is None or not genv.state_space.contains(genv.state)):
                out.append(V('gym/state-outside-advertised-space', f'{fname} after a refused switch of representation: advertised {genv.state_space}'))
        except Exception as e:
            out.append(V('gym/read-raises-after-a-refused-switch', f'{fname}: {type(e).__name__}: {e}'))
        if out:
            return out
        # switching representation updates the advertised space
        other = [e for e in ('default', 'no-overlap', 'compact') if e != c['enc']][c['seed'] % 2]
        genv.set_observation_representation(other)
        o = genv.observation
        if not genv.observation_space.contains(o) or not same(o, make_observation_representation(other, shadow.observation_space).convert(shadow.observation)):
            out.append(V('gym/set-representation', f'{fname} {c["enc"]}->{other}'))
        return out



def gen_space_cases(rng):
    from harness.corr_repr import GRID_KINDS, COLORS
    from harness.codec import KIND_INDEX

    while True:
        kinds = rng.sample(range(9), rng.randint(1, 9))
        if rng.random() < 0.8:
            kinds = [k for k in kinds if GRID_KINDS[k].__name__ != 'Box'] or [0]
        colors = rng.sample(range(1, 5), rng.randint(0, 4))
        c = {'kind': 'space', 'kinds': sorted(kinds), 'colors': sorted(colors), 'h': rng.randint(2, 5), 'w': rng.randint(2, 5), 'enc': rng.choice(['default', 'no-overlap', 'compact']), 'seed': rng.randrange(2**31), 'obs': rng.random() < 0.5}
        if rng.random() < 0.2:
            # long grids (every side length up to 40 comes up; the property speaks of shapes of at least 2x2: a
            # 1-wide grid has no normalised coordinate, the library divides by zero there), the agent on the
            # last row / column: the normalised coordinates reach exactly their bounds there
            if rng.random() < 0.5:
                c['h'], c['w'] = rng.randint(6, 40), rng.randint(2, 3)
            else:
                c['h'], c['w'] = rng.randint(2, 3), rng.randint(6, 40)
            c['edge'] = rng.randint(1, 3)
            c['obs'] = False
        yield c


def _space_objs(c):
    from harness.corr_repr import GRID_KINDS, COLORS, objects_for

    kinds = [GRID_KINDS[i] for i in c['kinds']]
    colors = [COLORS[i] for i in c['colors']]
    return kinds, colors


class C15(Oracle):
    prop = 'C15'

    def gen(self, rng):
        gs = gen_space_cases(rng)
        ge = gen_env_cases(rng, p_random=0.3)
        while True:
            yield next(gs)
            yield next(gs)
            c = next(ge)
            c['enc'] = rng.choice(['default', 'no-overlap', 'compact'])
            c['actions'] = c['actions'][:15]
            yield c

    def check(self, c):
        import numpy as np
        from gym_gridverse.geometry import Shape
        from gym_gridverse.gym import outer_space_to_gym_space
        from gym_gridverse.observation import Observation
        from gym_gridverse.grid_object import Hidden
        from gym_gridverse.representations.observation_representations import make_observation_representation
        from gym_gridverse.representations.state_representations import make_state_representation
        from gym_gridverse.spaces import ObservationSpace, StateSpace
        from harness.corr_repr import random_member_state
        from gym_gridverse.grid_object import Color

        out = []

        def check_rep(rep, obj, what):
            try:
                d = rep.convert(obj)
            except Exception as e:
                out.append(V(f'representation/{what}-convert-raises', f'{type(e).__name__}: {e} {c}'))
                return
            sp = rep.space
            if list(d.keys()) != list(sp.keys()):
                out.append(V(f'representation/{what}-keys', f'{c}'))
                return
            for k in d:
                if not sp[k].contains(d[k]):
                    out.append(V(f'representation/{what}-outside-declared-space', f'key {k} enc={c["enc"]} {c.get("file", c.get("kinds"))}'))
            g = outer_space_to_gym_space(sp)
            if not g.contains(d):
                out.append(V(f'representation/{what}-outside-gym-space', f'enc={c["enc"]} {c.get("file", c.get("kinds"))}'))

        if c['kind'] == 'space':
            rng = random.Random(c['seed'])
            kinds, colors = _space_objs(c)
            h, w = c['h'], c['w']
            if c['obs']:
                w |= 1
                osp = ObservationSpace(Shape(h, w), kinds, colors)
                s = random_member_state(rng, h, w, kinds + [Hidden], colors, p_bad=0.0)
                o = Observation(s.grid, s.agent)
                if osp.contains(o):
                    check_rep(make_observation_representation(c['enc'], osp), o, 'observation')
            else:
                ssp = StateSpace(Shape(h, w), kinds, colors)
                if ssp.can_be_represented:
                    # near-members too: whatever the space accepts must convert into the space
                    s = random_member_state(rng, h, w, kinds, colors, p_bad=0.4 if not c.get('edge') else 0.0)
                    if c.get('edge'):
                        s.agent.position = Position(h - 1 if c['edge'] & 1 else s.agent.position.y, w - 1 if c['edge'] & 2 else s.agent.position.x)
                    if s.grid.shape.as_tuple == (h, w) and in_grid(s.grid, s.agent.position) and ssp.contains(s):
                        before = len(out)
                        check_rep(make_state_representation(c['enc'], ssp), s, 'state')
                        if len(out) > before:
                            declared = {Color.NONE} | set(colors)
                            cols = {s.grid[p].color for p in s.grid.area.positions()} | {s.agent.grid_object.color}
                            if not cols <= declared:
                                for v in out[before:]:
                                    v['signature'] = 'StateSpace.contains/ignores-colours'
            return out
        # trajectories of environments
        env = env_of_case(c)
        env.set_seed(c['seed'])
        env.reset()
        orep = make_observation_representation(c['enc'], env.observation_space)
        srep = make_state_representation(c['enc'], env.state_space) if env.state_space.can_be_represented else None
        for ai in c['actions']:
            check_rep(orep, env.observation, 'observation')
            if srep is not None:
                check_rep(srep, env.state, 'state')
            r, d = env.step(env.action_space.actions[ai])
            if d:
                env.reset()
            if out:
                break
        if not out:
            out.extend(self._gym_layer(c))
        return out

    @staticmethod
    def _gym_layer(c):
        """the spaces advertised by the gym adapter, across switches of both representations (the same
        name is used for states and observations on purpose): whatever is returned lies in the space
        advertised at that moment, which is the space of the representation currently selected"""
        import numpy as np
        from gym_gridverse.gym import GymEnvironment, outer_space_to_gym_space
        from gym_gridverse.outer_env import OuterEnv
        from gym_gridverse.representations.observation_representations import make_observation_representation
        from gym_gridverse.representations.state_representations import make_state_representation

        out = []
        env = env_of_case(c)
        genv = GymEnvironment(OuterEnv(env, observation_representation=make_observation_representation('default', env.observation_space)))
        rr = random.Random(c['seed'])
        can_state = env.state_space.can_be_represented
        env.set_seed(c['seed'])
        names = ['default', 'no-overlap', 'compact']
        cur = {'o': 'default', 's': None}
        genv.reset()

        def same_space(a, b):
            return list(a.spaces.keys()) == list(b.spaces.keys()) and all(
                a[k].shape == b[k].shape and a[k].dtype == b[k].dtype and np.array_equal(a[k].low, b[k].low) and np.array_equal(a[k].high, b[k].high) for k in a.spaces
            )

        def probe(where):
            o = genv.observation
            want = outer_space_to_gym_space(make_observation_representation(cur['o'], env.observation_space).space)
            if not genv.observation_space.contains(o):
                out.append(V('gym/observation-outside-advertised-space', f'{c.get("file", "random composition")} {where} ({cur})'))
            elif not same_space(genv.observation_space, want):
                out.append(V('gym/advertised-observation-space-is-not-the-selected-representation', f'{c.get("file", "random composition")} {where} ({cur})'))
            if cur['s'] is not None:
                st = genv.state
                want = outer_space_to_gym_space(make_state_representation(cur['s'], env.state_space).space)
                if not genv.state_space.contains(st):
                    out.append(V('gym/state-outside-advertised-space', f'{c.get("file", "random composition")} {where} ({cur})'))
                elif not same_space(genv.state_space, want):
                    out.append(V('gym/advertised-state-space-is-not-the-selected-representation', f'{c.get("file", "random composition")} {where} ({cur})'))

        acts = list(c['actions'][:8])
        for k in range(rr.randint(2, 5)):
            n = rr.choice(names)
            order = ['o', 's'] if rr.random() < 0.5 else ['s', 'o']
            for kind in order:
                try:
                    if kind == 'o':
                        genv.set_observation_representation(n)
                        cur['o'] = n
                    elif can_state:
                        m = n if rr.random() < 0.7 else rr.choice(names)
                        genv.set_state_representation(m)
                        cur['s'] = m
                except Exception as e:
                    # a switch that is refused (whatever the reason) is no switch: what is advertised and what
                    # is returned still belong together
                    try:
                        o_ = genv.observation
                        if not genv.observation_space.contains(o_) or (cur['s'] is not None and not genv.state_space.contains(genv.state)):
                            out.append(V('gym/observation-outside-advertised-space', f'{c.get("file", "random composition")} after a refused switch {k}/{kind} to {n} ({type(e).__name__}: {e})'))
                    except Exception as e2:
                        out.append(V('gym/read-raises-after-a-refused-switch', f'{type(e2).__name__}: {e2}'))
                    return out
                probe(f'after switch {k}/{kind}')
                if out:
                    return out
            if acts:
                _, _, d, _ = genv.step(acts.pop() % genv.action_space.n)
                probe(f'after a step following switch {k}')
                if d:
                    genv.reset()
            if out:
                return out
        return out


class C16(Oracle):
    prop = 'C16'

    def gen(self, rng):
        return gen_space_cases(rng)

    def check(self, c):
        import numpy as np
        from gym_gridverse.geometry import Shape
        from gym_gridverse.representations.observation_representations import make_observation_representation
        from gym_gridverse.representations.state_representations import make_state_representation
        from gym_gridverse.spaces import ObservationSpace, StateSpace
        from gym_gridverse.grid_object import Color, Hidden, NoneGridObject
        from harness.codec import dec_obj
        from harness.corr_repr import objects_for, random_member_state

        out = []
        rng = random.Random(c['seed'])
        kinds, colors = _space_objs(c)
        h, w = c['h'], c['w']
        enc = c['enc']
        if c['obs']:
            w |= 1
            sp = ObservationSpace(Shape(h, w), kinds, colors)
            rep = make_observation_representation(enc, sp)
            extra = [Hidden, NoneGridObject]
        else:
            sp = StateSpace(Shape(h, w), kinds, colors)
            if not sp.can_be_represented:
                return out
            rep = make_state_representation(enc, sp)
            extra = [NoneGridObject]
        gor = rep.representations['item'].grid_object_representation
        members = [dec_obj(t) for t in objects_for(kinds, [Color.NONE] + colors)] + [k() for k in extra]
        encs = [tuple(int(v) for v in gor.convert(o)) for o in members]
        # lossless per object
        for i, a in enumerate(members):
            for j, b in enumerate(members):
                if (encs[i] == encs[j]) != (a == b):
                    out.append(V(f'encoding/{enc}-not-injective', f'{a!r} vs {b!r}: {encs[i]} {encs[j]} kinds={c["kinds"]}'))
                if a == b and hash(a) != hash(b):
                    out.append(V('object/equal-but-different-hash', f'{a!r} {b!r}'))
        if enc == 'default':
            for o, e in zip(members, encs):
                if e != (o.type_index(), o.state_index, o.color.value):
                    out.append(V('encoding/default-not-index-triple', f'{o!r} {e}'))
        if enc == 'no-overlap':
            t = {e[0] for e in encs}
            s_ = {e[1] for e in encs}
            cc = {e[2] for e in encs}
            if t & s_ or t & cc or s_ & cc:
                out.append(V('encoding/no-overlap-channels-overlap', f'kinds={c["kinds"]} colors={c["colors"]}'))
        if enc == 'compact':
            used = sorted({v for e in encs for v in e})
            if used != list(range(len(used))):
                out.append(V('encoding/compact-has-gaps', f'kinds={c["kinds"]} colors={c["colors"]}: {used}'))
            t = {e[0] for e in encs}
            s_ = {e[1] for e in encs}
            cc = {e[2] for e in encs}
            if t & s_ or t & cc or s_ & cc:
                out.append(V('encoding/compact-channels-overlap', f'kinds={c["kinds"]}'))
        # positional + agent marker + state-level injectivity on pairs
        mk = lambda: random_member_state(rng, h, w, kinds + ([Hidden] if c['obs'] else []), colors, p_bad=0.0)  # noqa: E731
        s1 = mk()
        s2 = fast_copy(s1) if rng.random() < 0.3 else mk()
        if rng.random() < 0.5:
            # a single local difference
            s2 = fast_copy(s1)
            k = rng.randrange(4)
            if k == 0:
                s2.grid[rng.randrange(h), rng.randrange(w)] = rng.choice(members[: len(members) - len(extra)])
            elif k == 1:
                s2.agent.position = Position(rng.randrange(h), rng.randrange(w))
            elif k == 2 and not c['obs']:
                s2.agent.orientation = rng.choice(ORIENTS)
            else:
                s2.agent.grid_object = rng.choice(members)
        if c['obs']:
            from gym_gridverse.observation import Observation

            s1.agent.orientation = O.F
            s2.agent.orientation = O.F
            x1, x2 = Observation(s1.grid, s1.agent), Observation(s2.grid, s2.agent)
        else:
            x1, x2 = s1, s2
        if not sp.contains(x1) or not sp.contains(x2):
            return out
        d1 = rep.convert(x1)
        # conversions that fail in between (the agent at a position that is not a pair of grid indices: just
        # outside the grid, fractional) are refused and leave nothing behind in the representation object:
        # the same member converts to the same arrays afterwards
        from gym_gridverse.debugging import reset_gv_debug

        keep_pose = (x1.agent.position, x1.agent.orientation)
        for badpos, dbg in ((Position(h, 0), False), (Position(float(keep_pose[0].y), float(keep_pose[0].x)), True), (Position(0, w + 1), False)):
            try:
                reset_gv_debug(dbg)
                x1.agent.position = badpos
                rep.convert(x1)
            except Exception:
                pass
            finally:
                reset_gv_debug(None)
                x1.agent.position = keep_pose[0]
        d1b = rep.convert(x1)
        if not all(np.array_equal(d1[k], d1b[k]) for k in d1):
            out.append(V('representation/conversion-depends-on-an-earlier-refused-conversion', f'{enc} {enc_state(x1)}: {[k for k in d1 if not np.array_equal(d1[k], d1b[k])]}'))
            return out
        d2 = rep.convert(x2)
        same_rep = all(np.array_equal(d1[k], d2[k]) for k in d1)
        same = x1.grid == x2.grid and x1.agent == x2.agent
        if same_rep != same:
            out.append(V(f'representation/{enc}-equal-iff-equal-fails', f'{enc_state(x1)} vs {enc_state(x2)} same_rep={same_rep} same={same}'))
        if same and (hash(x1.grid) != hash(x2.grid) or hash(x1.agent) != hash(x2.agent)):
            out.append(V('state/equal-but-different-hash', f'{enc_state(x1)}'))
        for y in range(h):
            for x in range(w):
                if tuple(int(v) for v in d1['grid'][y, x]) != tuple(int(v) for v in gor.convert(x1.grid[y, x])):
                    out.append(V('representation/not-positional', f'cell {(y, x)}'))
                if int(d1['agent_id_grid'][y, x]) != int((y, x) == x1.agent.position.yx):
                    out.append(V('representation/agent-marker', f'cell {(y, x)}'))
        if not c['obs']:
            out.extend(self._state_with_a_past(rng, mk, sp, rep, enc))
        return out

    @staticmethod
    def _state_with_a_past(rng, mk, sp, rep, enc):
        """equality, hashing and conversion of a state that has been hashed / converted earlier and then
        changed in place by the library's own dynamics (doors open in place, the agent moves by
        assignment), and of a pickle copy of it: they must be those of a freshly built equal state"""
        import numpy as np
        from gym_gridverse.envs import transition_functions as trf
        from gym_gridverse.grid_object import Door, Key

        out = []
        sm = mk()
        warm = lambda x: (hash(x.grid), hash(x.agent), [hash(o) for row in x.grid.objects for o in row], rep.convert(x) if sp.contains(x) else None)  # noqa: E731
        warm(sm)
        for p in [p for p in sm.grid.area.positions() if isinstance(sm.grid[p], Door) and not sm.grid[p].is_open][:3]:
            for o in ORIENTS:
                q = p - Position.from_orientation(o)
                if sm.grid.area.contains(q):
                    sm.agent.position, sm.agent.orientation = q, o
                    if sm.grid[p].is_locked and rng.random() < 0.7:
                        sm.agent.grid_object = Key(sm.grid[p].color)
                    trf.actuate_door(sm, Action.ACTUATE)
                    warm(sm)
                    break
        for _ in range(rng.randrange(4)):
            a = rng.choice(ACTIONS)
            for f in (trf.move_agent, trf.turn_agent, trf.pickndrop, trf.actuate_door, trf.actuate_box):
                f(sm, a)
        sc = fast_copy(sm)
        fresh = state_from_str(enc_state(sm))
        for tag, x in (('changed in place', sm), ('pickle copy', sc)):
            if not (x.grid == fresh.grid and x.agent == fresh.agent):
                out.append(V('state/rebuilt-state-not-equal', f'{tag}: {enc_state(sm)}'))
                continue
            if hash(x.grid) != hash(fresh.grid) or hash(x.agent) != hash(fresh.agent) or hash(x) != hash(fresh):
                out.append(V('state/equal-but-different-hash-after-change', f'{tag}: {enc_state(sm)}'))
            if sp.contains(x) and sp.contains(fresh):
                d1, d2 = rep.convert(x), rep.convert(fresh)
                if not all(np.array_equal(d1[k], d2[k]) for k in d1):
                    out.append(V(f'representation/{enc}-stale-after-change', f'{tag}: {enc_state(sm)}'))
        return out



def reset_case_to_json(name, kw, seed):
    kw = dict(kw)
    if 'colors' in kw:
        kw['colors'] = [c.name for c in kw['colors']]
    if 'object_type' in kw:
        kw['object_type'] = kw['object_type'].__name__
    return {'kind': 'reset', 'name': name, 'params': kw, 'seed': seed}


def reset_call(c, rng=None):
    import numpy as np
    from gym_gridverse.envs import reset_functions as rsf
    from gym_gridverse.geometry import Shape
    from gym_gridverse.grid_object import Color, grid_object_registry

    p = dict(c['params'])
    h, w = p.pop('h'), p.pop('w')
    kw = {}
    if 'colors' in p:
        kw['colors'] = {Color[x] for x in p.pop('colors')}
    if 'object_type' in p:
        kw['object_type'] = grid_object_registry.from_name(p.pop('object_type'))
    if 'lh' in p:
        kw['layout'] = (p.pop('lh'), p.pop('lw'))
    ren = {'n': 'num_obstacles' if c['name'] == 'dynamic_obstacles' else 'num_rivers', 'nb': 'num_beacons', 'ne': 'num_exits'}
    for k, v in p.items():
        kw[ren.get(k, k)] = v
    g = rng if rng is not None else np.random.default_rng(c['seed'])
    if c.get('via') == 'factory':
        return rsf.factory(c['name'], shape=Shape(h, w), **kw)(rng=g)
    fn = rsf.reset_function_registry[c['name']]
    return fn(Shape(h, w), rng=g, **kw)


def reset_valid(c):
    """the parameter combinations that can be honoured (None = not decided by a closed formula)"""
    import numpy as np

    p = c['params']
    h, w = p['h'], p['w']
    n = c['name']
    if n == 'empty':
        return h >= 4 and w >= 4
    if n == 'teleport':
        return h >= 4 and w >= 4
    if n == 'keydoor':
        return h >= 4 and w >= 5
    if n == 'dynamic_obstacles':
        return h >= 4 and w >= 4 and 0 <= p['n'] <= (h - 2) * (w - 2) - 2
    if n == 'crossing':
        ok = h >= 5 and w >= 5 and h % 2 == 1 and w % 2 == 1 and p['n'] > 0
        return ok if p['object_type'] in ('Wall', 'Exit', 'MovingObstacle', 'Floor') else (False if not ok else None)
    if n == 'memory':
        cs = set(p['colors'])
        return h >= 5 and w >= 5 and w % 2 == 1 and 'NONE' not in cs and len(cs) >= 2
    if n in ('rooms', 'memory_rooms'):
        lh, lw = p['lh'], p['lw']
        if lh < 1 or lw < 1:
            return False
        ys = np.linspace(0, h - 1, num=lh + 1, dtype=int)
        xs = np.linspace(0, w - 1, num=lw + 1, dtype=int)
        if len(set(ys)) != len(ys) or len(set(xs)) != len(xs):
            return False
        # a room without interior (two adjacent split lines) cannot be honoured: the two wall lines get
        # independent passages and the floor falls apart (F12, repaired: the code rejects them)
        if any(b - a < 2 for a, b in zip(ys, ys[1:])) or any(b - a < 2 for a, b in zip(xs, xs[1:])):
            return False
        floor = sum((b - a - 1) for a, b in zip(ys, ys[1:])) * sum((b - a - 1) for a, b in zip(xs, xs[1:])) + (lh - 1) * lw + lh * (lw - 1)
        if n == 'rooms':
            return floor >= 2
        cs = set(p['colors'])
        return 'NONE' not in cs and len(cs) >= 2 and p['nb'] >= 1 and p['ne'] >= 2 and p['ne'] <= len(cs) and 1 + p['nb'] + p['ne'] <= floor
    return None


class C13(Oracle):
    prop = 'C13'

    def gen(self, rng):
        from harness.corr_reset import param_stream

        ps = param_stream(rng)
        while True:
            name, kw = next(ps)
            c = reset_case_to_json(name, kw, rng.randrange(2**31))
            if rng.random() < 0.3:
                c['via'] = 'factory'  # the same call through the registry: `factory(name, **parameters)(rng=...)`
            yield c

    def from_line(self, line):
        return None

    def check(self, c):
        from collections import Counter
        from gym_gridverse.grid_object import Beacon, Door, Exit, Floor, Key, MovingObstacle, NoneGridObject, Telepod, Wall, Color

        out = []
        valid = reset_valid(c)
        name = c['name']
        try:
            s = reset_call(c)
        except ValueError:
            if valid is True:
                out.append(V(f'{name}/valid-parameters-rejected', f'{c}'))
            return out
        except Exception as e:
            if name == 'crossing' and c['params']['object_type'] not in ('Wall', 'Exit', 'MovingObstacle', 'Floor'):
                return out  # outside the parameter domain: the type is not constructible without arguments
            out.append(V(f'{name}/wrong-exception-kind', f'{type(e).__name__}: {e} {c["params"]}'))
            return out
        if valid is False:
            out.append(V(f'{name}/invalid-parameters-accepted', f'{c["params"]}'))
        p = c['params']
        h, w = p['h'], p['w']
        g = s.grid
        if g.shape.as_tuple != (h, w):
            out.append(V(f'{name}/shape', f'{c["params"]}'))
            return out
        for q in g.area.positions('border'):
            if not isinstance(g[q], Wall):
                out.append(V(f'{name}/broken-wall-boundary', f'{c["params"]} seed={c["seed"]} at {q}'))
                break
        a = s.agent
        if not in_grid(g, a.position):
            out.append(V(f'{name}/agent-outside', f'{c}'))
            return out
        if not isinstance(a.grid_object, NoneGridObject):
            out.append(V(f'{name}/agent-not-empty-handed', f'{c}'))
        cell = g[a.position]
        if cell.blocks_movement or isinstance(cell, (Exit, MovingObstacle, Telepod)):
            out.append(V(f'{name}/agent-on-bad-cell', f'{c["params"]} seed={c["seed"]}: {cell!r}'))
        cnt = Counter(type(g[q]).__name__ for q in g.area.positions())
        exits = [g[q] for q in g.area.positions() if isinstance(g[q], Exit)]
        if name in ('empty', 'rooms', 'dynamic_obstacles', 'keydoor', 'teleport') and len(exits) != 1:
            out.append(V(f'{name}/exit-count', f'{c["params"]}: {len(exits)}'))
        if name == 'crossing':
            exp = 1 if p['object_type'] != 'Exit' else None
            if exp is not None and len(exits) != exp:
                out.append(V('crossing/exit-count', f'{c["params"]}: {len(exits)}'))
        if name == 'dynamic_obstacles' and cnt['MovingObstacle'] != p['n']:
            out.append(V('dynamic_obstacles/obstacle-count', f'{c["params"]}: {cnt["MovingObstacle"]}'))
        if name == 'keydoor':
            doors = [(q, g[q]) for q in g.area.positions() if isinstance(g[q], Door)]
            keys = [(q, g[q]) for q in g.area.positions() if isinstance(g[q], Key)]
            if len(doors) != 1 or len(keys) != 1:
                out.append(V('keydoor/inventory', f'{c["params"]}: {len(doors)} doors {len(keys)} keys'))
            else:
                (dq, dd), (kq, kk) = doors[0], keys[0]
                if dd.state is not Door.Status.LOCKED or dd.color != kk.color:
                    out.append(V('keydoor/door-key-mismatch', f'{c["params"]}'))
                col = [g[y, dq.x] for y in range(1, h - 1)]
                if not all(isinstance(o, (Wall, Door)) for o in col):
                    out.append(V('keydoor/door-not-in-dividing-wall', f'{c["params"]}'))
                if not (kq.x < dq.x and a.position.x < dq.x):
                    out.append(V('keydoor/agent-or-key-on-wrong-side', f'{c["params"]} seed={c["seed"]}'))
        if name == 'teleport':
            tp = [g[q] for q in g.area.positions() if isinstance(g[q], Telepod)]
            if len(tp) != 2 or tp[0].color != tp[1].color:
                out.append(V('teleport/telepods', f'{c["params"]}: {len(tp)}'))
        if name in ('memory', 'memory_rooms'):
            beacons = [g[q] for q in g.area.positions() if isinstance(g[q], Beacon)]
            ne = 2 if name == 'memory' else p['ne']
            nb = 2 if name == 'memory' else p['nb']
            if len(exits) != ne or len({e.color for e in exits}) != ne:
                out.append(V(f'{name}/exits-not-distinct', f'{c["params"]} seed={c["seed"]}'))
            if len(beacons) != nb or len({b.color for b in beacons}) != 1 or sum(e.color == beacons[0].color for e in exits) != 1:
                out.append(V(f'{name}/beacons', f'{c["params"]} seed={c["seed"]}'))
        if out:
            return out
        # an initial state is a value of its own: resets made later (of this and of the other layouts of the
        # same shape, other seeds) leave it as it is, and a state the caller changed in place does not leak
        # into what a later reset returns (the same seed gives the same, well-formed, state again)
        snap = enc_state(s)
        rr = random.Random(c['seed'])
        for nm in [name] + rr.sample(['empty', 'keydoor', 'teleport', 'crossing', 'dynamic_obstacles'], 2):
            c2 = {'name': nm, 'seed': rr.randrange(2**31), 'params': dict(p) if nm == name else {'h': h, 'w': w, **({'n': 1} if nm in ('crossing', 'dynamic_obstacles') else {}), **({'object_type': 'Wall'} if nm == 'crossing' else {})}}
            try:
                reset_call(c2)
            except Exception:
                continue
            if enc_state(s) != snap:
                out.append(V(f'{name}/initial-state-changed-by-a-later-reset', f'{c["params"]} seed={c["seed"]}, then {nm} seed={c2["seed"]}: {snap} -> {enc_state(s)}'))
                return out
        free = [q for q in g.area.positions() if not blocks(g[q]) and q != s.agent.position]
        if free:
            s.agent.position = rr.choice(free)
            s.agent.orientation = s.agent.orientation * O.R
            try:
                again = reset_call(c)
                if enc_state(again) != snap:
                    out.append(V(f'{name}/reset-depends-on-what-was-done-to-an-earlier-initial-state', f'{c["params"]} seed={c["seed"]}: {snap} the first time, {enc_state(again)} after the first state\'s agent was moved in place'))
            except Exception as e:
                out.append(V(f'{name}/second-reset-raises', f'{c["params"]} seed={c["seed"]}: {type(e).__name__}: {e}'))
        return out



class C01(Oracle):
    prop = 'C01'

    def gen(self, rng):
        from harness import corr_env

        ge = gen_env_cases(rng, p_random=0.5)
        while True:
            # (a) arbitrary conforming states pushed through functional_step of a random composition
            data = corr_env.random_config(rng)
            h, w = data['reset_function']['shape']
            s = gen.valid_random_state(rng, max_h=h, max_w=w, min_h=h, min_w=w, p_floor=0.5) if rng.random() < 0.6 else gen.random_state(rng, max_h=h, max_w=w, min_h=h, min_w=w, p_floor=0.5)
            # unique exit / a beacon so that the distance / memory rewards' preconditions hold
            yield {'kind': 'fstep', 'config': data, 'state': enc_state(s), 'seed': rng.randrange(2**31), 'debug': rng.random() < 0.7}
            # (b) reachable states of shipped / random environments
            c = next(ge)
            c['kind'] = 'traj'
            c['actions'] = c['actions'][:20]
            yield c
            # (c) user-reset environments: poses no built-in layout contains (borderless rooms, a view that is
            # exactly the whole grid)
            cu = gen_custom_env_case(rng)
            if cu is not None:
                cu['kind'] = 'custom'
                yield cu

    def from_line(self, line):
        return None

    def _custom(self, c):
        out = []
        try:
            env = custom_env(c['custom'])
        except Exception:
            return out
        env.set_seed(c['seed'])
        s = env.functional_reset()
        if not env.state_space.contains(s):
            return out
        where = f"user-reset environment {c['custom']}"
        for k, ai in enumerate([None] + list(c['actions'][:6])):
            if ai is not None:
                a = ACTIONS[ai]
                try:
                    s, r, d = env.functional_step(s, a)
                except Exception as e:
                    out.append(V('functional_step/raises', f'{type(e).__name__}: {e} at step {k} of {where}'))
                    return out
                if not env.state_space.contains(s):
                    out.append(V('functional_step/next-state-outside-space', f'step {k} of {where}'))
                    return out
            snap = enc_state(s)
            try:
                o = env.functional_observation(s)
            except Exception as e:
                out.append(V('functional_observation/raises', f'{type(e).__name__}: {e} at step {k} of {where}'))
                return out
            if not env.observation_space.contains(o):
                out.append(V('functional_observation/outside-space', f'step {k} of {where}'))
            if enc_state(s) != snap or not env.state_space.contains(s):
                out.append(V('functional_observation/changes-the-state-it-observes', f'step {k} of {where}: {snap} -> {enc_state(s)}'))
                return out
        return out

    def _prep_state(self, env, data, s):
        """make the documented preconditions of the configured rewards true"""
        from gym_gridverse.grid_object import Beacon, Color, Exit, Floor

        names = {r['name'] for r in data['reward_functions']}
        g = s.grid
        if names & {'getting_closer', 'getting_closer_shortest_path', 'proportional_to_distance'}:
            ps = [p for p in g.area.positions() if isinstance(g[p], Exit)]
            for p in ps[1:]:
                g[p] = Floor()
            if not ps:
                g[0, 0] = Exit()
        if 'reach_exit_memory' in names and not any(isinstance(g[p], Beacon) for p in g.area.positions()):
            g[g.shape.height - 1, g.shape.width - 1] = Beacon(Color.RED)
        return s

    def check(self, c):
        from gym_gridverse.debugging import reset_gv_debug

        # the contract does not depend on the library debug flag (python -O turns it off)
        reset_gv_debug(bool(c.get('debug', True)))
        try:
            out = self._check(c)
        finally:
            reset_gv_debug(None)
        if not c.get('debug', True):
            for v in out:
                v['what'] = '[debug flag off] ' + v['what']
        return out

    def _check(self, c):
        import numpy as np
        from gym_gridverse.action import Action
        from gym_gridverse.grid_object import Exit, Floor

        out = []
        if c['kind'] == 'custom':
            return self._custom(c)
        if c['kind'] == 'traj':
            env = env_of_case(c)
            env.set_seed(c['seed'])
            try:
                env.reset()
                for ai in c['actions']:
                    if not env.state_space.contains(env.state):
                        out.append(V('trajectory/state-outside-space', f'{c.get("file")}'))
                    if not env.observation_space.contains(env.observation):
                        out.append(V('trajectory/observation-outside-space', f'{c.get("file")}'))
                    r, d = env.step(env.action_space.actions[ai])
                    if not isinstance(r, (int, float)) or not math.isfinite(r) or type(d) is not bool:
                        out.append(V('trajectory/reward-or-flag-type', f'{c.get("file")} {r!r} {d!r}'))
                    if c.get('file') and not isinstance(r, float):
                        out.append(V('trajectory/reward-not-float', f'{c.get("file")} {r!r}'))
                    if d:
                        env.reset()
            except Exception as e:
                out.append(V('trajectory/raises', f'{type(e).__name__}: {e} {c.get("file", "random composition")} seed={c["seed"]}'))
            return out
        data = c['config']
        env = build_env(None, data)
        s = self._prep_state(env, data, state_from_str(c['state']))
        env.set_seed(c['seed'])
        # the membership predicate accepts exactly the conforming states (checked on a smaller space)
        from gym_gridverse.grid_object import Color, NoneGridObject
        from gym_gridverse.spaces import StateSpace

        r0 = random.Random(c['seed'])
        sub_kinds = [k for k in env.state_space.object_types if r0.random() < 0.7]
        sub_cols = [col for col in list(Color)[1:] if r0.random() < 0.6]
        if sub_kinds:
            ssp = StateSpace(env.state_space.grid_shape, sub_kinds, sub_cols)
            cells = [s.grid[p] for p in s.grid.area.positions()]
            conforms = (
                s.grid.shape == ssp.grid_shape
                and all(type(o) in sub_kinds for o in cells)
                and all(o.color in set(sub_cols) | {Color.NONE} for o in cells)
                and in_grid(s.grid, s.agent.position)
                and (type(s.agent.grid_object) in sub_kinds or isinstance(s.agent.grid_object, NoneGridObject))
                and s.agent.grid_object.color in set(sub_cols) | {Color.NONE}
            )
            if ssp.contains(s) != conforms:
                bad_col = not all(o.color in set(sub_cols) | {Color.NONE} for o in cells + [s.agent.grid_object])
                out.append(V('StateSpace.contains/ignores-colours' if bad_col and ssp.contains(s) else 'StateSpace.contains/not-iff-conforming', f'{c["state"]} kinds={[k.__name__ for k in sub_kinds]} colors={[x.name for x in sub_cols]}'))
        if not env.state_space.contains(s):
            return out
        tnames = [t['name'] for t in data['transition_functions']]
        snap = enc_state(s)
        # things that are not actions at all (an index, a flag, a name) are outside every action space
        import numpy as np

        for junk in (0, 4, 7, True, np.int64(5), 4.0, None, 'TURN_LEFT', r0.randrange(8)):
            try:
                if env.action_space.contains(junk):
                    out.append(V('ActionSpace.contains/accepts-a-non-action', f'{junk!r}'))
            except Exception:
                pass
            try:
                env.functional_step(s, junk)
                out.append(V('functional_step/non-action-accepted', f'{junk!r}'))
            except ValueError:
                pass
            except Exception as e:
                out.append(V('functional_step/non-action-wrong-error', f'{junk!r}: {type(e).__name__}'))
            if enc_state(s) != snap:
                out.append(V('functional_step/rejected-action-changed-the-state', f'{junk!r}'))
                break
        if out:
            return out
        # ... and spends nothing: the valid step that follows is the one an equally seeded environment that
        # never saw the refused calls takes
        a_ok = r0.choice(list(env.action_space.actions))
        refused = [x for x in Action if not env.action_space.contains(x)][:2] + [5, 'MOVE_LEFT']
        try:
            env.set_seed(c['seed'])
            ref_next = env.functional_step(s, a_ok)
            env.set_seed(c['seed'])
            for junk in refused:
                try:
                    env.functional_step(s, junk)
                except Exception:
                    pass
            got_next = env.functional_step(s, a_ok)
            if enc_state(got_next[0]) != enc_state(ref_next[0]) or got_next[1:] != ref_next[1:]:
                out.append(V('functional_step/refused-action-spends-randomness', f'state={c["state"]} trans={tnames}: after refused calls {refused} the step {a_ok.name} gives {enc_state(got_next[0])} instead of {enc_state(ref_next[0])}'))
                return out
        except Exception:
            pass
        needs_unique = {r['name'] for r in data['reward_functions']} & {'getting_closer', 'getting_closer_shortest_path', 'proportional_to_distance'}
        for a in Action:
            inside = env.action_space.contains(a)
            if inside and needs_unique:
                # the distance rewards' documented precondition must also hold in the next state
                from gym_gridverse.envs.transition_functions import transition_with_copy

                env.set_seed(c['seed'])
                try:
                    nxt = transition_with_copy(env._transition_function, s, a, rng=env._rng)
                    if sum(isinstance(nxt.grid[p], Exit) for p in nxt.grid.area.positions()) != 1:
                        continue
                except Exception:
                    pass
            env.set_seed(c['seed'])
            try:
                s2, r, d = env.functional_step(s, a)
            except ValueError as e:
                if inside:
                    sig = 'functional_step/raises'
                    front = lit_front(s)
                    if 'teleport' in tnames and 'positive integer' in str(e):
                        sig = 'teleport/unpaired-telepod-raises'
                    out.append(V(sig, f'ValueError: {e} state={c["state"]} a={a} trans={tnames}'))
                continue
            except Exception as e:
                front = lit_front(s)
                sig = 'functional_step/raises'
                if isinstance(e, IndexError) and not in_grid(s.grid, front):
                    sig = 'pickndrop/front-outside-grid' if a.name == 'PICK_N_DROP' else ('reward-actuate_door/front-outside-grid' if a.name == 'ACTUATE' else sig)
                out.append(V(sig, f'{type(e).__name__}: {e} state={c["state"]} a={a} trans={tnames}'))
                continue
            if not inside:
                out.append(V('functional_step/bad-action-accepted', f'{a}'))
                continue
            if enc_state(s) != snap:
                out.append(V('functional_step/mutates-input', f'{c["state"]} a={a}'))
            if not env.state_space.contains(s2):
                sig = 'functional_step/next-state-outside-space'
                if not in_grid(s2.grid, s2.agent.position):
                    sig = 'move_agent/target-outside-grid-wraps'
                out.append(V(sig, f'state={c["state"]} a={a} trans={tnames} -> {enc_state(s2)}'))
            if not isinstance(r, (int, float)) or not math.isfinite(r) or type(d) is not bool:
                out.append(V('functional_step/reward-or-flag-type', f'{r!r} {d!r}'))
            try:
                o = env.functional_observation(s2) if env.state_space.contains(s2) else None
                if o is not None and not env.observation_space.contains(o):
                    out.append(V('functional_observation/outside-space', f'{enc_state(s2)}'))
            except Exception as e:
                out.append(V('functional_observation/raises', f'{type(e).__name__}: {e}'))
        if out:
            return out
        # states with a past: this state object (and a copy of it) has been judged by the membership
        # predicate many times by now.  Cells are then replaced in place (same type / other colour, other
        # type): membership is judged on what the state is now, and a step is total on what conforms now
        from harness.codec import dec_obj

        def conforms_now(space, st):
            cells = [st.grid[p] for p in st.grid.area.positions()]
            cols = set(space.colors) | {Color.NONE}
            return (
                st.grid.shape == space.grid_shape
                and all(type(o) in space.object_types for o in cells)
                and all(o.color in cols for o in cells)
                and in_grid(st.grid, st.agent.position)
                and (type(st.agent.grid_object) in space.object_types or isinstance(st.agent.grid_object, NoneGridObject))
                and st.agent.grid_object.color in cols
            )

        for st, tag in ((s, 'the state itself'), (fast_copy(s), 'a copy of it')):
            for _ in range(3):
                p = Position(r0.randrange(st.grid.shape.height), r0.randrange(st.grid.shape.width))
                coloured = [q for q in st.grid.area.positions() if st.grid[q].color is not Color.NONE]
                if coloured and r0.random() < 0.7:
                    p = r0.choice(coloured)
                old = st.grid[p]
                if r0.random() < 0.7 and old.color is not Color.NONE:
                    tok = enc_obj_of(old)
                    new = dec_obj(tok[:-1] + str(r0.choice([x for x in range(1, 5) if str(x) != tok[-1]])))  # same type and status, another colour
                elif r0.random() < 0.15:
                    new = dec_obj(r0.choice(['N', 'H']))  # the placeholders for "nothing held" / "not visible" are no world objects
                else:
                    new = dec_obj(r0.choice(gen.ALPHABET_CORE))
                st.grid[p] = new
                for space, sname in ((env.state_space, 'the environment space'),) + (((ssp, 'a smaller space'),) if sub_kinds else ()):
                    exp, got = conforms_now(space, st), space.contains(st)
                    if exp != got:
                        out.append(V('StateSpace.contains/stale-after-in-place-change', f'{tag}: {c["state"]} then grid[{p.y},{p.x}] = {new!r} (was {old!r}): contains says {got}, {sname} {"holds" if exp else "does not hold"} it'))
                        return out
                if not c.get('debug', True):
                    continue
                a = r0.choice(list(env.action_space.actions))
                ok_now = conforms_now(env.state_space, st) and is_valid(st)
                env.set_seed(c['seed'])
                try:
                    env.functional_step(st, a)
                except ValueError as e:
                    if ok_now and 'state_space' in str(e):
                        out.append(V('functional_step/refuses-member-state', f'{tag}: {enc_state(st)} a={a}: {e}'))
                        return out
                except Exception:
                    pass
        return out



class C19(Oracle):
    prop = 'C19'

    def gen(self, rng):
        while True:
            h, w = rng.randint(1, 7), rng.randint(1, 7)
            if rng.random() < 0.5:
                area = [0, h - 1, 0, w - 1]
            else:
                y0, x0 = rng.randint(-6, 2), rng.randint(-6, 2)
                area = [y0, y0 + h - 1, x0, x0 + w - 1]
            py, px = rng.randint(area[0], area[1]), rng.randint(area[2], area[3])
            yield {'kind': 'fan', 'area': area, 'origin': [py, px], 'order': rng.randrange(10**6)}

    def check(self, c):
        from gym_gridverse.utils import raytracing
        from gym_gridverse.envs import visibility_functions as vf
        from gym_gridverse.grid import Grid
        from gym_gridverse.grid_object import Floor

        out = []
        a = c['area']
        area = Area((a[0], a[1]), (a[2], a[3]))
        pos = Position(*c['origin'])
        rays = raytracing.compute_rays_fancy(pos, area)
        seen = set()
        for r in rays:
            if not r or r[0] != pos:
                out.append(V('ray/does-not-start-at-origin', f'{c}'))
                continue
            if any(not area.contains(p) for p in r):
                out.append(V('ray/leaves-area', f'{c}'))
            if len(set(p.yx for p in r)) != len(r):
                out.append(V('ray/repeats-a-cell', f'{c}'))
            for p, q in zip(r, r[1:]):
                if max(abs(p.y - q.y), abs(p.x - q.x)) != 1:
                    out.append(V('ray/non-adjacent-step', f'{c}: {p}->{q}'))
                    break
            l = r[-1]
            if not (l.y in (area.ymin, area.ymax) or l.x in (area.xmin, area.xmax)):
                out.append(V('ray/does-not-end-on-border', f'{c}: {l}'))
            seen |= {p.yx for p in r}
        if seen != {p.yx for p in area.positions()}:
            out.append(V('fan/does-not-cover-area', f'{c}: missing {sorted({p.yx for p in area.positions()} - seen)[:5]}'))
        # unobstructed view shows everything (zero-based areas are what the visibility functions use)
        if area.ymin == 0 and area.xmin == 0:
            g = Grid([[Floor() for _ in range(area.width)] for _ in range(area.height)])
            if not vf.raytracing(g, pos).all():
                out.append(V('raytracing/unobstructed-view-hides-cell', f'{c}'))
        # determinism and cache independence: interleave other queries, compare again
        rr = random.Random(c['order'])
        others = [(Position(0, 0), Area((0, rr.randint(0, 4)), (0, rr.randint(0, 4)))) for _ in range(3)]
        # rejected queries first (origins outside the area, one whole height / width away from the origin
        # asked about next, and right next to the border): they are refused and leave nothing behind
        for bad in (Position(pos.y - area.height, pos.x), Position(pos.y, pos.x - area.width), Position(area.ymin - 1, pos.x), Position(pos.y, area.xmax + 1)):
            try:
                raytracing.cached_compute_rays_fancy(bad, area)
            except Exception:
                pass  # what a query outside the documented domain answers is not the property's business
        first = raytracing.cached_compute_rays_fancy(pos, area)
        for p2, a2 in others:
            raytracing.cached_compute_rays_fancy(p2, a2)
        # the consumers of the fans in between (the visibility functions, on a grid of this very area):
        # a consumer must not leave anything behind in what the next caller gets
        if area.ymin == 0 and area.xmin == 0:
            import numpy as np
            from gym_gridverse.grid_object import Wall

            g2 = Grid([[Wall() if rr.random() < 0.25 else Floor() for _ in range(area.width)] for _ in range(area.height)])
            g2[pos] = Floor()
            m1 = vf.raytracing(g2, pos)
            for _ in range(2):
                vf.stochastic_raytracing(g2, pos, rng=np.random.default_rng(rr.randrange(2**31)))
            m2 = vf.raytracing(g2, pos)
            if not (m1 == m2).all():
                out.append(V('raytracing/answer-changed-after-other-calls', f'{c}'))
        again = raytracing.cached_compute_rays_fancy(pos, area)
        fresh = raytracing.compute_rays_fancy(pos, area)
        key = lambda rs: [[p.yx for p in r] for r in rs]  # noqa: E731
        if not (key(first) == key(again) == key(fresh) == key(rays)):
            out.append(V('rays/cache-or-nondeterminism', f'{c}'))
        return out



class C17(Oracle):
    prop = 'C17'

    @staticmethod
    def _gym_make_twice(base, seed):
        """every registered id pointing at this file: two `gym.make` calls give two independent environments"""
        import gym
        from gym_gridverse.gym import STRING_TO_YAML_FILE

        out = []
        for gid in sorted(g for g, f in STRING_TO_YAML_FILE.items() if f == base)[:2]:
            try:
                g1 = gym.make(gid, disable_env_checker=True).unwrapped
                g2 = gym.make(gid, disable_env_checker=True).unwrapped
                i1, i2 = g1.outer_env.inner_env, g2.outer_env.inner_env
                if g1 is g2 or g1.outer_env is g2.outer_env or i1 is i2:
                    out.append(V('gym/second-make-shares-the-environment', f'{gid}: two gym.make calls must build two environments'))
                    continue
                i1.set_seed(seed)
                i1.reset()
                snap = (enc_state(i1.state), enc_state(i1.observation))
                i2.set_seed(seed + 1)
                i2.reset()
                for a in list(i2.action_space.actions)[:4]:
                    i2.step(a)
                if (enc_state(i1.state), enc_state(i1.observation)) != snap:
                    out.append(V('gym/second-make-shares-the-environment', f'{gid}: stepping one instance changed the other'))
            except Exception as e:
                out.append(V('gym/make-fails', f'{gid}: {type(e).__name__}: {e}'))
        return out

    def gen(self, rng):
        import glob
        import os

        files = shipped_files() + sorted(glob.glob(os.path.join(gvenv.REPO, 'gym_gridverse', 'registered_envs', '*.yaml'))) + [os.path.join(gvenv.REPO, 'examples', 'coin_env.yaml')]
        k = 0
        while True:
            f = files[k % len(files)]
            k += 1
            case = {'kind': 'build', 'file': f, 'seed': rng.randrange(2**31), 'actions': [rng.randrange(8) for _ in range(rng.randint(5, 60))]}
            if rng.random() < 0.4 and not f.endswith('coin_env.yaml'):
                case['perm'] = rng.randrange(2**31)  # the same description with another action list / order
            elif rng.random() < 0.5 and not f.endswith('coin_env.yaml'):
                case['tweak'] = rng.randrange(2**31)  # the same description with other parameter values (0, 0.0, False, ... included)
            yield case
            yield {'kind': 'corrupt', 'file': rng.choice(files[:21]), 'which': rng.choice(['unknown-name', 'missing-required', 'bad-shape', 'bad-color', 'bad-action', 'bad-layout', 'bad-distance']), 'pick': rng.randrange(10**6)}
            yield {'kind': 'byname', 'seed': rng.randrange(2**31)}

    def check(self, c):
        import copy
        import os
        from schema import SchemaError
        from harness import envspec
        from gym_gridverse.envs.yaml.factory import factory_env_from_data, factory_env_from_yaml

        out = []
        if c['kind'] == 'build':
            data = load_cfg(c['file'])
            before = copy.deepcopy(data)
            base = os.path.basename(c['file'])
            if not base.startswith('coin'):
                from gym_gridverse.gym import STRING_TO_YAML_FILE

                top = os.path.join(gvenv.REPO, 'yaml', base)
                pkg = os.path.join(gvenv.REPO, 'gym_gridverse', 'registered_envs', base)
                if not (os.path.exists(top) and os.path.exists(pkg)) or open(top, 'rb').read() != open(pkg, 'rb').read():
                    out.append(V('config/packaged-copy-differs', base))
                if base not in STRING_TO_YAML_FILE.values():
                    out.append(V('config/no-registered-id', base))
                out.extend(self._gym_make_twice(base, c['seed']))
            if 'perm' in c:
                rr = random.Random(c['perm'])
                names = [a.name for a in ACTIONS]
                rr.shuffle(names)
                data['action_space'] = names[: rr.randint(2, len(names))]
                before = copy.deepcopy(data)
            if 'tweak' in c:
                # other values of the same type for the parameters of the named components: a value is a
                # value, also when it is 0, 0.0 or False
                rr = random.Random(c['tweak'])
                if rr.random() < 0.4:
                    # the observation function written out as a visibility function wrapped by from_visibility
                    of_ = data['observation_function']
                    if of_['name'] in ('partially_occluded', 'raytracing', 'fully_transparent'):
                        data['observation_function'] = {'name': 'from_visibility', 'visibility_function': {'name': of_['name']}, 'area': of_['area']}
                done = []
                if rr.random() < 0.3:
                    dup = copy.deepcopy(rr.choice(data['reward_functions']))  # a component listed twice counts twice
                    data['reward_functions'].insert(rr.randrange(len(data['reward_functions']) + 1), dup)
                    done.append((dup['name'], 'listed', 'twice'))
                for where_, lst in (('reward_functions', data['reward_functions']), ('transition_functions', data['transition_functions'])):
                    for i_, node in enumerate(lst):
                        items = list(node.items())
                        if rr.random() < 0.5:
                            rr.shuffle(items)  # the same entry with its parameters written in another order
                            done.append((node['name'], 'order', [k_ for k_, _ in items]))
                        if rr.random() < 0.3:
                            items.insert(rr.randrange(len(items) + 1), ('parameter_nobody_accepts', rr.choice([1, 0, 'x'])))
                            done.append((node['name'], 'ignored', 'parameter_nobody_accepts'))
                        lst[i_] = dict(items)
                nodes = list(data['reward_functions']) + [data['reset_function']]
                for node in nodes:
                    for k_, v_ in list(node.items()):
                        if k_ == 'name' or rr.random() < 0.5:
                            continue
                        if isinstance(v_, bool):
                            node[k_] = rr.choice([False, True])
                        elif isinstance(v_, float):
                            node[k_] = rr.choice([0.0, 0.0, -1.25, 2.5])
                        elif isinstance(v_, int):
                            node[k_] = rr.choice([0, 0, 1, v_])
                        elif k_ == 'distance_function':
                            node[k_] = rr.choice(['manhattan', 'euclidean'])
                        else:
                            continue
                        done.append((node['name'], k_, node[k_]))
                before = copy.deepcopy(data)
                try:
                    eh = envspec.hand_assemble(before)
                    eh.set_seed(c['seed'])
                    eh.reset()
                except Exception:
                    return out  # not a description the named components can honour
                try:
                    factory_env_from_data(copy.deepcopy(before))
                except Exception as e:
                    return [V('factory/valid-description-rejected', f'{base} with {done}: {type(e).__name__}: {e} (the components called by hand with these parameters build the environment)')]
            try:
                e1 = factory_env_from_data(data)
                if data != before:
                    out.append(V('factory/mutates-input-data', os.path.basename(c['file'])))
                e2 = factory_env_from_data(data)
                if 'perm' in c or 'tweak' in c:
                    e3 = factory_env_from_data(copy.deepcopy(before))
                    e4 = factory_env_from_data(copy.deepcopy(before))
                    if 'perm' in c and [a.name for a in e1.action_space.actions] != before['action_space']:
                        out.append(V('factory/action-order-differs-from-description', f'{base}: described {before["action_space"]}, built {[a.name for a in e1.action_space.actions]}'))
                else:
                    e3 = factory_env_from_yaml(c['file'])
                    e4 = factory_env_from_yaml(c['file'])
                eh = envspec.hand_assemble(before)
            except Exception as e:
                if 'tweak' in c:
                    return [V('factory/build-not-repeatable-or-valid-description-rejected', f'{os.path.basename(c["file"])} with {done} / {before["observation_function"]}: {type(e).__name__}: {e}')]
                return [V('factory/shipped-config-rejected', f'{os.path.basename(c["file"])}: {type(e).__name__}: {e}')]
            if e3 is e4 or e1 is e2:
                out.append(V('factory/second-build-returns-the-same-environment', f'{os.path.basename(c["file"])}: two builds of one description must be independent environments'))
                e4 = factory_env_from_data(copy.deepcopy(before))
            envs = [e1, e2, e3, e4, eh]
            names = ['from_data', 'from_data(again)', 'from_yaml', 'from_yaml(again)', 'hand-assembled']
            spaces = [(e.state_space.grid_shape, [t.__name__ for t in e.state_space.object_types], sorted(x.value for x in e.state_space.colors), e.observation_space.grid_shape, [a.name for a in e.action_space.actions]) for e in envs]
            if any(sp != spaces[0] for sp in spaces):
                out.append(V('factory/spaces-differ-from-description', f'{os.path.basename(c["file"])}: {spaces}'))
            for e in envs:
                e.set_seed(c['seed'])
                e.reset()
            nact = len(e1.action_space.actions)
            for k, ai in enumerate(c['actions']):
                a = e1.action_space.actions[ai % nact]
                st = [enc_state(e.state) if not os.path.basename(c['file']).startswith('coin') else repr(e.state.grid.objects) + repr(e.state.agent) for e in envs]
                ob = [enc_state(e.observation) if not os.path.basename(c['file']).startswith('coin') else repr(e.observation.grid.objects) for e in envs]
                if any(x != st[0] for x in st) or any(x != ob[0] for x in ob):
                    bad = [names[i] for i in range(len(envs)) if st[i] != st[0] or ob[i] != ob[0]]
                    out.append(V('factory/behaviour-differs-from-hand-assembly', f'{os.path.basename(c["file"])} step {k}: {bad}'))
                    break
                res = [e.step(a) for e in envs]
                if any(r != res[0] for r in res):
                    out.append(V('factory/reward-or-termination-differs', f'{os.path.basename(c["file"])} step {k}: {res}'))
                    break
                if res[0][1]:
                    for e in envs:
                        e.reset()
            return out
        if c['kind'] == 'corrupt':
            data = load_cfg(c['file'])
            rr = random.Random(c['pick'])
            w = c['which']
            fn_keys = ['reset_function', 'observation_function', 'terminating_function']
            if w == 'unknown-name':
                tgt = rr.choice(fn_keys + ['transition_functions', 'reward_functions'])
                node = data[tgt] if tgt in fn_keys else rr.choice(data[tgt])
                node['name'] = 'no_such_component'
            elif w == 'missing-required':
                node = data['reset_function']
                req = [k for k in node if k not in ('name', 'random_agent', 'random_exit')]
                if not req:
                    return out
                node.pop(rr.choice(req))
            elif w == 'bad-shape':
                data['reset_function']['shape'] = rr.choice([[5], [5, 5, 5], [0, 5], [-3, 4], ['a', 5], [5.5, 5], 5, []])
            elif w == 'bad-layout':
                if 'layout' not in data['reset_function']:
                    return out
                data['reset_function']['layout'] = rr.choice([[2], [0, 2], [2, -1], ['a', 2], [2, 2, 2], 2])
            elif w == 'bad-color':
                tgt = rr.choice(['state_space', 'observation_space'])
                data[tgt]['colors'] = rr.choice([['PURPLE'], [], ['RED', 'RED'], 'RED', [3]])
            elif w == 'bad-action':
                data['action_space'] = rr.choice([['JUMP'], [], ['MOVE_LEFT', 'MOVE_LEFT'], 'MOVE_LEFT', [1]])
            elif w == 'bad-distance':
                from gym_gridverse.envs.yaml.factory import factory_distance_function

                junk = rr.choice(['chebyshev', 'euclidian', 'Euclidean', 'MANHATTAN', '', 'manhattan ', 'l1'])
                try:
                    factory_distance_function(junk)
                    out.append(V('factory/unknown-distance-function-accepted', f'factory_distance_function({junk!r})'))
                except (SchemaError, ValueError):
                    pass
                except Exception as e:
                    out.append(V('factory/bad-distance-wrong-error', f'factory_distance_function({junk!r}): {type(e).__name__}: {e}'))
                nodes = [r for r in data['reward_functions'] if 'distance_function' in r]
                if not nodes:
                    data['reward_functions'].append({'name': 'getting_closer', 'distance_function': junk, 'object_type': 'Exit', 'reward_closer': 0.2, 'reward_further': -0.2})
                else:
                    rr.choice(nodes)['distance_function'] = junk
            try:
                factory_env_from_data(data)
                out.append(V(f'factory/{w}-accepted', f'{os.path.basename(c["file"])}: {data.get("reset_function")}'))
            except (SchemaError, ValueError):
                pass
            except Exception as e:
                out.append(V(f'factory/{w}-wrong-error', f'{os.path.basename(c["file"])}: {type(e).__name__}: {e}'))
            return out
        # component by name behaves like the function called with the parameters
        from harness import corr_core
        from gym_gridverse.envs import reward_functions as rf, terminating_functions as tf
        from gym_gridverse.grid_object import Exit, Key

        rr = random.Random(c['seed'])
        s, a, s2 = corr_core._reward_triples(rr, rr.randrange(4))
        if not in_grid(s2.grid, s2.agent.position) or not in_grid(s.grid, s.agent.position) or s.grid.shape != s2.grid.shape:
            return out  # not a (state, action, next state) of one world: the components promise nothing
        for name, kw, extra in [('reach_exit', {'reward_on': 3.0, 'reward_off': -1.0}, {'colour': 'blue'}), ('living_reward', {'reward': -0.25}, {'shape': (3, 3)}), ('living_reward', {'reward': 0.0}, {}), ('reach_exit', {'reward_on': 0.0, 'reward_off': 2.0}, {}), ('bump_into_wall', {'reward': 0}, {}), ('bump_into_wall', {'reward': -2.0}, {}), ('pickndrop', {'object_type': Key, 'reward_pick': 1.5}, {'reward_drip': 9.0})]:
            try:
                f = rf.factory(name, **kw, **extra)
                same = f(s, a, s2) == rf.reward_function_registry[name](s, a, s2, **kw)
            except Exception as e:
                same = False
                name = f'{name}: {type(e).__name__}: {e}'
            if not same:
                out.append(V('factory/component-by-name-differs', name))
        for name in ('reach_exit', 'bump_into_wall', 'bump_moving_obstacle'):
            if tf.factory(name, junk=1)(s, a, s2) != tf.terminating_function_registry[name](s, a, s2):
                out.append(V('factory/component-by-name-differs', name))
        # a distance function obtained by name is the function of that name, on every pair of positions
        from gym_gridverse.envs.yaml.factory import factory_distance_function, factory_reward_function

        for dname, dfn in (('manhattan', Position.manhattan_distance), ('euclidean', Position.euclidean_distance)):
            f = factory_distance_function(dname)
            for _ in range(6):
                p_, q_ = Position(rr.randint(-9, 9), rr.randint(-9, 9)), Position(rr.randint(-9, 9), rr.randint(-9, 9))
                if f(p_, q_) != dfn(p_, q_):
                    out.append(V('factory/distance-function-by-name-differs', f'{dname} {p_} {q_}: {f(p_, q_)} instead of {dfn(p_, q_)}'))
                    break
            # ... and so is the reward built from a description naming it
            if sum(isinstance(s2.grid[pp], Exit) for pp in s2.grid.area.positions()) == 1:
                desc = {'name': 'proportional_to_distance', 'distance_function': dname, 'object_type': 'Exit', 'reward_per_unit_distance': -0.5}
                try:
                    got = factory_reward_function(dict(desc))(s, a, s2)
                    exp = rf.proportional_to_distance(s, a, s2, distance_function=dfn, object_type=Exit, reward_per_unit_distance=-0.5)
                    if got != exp:
                        out.append(V('factory/reward-by-description-differs', f'{desc}: {got} instead of {exp}'))
                except Exception as e:
                    out.append(V('factory/reward-by-description-raises', f'{desc}: {type(e).__name__}: {e}'))
        # ... for every value of the parameters, 0 / 0.0 / False included (a value is not "left out")
        from gym_gridverse.envs.yaml.factory import factory_terminating_function

        for desc, ref in (
            ({'name': 'living_reward', 'reward': 0.0}, lambda: rf.living_reward(s, a, s2, reward=0.0)),
            ({'name': 'living_reward', 'reward': rr.choice([0.0, -0.5, 2.0])}, None),
            ({'name': 'reach_exit', 'reward_on': 0.0, 'reward_off': rr.choice([0.0, 1.5])}, None),
            ({'name': 'bump_into_wall', 'reward': 0.0}, None),
            ({'name': 'bump_moving_obstacle', 'reward': 0.0}, None),
            ({'name': 'actuate_door', 'reward_open': 0.0, 'reward_close': 0.0}, None),
            ({'name': 'pickndrop', 'object_type': 'Key', 'reward_pick': 0.0, 'reward_drop': 0.0}, None),
        ):
            try:
                kw_ = {k_: v_ for k_, v_ in desc.items() if k_ != 'name'}
                if 'object_type' in kw_:
                    kw_['object_type'] = Key
                exp = rf.reward_function_registry[desc['name']](s, a, s2, **kw_)
                got = factory_reward_function(dict(desc))(s, a, s2)
                if got != exp:
                    out.append(V('factory/reward-by-description-differs', f'{desc}: {got} instead of {exp}'))
            except Exception as e:
                out.append(V('factory/reward-by-description-raises', f'{desc}: {type(e).__name__}: {e}'))
        # falsy parameter values are values (0, 0.0, False), not "unspecified"
        import numpy as np
        from gym_gridverse.envs import reset_functions as rsf
        from gym_gridverse.geometry import Shape

        for kw in ({'num_obstacles': 0, 'random_agent': False}, {'num_obstacles': 2, 'random_agent': False}):
            try:
                s1 = rsf.factory('dynamic_obstacles', shape=Shape(6, 6), **kw)(rng=np.random.default_rng(c['seed']))
                s2_ = rsf.dynamic_obstacles(Shape(6, 6), rng=np.random.default_rng(c['seed']), **kw)
                if enc_state(s1) != enc_state(s2_):
                    out.append(V('factory/component-by-name-differs', f'dynamic_obstacles {kw}'))
            except Exception as e:
                out.append(V('factory/component-by-name-differs', f'dynamic_obstacles {kw}: {type(e).__name__}: {e}'))
            try:
                from gym_gridverse.envs.yaml.factory import factory_reset_function

                s3 = factory_reset_function({'name': 'dynamic_obstacles', 'shape': [6, 6], **kw})(rng=np.random.default_rng(c['seed']))
                if enc_state(s3) != enc_state(s2_):
                    out.append(V('factory/reset-by-description-differs', f'dynamic_obstacles {kw}'))
            except Exception as e:
                out.append(V('factory/reset-by-description-raises', f'dynamic_obstacles {kw}: {type(e).__name__}: {e}'))
        return out



class C02(Oracle):
    prop = 'C02'

    def gen(self, rng):
        g = gen_env_cases(rng, p_random=0.35)
        while True:
            c = next(g)
            c['sched'] = [rng.randrange(5) if rng.random() < 0.5 else rng.randrange(4) for _ in range(3 * len(c['actions']))]
            c['other_seed'] = rng.randrange(2**31)
            yield c

    def check(self, c):
        import random as pyrandom
        import numpy as np
        import gym_gridverse.rng as rng_mod
        from gym_gridverse.rng import get_gv_rng

        out = []
        a_env, b_env, other = env_of_case(c), env_of_case(c), env_of_case(c)
        # the solo reference trace
        ref = env_of_case(c)
        ref.set_seed(c['seed'])
        ref.reset()
        nact = len(ref.action_space.actions)
        solo = []
        for ai in c['actions']:
            solo.append((enc_state(ref.state), enc_state(ref.observation)))
            r, d = ref.step(ref.action_space.actions[ai % nact])
            solo.append((r, d))
            if d:
                ref.reset()
        # two seeded copies interleaved with a third environment and foreign library draws
        get_gv_rng()
        lib0 = rng_mod._gv_rng.bit_generator.state if hasattr(rng_mod._gv_rng, 'bit_generator') else None
        g0 = (np.random.get_state()[1].tobytes(), pyrandom.getstate())
        for e in (a_env, b_env):
            e.set_seed(c['seed'])
            e.reset()
        other.set_seed(c['other_seed'])
        other.reset()
        lib1 = rng_mod._gv_rng.bit_generator.state if lib0 is not None else None
        traces = {0: [], 1: []}
        idx = {0: 0, 1: 0}
        envs = {0: a_env, 1: b_env}
        lib_used = False
        for w in c['sched']:
            if w in (0, 1):
                k = idx[w]
                if k >= len(c['actions']):
                    continue
                e = envs[w]
                traces[w].append((enc_state(e.state), enc_state(e.observation)))
                r, d = e.step(e.action_space.actions[c['actions'][k] % nact])
                traces[w].append((r, d))
                if d:
                    e.reset()
                idx[w] += 1
            elif w == 2:
                r, d = other.step(other.action_space.actions[0])
                other.observation
                if d:
                    other.reset()
            elif w == 4:
                # a refused step on the first copy (something that is no action of its space), between two reads
                # of its observation: nothing happened, the observation is the one already made, no draw is spent
                e = a_env
                before = enc_state(e.observation)
                bad = next((x for x in ACTIONS if not e.action_space.contains(x)), 'no-such-action')
                try:
                    e.step(bad)
                except Exception:
                    pass
                if enc_state(e.observation) != before:
                    out.append(V('rng/refused-step-changes-the-observation', f'{c.get("file", "random composition")} seed={c["seed"]}: the observation of an unchanged state was made anew after a refused step'))
                    return out
            else:
                get_gv_rng().random()
                lib_used = True
        for w in (0, 1):
            if traces[w] != solo[: len(traces[w])]:
                out.append(V('rng/interleaving-changes-trajectory', f'{c.get("file", "random composition")} seed={c["seed"]} env{w}'))
        if not lib_used and lib0 is not None and rng_mod._gv_rng.bit_generator.state != lib1:
            out.append(V('rng/seeded-env-advances-library-generator', f'{c.get("file", "random composition")}'))
        if lib0 is not None and lib1 != lib0:
            out.append(V('rng/seeded-env-advances-library-generator', f'{c.get("file", "random composition")} (during reset)'))
        g1 = (np.random.get_state()[1].tobytes(), pyrandom.getstate())
        if g0 != g1:
            out.append(V('rng/global-generator-perturbed', f'{c.get("file", "random composition")}'))
        return out


class C03(Oracle):
    prop = 'C03'

    def gen(self, rng):
        g = gen_env_cases(rng, p_random=0.35)
        sg = gen_step_cases(rng, valid=True)
        dg = C10().gen(rng)  # door / box / key focused steps: the in-place changes of object nodes
        k = 0
        while True:
            k += 1
            if k % 13 == 7:
                # an environment whose declared state space is narrower than what its dynamics can produce (a
                # box holding a kind that is not declared): the step out of the space is refused or answered
                # with a fresh state, never with the very state that was passed in
                h, w = rng.randint(2, 4), rng.randint(2, 4)
                y, x = rng.randrange(h), rng.randrange(w - 1)
                st = gen.mk_state(h, w, {(y, x + 1): rng.choice(['XK1', 'XE0', 'XD11', 'XO'])}, y, x, O.R)
                yield {'kind': 'narrow', 'custom': {'state': enc_state(st), 'area': [-1, 0, -1, 1], 'obs': 'fully_transparent', 'trans': ['move_agent', 'turn_agent', 'actuate_box'], 'kinds': ['Floor', 'Wall', 'Box']},
                       'debug': rng.random() < 0.7}
                continue
            if k % 11 == 5:
                # the reward helpers remember things (shortest-path tables, ray fans): the same question about
                # one world, asked before and after questions about look-alike worlds (the same cells laid out
                # in another shape, the same shape with another wall) and a crowd of unrelated ones
                yield {'kind': 'rewardhist', 'pick': rng.randrange(2**31)}
                continue
            if k % 3 == 0:
                if k % 4 == 0:
                    # a step that changes an object node in place: a closed door (or a locked one with its
                    # key in hand) right in front of the agent, ACTUATE
                    h, w = rng.randint(1, 4), rng.randint(2, 5)
                    y, x = rng.randrange(h), rng.randrange(w - 1)
                    col = rng.randrange(5)
                    status = rng.choice([1, 2])
                    held = f'K{col}' if status == 2 and rng.random() < 0.8 else rng.choice(['N', 'K1', 'W'])
                    cells = {(y, x + 1): f'D{status}{col}'}
                    if rng.random() < 0.5:
                        cells[(rng.randrange(h), rng.randrange(w))] = rng.choice(['XK1', f'D1{col}', 'E0', 'O'])
                        cells[(y, x + 1)] = f'D{status}{col}'
                    if (y, x) in cells:
                        del cells[(y, x)]
                    st = gen.mk_state(h, w, cells, y, x, O.R, held)
                    c = {'kind': 'heapstep', 'atoms': rng.choice([[4], [0, 1, 4], [0, 1, 4, 2], [4, 5], [1, 4, 0]]), 'state': enc_state(st),
                         'action': 6, 'answers': [0] * 4}
                    yield c
                    continue
                c = dict(next(dg if k % 2 == 0 else sg))
                c['kind'] = 'heapstep'
                yield c
            else:
                c = next(g)
                c['other_seed'] = rng.randrange(2**31)
                yield c

    def from_line(self, line):
        t = line.split()
        if len(t) < 3 or t[0] != 'heap':
            return None
        if t[1] in ('inplace', 'step'):
            c = step_case_from_line(' '.join(['trans'] + t[2:]))
            if c is None:
                return None
            c['kind'] = 'heapstep'
            return c
        if t[1] == 'obs':
            st, j = dec_state(t, 2)
            return {'kind': 'heapobs', 'state': ' '.join(t[2:j]), 'area': [int(x) for x in t[j : j + 4]], 'bits': t[j + 4]}
        if t[1] == 'copy':
            return {'kind': 'heapcopy', 'state': ' '.join(t[2:])}
        return None

    @staticmethod
    def _mutable_ids(s):
        from harness.corr_heap import name_nodes

        return {id(n): nm for n, nm, _ in name_nodes(s)}

    def _pure_call(self, out, what, where, s_list, f):
        """run f; every state in s_list must hold the same contents, node by node, afterwards"""
        from harness.corr_heap import name_nodes, snapshot

        nodes = [name_nodes(s) for s in s_list]
        before = [snapshot(n) for n in nodes]
        encs = [enc_state(s) for s in s_list]
        res = f()
        for i, (n, b) in enumerate(zip(nodes, before)):
            after = snapshot(n)
            if after != b or enc_state(s_list[i]) != encs[i]:
                ch = [nm for (_, nm, _), x, y in zip(n, b, after) if x != y]
                out.append(V(f'{what}/modifies-argument', f'{where}: argument {i} nodes {ch[:6]}'))
        return res

    def _no_sharing(self, out, what, where, s, s2):
        a, b = self._mutable_ids(s), self._mutable_ids(s2)
        shared = sorted(a[i] for i in a.keys() & b.keys())
        if shared:
            out.append(V(f'{what}/shares-mutable-node', f'{where}: {shared[:6]}'))

    def _copy(self, out, where, s):
        c = self._pure_call(out, 'copy', where, [s], lambda: fast_copy(s))
        if not (c == s) or enc_state(c) != enc_state(s):
            out.append(V('copy/not-equal', where))
        try:
            if hash(c) != hash(s):
                out.append(V('copy/hash-differs', where))
        except TypeError:
            pass
        self._no_sharing(out, 'copy', where, s, c)

    def _rewardhist(self, c):
        from gym_gridverse.envs import reward_functions as rf
        from gym_gridverse.envs import transition_functions as trf
        from gym_gridverse.grid_object import Exit

        out = []
        rr = random.Random(c['pick'])
        h, w = rr.randint(2, 5), rr.randint(2, 5)
        n = h * w
        walls = [rr.random() < 0.3 for _ in range(n)]
        chain = trf.factory('chain', transition_functions=[trf.factory('move_agent'), trf.factory('turn_agent')])

        def world(hh, ww, bits, ex, ag):
            cells = {(i // ww, i % ww): 'W' for i in range(hh * ww) if bits[i]}
            cells.pop(ex, None)
            cells.pop(ag, None)
            cells[ex] = 'E0'
            return gen.mk_state(hh, ww, cells, ag[0], ag[1], rr.choice(gen.ORIENTS))

        # the same row-major cells laid out as h x w and as w x h (and as 1 x n), exit at the same (y, x)
        m = min(h, w)
        ex = (rr.randrange(m), rr.randrange(m))
        worlds = []
        for hh, ww in ((h, w), (w, h), (1, n), (h, w)):
            e_ = ex if (hh, ww) != (1, n) else (0, rr.randrange(n))
            free = [(i // ww, i % ww) for i in range(hh * ww) if (i // ww, i % ww) != e_]
            ag = rr.choice(free)
            bits = list(walls)
            if len(worlds) == 3:
                bits[rr.randrange(n)] ^= True  # the same shape as the first, one wall different
            worlds.append(world(hh, ww, bits, e_, ag))
        f = rf.factory('getting_closer_shortest_path', object_type=Exit, reward_closer=1.0, reward_further=-1.0)
        a = ACTIONS[rr.randrange(4)]

        def ask(st):
            nxt = trf.transition_with_copy(chain, st, a, rng=None)
            return f(st, a, nxt), lit_distance_reward('path', st, nxt, Exit, 1.0, -1.0), enc_state(st)

        try:
            first = [ask(st) for st in worlds]
            for _ in range(14):  # a crowd of unrelated questions
                st = gen_episode_world(rr)
                if st is not None:
                    ask(st)
            again = [ask(st) for st in reversed(worlds)][::-1]
        except Exception as e:
            return [V('history/reward-raises', f'{type(e).__name__}: {e} (pick {c["pick"]})')]
        for (r1, e1, w1), (r2, _, _) in zip(first, again):
            if r1 != e1 or r2 != e1:
                out.append(V('history/reward-answer-depends-on-earlier-questions', f'getting_closer_shortest_path on {w1} action {a.name}: {r1} the first time, {r2} later, the triple on its own gives {e1} (asked among look-alike worlds {[x[2] for x in first]})'))
                break
        return out

    def check(self, c):
        import numpy as np
        from harness.recrng import ScriptRng
        from gym_gridverse.envs import observation_functions as of
        from gym_gridverse.envs import transition_functions as trf

        out = []
        if c['kind'] == 'rewardhist':
            return self._rewardhist(c)
        if c['kind'] == 'narrow':
            from gym_gridverse.debugging import reset_gv_debug

            reset_gv_debug(bool(c['debug']))
            try:
                env = custom_env(c['custom'])
                env.set_seed(1)
                s = env.functional_reset()
                snap = enc_state(s)
                for a in (Action.ACTUATE, Action.TURN_LEFT, Action.MOVE_BACKWARD):
                    try:
                        s2, _, _ = env.functional_step(s, a)
                    except Exception:
                        continue
                    if s2 is s or s2.grid is s.grid or s2.agent is s.agent or any(r1 is r2 for r1 in s.grid.objects for r2 in s2.grid.objects):
                        out.append(V('step/shares-mutable-node', f'user-reset environment {c["custom"]} (declared kinds {c["custom"]["kinds"]}), {a.name}: the answer is (made of) the state that was passed in'))
                        break
                    if enc_state(s) != snap:
                        out.append(V('step/modifies-argument', f'user-reset environment {c["custom"]}, {a.name}'))
                        break
            finally:
                reset_gv_debug(None)
            return out
        if c['kind'] == 'heapstep':
            s = state_from_str(c['state'])
            a = ACTIONS[c['action']]
            where = f'chain {[TRANS_NAMES[i] for i in c["atoms"]]} {c["state"]} action={a.name}'
            chain = trf.factory('chain', transition_functions=[trf.factory(TRANS_NAMES[i]) for i in c['atoms']])
            # the input has a past: it has been hashed and compared before (values a cache might keep)
            try:
                _ = (hash(s), hash(s.grid), hash(s.agent), s == fast_copy(s), [hash(o) for row in s.grid.objects for o in row])
            except TypeError:
                pass
            try:
                s2 = self._pure_call(out, 'step', where, [s], lambda: trf.transition_with_copy(chain, s, a, rng=ScriptRng(c['answers'])))
            except Exception:
                return out
            self._no_sharing(out, 'step', where, s, s2)
            self._copy(out, where, s)
            # the same question again, and the answer built from scratch: equal, and hashing alike
            try:
                s2b = trf.transition_with_copy(chain, s, a, rng=ScriptRng(c['answers']))
                fresh = state_from_str(enc_state(s2))
                for tag, x in (('asked again', s2b), ('built from scratch', fresh)):
                    if enc_state(x) != enc_state(s2):
                        out.append(V('history/step-answer-changed', f'{where} ({tag})'))
                    elif not (x == s2) or not (s2 == x) or not (x.grid == s2.grid):
                        out.append(V('history/equal-answers-compare-unequal', f'{where} ({tag})'))
                    elif hash(x) != hash(s2) or hash(x.grid) != hash(s2.grid) or hash(x.agent) != hash(s2.agent):
                        out.append(V('history/equal-answers-hash-differently', f'{where} ({tag})'))
            except TypeError:
                pass
            # a look-alike in between: a state that compares equal to this one (equality does not look into
            # boxes) but is another state; its answer is the answer for *it*, whatever was asked before,
            # also when it is this very object whose box was refilled in place
            toks = c['state'].split()
            h_, w_ = int(toks[0]), int(toks[1])
            cells = toks[2 : 2 + h_ * w_]
            if not out and any(t.startswith('X') for t in cells):
                from harness.codec import dec_obj

                swapped = [('XK2' if t != 'XK2' else 'XF') if t.startswith('X') else t for t in cells]
                look = ' '.join(toks[:2] + swapped + toks[2 + h_ * w_ :])
                for tag, t_ in (('an equal-looking state with other box contents', state_from_str(look)), ('the same object after its boxes were refilled in place', s)):
                    if t_ is s:
                        for pp in s.grid.area.positions():
                            if enc_obj_of(s.grid[pp]).startswith('X'):
                                s.grid[pp].content = dec_obj('K2' if enc_obj_of(s.grid[pp]) != 'XK2' else 'F')
                    ref = state_from_str(enc_state(t_))
                    try:
                        rr_ = ScriptRng(c['answers'])
                        for i in c['atoms']:
                            trf.transition_function_registry[TRANS_NAMES[i]](ref, a, rng=rr_)
                        got = trf.transition_with_copy(chain, t_, a, rng=ScriptRng(c['answers']))
                    except Exception:
                        break
                    if enc_state(got) != enc_state(ref):
                        out.append(V('history/answer-is-for-a-state-asked-about-earlier', f'{where}, then {tag}: {enc_state(t_)} -> {enc_state(got)} instead of {enc_state(ref)}'))
                        break
            return out
        if c['kind'] == 'heapobs':
            s = state_from_str(c['state'])
            y0, y1, x0, x1 = c['area']
            area = Area((y0, y1), (x0, x1))
            mask = np.array([ch == '1' for ch in c['bits']], dtype=bool).reshape(area.height, area.width)
            where = f'from_visibility {c["state"]} {c["area"]}'
            try:
                self._pure_call(out, 'observation', where, [s], lambda: of.from_visibility(s, area=area, visibility_function=lambda g, p, rng=None: mask))
            except Exception:
                pass
            return out
        if c['kind'] == 'heapcopy':
            self._copy(out, c['state'], state_from_str(c['state']))
            return out
        # environment trajectories through the functional interface
        env, other = env_of_case(c), env_of_case(c)
        name = c.get('file', 'random composition')
        env.set_seed(c['seed'])
        other.set_seed(c['other_seed'])
        s = env.functional_reset()
        so = other.functional_reset()
        acts = env.action_space.actions
        for k, ai in enumerate(c['actions']):
            a = acts[ai % len(acts)]
            where = f'{name} seed={c["seed"]} step {k} {a.name}'
            keep = fast_copy(s)
            env.set_seed(1000 + k)
            try:
                s2, r, d = self._pure_call(out, 'step', where, [s, so], lambda: env.functional_step(s, a))
            except Exception:
                return out
            self._no_sharing(out, 'step', where, s, s2)
            env.set_seed(2000 + k)
            o = self._pure_call(out, 'observation', where, [s, s2], lambda: env.functional_observation(s))
            self._pure_call(out, 'reward', where, [s, s2], lambda: env._reward_function(s, a, s2))
            self._pure_call(out, 'termination', where, [s, s2], lambda: env._termination_function(s, a, s2))
            # intervening calls on another environment and on the cached helpers
            for _ in range(2):
                so, _, do = other.functional_step(so, other.action_space.actions[(k + ai) % len(other.action_space.actions)])
                other.functional_observation(so)
                if do:
                    so = other.functional_reset()
            # the same questions again
            env.set_seed(1000 + k)
            s2b, rb, db = env.functional_step(s, a)
            if enc_state(s2b) != enc_state(s2) or rb != r or db != d:
                out.append(V('history/step-answer-changed', where))
            env.set_seed(2000 + k)
            ob = env.functional_observation(s)
            if enc_state(ob) != enc_state(o):
                out.append(V('history/observation-answer-changed', where))
            if enc_state(keep) != enc_state(s):
                out.append(V('step/modifies-argument', where + ' (after the whole round)'))
            if k % 5 == 0:
                self._copy(out, where, s)
            # stepping on from the next state must not reach back into the earlier one
            if k % 4 == 0:
                env.functional_step(s2, a)
                if enc_state(s) != enc_state(keep):
                    out.append(V('step/later-step-modifies-earlier-state', where))
            s = s2
            if d:
                s = env.functional_reset()
        return out


class C14(Oracle):
    prop = 'C14'

    def gen(self, rng):
        from harness import corr_win

        names = list(corr_win.SETUPS)
        k = 0
        while True:
            k += 1
            name = names[k % len(names)]
            params = corr_win.valid_params(rng, name) if rng.random() < 0.8 else corr_win.near_valid_params(rng, name)
            if name == 'crossing' and 'object_type' in params and rng.random() < 0.3:
                # rivers of obstacles that never move (the chain has no `move_obstacles`), episode ended by
                # touching one: the openings are the only way across
                params = dict(params, object_type='MovingObstacle')
            c = {'kind': 'reset', 'name': name, 'params': params, 'seed': rng.randrange(2**31)}
            if name in ('rooms', 'crossing', 'keydoor', 'empty', 'teleport', 'memory'):
                # cheap to search: many draws of the same parameter set (a layout that is unwinnable for one
                # draw in a hundred is unwinnable)
                c['more_seeds'] = [rng.randrange(2**31) for _ in range(24 if name == 'rooms' else 8)]
            yield c

    def from_line(self, line):
        t = line.split()
        if len(t) < 4 or t[0] != 'win':
            return None
        # the state is in the line; the layout family is recovered from the dynamics and goal
        n = int(t[2])
        atoms = [int(x) for x in t[3 : 3 + n]]
        i = 3 + n
        if t[i] == 'any':
            term = ' '.join(t[i : i + 2 + int(t[i + 1])])
            i += 2 + int(t[i + 1])
        else:
            term = t[i]
            i += 1
        goal = t[i]
        st, j = dec_state(t, i + 1)
        return {'kind': 'state', 'atoms': atoms, 'term': term, 'goal': goal, 'state': ' '.join(t[i + 1 : j])}

    # ------------------------------------------------------------------------------------------
    @staticmethod
    def _key(s):
        return enc_state(s)

    def _search(self, chain, term, goal_fn, s, stochastic, node_limit):
        """exists-actions (and, for stochastic dynamics, exists-draws) breadth-first search over the
        real transition functions; returns (plan or None, exhausted)"""
        from collections import deque
        import itertools as itt
        from harness.recrng import ScriptRng
        from gym_gridverse.envs import transition_functions as trf
        from gym_gridverse.grid_object import Door, Key, MovingObstacle

        acts = list(ACTIONS) if any(isinstance(s.grid[p], (Door, Key)) for p in s.grid.area.positions()) else ACTIONS[:4]
        nobs = sum(isinstance(s.grid[p], MovingObstacle) for p in s.grid.area.positions())
        draws = list(itt.product(range(4), repeat=nobs)) if stochastic and nobs else [()]
        seen = {self._key(s)}
        frontier = deque([(s, [])])
        n = 0
        while frontier:
            cur, plan = frontier.popleft()
            for a in acts:
                for dr in draws:
                    n += 1
                    if n > node_limit:
                        return None, False
                    try:
                        s2 = trf.transition_with_copy(chain, cur, a, rng=ScriptRng(list(dr)))
                    except Exception:
                        continue
                    if goal_fn(cur, a, s2):
                        return plan + [(a, dr)], True
                    if term(cur, a, s2):
                        continue
                    k = self._key(s2)
                    if k in seen:
                        continue
                    seen.add(k)
                    frontier.append((s2, plan + [(a, dr)]))
        return None, True

    def check(self, c):
        out = self._check_one(c)
        for sd in c.get('more_seeds') or []:
            if out:
                break
            out = self._check_one(dict(c, seed=sd, more_seeds=None, light=True))
        return out

    def _check_one(self, c):
        from harness import corr_win
        from gym_gridverse.envs import terminating_functions as tf
        from gym_gridverse.envs import transition_functions as trf
        from gym_gridverse.grid_object import Exit, Floor, MovingObstacle

        out = []
        if c['kind'] == 'reset':
            name = c['name']
            try:
                s = reset_call(c)
            except Exception:
                return out  # validity of parameters is C13's business
            where = f'{name} {c["params"]} seed={c["seed"]}'
            chain, term, goal_fn = corr_win.real_setup(name)
            static_obstacles = name == 'crossing' and c['params'].get('object_type') == 'MovingObstacle'
            if static_obstacles:
                term = tf.factory('reduce_any', terminating_functions=[tf.factory('reach_exit'), tf.factory('bump_moving_obstacle')])
        else:
            static_obstacles = False
            s = state_from_str(c['state'])
            chain = trf.factory('chain', transition_functions=[trf.factory(TRANS_NAMES[i]) for i in c['atoms']])
            reach = tf.factory('reach_exit')
            if c['term'] == 're':
                term = reach
            else:
                term = tf.factory('reduce_any', terminating_functions=[reach, tf.factory('bump_moving_obstacle'), tf.factory('bump_into_wall')])
            name = 'memory_rooms' if c['goal'] == 'm' else ('dynamic_obstacles' if 3 in c['atoms'] else 'state')
            _, _, goal_fn = corr_win.real_setup('memory' if c['goal'] == 'm' else 'empty')
            where = f'state {c["state"]}'
        stochastic = not static_obstacles and any(isinstance(s.grid[p], MovingObstacle) for p in s.grid.area.positions())
        if stochastic:
            # cheap randomised search first; exhaustive exists-draws search only on small grids
            found = corr_win.search_with_draws('dynamic_obstacles', s, random.Random(c.get('seed', 0)), tries=40)
            if found is not None:
                return out
            cells = s.grid.shape.height * s.grid.shape.width
            plan, exhausted = self._search(chain, term, goal_fn, s, True, 150000 if cells <= 25 else 30000)
        else:
            plan, exhausted = self._search(chain, term, goal_fn, s, False, 400000)
        if plan is not None and c.get('light'):
            return out
        if plan is not None and not stochastic:
            # the plan is a plan of the *environment*: its own step (membership checks included) takes it
            atoms_ = c['atoms'] if c['kind'] == 'state' else corr_win.SETUPS[name][0]
            try:
                env = custom_env({'state': enc_state(s), 'area': [-2, 0, -1, 1], 'obs': 'fully_transparent', 'trans': [TRANS_NAMES[i] for i in atoms_]})
                env.set_seed(0)
                cur = env.functional_reset()
                ref = s
                for a, _ in plan:
                    ref = trf.transition_with_copy(chain, ref, a, rng=None)
                    cur, _, _ = env.functional_step(cur, a)
                    if enc_state(cur) != enc_state(ref):
                        out.append(V('environment/step-differs-from-the-dynamics-along-a-winning-plan', where))
                        break
            except Exception as e:
                out.append(V('environment/winning-plan-cannot-be-executed', f'{where}: {type(e).__name__}: {e}'))
            return out
        if plan is not None or not exhausted:
            return out
        # unwinnable: classify
        if name == 'memory_rooms' or (c['kind'] == 'state' and c.get('goal') == 'm'):
            # would the matching exit be reachable if the other exits did not end the episode?
            never = lambda s0, a, s1: False  # noqa: E731
            p2, ex2 = self._search(chain, never, goal_fn, s, False, 400000)
            if p2 is not None:
                out.append(V('memory_rooms/matching-exit-cut-off-by-other-exits', where))
                return out
        if stochastic:
            s_free = fast_copy(s)
            for p in s_free.grid.area.positions():
                if isinstance(s_free.grid[p], MovingObstacle):
                    s_free.grid[p] = Floor()
            p3, _ = self._search(chain, term, goal_fn, s_free, False, 400000)
            if p3 is not None:
                out.append(V('dynamic_obstacles/obstacles-force-a-bump', where))
                return out
        out.append(V(f'unwinnable/{name}', where))
        return out


def _with_functional_interface(cls):
    """the dynamics oracles judge a step taken in place; the same step through the functional interface
    must be the same step and must leave the state it started from alone (see
    `functional_interface_violations`)"""
    orig = cls.check

    def check(self, c):
        out = orig(self, c)
        if not out and c.get('kind') == 'step' and 'atoms' in c and 'answers' in c:
            out = functional_interface_violations(c)
        return out

    cls.check = check
    return cls


for _cls in (C08, C09, C10, C11):
    _with_functional_interface(_cls)

ORACLES = {'C18': C18, 'C08': C08, 'C09': C09, 'C10': C10, 'C11': C11, 'C12': C12, 'C05': C05, 'C06': C06, 'C07': C07, 'C04': C04, 'C20': C20, 'C15': C15, 'C16': C16, 'C13': C13, 'C01': C01, 'C19': C19, 'C17': C17, 'C02': C02, 'C03': C03, 'C14': C14}
