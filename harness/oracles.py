"""Property oracles: literal executable transcriptions of the properties on the REAL code.

They never let a check pass; they turn a broken proof obligation / correspondence (or their own
small budget) into a concrete failing input.  Each oracle offers
    gen(rng)        -> iterator of cases (dict with 'kind')
    check(case)     -> list of violations, each {'signature', 'what'}
    from_line(line) -> case | None   (to judge an input on which model and code disagreed)
"""
import math
import random

from harness import gvenv  # noqa: F401
from harness import gen
from harness.codec import (
    ACTIONS,
    ORIENT_TOK,
    TOK_ORIENT,
    dec_state,
    enc_action,
    enc_state,
    state_from_str,
)
from gym_gridverse.envs.utils import get_next_position
from gym_gridverse.geometry import Area, Orientation, Position, Transform
from gym_gridverse.utils.fast_copy import fast_copy

O = Orientation
ORIENTS = [O.F, O.B, O.L, O.R]


class Oracle:
    prop = None

    def gen(self, rng):
        return iter(())

    def check(self, case):
        return []

    def from_line(self, line):
        return None

    def nontrivial(self, case):
        return True


def V(signature, what):
    return {'signature': signature, 'what': what}


# ---------------------------------------------------------------------------------------------
class C18(Oracle):
    prop = 'C18'

    def gen(self, rng):
        while True:
            big = rng.random() < 0.5
            m = 10**6 if big else 5
            ri = lambda: rng.randint(-m, m)  # noqa: E731
            ys, xs = sorted((ri(), ri())), sorted((ri(), ri()))
            yield {
                'kind': 'geom',
                'o': [ORIENT_TOK[rng.choice(ORIENTS)] for _ in range(3)],
                'p': [ri(), ri()],
                'q': [ri(), ri()],
                'r': [ri(), ri()],
                'area': [ys[0], ys[1], xs[0], xs[1]],
                'action': rng.randrange(8),
                'grid': enc_state(gen.random_state(rng, max_h=4, max_w=4, p_floor=0.3, p_wall_border=0.0)),
            }

    def check(self, c):
        out = []
        a, b, cc = (TOK_ORIENT[t] for t in c['o'])
        p, q, r = Position(*c['p']), Position(*c['q']), Position(*c['r'])
        ar = Area((c['area'][0], c['area'][1]), (c['area'][2], c['area'][3]))
        F = O.F
        if (a * b) * cc != a * (b * cc):
            out.append(V('orientation/assoc', f'({a}*{b})*{cc}'))
        if F * a != a or a * F != a:
            out.append(V('orientation/identity', f'{a}'))
        if a * -a != F or -a * a != F:
            out.append(V('orientation/inverse', f'{a}'))
        if a * a * a * a != F:
            out.append(V('orientation/order4', f'{a}'))
        if (a * b) * p != a * (b * p):
            out.append(V('orientation/action-homomorphism', f'{a},{b},{p}'))
        if a * (p + q) != a * p + a * q:
            out.append(V('orientation/action-additive', f'{a},{p},{q}'))
        if Position.manhattan_distance(a * p, a * q) != Position.manhattan_distance(p, q):
            out.append(V('orientation/isometry-manhattan', f'{a},{p},{q}'))
        d1, d2 = (a * p) - (a * q), p - q
        if d1.y**2 + d1.x**2 != d2.y**2 + d2.x**2:
            out.append(V('orientation/isometry-euclid', f'{a},{p},{q}'))
        t, u, v = Transform(p, a), Transform(q, b), Transform(r, cc)
        ident = Transform(Position(0, 0), F)
        if (t * u) * v != t * (u * v):
            out.append(V('transform/assoc', f'{t},{u},{v}'))
        if ident * t != t or t * ident != t:
            out.append(V('transform/identity', f'{t}'))
        if t * -t != ident or -t * t != ident:
            out.append(V('transform/inverse', f'{t}'))
        if (t * u) * r != t * (u * r):
            out.append(V('transform/action', f'{t},{u},{r}'))
        if (t * ar).contains(t * q) != ar.contains(q):
            out.append(V('area/contains', f'{t},{ar},{q}'))
        if ar.height * ar.width <= 64:
            img = sorted((t * pp).yx for pp in ar.positions())
            if img != sorted(pp.yx for pp in (t * ar).positions()):
                out.append(V('area/image', f'{t},{ar}'))
        act = ACTIONS[c['action']]
        np_ = get_next_position(p, a, act)
        from gym_gridverse.envs.utils import _move_action_to_orientation as mv

        exp = t * Position.from_orientation(mv[act]) if act in mv else p
        if np_ != exp:
            out.append(V('nextpos/pose-algebra', f'{p},{a},{act}'))
        s = state_from_str(c['grid'])
        g = s.grid
        gr = g * a
        back = gr * (-a)
        if back.shape != g.shape or any(back[pp] is not g[pp] for pp in g.area.positions()):
            out.append(V('gridrot/inverse', f'{a} {c["grid"]}'))
        ids = sorted(id(x) for row in g.objects for x in row)
        if ids != sorted(id(x) for row in gr.objects for x in row):
            out.append(V('gridrot/permutation', f'{a} {c["grid"]}'))
        return out


ORACLES = {'C18': C18}
