"""Cross-process reproducibility (C02): the same configuration, seed and actions in interpreter
processes with different PYTHONHASHSEED values, and with the library debug flag on / off, must give
identical traces.  Run as a subprocess worker:  python -m harness.xproc <debug 0|1> <nseeds> <nsteps> files..."""
import hashlib
import os
import subprocess
import sys

VERIF = os.path.dirname(os.path.dirname(os.path.abspath(__file__)))


def worker(debug, nseeds, nsteps, files):
    sys.path.insert(0, VERIF)
    from harness import gvenv  # noqa: F401
    import numpy as np
    from gym_gridverse.debugging import reset_gv_debug
    from harness.codec import enc_state
    from harness.oracles import build_env

    reset_gv_debug(bool(debug))
    for f in files:
        env = build_env(None, composition(f)) if f.startswith('rc:') else build_env(f)
        h = hashlib.sha256()
        for seed in range(nseeds):
            try:
                env.set_seed(seed)
                env.reset()
                arng = np.random.default_rng(1000 + seed)
                for _ in range(nsteps):
                    h.update(enc_state(env.state).encode())
                    h.update(enc_state(env.observation).encode())
                    a = env.action_space.actions[int(arng.integers(len(env.action_space.actions)))]
                    r, d = env.step(a)
                    h.update(repr((float(r), bool(d))).encode())
                    if d:
                        env.reset()
            except Exception as e:  # part of the trace (a composition may violate a component's precondition)
                h.update(type(e).__name__.encode())
        print(os.path.basename(f), h.hexdigest())


def composition(name):
    """`rc:<k>`: the k-th random composition of built-in components (deterministic in k); odd k use the
    stochastic observation function, so that the observation side consumes randomness too"""
    import random
    from harness import corr_env

    k = int(name[3:])
    data = corr_env.random_config(random.Random(f'xproc-{k}'))
    if k % 2:
        data['observation_function']['name'] = 'stochastic_raytracing'
    return data


def check(seed, tier):
    """returns stats + violations (used as an `extra` of the C02 check)"""
    from harness.oracles import shipped_files

    files = shipped_files()
    if tier == 'quick':
        files = [f for f in files if 'memory' in f][:4] + files[:3]
        files += [f'rc:{k}' for k in range(8 * (seed % 50), 8 * (seed % 50) + 8)]
        hashseeds, nseeds, nsteps = ['0', '1', '2'], 3, 25
    else:
        files += [f'rc:{k}' for k in range(400, 480)]
        hashseeds, nseeds, nsteps = ['0', '1', '2', '3', '12345'], 16, 120
    runs = {}
    procs = []
    for hs in hashseeds:
        for dbg in (1, 0):
            env = dict(os.environ, PYTHONHASHSEED=hs)
            p = subprocess.Popen([sys.executable, '-m', 'harness.xproc', str(dbg), str(nseeds), str(nsteps)] + files, cwd=VERIF, env=env, stdout=subprocess.PIPE, stderr=subprocess.PIPE, text=True)
            procs.append(((hs, dbg), p))
    viol = []
    for key, p in procs:
        out, err = p.communicate(timeout=1800)
        if p.returncode != 0:
            viol.append({'signature': 'xproc/worker-failed', 'what': f'hashseed={key[0]} debug={key[1]}: {err[-400:]}'})
            continue
        runs[key] = dict(line.split() for line in out.strip().splitlines())
    ref_key = next(iter(runs), None)
    differing = set()
    if ref_key is not None:
        for key, d in runs.items():
            for f, dig in d.items():
                if runs[ref_key].get(f) != dig:
                    differing.add((f, key))
    for f, key in sorted(differing)[:5]:
        kind = 'debug-flag' if key[0] == ref_key[0] else 'hash-seed'
        sig = 'memory/colour-order-depends-on-hash-seed' if kind == 'hash-seed' and 'memory' in f else f'xproc/trace-depends-on-{kind}'
        viol.append({'signature': sig, 'what': f'{f}: trace differs between PYTHONHASHSEED/debug {ref_key} and {key}', 'case': {'kind': 'xproc', 'file': f, 'a': list(ref_key), 'b': list(key), 'nseeds': nseeds, 'nsteps': nsteps}})
    return {'evaluations': len(runs) * len(files) * nseeds * nsteps, 'distinct_nontrivial': len(runs) * len(files), 'processes': len(procs), 'violations': viol}


if __name__ == '__main__':
    worker(int(sys.argv[1]), int(sys.argv[2]), int(sys.argv[3]), sys.argv[4:])
