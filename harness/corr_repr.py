"""Correspondence for the numeric representations: per-object encodings and bounds over all type
and colour subsets, full state / observation dictionaries, declared spaces and gym spaces."""
import itertools as itt
import random

import numpy as np

from harness import gvenv  # noqa: F401
from harness import gen
from harness.codec import KIND_INDEX, KINDS, dec_obj, enc_exc, enc_obj, enc_state
from harness.corr_reset import enc_list
from gym_gridverse.geometry import Position, Shape
from gym_gridverse.grid_object import Box, Color, Hidden, NoneGridObject
from gym_gridverse.observation import Observation
from gym_gridverse.representations.observation_representations import make_observation_representation
from gym_gridverse.representations.state_representations import make_state_representation
from gym_gridverse.spaces import ObservationSpace, StateSpace

ENCS = ['default', 'no-overlap', 'compact']
GRID_KINDS = KINDS[2:]  # the nine constructible grid types
COLORS = list(Color)


def space_tok(h, w, kinds, colors):
    return f'{h} {w} {enc_list([KIND_INDEX[k] for k in kinds])} {enc_list([c.value for c in colors])}'


def flat(a):
    return ' '.join(str(int(v)) for v in np.asarray(a).reshape(-1))


def state_repr_expected(rep, space, s, h, w):
    d = rep.convert(s)
    assert list(d.keys()) == ['grid', 'agent_id_grid', 'agent', 'item'], list(d.keys())
    ag = d['agent']
    # the two float entries are (2p - n + 1)/(n - 1): compared through the same Python expression
    ny, dy = 2 * s.agent.position.y - s.grid.shape.height + 1, s.grid.shape.height - 1
    nx, dx = 2 * s.agent.position.x - s.grid.shape.width + 1, s.grid.shape.width - 1
    assert ag[0] == ny / dy and ag[1] == nx / dx, (ag, ny, dy, nx, dx)
    onehot = ' '.join(f'{int(v)}/1' for v in ag[2:])
    assert all(float(v) in (0.0, 1.0) for v in ag[2:])
    inside = all(space[k].contains(d[k]) for k in d)
    # dtype expectations of the declared spaces
    return f'G {flat(d["grid"])} | A {flat(d["agent_id_grid"])} | P {ny}/{dy} {nx}/{dx} {onehot} | I {flat(d["item"])} | {"T" if inside else "F"}'


def obs_repr_expected(rep, space, o):
    d = rep.convert(o)
    assert list(d.keys()) == ['grid', 'agent_id_grid', 'item'], list(d.keys())
    inside = all(space[k].contains(d[k]) for k in d)
    return f'G {flat(d["grid"])} | A {flat(d["agent_id_grid"])} | I {flat(d["item"])} | {"T" if inside else "F"}'


def objects_for(kinds, colors, rng=None):
    """every object of the given types with every status and declared colour"""
    toks = []
    for k in kinds:
        name = k.__name__
        if name == 'Floor':
            toks.append('F')
        elif name == 'Wall':
            toks.append('W')
        elif name == 'MovingObstacle':
            toks.append('O')
        elif name == 'Exit':
            toks += [f'E{c.value}' for c in colors]
        elif name == 'Key':
            toks += [f'K{c.value}' for c in colors]
        elif name == 'Telepod':
            toks += [f'T{c.value}' for c in colors]
        elif name == 'Beacon':
            toks += [f'B{c.value}' for c in colors]
        elif name == 'Door':
            toks += [f'D{s}{c.value}' for s in range(3) for c in colors]
        elif name == 'Box':
            toks += ['XF', 'XK1']
    return toks


def fam_repr_objects(seed, shard, nshards, n):
    """all 2^9 type subsets x all 2^4 colour subsets (NONE always added by the space) x 3 encodings
    x every member object, plus non-member objects (undeclared type / colour)"""
    k = 0
    rng = random.Random(f'reprobj-{seed}')
    for mask in range(1, 2**9):
        kinds = [GRID_KINDS[i] for i in range(9) if (mask >> i) & 1]
        for cmask in range(2**4):
            k += 1
            if k % nshards != shard:
                continue
            if n and (k // nshards) % max(1, (511 * 16) // max(1, n)) != 0:
                continue
            colors = [COLORS[i + 1] for i in range(4) if (cmask >> i) & 1]
            all_colors = [Color.NONE] + colors
            has_box = Box in kinds
            ssp = StateSpace(Shape(3, 3), kinds, colors)
            osp = ObservationSpace(Shape(3, 3), kinds, colors)
            for enc in ENCS:
                # observation side
                orep = make_observation_representation(enc, osp)
                gor = orep.representations['item'].grid_object_representation
                yield f'repr ospace {enc} {space_tok(3, 3, kinds, colors)}', flat(gor.space.upper_bound), f'ospace-{enc}'
                members = objects_for(kinds, all_colors) + ['H', 'N']
                outsiders = [t for t in ['W', 'K3', 'D21', 'B4', 'O', 'XF'] if t not in members][:2]
                for t in members + outsiders:
                    o = dec_obj(t)
                    try:
                        exp = flat(gor.convert(o))
                    except Exception as e:
                        exp = enc_exc(e)
                    yield f'repr oobj {enc} {space_tok(3, 3, kinds, colors)} {t}', exp, f'oobj-{enc}' + ('-err' if exp.startswith('ERR') else '')
                if not has_box:
                    srep = make_state_representation(enc, ssp)
                    gsr = srep.representations['item'].grid_object_representation
                    yield f'repr sspace {enc} {space_tok(3, 3, kinds, colors)}', flat(gsr.space.upper_bound), f'sspace-{enc}'
                    for t in [m for m in members if m != 'H'] + outsiders:
                        o = dec_obj(t)
                        try:
                            exp = flat(gsr.convert(o))
                        except Exception as e:
                            exp = enc_exc(e)
                        yield f'repr sobj {enc} {space_tok(3, 3, kinds, colors)} {t}', exp, f'sobj-{enc}' + ('-err' if exp.startswith('ERR') else '')


def random_member_state(rng, h, w, kinds, colors, p_bad=0.1):
    toks = objects_for(kinds, [Color.NONE] + colors)
    cells = {(i, j): rng.choice(toks) for i in range(h) for j in range(w)}
    held = rng.choice(['N'] * 2 + toks)
    y, x = rng.randrange(h), rng.randrange(w)
    s = gen.mk_state(h, w, cells, y, x, rng.choice(gen.ORIENTS), held)
    if rng.random() < p_bad:
        kind = rng.randrange(4)
        if kind == 0:
            s.grid[rng.randrange(h), rng.randrange(w)] = dec_obj(rng.choice(gen.ALPHABET_FULL))
        elif kind == 1:
            s.agent.grid_object = dec_obj(rng.choice(gen.ALPHABET_FULL))
        elif kind == 2:
            s.agent.position = Position(rng.randint(-2, h + 1), rng.randint(-2, w + 1))
        else:
            s = gen.mk_state(h + 1, w, {}, 0, 0, gen.ORIENTS[0], 'N')
    return s


def fam_repr_states(seed, shard, nshards, n):
    rng = random.Random(f'reprst-{seed}-{shard}')
    from gym_gridverse.debugging import reset_gv_debug

    for k in range(n // nshards):
        kinds = rng.sample(GRID_KINDS, rng.randint(1, 9))
        colors = rng.sample(COLORS[1:], rng.randint(0, 4))
        h, w = rng.randint(1, 6), rng.randint(1, 6)
        enc = rng.choice(ENCS)
        debug = rng.random() < 0.7
        reset_gv_debug(debug)
        try:
            if k % 2 == 0:
                if rng.random() < 0.85:
                    kinds = [x for x in kinds if x is not Box] or [GRID_KINDS[0]]
                    h, w = max(h, 2), max(w, 2)
                ssp = StateSpace(Shape(h, w), kinds, colors)
                s = random_member_state(rng, h, w, kinds, colors)
                line = f'repr state {enc} {space_tok(h, w, kinds, colors)} {int(debug)} {enc_state(s)}'
                try:
                    rep = make_state_representation(enc, ssp)
                    exp = state_repr_expected(rep, rep.space, s, h, w)
                except Exception as e:
                    exp = enc_exc(e)
                yield line, exp, 'state-' + enc + ('-err' if exp.startswith('ERR') else '')
            else:
                w = w | 1
                osp = ObservationSpace(Shape(h, w), kinds, colors)
                s = random_member_state(rng, h, w, kinds + [Hidden], colors)
                o = Observation(s.grid, s.agent)
                line = f'repr obs {enc} {space_tok(h, w, kinds, colors)} {int(debug)} {enc_state(o)}'
                try:
                    rep = make_observation_representation(enc, osp)
                    exp = obs_repr_expected(rep, rep.space, o)
                except Exception as e:
                    exp = enc_exc(e)
                yield line, exp, 'obs-' + enc + ('-err' if exp.startswith('ERR') else '')
        finally:
            reset_gv_debug(True)


def fam_space_contains(seed, shard, nshards, n):
    """StateSpace.contains / ObservationSpace.contains on members and near-members (undeclared type,
    undeclared colour, agent outside, wrong shape, bad held item)"""
    rng = random.Random(f'contains-{seed}-{shard}')
    for k in range(n // nshards):
        kinds = rng.sample(GRID_KINDS, rng.randint(1, 9))
        colors = rng.sample(COLORS[1:], rng.randint(0, 4))
        h, w = rng.randint(1, 5), rng.randint(1, 5)
        if k % 2 == 0:
            sp = StateSpace(Shape(h, w), kinds, colors)
            s = random_member_state(rng, h, w, kinds, colors, p_bad=0.5)
            try:
                exp = 'T' if sp.contains(s) else 'F'
            except Exception as e:
                exp = enc_exc(e)
            yield f'sscontains {space_tok(h, w, kinds, colors)} {enc_state(s)}', exp, 'sscontains-' + exp[:1]
        else:
            w |= 1
            sp = ObservationSpace(Shape(h, w), kinds, colors)
            s = random_member_state(rng, h, w, kinds + [Hidden], colors, p_bad=0.5)
            o = Observation(s.grid, s.agent)
            try:
                exp = 'T' if sp.contains(o) else 'F'
            except Exception as e:
                exp = enc_exc(e)
            yield f'oscontains {space_tok(h, w, kinds, colors)} {enc_state(o)}', exp, 'oscontains-' + exp[:1]
