"""Environment histories through the stateful interface: the real GridWorld (built by the YAML
factory and, independently, assembled by hand) vs the model's machine, with every generator call
recorded."""
import copy
import glob
import os
import random

from harness import gvenv  # noqa: F401
from harness import envspec
from harness.codec import ACTIONS, enc_exc, enc_state
from harness.recrng import RecRng
import gym_gridverse.rng as rng_mod
from gym_gridverse.envs.yaml.factory import factory_env_from_data
from harness import miniyaml

YAML_FILES = sorted(glob.glob(os.path.join(gvenv.REPO, 'yaml', '*.yaml')))


def load(path):
    with open(path) as f:
        return miniyaml.safe_load(f)


class SharedLog(list):
    pass


class LoggedRng(RecRng):
    """RecRng whose request tokens also go to a log shared by all generators of one history"""

    def __init__(self, shared, seed=None):
        super().__init__(seed)
        self.shared = shared

    def _share(self, n0):
        self.shared.extend(self.log[n0:])

    def choice(self, *a, **k):
        n0 = len(self.log)
        try:
            return super().choice(*a, **k)
        finally:
            self._share(n0)

    def integers(self, *a, **k):
        n0 = len(self.log)
        try:
            return super().integers(*a, **k)
        finally:
            self._share(n0)

    def shuffle(self, x):
        n0 = len(self.log)
        try:
            return super().shuffle(x)
        finally:
            self._share(n0)

    def random(self, size=None):
        n0 = len(self.log)
        try:
            return super().random(size)
        finally:
            self._share(n0)


def reward_parts(env, s, a, s2):
    fns = env._reward_function.keywords['reward_functions']
    return [f(s, a, s2) for f in fns]


def run_history(env, ops, lib_seed):
    """ops: list of ('S', seed) | ('R',) | ('T', action_index) | ('GS',) | ('GO',).
    returns (protocol ops string with recorded answers, expected output string)"""
    shared = SharedLog()
    lib = LoggedRng(shared, lib_seed)
    saved = rng_mod._gv_rng
    rng_mod._gv_rng = lib
    env._rng = None
    env._state = None
    env._observation = None
    gens = [lib]
    outs = []
    try:
        for op in ops:
            try:
                if op[0] == 'S':
                    g = LoggedRng(shared, op[1])
                    env.set_seed(op[1])
                    env._rng = g
                    gens.append(g)
                    outs.append('ok')
                elif op[0] == 'R':
                    env.reset()
                    outs.append('ok')
                elif op[0] == 'T':
                    a = ACTIONS[op[1]]
                    s = env._state
                    r, done = env.step(a)
                    parts = reward_parts(env, s, a, env._state)
                    toks = [f'I{envspec.sc(p)}' for p in parts]
                    if r != sum(parts) or type(done) is not bool:
                        toks.append('SUM-MISMATCH')
                    outs.append(' '.join(toks) + ' ' + ('T' if done else 'F'))
                elif op[0] == 'GS':
                    outs.append(enc_state(env.state))
                elif op[0] == 'GO':
                    outs.append(enc_state(env.observation))
            except Exception as e:
                outs.append(enc_exc(e))
    finally:
        rng_mod._gv_rng = saved
    # protocol ops: the answers of each generator go with its S op (the first block is the library stream)
    toks = []
    gi = 0
    for op in ops:
        if op[0] == 'S':
            gi += 1
            ans = gens[gi].answers
            toks.append(f'S {len(ans)} ' + ' '.join(map(str, ans)) if ans else 'S 0')
        elif op[0] == 'T':
            toks.append(f'T {op[1]}')
        else:
            toks.append(op[0])
    lib_ans = gens[0].answers
    head = f'{len(lib_ans)} ' + ' '.join(map(str, lib_ans)) if lib_ans else '0'
    return f'{head} {len(ops)} ' + ' '.join(toks), ' ; '.join(outs) + ' | ' + ','.join(shared)


def random_ops(rng, n_actions, length, seeded=True, p_foreign=0.1):
    ops = []
    if seeded:
        ops.append(('S', rng.randrange(2**31)))
    if rng.random() < 0.15:
        ops.append(rng.choice([('GS',), ('GO',), ('T', 0)]))  # before the first reset
    ops.append(('R',))
    if rng.random() < 0.2:
        ops.extend([('R',)] * rng.randint(1, 2) + [('GO',)])  # episodes of length zero
    for _ in range(length):
        r = rng.random()
        if r < 0.6:
            ops.append(('T', rng.randrange(8) if rng.random() < p_foreign else rng.randrange(n_actions)))
        elif r < 0.75:
            ops.append(('GO',))
        elif r < 0.85:
            ops.append(('GS',))
        elif r < 0.9:
            ops.extend([('GO',), ('GO',)])
        elif r < 0.96:
            ops.extend([('R',)] * rng.choice([1, 1, 2]))
        else:
            ops.append(('S', rng.randrange(2**31)))
    return ops


def fam_env_shipped(seed, shard, nshards, n):
    """every shipped configuration: real factory and hand assembly vs the model, random histories"""
    rng = random.Random(f'envs-{seed}-{shard}')
    per = max(1, n // max(1, len(YAML_FILES))) if n else 2
    for i, path in enumerate(YAML_FILES):
        if i % nshards != shard:
            continue
        data = load(path)
        try:
            spec = envspec.env_tokens(data)
        except envspec.Unsupported:
            continue
        env_f = factory_env_from_data(copy.deepcopy(data))
        env_h = envspec.hand_assemble(data)
        nact = len(env_f.action_space.actions)
        for k in range(per):
            ops = random_ops(rng, nact, rng.randint(5, 40), seeded=rng.random() < 0.85)
            lib_seed = rng.randrange(2**31)
            for env, tag in ((env_f, 'factory'), (env_h, 'hand')):
                opstr, exp = run_history(env, ops, lib_seed)
                yield f'env {spec} {opstr}', exp, f'env-{os.path.basename(path).split(".")[0]}-{tag}'


def random_config(rng, stochastic_obs=0.0):
    """a random composition of built-in components with parameters valid for its reset function"""
    from gym_gridverse.grid_object import Color

    names = ['Wall', 'Floor', 'Exit', 'Door', 'Key', 'MovingObstacle', 'Box', 'Telepod', 'Beacon']
    colors = [c.name for c in Color]
    which = rng.choice(['empty', 'rooms', 'dynamic_obstacles', 'keydoor', 'crossing', 'teleport', 'memory', 'memory_rooms'])
    if which == 'empty':
        reset = dict(name='empty', shape=[rng.randint(4, 7), rng.randint(4, 7)], random_agent=rng.random() < 0.5, random_exit=rng.random() < 0.5)
    elif which == 'rooms':
        reset = dict(name='rooms', shape=[rng.choice([7, 9]), rng.choice([7, 9])], layout=[rng.randint(1, 2), rng.randint(1, 2)])
    elif which == 'dynamic_obstacles':
        reset = dict(name='dynamic_obstacles', shape=[rng.randint(5, 7), rng.randint(5, 7)], num_obstacles=rng.randint(0, 3), random_agent=rng.random() < 0.5)
    elif which == 'keydoor':
        reset = dict(name='keydoor', shape=[rng.randint(4, 7), rng.randint(5, 8)])
    elif which == 'crossing':
        reset = dict(name='crossing', shape=[rng.choice([5, 7]), rng.choice([5, 7])], num_rivers=rng.randint(1, 3), object_type=rng.choice(['Wall', 'Wall', 'MovingObstacle']))
    elif which == 'teleport':
        reset = dict(name='teleport', shape=[rng.randint(4, 7), rng.randint(4, 7)])
    elif which == 'memory':
        reset = dict(name='memory', shape=[rng.randint(5, 7), rng.choice([5, 7])], colors=rng.sample(colors[1:], rng.randint(2, 4)))
    else:
        cs = rng.sample(colors[1:], rng.randint(2, 4))
        reset = dict(name='memory_rooms', shape=[rng.choice([7, 9]), rng.choice([7, 9])], layout=[rng.randint(1, 2), rng.randint(1, 2)], colors=cs, num_beacons=rng.randint(1, 2), num_exits=rng.randint(2, len(cs)))
    tnames = ['move_agent', 'turn_agent', 'pickndrop', 'move_obstacles', 'actuate_door', 'actuate_box', 'teleport']
    trans = [dict(name=t) for t in rng.sample(tnames, rng.randint(1, 6))]
    if rng.random() < 0.8 and not any(t['name'] == 'move_agent' for t in trans):
        trans.insert(0, dict(name='move_agent'))
    ri = lambda: rng.randint(-40, 40) / 4.0  # noqa: E731
    unique_exit = which not in ('memory', 'memory_rooms')
    pool = [
        dict(name='living_reward', reward=ri()),
        dict(name='reach_exit', reward_on=ri(), reward_off=ri()),
        dict(name='bump_moving_obstacle', reward=ri()),
        dict(name='bump_into_wall', reward=ri()),
        dict(name='actuate_door', reward_open=ri(), reward_close=ri()),
        dict(name='pickndrop', object_type='Key', reward_pick=ri(), reward_drop=ri()),
        dict(name='overlap', object_type=rng.choice(names), reward_on=ri(), reward_off=ri()),
    ]
    if unique_exit:
        pool += [
            dict(name='getting_closer', distance_function=rng.choice(['manhattan', 'euclidean']), object_type='Exit', reward_closer=ri(), reward_further=ri()),
            dict(name='getting_closer_shortest_path', object_type='Exit', reward_closer=ri(), reward_further=ri()),
            dict(name='proportional_to_distance', distance_function='manhattan', object_type='Exit', reward_per_unit_distance=ri()),
        ]
    else:
        pool.append(dict(name='reach_exit_memory', reward_good=ri(), reward_bad=ri()))
    rewards = rng.sample(pool, rng.randint(1, min(5, len(pool))))
    ok = rng.choice(['fully_transparent', 'partially_occluded', 'raytracing'])
    hw = rng.randint(0, 3)
    area = [[-rng.randint(0, 5), 0], [-hw, hw]]
    obs = dict(name=ok, area=area)
    if stochastic_obs and rng.random() < stochastic_obs:
        # an observation function that draws (no shipped configuration has one); keeps move_obstacles or a
        # random reset next to it more often than not, so that a shifted stream shows in the trajectory
        obs = dict(name='stochastic_raytracing', area=area)
        if rng.random() < 0.6 and not any(t['name'] == 'move_obstacles' for t in trans):
            trans.append(dict(name='move_obstacles'))

    def term(depth=0):
        if depth < 2 and rng.random() < 0.4:
            return dict(name=rng.choice(['reduce_any', 'reduce_all']), terminating_functions=[term(depth + 1) for _ in range(rng.randint(1, 3))])
        return rng.choice([dict(name='reach_exit'), dict(name='bump_moving_obstacle'), dict(name='bump_into_wall'), dict(name='overlap', object_type=rng.choice(names))])

    data = dict(
        state_space=dict(objects=names, colors=colors),
        observation_space=dict(objects=names, colors=colors),
        reset_function=reset,
        transition_functions=trans,
        reward_functions=rewards,
        observation_function=obs,
        terminating_function=term(),
    )
    if rng.random() < 0.4:
        data['action_space'] = [a.name for a in rng.sample(ACTIONS, rng.randint(2, 8))]
    return data


def fam_env_random(seed, shard, nshards, n):
    rng = random.Random(f'envr-{seed}-{shard}')
    for k in range(n // nshards):
        data = random_config(rng)
        try:
            spec = envspec.env_tokens(data)
            env_f = factory_env_from_data(copy.deepcopy(data))
            env_h = envspec.hand_assemble(data)
        except envspec.Unsupported:
            continue
        nact = len(env_f.action_space.actions)
        ops = random_ops(rng, nact, rng.randint(5, 30), seeded=rng.random() < 0.85)
        lib_seed = rng.randrange(2**31)
        for env, tag in ((env_f, 'factory'), (env_h, 'hand')):
            opstr, exp = run_history(env, ops, lib_seed)
            yield f'env {spec} {opstr}', exp, f'envr-{data["reset_function"]["name"]}-{tag}'


def fam_env_nodebug(seed, shard, nshards, n):
    """the same histories with the library debug flag OFF (what `python -O` gives): argument checks
    that are part of the contract (actions outside the action space) must not depend on it"""
    from gym_gridverse.debugging import reset_gv_debug

    rng = random.Random(f'envnd-{seed}-{shard}')
    reset_gv_debug(False)
    try:
        for k in range(n // nshards):
            if k % 3 == 0:
                path = rng.choice(YAML_FILES)
                data = load(path)
                if rng.random() < 0.7:
                    # restrict the action space so that foreign actions exist
                    data['action_space'] = [a.name for a in rng.sample(ACTIONS, rng.randint(2, 6))]
            else:
                data = random_config(rng)
                if 'action_space' not in data and rng.random() < 0.5:
                    data['action_space'] = [a.name for a in rng.sample(ACTIONS, rng.randint(2, 6))]
            try:
                spec = envspec.env_tokens(data, debug=False)
                env_f = factory_env_from_data(copy.deepcopy(data))
            except envspec.Unsupported:
                continue
            nact = len(env_f.action_space.actions)
            ops = random_ops(rng, nact, rng.randint(5, 30), seeded=True, p_foreign=0.3)
            opstr, exp = run_history(env_f, ops, rng.randrange(2**31))
            yield f'env {spec} {opstr}', exp, f'envnd-{data["reset_function"]["name"]}'
    finally:
        reset_gv_debug(None)


# ---------------------------------------------------------------------------------------------
# gym layer
# ---------------------------------------------------------------------------------------------


def _gym_obs_str(rep_dict, space, kind):
    from harness.corr_repr import flat

    keys = list(rep_dict.keys())
    inside = space.contains(rep_dict)
    if kind == 'obs':
        assert keys == ['grid', 'agent_id_grid', 'item'], keys
        return f'G {flat(rep_dict["grid"])} | A {flat(rep_dict["agent_id_grid"])} | I {flat(rep_dict["item"])} | {"T" if inside else "F"}'
    assert keys == ['grid', 'agent_id_grid', 'agent', 'item'], keys
    return None


def _state_rep_str(genv, rep_dict, space):
    from harness.corr_repr import flat

    s = genv.outer_env.inner_env.state
    ag = rep_dict['agent']
    ny, dy = 2 * s.agent.position.y - s.grid.shape.height + 1, s.grid.shape.height - 1
    nx, dx = 2 * s.agent.position.x - s.grid.shape.width + 1, s.grid.shape.width - 1
    assert ag[0] == ny / dy and ag[1] == nx / dx
    onehot = ' '.join(f'{int(v)}/1' for v in ag[2:])
    inside = space.contains(rep_dict)
    return f'G {flat(rep_dict["grid"])} | A {flat(rep_dict["agent_id_grid"])} | P {ny}/{dy} {nx}/{dx} {onehot} | I {flat(rep_dict["item"])} | {"T" if inside else "F"}'


def run_gym_history(genv, wrapper, ops, lib_seed):
    """genv: the GymEnvironment; wrapper: what the user calls (gym.make result, the raw env, or a
    GymStateWrapper).  ops: ('S', seed) | ('R',) | ('T', i) | ('W', i)"""
    inner = genv.outer_env.inner_env
    shared = SharedLog()
    lib = LoggedRng(shared, lib_seed)
    saved = rng_mod._gv_rng
    rng_mod._gv_rng = lib
    inner._rng = None
    inner._state = None
    inner._observation = None
    gens = [lib]
    outs = []
    try:
        for op in ops:
            try:
                if op[0] == 'S':
                    g = LoggedRng(shared, op[1])
                    inner.set_seed(op[1])
                    inner._rng = g
                    gens.append(g)
                    outs.append('ok')
                elif op[0] == 'R':
                    o = wrapper.reset()
                    if isinstance(o, tuple):
                        o = o[0]
                    outs.append(_gym_obs_str(o, genv.observation_space, 'obs'))
                elif op[0] == 'V':
                    o = wrapper.reset()
                    outs.append(_state_rep_str(genv, o, wrapper.observation_space))
                elif op[0] == 'T':
                    s = inner._state
                    res = wrapper.step(op[1])
                    o, r, done, info = res[0], res[1], res[2], res[-1]
                    a = inner.action_space.int_to_action(op[1])
                    parts = reward_parts(inner, s, a, inner._state)
                    toks = [f'I{envspec.sc(p)}' for p in parts]
                    if r != sum(parts) or info != {}:
                        toks.append('SUM-MISMATCH')
                    outs.append(_gym_obs_str(o, genv.observation_space, 'obs') + ' # ' + ' '.join(toks) + ' ' + ('T' if done else 'F'))
                elif op[0] == 'W':
                    s = inner._state
                    o, r, done, info = wrapper.step(op[1])
                    a = inner.action_space.int_to_action(op[1])
                    parts = reward_parts(inner, s, a, inner._state)
                    toks = [f'I{envspec.sc(p)}' for p in parts]
                    if r != sum(parts) or list(info.keys()) != ['observation']:
                        toks.append('SUM-MISMATCH')
                    outs.append(_state_rep_str(genv, o, wrapper.observation_space) + ' # ' + ' '.join(toks) + ' ' + ('T' if done else 'F') + ' # ' + _gym_obs_str(info['observation'], genv.observation_space, 'obs'))
            except Exception as e:
                outs.append(enc_exc(e))
    finally:
        rng_mod._gv_rng = saved
    toks = []
    gi = 0
    for op in ops:
        if op[0] == 'S':
            gi += 1
            ans = gens[gi].answers
            toks.append(f'S {len(ans)} ' + ' '.join(map(str, ans)) if ans else 'S 0')
        elif op[0] in ('T', 'W'):
            toks.append(f'{op[0]} {op[1]}')
        else:
            toks.append(op[0])
    lib_ans = gens[0].answers
    head = f'{len(lib_ans)} ' + ' '.join(map(str, lib_ans)) if lib_ans else '0'
    return f'{head} {len(ops)} ' + ' '.join(toks), ' ; '.join(outs)


def fam_gym_shipped(seed, shard, nshards, n):
    """every registered gym id (gym.make) and every shipped file wrapped directly, x representation
    names, x random action-index histories (including out-of-range indices)"""
    import gym
    from gym_gridverse.gym import STRING_TO_YAML_FILE, GymEnvironment, GymStateWrapper, outer_env_factory

    rng = random.Random(f'gym-{seed}-{shard}')
    ids = sorted(STRING_TO_YAML_FILE.items())
    per = max(1, n // max(1, len(ids))) if n else 1
    for i, (gid, fname) in enumerate(ids):
        if i % nshards != shard:
            continue
        path = os.path.join(gvenv.REPO, 'gym_gridverse', 'registered_envs', fname)
        data = load(path)
        spec = envspec.env_tokens(data)
        for k in range(per):
            enc = rng.choice(['default', 'no-overlap', 'compact'])
            mode = rng.choice(['make', 'direct', 'state'])
            kspec = spec
            if mode != 'make' and rng.random() < 0.35:
                # the same description with another action list: index i is the i-th listed action
                from gym_gridverse.outer_env import OuterEnv
                from gym_gridverse.representations.observation_representations import make_observation_representation

                d2 = copy.deepcopy(data)
                names = [a.name for a in ACTIONS]
                rng.shuffle(names)
                d2['action_space'] = names[: rng.randint(2, len(names))]
                kspec = envspec.env_tokens(d2)
                inner = factory_env_from_data(copy.deepcopy(d2))
                genv = GymEnvironment(OuterEnv(inner, observation_representation=make_observation_representation('default', inner.observation_space)))
                wrapper = genv
            elif mode == 'make':
                wrapper = gym.make(gid, disable_env_checker=True)
                genv = wrapper.unwrapped
            else:
                genv = GymEnvironment(outer_env_factory(path))
                wrapper = genv
            genv.set_observation_representation(enc)
            with_state = False
            can_state = genv.outer_env.inner_env.state_space.can_be_represented
            if mode == 'state' and can_state:
                genv.set_state_representation(enc)
                wrapper = GymStateWrapper(genv)
                with_state = True
            nact = genv.action_space.n
            ops = []
            if rng.random() < 0.85:
                ops.append(('S', rng.randrange(2**31)))
            ops.append(('V' if with_state else 'R',))
            if rng.random() < 0.3:
                ops.extend([('V' if with_state else 'R',)] * rng.randint(1, 2))  # episodes of length zero
            for _ in range(rng.randint(3, 25)):
                r = rng.random()
                idx = rng.randrange(nact) if r < 0.92 else rng.choice([nact, -1, nact + 3, -nact - 1])
                if r > 0.97:
                    ops.extend([('V' if with_state else 'R',)] * rng.choice([1, 1, 2]))
                else:
                    ops.append(('W' if with_state else 'T', idx))
            opstr, exp = run_gym_history(genv, wrapper, ops, rng.randrange(2**31))
            yield f'gym {kspec} {enc} {int(with_state)} {opstr}', exp, f'gym-{mode}-{enc}' + ('-actions-permuted' if kspec is not spec else '')


# ---------------------------------------------------------------------------------------------
# several live environments + the library-level generator (C02)
# ---------------------------------------------------------------------------------------------


def run_world(envs, ops, lib_seed):
    """ops: ('E', i, 'S', seed) | ('E', i, 'R') | ('E', i, 'T', a) | ('E', i, 'GS') | ('E', i, 'GO') | ('L', n)"""
    import random as pyrandom
    import numpy as np
    from gym_gridverse.rng import get_gv_rng

    lib = RecRng(lib_seed)
    saved = rng_mod._gv_rng
    rng_mod._gv_rng = lib
    own = [None] * len(envs)
    gens = []  # generators in order of creation, to attach answers to S ops
    for e in envs:
        e._rng = None
        e._state = None
        e._observation = None
    outs = []
    glob0 = (np.random.get_state()[1].tobytes(), pyrandom.getstate())
    try:
        for op in ops:
            try:
                if op[0] == 'L':
                    try:
                        get_gv_rng().choice(op[1])
                    except ValueError:
                        pass
                    outs.append('ok')
                    continue
                i, kind = op[1], op[2]
                env = envs[i]
                if kind == 'S':
                    g = RecRng(op[3])
                    env.set_seed(op[3])
                    env._rng = g
                    own[i] = g
                    gens.append(g)
                    outs.append('ok')
                elif kind == 'R':
                    env.reset()
                    outs.append('ok')
                elif kind == 'T':
                    a = ACTIONS[op[3]]
                    s = env._state
                    r, done = env.step(a)
                    parts = reward_parts(env, s, a, env._state)
                    toks = [f'I{envspec.sc(p)}' for p in parts]
                    if r != sum(parts):
                        toks.append('SUM-MISMATCH')
                    outs.append(' '.join(toks) + ' ' + ('T' if done else 'F'))
                elif kind == 'GS':
                    outs.append(enc_state(env.state))
                elif kind == 'GO':
                    outs.append(enc_state(env.observation))
            except Exception as e:
                outs.append(enc_exc(e))
    finally:
        rng_mod._gv_rng = saved
    glob1 = (np.random.get_state()[1].tobytes(), pyrandom.getstate())
    toks = []
    gi = 0
    for op in ops:
        if op[0] == 'L':
            toks.append(f'L {op[1]}')
        elif op[2] == 'S':
            ans = gens[gi].answers
            gi += 1
            toks.append(f'E {op[1]} S {len(ans)} ' + ' '.join(map(str, ans)) if ans else f'E {op[1]} S 0')
        elif op[2] == 'T':
            toks.append(f'E {op[1]} T {op[3]}')
        else:
            toks.append(f'E {op[1]} {op[2]}')
    head = f'{len(lib.answers)} ' + ' '.join(map(str, lib.answers)) if lib.answers else '0'
    # the last generator of each env carries its log (a re-seed starts a new log, as in the model)
    env_logs = ' ; '.join(g.log_str() if g is not None else '-' for g in own)
    exp = ' ; '.join(outs) + ' | ' + lib.log_str() + ' | ' + env_logs
    if glob0 != glob1:
        exp += ' GLOBAL-RNG-PERTURBED'
    return f'{head} {len(ops)} ' + ' '.join(toks), exp


def fam_world(seed, shard, nshards, n):
    """three instances of one configuration, random interleavings, foreign draws on the library
    generator; some instances stay unseeded for a while (they then draw from the library stream)"""
    rng = random.Random(f'world-{seed}-{shard}')
    files = YAML_FILES
    for k in range(n // nshards):
        path = rng.choice(files)
        data = load(path)
        try:
            spec = envspec.env_tokens(data)
        except envspec.Unsupported:
            continue
        nenv = 3
        envs = [factory_env_from_data(copy.deepcopy(data)) for _ in range(nenv)]
        nact = len(envs[0].action_space.actions)
        ops = []
        seeded_all = rng.random() < 0.8
        started = [False] * nenv
        if seeded_all:
            sd = rng.randrange(2**31)
            same = rng.random() < 0.5
            for i in range(nenv):
                ops.append(('E', i, 'S', sd if same else rng.randrange(2**31)))
        for _ in range(rng.randint(8, 40)):
            r = rng.random()
            if r < 0.1:
                ops.append(('L', rng.randint(0, 5)))
                continue
            i = rng.randrange(nenv)
            if not started[i]:
                ops.append(('E', i, 'R'))
                started[i] = True
            elif r < 0.6:
                ops.append(('E', i, 'T', rng.randrange(nact)))
            elif r < 0.75:
                ops.append(('E', i, 'GO'))
            elif r < 0.85:
                ops.append(('E', i, 'GS'))
            elif r < 0.93:
                ops.append(('E', i, 'R'))
            else:
                ops.append(('E', i, 'S', rng.randrange(2**31)))
        opstr, exp = run_world(envs, ops, rng.randrange(2**31))
        yield f'world {spec} {nenv} {opstr}', exp, 'world-' + ('seeded' if seeded_all else 'mixed')
