"""Building the Lean project, running the compiled model driver, auditing axioms."""
import fcntl
import os
import re
import subprocess
import tempfile
import time
from concurrent.futures import ThreadPoolExecutor

VERIF = os.path.dirname(os.path.dirname(os.path.abspath(__file__)))
LEAN_DIR = os.path.join(VERIF, 'lean')
DRIVER = os.path.join(LEAN_DIR, '.lake', 'build', 'bin', 'gvdriver')
LOCK = os.path.join(LEAN_DIR, '.build.lock')

ALLOWED_AXIOMS = {'propext', 'Classical.choice', 'Quot.sound'}
FORBIDDEN = re.compile(
    r'\bsorry\b|\badmit\b|^\s*axiom\s|native_decide|bv_decide|implemented_by|\bunsafe\s|maxHeartbeats\s+0'
)


class BuildLock:
    def __enter__(self):
        self.f = open(LOCK, 'w')
        fcntl.flock(self.f, fcntl.LOCK_EX)
        return self

    def __exit__(self, *a):
        fcntl.flock(self.f, fcntl.LOCK_UN)
        self.f.close()


def lake_build(targets, timeout=3000):
    """returns (ok, output, seconds)"""
    t0 = time.time()
    with BuildLock():
        p = subprocess.run(
            ['lake', 'build'] + list(targets),
            cwd=LEAN_DIR,
            stdout=subprocess.PIPE,
            stderr=subprocess.STDOUT,
            text=True,
            timeout=timeout,
        )
    return p.returncode == 0, p.stdout, time.time() - t0


def parse_build_errors(output):
    """[(file, line, message-first-line)] from lake/lean output"""
    errs = []
    for m in re.finditer(r'^error: ([^\s:]+\.lean):(\d+):(\d+): (.*)$', output, re.M):
        errs.append({'file': m.group(1), 'line': int(m.group(2)), 'message': m.group(4)[:300]})
    if not errs:
        for m in re.finditer(r'^error: (.*)$', output, re.M):
            errs.append({'file': None, 'line': None, 'message': m.group(1)[:300]})
    return errs


def _run_driver_chunk(lines):
    data = '\n'.join(lines) + '\n'
    p = subprocess.run([DRIVER], input=data, stdout=subprocess.PIPE, stderr=subprocess.PIPE, text=True)
    if p.returncode != 0:
        raise RuntimeError(f'driver failed: {p.stderr[:500]}')
    out = p.stdout.split('\n')
    if out and out[-1] == '':
        out.pop()
    if len(out) != len(lines):
        raise RuntimeError(f'driver returned {len(out)} lines for {len(lines)} requests')
    return out


def driver(lines, workers=16, chunk=4000):
    """run the compiled model on protocol lines; returns the output lines in order"""
    lines = list(lines)
    if not lines:
        return []
    for l in lines:
        assert '\n' not in l
    chunks = [lines[i : i + chunk] for i in range(0, len(lines), chunk)]
    if len(chunks) == 1:
        return _run_driver_chunk(chunks[0])
    with ThreadPoolExecutor(max_workers=workers) as ex:
        res = list(ex.map(_run_driver_chunk, chunks))
    return [o for r in res for o in r]


def source_audit(rel_files):
    """grep the given Lean sources (relative to lean/) for forbidden constructs outside comments"""
    hits = []
    for rel in rel_files:
        path = os.path.join(LEAN_DIR, rel)
        try:
            text = open(path).read()
        except FileNotFoundError:
            hits.append({'file': rel, 'line': 0, 'text': 'missing file'})
            continue
        # strip block comments and line comments
        text_nc = re.sub(r'/-.*?-/', lambda m: '\n' * m.group(0).count('\n'), text, flags=re.S)
        for n, line in enumerate(text_nc.split('\n'), 1):
            code = line.split('--')[0]
            if FORBIDDEN.search(code):
                hits.append({'file': rel, 'line': n, 'text': line.strip()[:200]})
    return hits


def print_axioms(module, names, timeout=900):
    """returns {name: [axioms]} using `#print axioms` under `lake env lean`"""
    src = f'import {module}\n' + ''.join(f'#print axioms {n}\n' for n in names)
    with tempfile.NamedTemporaryFile('w', suffix='.lean', dir=LEAN_DIR, delete=False) as f:
        f.write(src)
        tmp = f.name
    try:
        p = subprocess.run(
            ['lake', 'env', 'lean', tmp],
            cwd=LEAN_DIR,
            stdout=subprocess.PIPE,
            stderr=subprocess.STDOUT,
            text=True,
            timeout=timeout,
        )
    finally:
        os.unlink(tmp)
    out = p.stdout
    res = {}
    # "'GV.foo' depends on axioms: [propext, Quot.sound]"  /  "'GV.foo' does not depend on any axioms"
    for m in re.finditer(r"'([^']+)' depends on axioms: \[([^\]]*)\]", out, re.S):
        res[m.group(1)] = [a.strip() for a in m.group(2).replace('\n', ' ').split(',') if a.strip()]
    for m in re.finditer(r"'([^']+)' does not depend on any axioms", out):
        res[m.group(1)] = []
    return res, out, p.returncode


def theorem_names(rel_file, prefix):
    """names of theorems declared in a Props file whose name starts with prefix"""
    text = open(os.path.join(LEAN_DIR, rel_file)).read()
    text = re.sub(r'/-.*?-/', '', text, flags=re.S)
    return re.findall(r'^\s*theorem\s+(' + re.escape(prefix) + r'[A-Za-z0-9_\.\']*)', text, re.M)


def leanchecker(modules, timeout=3000):
    p = subprocess.run(
        ['lake', 'env', 'leanchecker'] + list(modules),
        cwd=LEAN_DIR,
        stdout=subprocess.PIPE,
        stderr=subprocess.STDOUT,
        text=True,
        timeout=timeout,
    )
    return p.returncode == 0, p.stdout[-2000:]
