"""Refused registrations (C17): a registry is what a description's names are resolved against, so a
registration that is *refused* (name taken, wrong signature, not a callable) must leave every registry —
and therefore everything the factory builds afterwards — exactly as it was.  Run in a subprocess because
it tampers with the process-wide registries.  `python -m harness.regprobe` prints a JSON list of
violations; `check(seed, tier)` is an `extra` hook of the C17 check.

What is compared is the identity of the registered callables before and after each refused call, and for
the reward / terminating / transition registries the behaviour of a shipped environment built by the
factory afterwards against the one built before (same seed, same actions)."""
import json
import os
import subprocess
import sys
import types

VERIF = os.path.dirname(os.path.dirname(os.path.abspath(__file__)))


def _clone(f, name=None):
    """a different function object with the same signature (hence acceptable to check_signature)"""
    g = types.FunctionType(f.__code__, f.__globals__, name or f.__name__, f.__defaults__, f.__closure__)
    g.__kwdefaults__ = dict(f.__kwdefaults__) if f.__kwdefaults__ else None
    g.__annotations__ = dict(getattr(f, '__annotations__', {}))
    g.__module__ = f.__module__
    g.__qualname__ = name or f.__qualname__
    g.__doc__ = f.__doc__
    return g


def _marker(f):
    """a function with f's signature that behaves differently (raises) — so that a registry that took it
    in is also visible in behaviour"""
    import functools

    @functools.wraps(f)
    def marked(*a, **k):
        raise RuntimeError('regprobe: a refused registration is in use')

    return marked


def worker():
    sys.path.insert(0, VERIF)
    from harness import gvenv  # noqa: F401
    from gym_gridverse.envs.observation_functions import observation_function_registry
    from gym_gridverse.envs.reset_functions import reset_function_registry
    from gym_gridverse.envs.reward_functions import reward_function_registry
    from gym_gridverse.envs.terminating_functions import terminating_function_registry
    from gym_gridverse.envs.transition_functions import transition_function_registry
    from gym_gridverse.envs.visibility_functions import visibility_function_registry

    regs = {
        'reset': reset_function_registry,
        'transition': transition_function_registry,
        'reward': reward_function_registry,
        'observation': observation_function_registry,
        'terminating': terminating_function_registry,
        'visibility': visibility_function_registry,
    }
    out = []
    seen = set()

    def V(sig, what):
        if sig not in seen:
            seen.add(sig)
            out.append({'signature': sig, 'what': what})

    def snapshot():
        return {rn: dict(r.data) for rn, r in regs.items()}

    def same(a, b):
        return all(a[rn].keys() == b[rn].keys() and all(a[rn][k] is b[rn][k] for k in a[rn]) for rn in a)

    def trace(files):
        from harness.oracles import build_env, enc_state

        tr = []
        for f in files:
            try:
                env = build_env(f)
                env.set_seed(7)
                env.reset()
                row = [enc_state(env.state)]
                acts = list(env.action_space.actions)
                for i in range(12):
                    r, t = env.step(acts[(3 * i + 1) % len(acts)])
                    row.append((enc_state(env.state), r, t, enc_state(env.observation)))
                    if t:
                        env.reset()
                tr.append(repr(row))
            except Exception as e:
                tr.append(f'{type(e).__name__}: {e}')
        return tr

    from harness.oracles import shipped_files

    files = [f for f in shipped_files() if any(t in f for t in ('empty.4x4', 'keydoor.5x5', 'dynamic_obstacles.5x5', 'memory.5x5', 'teleport.5x5', 'crossing.5x5'))][:6]
    before = snapshot()
    tr0 = trace(files)
    calls = 0
    log = {rn: {'names': list(r.data), 'attempts': []} for rn, r in regs.items()}  # for the Lean model

    def kind(e):
        return 'value' if isinstance(e, ValueError) else ('type' if isinstance(e, TypeError) else 'other')
    for rn, reg in regs.items():
        for name in list(reg.data):
            f = reg.data[name]
            for form in ('call', 'call-name', 'decorator'):
                g = _marker(f)
                g.__name__ = name
                calls += 1
                try:
                    if form == 'call':
                        reg.register(g)
                    elif form == 'call-name':
                        g.__name__ = name + '_other'
                        reg.register(g, name=name)
                    else:
                        reg.register(name=name)(g)
                    V(f'registry/{rn}-accepts-a-taken-name', f'{rn} registry: registering another function under the taken name {name!r} ({form}) was accepted')
                    err = None
                except Exception as e:
                    # the unchanged code raises ValueError; another kind is reported through the model trace
                    err = kind(e)
                log[rn]['attempts'].append({'fn': g.__name__, 'as': None if form == 'call' else name, 'sig': True, 'err': err})
                now = snapshot()
                if not same(before, now):
                    V(f'registry/{rn}-changed-by-refused-registration', f'{rn} registry: after the refused registration of another function under the taken name {name!r} ({form}) the registry resolves {name!r} differently')
                    for r2n, r2 in regs.items():  # put things back so that the remaining cases are judged on their own
                        r2.data.clear()
                        r2.data.update(before[r2n])
        # a function whose signature does not follow the protocol, under a fresh name
        def bad():
            return None

        calls += 1
        try:
            reg.register(bad, name='regprobe_bad')
            V(f'registry/{rn}-accepts-wrong-signature', f'{rn} registry accepted a function without the protocol parameters')
            err = None
        except Exception as e:
            err = 'refused'  # which exception a malformed signature gets is not modelled (TypeError/ValueError/IndexError, per registry)
        log[rn]['attempts'].append({'fn': 'bad', 'as': 'regprobe_bad', 'sig': False, 'err': err})
        now = snapshot()
        if not same(before, now):
            V(f'registry/{rn}-changed-by-refused-registration', f'{rn} registry: a registration refused for its signature left an entry behind')
            for r2n, r2 in regs.items():
                r2.data.clear()
                r2.data.update(before[r2n])
    # behaviour of what the factory builds after all those refusals (nothing was put back unless reported)
    tr1 = trace(files)
    for f, a, b in zip(files, tr0, tr1):
        if a != b:
            V('factory/differs-after-refused-registration', f'{os.path.basename(f)}: the environment built after refused registrations behaves differently from the one built before')
    # a *successful* registration under a fresh name is visible under that name only
    fresh = _clone(regs['reward'].data['living_reward'], 'regprobe_living')
    log['reward']['attempts'].append({'fn': 'regprobe_living', 'as': None, 'sig': True, 'err': None})
    try:
        regs['reward'].register(fresh)
        now = snapshot()
        if now['reward'].get('regprobe_living') is not fresh or any(now['reward'][k] is not before['reward'][k] for k in before['reward']):
            V('registry/successful-registration-misfiled', 'reward registry: a new function registered under a fresh name is not found under it, or displaced another')
    except Exception as e:
        log['reward']['attempts'][-1]['err'] = kind(e)
        V('registry/fresh-name-refused', f'reward registry refused a conforming function under a fresh name: {type(e).__name__}: {e}')
    # accepted registrations under fresh names, in every registry, so that the model's append is exercised too
    for rn, reg in regs.items():
        first = next(iter(before[rn]))
        g = _clone(before[rn][first], f'regprobe_new_{rn}')
        try:
            reg.register(g)
            err = None
        except Exception as e:
            err = kind(e)
        log[rn]['attempts'].append({'fn': g.__name__, 'as': None, 'sig': True, 'err': err})
        try:
            reg.register(_clone(before[rn][first], 'regprobe_x'), name=f'regprobe_new_{rn}')  # now taken
            err = None
        except Exception as e:
            err = kind(e)
        log[rn]['attempts'].append({'fn': 'regprobe_x', 'as': f'regprobe_new_{rn}', 'sig': True, 'err': err})
        log[rn]['final'] = list(reg.data)
    print(json.dumps({'violations': out, 'calls': calls, 'names': sum(len(b) for b in before.values()), 'log': log}))


def model_trace_violations(log):
    """run the same attempts through `GV.Registry.register` (Model/Registry.lean, interpreted by `lean`) and
    compare, attempt by attempt, whether it is refused and with which exception, and the final name list"""
    import tempfile

    def q(x):
        return json.dumps(x)

    lines = ['import GridVerse.Model.Registry', 'open GV',
             'def errS : Option RegErr → String | none => "ok" | some .valueError => "value" | some .typeError => "type"',
             'def runT (r : Registry Nat) : List (RegAttempt Nat) → List String × Registry Nat',
             '  | [] => ([], r)',
             '  | a :: as => let p := r.register a; let q := runT p.1 as; (errS p.2 :: q.1, q.2)']
    order = sorted(log)
    for rn in order:
        L = log[rn]
        reg = '[' + ', '.join(f'({q(n)}, {i})' for i, n in enumerate(L['names'])) + ']'
        atts = '[' + ', '.join('⟨%d, %s, %s, %s⟩' % (1000 + i, q(a['fn']), 'none' if a['as'] is None else f'some {q(a["as"])}', 'true' if a['sig'] else 'false') for i, a in enumerate(L['attempts'])) + ']'
        lines.append(f'#eval let p := runT ({reg} : Registry Nat) {atts}; IO.println (String.intercalate " " p.1 ++ " | " ++ String.intercalate " " (p.2.map (·.1)))')
    with tempfile.NamedTemporaryFile('w', suffix='.lean', delete=False) as f:
        f.write('\n'.join(lines) + '\n')
        path = f.name
    try:
        p = subprocess.run(['lake', 'env', 'lean', path], cwd=os.path.join(VERIF, 'lean'), stdout=subprocess.PIPE, stderr=subprocess.STDOUT, text=True, timeout=300)
    finally:
        os.unlink(path)
    outl = [ln for ln in p.stdout.splitlines() if ' | ' in ln]
    if p.returncode != 0 or len(outl) != len(order):
        return [{'signature': 'regprobe/model-run-failed', 'what': p.stdout[-400:]}]
    viol = []
    for rn, ln in zip(order, outl):
        errs, names = ln.split(' | ')
        L = log[rn]
        real = ['ok' if a['err'] is None else ('type' if a['err'] == 'refused' else a['err']) for a in L['attempts']]
        if errs.split() != real or names.split() != L.get('final'):
            k = next((i for i, (x, y) in enumerate(zip(errs.split(), real)) if x != y), None)
            where = f'attempt {k}: {L["attempts"][k]} — model {errs.split()[k]!r}' if k is not None else f'final names: real {L.get("final")} model {names.split()}'
            viol.append({'signature': f'registry/{rn}-differs-from-the-model', 'what': f'{rn} registry and Model/Registry.lean disagree on the same sequence of registrations ({where})'})
    return viol


def check(seed, tier):
    p = subprocess.run([sys.executable, '-m', 'harness.regprobe'], cwd=VERIF, stdout=subprocess.PIPE, stderr=subprocess.PIPE, text=True, timeout=600)
    if p.returncode != 0:
        return {'evaluations': 1, 'distinct_nontrivial': 1, 'violations': [{'signature': 'regprobe/worker-failed', 'what': p.stderr[-400:], 'case': {'kind': 'regprobe'}}]}
    res = json.loads(p.stdout.strip().splitlines()[-1])
    res['violations'] += model_trace_violations(res.get('log') or {})
    for v in res['violations']:
        v['case'] = {'kind': 'regprobe'}
    return {'evaluations': res['calls'], 'distinct_nontrivial': res['names'], 'violations': res['violations']}


if __name__ == '__main__':
    worker()
