"""User-defined grid objects next to the built-in ones (C16, C17): run in a subprocess because defining a
GridObject subclass registers it for the rest of the process.  `python -m harness.customprobe` prints a
JSON list of violations; `check(seed, tier)` is the `extra` hook of the checks."""
import json
import os
import subprocess
import sys

VERIF = os.path.dirname(os.path.dirname(os.path.abspath(__file__)))


def worker():
    sys.path.insert(0, VERIF)
    from harness import gvenv  # noqa: F401
    from gym_gridverse.geometry import Shape
    from gym_gridverse.grid_object import Color, Floor, GridObject, Key, Wall, grid_object_registry
    from gym_gridverse.representations.state_representations import make_state_representation
    from gym_gridverse.spaces import StateSpace

    out = []
    builtin = list(grid_object_registry)
    index0 = {k: k.type_index() for k in builtin}
    # the library has been in use before the user's classes exist: names were looked up, a shipped
    # configuration was built (whatever the registry remembers from that must not hide later classes)
    try:
        grid_object_registry.from_name('Floor')
        from harness.oracles import build_env, shipped_files

        build_env([x for x in shipped_files() if 'empty' in x][0])
    except Exception as e:
        out.append({'signature': 'factory/shipped-config-rejected', 'what': f'{type(e).__name__}: {e}'})

    def user_class(name):
        body = {
            'state_index': 0, 'color': Color.NONE, 'blocks_movement': False, 'blocks_vision': False, 'holdable': False,
            'can_be_represented_in_state': classmethod(lambda cls: True), 'num_states': classmethod(lambda cls: 1),
            '__repr__': lambda self: f'{type(self).__name__}()',
        }
        return type(name, (GridObject,), body)

    from gym_gridverse.grid_object import Door

    # the built-in kinds have been in use (indices asked for, objects compared and hashed) before
    _ = [k.type_index() for k in builtin]
    _ = (Door(Door.Status.OPEN, Color.RED) == Door(Door.Status.OPEN, Color.RED), hash(Wall()), hash(Door(Door.Status.CLOSED, Color.BLUE)))
    Gem = user_class('Gem')
    UserWall = user_class('Wall')  # a user's own class that happens to be called like a built-in one
    UserKey = user_class('Key')
    Gate = type('Gate', (Door,), {})  # a user's kind derived from a concrete built-in kind
    Window = type('Window', (Wall,), {'blocks_vision': False})  # ... overriding what its instances let through
    def _pane_init(self, tinted=False):
        self.blocks_vision = tinted  # decided per instance, over the class-level default inherited from Wall

    Pane = type('Pane', (Wall,), {'__init__': _pane_init})
    users = [Gem, UserWall, UserKey, Gate, Window, Pane]
    if Gate(Door.Status.OPEN, Color.RED) == Door(Door.Status.OPEN, Color.RED) or Window() == Wall():
        out.append({'signature': 'object/different-kinds-compare-equal', 'what': 'a user kind derived from Door / Wall equals the built-in object of the same status and colour'})
    # 1. the registry still resolves the built-in names to the built-in classes, and the new name to the new class
    for name, cls in (('Wall', Wall), ('Key', Key), ('Floor', Floor), ('Gem', Gem)):
        try:
            got = grid_object_registry.from_name(name)
        except Exception as e:
            out.append({'signature': 'registry/name-lookup-raises', 'what': f'{name}: {type(e).__name__}'})
            continue
        if got is not cls:
            out.append({'signature': 'registry/name-resolves-to-another-class', 'what': f'{name} -> {got.__module__}.{got.__qualname__}'})
    # 2. type indices: built-ins unchanged, all classes distinct, index = position in the registry
    for k in builtin:
        if k.type_index() != index0[k]:
            out.append({'signature': 'registry/type-index-of-built-in-changed', 'what': f'{k.__name__}: {index0[k]} -> {k.type_index()}'})
    allk = builtin + users
    idx = [k.type_index() for k in allk]
    if len(set(idx)) != len(idx) or any(list(grid_object_registry)[i] is not k for k, i in zip(allk, idx)):
        out.append({'signature': 'registry/type-indices-not-distinct', 'what': f'{[(k.__name__, i) for k, i in zip(allk, idx)]}'})
    # 3. encodings of a space holding a built-in and a user class of the same name
    kinds = [Floor, Wall, UserWall, Gem, Key]
    sp = StateSpace(Shape(2, 3), kinds, [Color.RED])
    objs = [Floor(), Wall(), UserWall(), Gem(), Key(Color.RED)]
    for enc in ('default', 'no-overlap', 'compact'):
        try:
            rep = make_state_representation(enc, sp)
            gor = rep.representations['item'].grid_object_representation
            encs = [tuple(int(v) for v in gor.convert(o)) for o in objs]
        except Exception as e:
            out.append({'signature': f'encoding/{enc}-raises-with-user-classes', 'what': f'{type(e).__name__}: {e}'})
            continue
        if len(set(encs)) != len(encs):
            out.append({'signature': f'encoding/{enc}-not-injective', 'what': f'user classes next to built-ins: {list(zip([type(o).__name__ for o in objs], encs))}'})
        if enc == 'default' and any(e[0] != type(o).type_index() for o, e in zip(objs, encs)):
            out.append({'signature': 'encoding/default-not-index-triple', 'what': f'{encs}'})
        if enc == 'compact':
            from gym_gridverse.grid_object import NoneGridObject

            vals = sorted({e[0] for e in encs} | {int(gor.convert(NoneGridObject())[0])})
            if vals != list(range(len(vals))):
                out.append({'signature': 'encoding/compact-has-gaps', 'what': f'type channel {vals} with user classes'})
    # 3b. a user kind derived from Floor with a status of its own: two instances in one grid are two cells
    try:
        from gym_gridverse.state import State
        from gym_gridverse.agent import Agent
        from gym_gridverse.geometry import Orientation, Position as _P
        from gym_gridverse.grid import Grid as _G

        def _ice_init(self, broken=False):
            self.state_index = int(broken)

        Ice = type('Ice', (Floor,), {'__init__': _ice_init, 'num_states': classmethod(lambda cls: 2),
                                     '__repr__': lambda self: f'Ice({self.state_index})'})
        sp2 = StateSpace(Shape(2, 2), [Floor, Ice], [])
        st2 = State(_G([[Ice(False), Ice(True)], [Floor(), Ice(True)]]), Agent(_P(1, 0), Orientation.F))
        for enc in ('default', 'no-overlap', 'compact'):
            rep2 = make_state_representation(enc, sp2)
            gor2 = rep2.representations['item'].grid_object_representation
            arr = rep2.convert(st2)['grid']
            for (y_, x_) in ((0, 0), (0, 1), (1, 0), (1, 1)):
                if [int(v) for v in arr[y_, x_]] != [int(v) for v in gor2.convert(st2.grid[y_, x_])]:
                    out.append({'signature': 'representation/not-positional', 'what': f'{enc}: cell {(y_, x_)} of a grid holding two Ice(Floor) objects of different status is {list(arr[y_, x_])}'})
                    break
    except Exception as e:
        out.append({'signature': 'representation/raises-with-user-kinds', 'what': f'{type(e).__name__}: {e}'})
    # 4. a shipped configuration still builds the environment it describes
    try:
        from harness.oracles import build_env, shipped_files

        f = [x for x in shipped_files() if 'keydoor' in x][0]
        env = build_env(f)
        if Key not in env.state_space.object_types or UserKey in env.state_space.object_types:
            out.append({'signature': 'factory/object-name-resolves-to-a-user-class', 'what': os.path.basename(f)})
        env.set_seed(3)
        env.reset()
        if not env.state_space.contains(env.state):
            out.append({'signature': 'factory/reset-state-outside-the-declared-space', 'what': os.path.basename(f)})
    except Exception as e:
        out.append({'signature': 'factory/shipped-config-fails-with-user-classes', 'what': f'{type(e).__name__}: {e}'})
    # 6. what an object lets through is asked of the object: a see-through user kind derived from Wall does
    # not hide what is behind it, a user kind derived from Door hides it exactly while it is not open
    # (whatever instance of that kind was looked at before)
    try:
        from gym_gridverse.envs import visibility_functions as vf
        from gym_gridverse.geometry import Position
        from gym_gridverse.grid import Grid

        def column(front):
            return Grid([[Floor()], [front], [Floor()]])

        pov = Position(2, 0)
        for name in ('raytracing', 'partially_occluded'):
            f = vf.visibility_function_registry[name]
            for front, behind_visible, what in ((Window(), True, 'a see-through Window(Wall)'), (Pane(), True, 'a clear Pane(Wall) (set per instance)'), (Pane(True), False, 'a tinted Pane(Wall)'), (Gate(Door.Status.OPEN, Color.RED), True, 'an open Gate(Door)'),
                                                (Gate(Door.Status.CLOSED, Color.RED), False, 'a closed Gate(Door) after an open one was looked at'),
                                                (Wall(), False, 'a Wall'), (Gate(Door.Status.OPEN, Color.RED), True, 'an open Gate(Door) after a closed one')):
                if front.blocks_vision == behind_visible:
                    continue
                m = f(column(front), pov)
                if bool(m[0, 0]) != behind_visible:
                    out.append({'signature': f'{name}/visibility-ignores-what-the-object-lets-through', 'what': f'{what}: the cell behind it is {"visible" if m[0, 0] else "hidden"}'})
    except Exception as e:
        out.append({'signature': 'visibility/raises-with-user-kinds', 'what': f'{type(e).__name__}: {e}'})
    # 5. the shipped example with its own object class (imported by the factory, i.e. registered only now),
    # built after all of the above
    try:
        from harness import gvenv as _g

        env = build_env(os.path.join(_g.REPO, 'examples', 'coin_env.yaml'))
        env.set_seed(1)
        env.reset()
        for a in list(env.action_space.actions)[:3]:
            env.step(a)
    except Exception as e:
        out.append({'signature': 'factory/shipped-config-rejected', 'what': f'examples/coin_env.yaml built after other configurations: {type(e).__name__}: {e}'})
    print(json.dumps(out))


def check(seed, tier):
    p = subprocess.run([sys.executable, '-m', 'harness.customprobe'], cwd=VERIF, stdout=subprocess.PIPE, stderr=subprocess.PIPE, text=True, timeout=600)
    if p.returncode != 0:
        return {'evaluations': 1, 'distinct_nontrivial': 1, 'violations': [{'signature': 'customprobe/worker-failed', 'what': p.stderr[-400:]}]}
    viol = json.loads(p.stdout.strip().splitlines()[-1])
    for v in viol:
        v['case'] = {'kind': 'customprobe'}
    return {'evaluations': 16, 'distinct_nontrivial': 4, 'violations': viol}


if __name__ == '__main__':
    worker()
