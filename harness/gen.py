"""Input generators: exhaustive small scopes and structured random states.  Every random choice
derives from a `random.Random` seeded from VERIF_SEED."""
import itertools as itt
import random

from harness import gvenv  # noqa: F401
from harness.codec import ACTIONS, COLORS, STATUSES, dec_obj
from gym_gridverse.agent import Agent
from gym_gridverse.geometry import Orientation, Position, Shape
from gym_gridverse.grid import Grid
from gym_gridverse.grid_object import Floor
from gym_gridverse.state import State

ORIENTS = [Orientation.F, Orientation.B, Orientation.L, Orientation.R]

# every type x status x colour-class, boxes nested to depth 2
ALPHABET_FULL = (
    ['F', 'W', 'O']
    + [f'E{c}' for c in range(5)]
    + [f'D{s}{c}' for s in range(3) for c in range(5)]
    + [f'K{c}' for c in range(5)]
    + [f'T{c}' for c in range(5)]
    + [f'B{c}' for c in range(5)]
    + ['XF', 'XK1', 'XW', 'XD21', 'XXF', 'XXK4', 'XO']
)
# one representative per behavioural class (used for exhaustive products)
ALPHABET_CORE = ['F', 'W', 'O', 'E0', 'E2', 'D01', 'D11', 'D21', 'D24', 'K1', 'K4', 'T1', 'T2', 'B1', 'XF', 'XK1', 'XXF']
HELD_CORE = ['N', 'K1', 'K4', 'W', 'O', 'XF', 'F', 'D21']
SMALL_SHAPES = [(1, 1), (1, 2), (2, 1), (1, 3), (3, 1), (2, 2), (2, 3), (3, 2), (3, 3)]


def mk_state(h, w, cells, y, x, o, held='N'):
    """cells: dict (y,x)->token; others floor"""
    rows = [[dec_obj(cells.get((i, j), 'F')) for j in range(w)] for i in range(h)]
    return State(Grid(rows), Agent(Position(y, x), o, dec_obj(held)))


def target_of(y, x, o, a):
    from gym_gridverse.envs.utils import get_next_position
    from gym_gridverse.action import Action

    if a.is_move():
        p = get_next_position(Position(y, x), o, a)
    else:
        p = Position(y, x) + Position.from_orientation(o)
    return p.y, p.x


def smallscope_steps(alphabet=ALPHABET_CORE, helds=HELD_CORE, shapes=SMALL_SHAPES):
    """all (state, action) with one relevant cell (the action's target / the front cell) ranging
    over the alphabet, every pose incl. outward-facing edge poses, every action, every held item"""
    for (h, w) in shapes:
        for y in range(h):
            for x in range(w):
                for o in ORIENTS:
                    for a in ACTIONS:
                        ty, tx = target_of(y, x, o, a)
                        inside = 0 <= ty < h and 0 <= tx < w
                        # wrapped cell that Python's negative indexing would read
                        wy, wx = ty % h if -h <= ty < h else None, tx % w if -w <= tx < w else None
                        cellpos = (ty, tx) if inside else ((wy, wx) if wy is not None and wx is not None else None)
                        objs = alphabet if cellpos is not None and cellpos != (y, x) else ['F']
                        for t in objs:
                            for held in helds:
                                cells = {cellpos: t} if cellpos is not None else {}
                                yield mk_state(h, w, cells, y, x, o, held), a


def random_obj(rng: random.Random, alphabet=ALPHABET_FULL, p_floor=0.5):
    return 'F' if rng.random() < p_floor else rng.choice(alphabet)


def random_state(rng: random.Random, max_h=7, max_w=7, p_floor=0.5, p_wall_border=0.5, helds=None, min_h=1, min_w=1):
    h = rng.randint(min_h, max_h)
    w = rng.randint(min_w, max_w)
    cells = {}
    border = rng.random() < p_wall_border
    for i in range(h):
        for j in range(w):
            if border and (i in (0, h - 1) or j in (0, w - 1)):
                cells[(i, j)] = 'W'
            else:
                cells[(i, j)] = random_obj(rng, p_floor=p_floor)
    y, x = rng.randrange(h), rng.randrange(w)
    o = rng.choice(ORIENTS)
    held = rng.choice(helds or (['N'] * 3 + ALPHABET_FULL))
    if held == 'F' and rng.random() < 0.8:
        held = 'N'
    return mk_state(h, w, cells, y, x, o, held)


def valid_random_state(rng, **kw):
    """random state whose agent stands on a non-blocking cell"""
    for _ in range(100):
        s = random_state(rng, **kw)
        if not s.grid[s.agent.position].blocks_movement:
            return s
    s.grid[s.agent.position] = Floor()
    return s


def alias_equal(s):
    """the same layout with ONE instance per distinct object description: every group of cells (and
    the held item) whose objects print alike shares a single Python object.  Values are unchanged;
    the library's behaviour must not depend on object identity."""
    from harness.codec import enc_obj

    from gym_gridverse.grid_object import Box, Door

    def mutable(o):
        # a Door is updated in place by actuate_door, so two cells sharing one Door instance are not two
        # doors (no reset function or copy ever builds that); the same holds for anything inside a Box
        return isinstance(o, Door) or (isinstance(o, Box) and mutable(o.content))

    pool = {}
    rows = s.grid.objects
    for i, row in enumerate(rows):
        for j, o in enumerate(row):
            if not mutable(o):
                rows[i][j] = pool.setdefault(enc_obj(o), o)
    return s
