"""Development tool: union of the library lines reached by the quick-tier correspondence families of
all properties; prints the lines of modelled functions that no correspondence input reaches.
usage: /venv/bin/python -m harness.covunion"""
import sys

from harness import cov, props, runner


def main():
    fams = {}
    for pid, P in props.PROPS.items():
        for f in P['families']['quick']:
            key = (f[0], f[1])
            if key not in fams or fams[key][2] < f[2]:
                fams[key] = f
    hit = set()
    for f in fams.values():
        res = runner.run_families([f], 1)
        hit |= res.lines_hit
        print(f[1], res.evaluations, 'mismatches', res.n_mismatch, file=sys.stderr)
    rep = cov.report(hit)
    print('modelled lines', rep['modelled_lines'], 'reached', rep['reached'])
    for k, v in rep['functions_with_unreached_lines'].items():
        print(k, v)


if __name__ == '__main__':
    main()
