"""Correspondence families for the eight reset functions (draw logs included) and for whole
environments driven through the stateful interface."""
import itertools as itt
import random

import numpy as np

from harness import gvenv  # noqa: F401
from harness.codec import KIND_INDEX, KINDS, enc_exc, enc_state
from harness.recrng import RecRng
from gym_gridverse.envs import reset_functions as rsf
from gym_gridverse.geometry import Shape
from gym_gridverse.grid_object import Color, Exit, Floor, MovingObstacle, Wall

COLORS = list(Color)


def splits(n, layout):
    """numpy's split vector exactly as the code computes it ('' when the layout is rejected first)"""
    if layout < 1:
        return []
    return [int(v) for v in np.linspace(0, n - 1, num=layout + 1, dtype=int)]


def enc_list(l):
    return f'{len(l)} ' + ' '.join(map(str, l)) if l else '0'


def reset_spec_line(name, **kw):
    """protocol encoding of a reset function with parameters; returns (spec, callable(rng))"""
    if name == 'empty':
        h, w, ra, re = kw['h'], kw['w'], kw['random_agent'], kw['random_exit']
        return f'empty {h} {w} {int(ra)} {int(re)}', lambda rng: rsf.empty(Shape(h, w), random_agent=ra, random_exit=re, rng=rng)
    if name == 'rooms':
        h, w, lh, lw = kw['h'], kw['w'], kw['lh'], kw['lw']
        return (f'rooms {h} {w} {lh} {lw} {enc_list(splits(h, lh))} {enc_list(splits(w, lw))}', lambda rng: rsf.rooms(Shape(h, w), (lh, lw), rng=rng))
    if name == 'dynamic_obstacles':
        h, w, n, ra = kw['h'], kw['w'], kw['n'], kw['random_agent']
        return f'dynobs {h} {w} {n} {int(ra)}', lambda rng: rsf.dynamic_obstacles(Shape(h, w), n, random_agent=ra, rng=rng)
    if name == 'keydoor':
        h, w = kw['h'], kw['w']
        return f'keydoor {h} {w}', lambda rng: rsf.keydoor(Shape(h, w), rng=rng)
    if name == 'crossing':
        h, w, n, k = kw['h'], kw['w'], kw['n'], kw['object_type']
        return f'crossing {h} {w} {n} {KIND_INDEX[k]}', lambda rng: rsf.crossing(Shape(h, w), n, k, rng=rng)
    if name == 'teleport':
        h, w = kw['h'], kw['w']
        return f'teleport {h} {w}', lambda rng: rsf.teleport(Shape(h, w), rng=rng)
    if name == 'memory':
        h, w, cs = kw['h'], kw['w'], kw['colors']
        vals = sorted({c.value for c in cs})
        return f'memory {h} {w} {enc_list(vals)}', lambda rng: rsf.memory(Shape(h, w), set(cs), rng=rng)
    if name == 'memory_rooms':
        h, w, lh, lw, cs, nb, ne = kw['h'], kw['w'], kw['lh'], kw['lw'], kw['colors'], kw['nb'], kw['ne']
        vals = sorted({c.value for c in cs})
        return (
            f'memrooms {h} {w} {lh} {lw} {enc_list(splits(h, lh))} {enc_list(splits(w, lw))} {enc_list(vals)} {nb} {ne}',
            lambda rng: rsf.memory_rooms(Shape(h, w), (lh, lw), set(cs), nb, ne, rng=rng),
        )
    raise ValueError(name)


def reset_case(name, seed, **kw):
    spec, fn = reset_spec_line(name, **kw)
    rec = RecRng(seed)
    try:
        s = fn(rec)
        exp = enc_state(s) + ' | ' + rec.log_str()
    except Exception as e:
        exp = enc_exc(e)
    line = f'reset {spec} {len(rec.answers)} {" ".join(map(str, rec.answers))}'.rstrip()
    return line, exp


def param_stream(rng, max_shape=9, exhaustive=False):
    """structured, mostly-valid parameters plus zero/negative counts and tiny shapes"""
    while True:
        name = rng.choice(['empty', 'rooms', 'dynamic_obstacles', 'keydoor', 'crossing', 'teleport', 'memory', 'memory_rooms'])
        h, w = rng.randint(1, max_shape), rng.randint(1, max_shape)
        if rng.random() < 0.5:
            h, w = max(h, 4), max(w, 4)
        if name == 'empty':
            yield name, dict(h=h, w=w, random_agent=rng.random() < 0.5, random_exit=rng.random() < 0.5)
        elif name == 'rooms':
            if rng.random() < 0.3:
                h, w = rng.choice([7, 9, 10, 13]), rng.choice([7, 9, 10, 13])
            if rng.random() < 0.08:
                # long sides with many rooms: where `(size - 1) / rooms` is not exact, the wall lines are what
                # numpy's linspace says (its last sample is the far wall, exactly)
                big, lay = rng.choice([(31, 11), (31, 13), (50, 11), (61, 11), (61, 13), (62, 7), (62, 14), (64, 13), (rng.randint(20, 70), rng.randint(3, 15))])
                if rng.random() < 0.5:
                    yield name, dict(h=big, w=rng.randint(4, 7), lh=lay, lw=1)
                else:
                    yield name, dict(h=rng.randint(4, 7), w=big, lh=1, lw=lay)
                continue
            yield name, dict(h=h, w=w, lh=rng.randint(-1, 4) if rng.random() < 0.2 else rng.randint(1, 3), lw=rng.randint(0, 4) if rng.random() < 0.2 else rng.randint(1, 3))
        elif name == 'dynamic_obstacles':
            yield name, dict(h=h, w=w, n=rng.randint(-1, max(0, (h - 2) * (w - 2))), random_agent=rng.random() < 0.5)
        elif name == 'keydoor':
            if rng.random() < 0.6:
                w = max(w, 5)
            yield name, dict(h=h, w=w)
        elif name == 'crossing':
            if rng.random() < 0.75:
                h, w = max(h, 5) | 1, max(w, 5) | 1
            yield name, dict(h=h, w=w, n=rng.randint(-1, 5), object_type=rng.choice([Wall, Wall, Exit, MovingObstacle, Floor, KINDS[6]]))
        elif name == 'teleport':
            yield name, dict(h=h, w=w)
        elif name == 'memory':
            if rng.random() < 0.75:
                h, w = rng.randint(5, max_shape), rng.choice([5, 7, 9])
                cs = rng.sample(COLORS[1:], rng.randint(2, 4))
            else:
                k = rng.randint(0, 5)
                cs = rng.sample(COLORS, k)
            yield name, dict(h=h, w=w, colors=cs)
        else:
            if rng.random() < 0.75:
                h, w = rng.choice([7, 9, 10, 13]), rng.choice([7, 9, 10, 13])
                cs = rng.sample(COLORS[1:], rng.randint(2, 4))
                lh, lw = rng.randint(1, 3), rng.randint(1, 3)
                yield name, dict(h=h, w=w, lh=lh, lw=lw, colors=cs, nb=rng.randint(1, 3), ne=rng.randint(2, len(cs)))
            else:
                k = rng.randint(1, 5)
                yield name, dict(h=h, w=w, lh=rng.randint(0, 3), lw=rng.randint(0, 3), colors=rng.sample(COLORS, k), nb=rng.randint(0, 3), ne=rng.randint(1, 4))


def fam_reset_random(seed, shard, nshards, n):
    rng = random.Random(f'reset-{seed}-{shard}')
    ps = param_stream(rng)
    for k in range(n // nshards):
        name, kw = next(ps)
        line, exp = reset_case(name, rng.randrange(2**32), **kw)
        yield line, exp, f'reset-{name}' + ('-err' if exp.startswith('ERR') else '')


def fam_reset_grid(seed, shard, nshards, n):
    """shapes 1x1 .. 8x8 (and the shipped 10x10, 13x13 for the room functions) x parameters"""
    k = 0
    shapes = [(h, w) for h in range(1, 9) for w in range(1, 9)]
    for (h, w) in shapes + [(10, 10), (13, 13), (9, 13)]:
        cases = []
        for ra, re in itt.product([False, True], repeat=2):
            cases.append(('empty', dict(h=h, w=w, random_agent=ra, random_exit=re)))
        for lh, lw in [(1, 1), (2, 2), (3, 3), (2, 3), (1, 2), (0, 2), (2, -1)]:
            cases.append(('rooms', dict(h=h, w=w, lh=lh, lw=lw)))
        vac = max(0, (h - 2) * (w - 2) - 2)
        for nobs in sorted({-1, 0, 1, 2, vac, vac + 1}):
            cases.append(('dynamic_obstacles', dict(h=h, w=w, n=nobs, random_agent=(nobs % 2 == 0))))
        cases.append(('keydoor', dict(h=h, w=w)))
        for nr in (0, 1, 2, 5):
            cases.append(('crossing', dict(h=h, w=w, n=nr, object_type=Wall)))
        cases.append(('teleport', dict(h=h, w=w)))
        for cs in ([Color.RED, Color.GREEN], [Color.RED], [Color.NONE, Color.RED, Color.BLUE], COLORS[1:]):
            cases.append(('memory', dict(h=h, w=w, colors=cs)))
        for (lh, lw, cs, nb, ne) in [(2, 2, COLORS[1:], 3, 2), (1, 1, [Color.RED, Color.BLUE], 1, 2), (2, 2, [Color.RED, Color.BLUE], 1, 3), (3, 3, COLORS[1:], 3, 2), (2, 2, COLORS[1:], 0, 2)]:
            cases.append(('memory_rooms', dict(h=h, w=w, lh=lh, lw=lw, colors=cs, nb=nb, ne=ne)))
        for name, kw in cases:
            for sd in range(2):
                k += 1
                if k % nshards != shard:
                    continue
                line, exp = reset_case(name, seed * 1000 + sd + k, **kw)
                yield line, exp, f'resetg-{name}' + ('-err' if exp.startswith('ERR') else '')


def fam_splits(seed, shard, nshards, n):
    """numpy's `linspace(0, n-1, num=L+1, dtype=int)` vectors (inputs of the `rooms` theorems): the
    model's executable form of the theorems' hypothesis `SplitsOK` (and of the code's check that no two
    split lines are adjacent) must say about them what an independent reading of the definition says"""
    k = 0
    for side in range(1, 41):
        for lay in range(1, 9):
            k += 1
            if k % nshards != shard:
                continue
            l = splits(side, lay)
            ok = len(l) >= 2 and l[0] == 0 and l[-1] == side - 1 and all(b - a >= 2 for a, b in zip(l, l[1:]))
            dup = any(b - a < 2 for a, b in zip(l, l[1:]))
            yield f'splitsok {side} {len(l)} ' + ' '.join(map(str, l)), ('T' if ok else 'F') + ' ' + ('T' if dup else 'F'), 'splits-' + ('ok' if ok else ('close' if dup else 'ends'))
