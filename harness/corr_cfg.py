"""Configuration correspondence: the real YAML factory (static part: validation, reserved keys,
lookup, keyword selection) vs the Lean `buildDesc`, on every shipped file and on systematic
corruptions of them; and every registry's `factory(name, **kwargs)` vs `factoryCheck`."""
import copy
import functools
import itertools as itt
import random

from schema import SchemaError

from harness import gvenv  # noqa: F401
from harness import extract_cfg
from harness.corr_env import YAML_FILES, load
from gym_gridverse.action import Action
from gym_gridverse.envs.yaml import factory as F
from gym_gridverse.envs.yaml.schemas import schemas
from gym_gridverse.spaces import ActionSpace

SUB_KEYS = ['transition_functions', 'reward_functions', 'terminating_functions', 'reward_function', 'visibility_function']


CONVERTED_KEYS = ('transition_functions', 'reward_functions', 'terminating_functions', 'reward_function',
                  'visibility_function', 'area', 'object_type', 'colors')


def show_val(v):
    """a bound parameter value in the form the model prints the value given in the description"""
    from gym_gridverse.geometry import Shape

    if v is None:
        return 'n'
    if isinstance(v, bool):
        return 'b1' if v else 'b0'
    if isinstance(v, int):
        return f'i{v}'
    if isinstance(v, float):
        m, e = extract_cfg.dec_float(repr(v))
        return f'f{m}e{e}'
    if isinstance(v, str):
        return 's' + v
    if isinstance(v, Shape):
        return f'[i{v.height};i{v.width}]'
    if isinstance(v, (list, tuple)):
        return '[' + ';'.join(show_val(x) for x in v) + ']'
    if callable(v) and getattr(v, '__name__', '').endswith('_distance'):
        return 's' + v.__name__[: -len('_distance')]
    return None


def show_kw(k, v):
    if k in CONVERTED_KEYS or isinstance(v, dict):
        return k
    t = show_val(v)
    return k if t is None else f'{k}={t}'


def describe(p):
    """canonical description of a factory-built component (a functools.partial)"""
    assert isinstance(p, functools.partial), p
    kws = [show_kw(k, v) for k, v in p.keywords.items()]
    subs = []
    for k in SUB_KEYS:
        if k in p.keywords:
            v = p.keywords[k]
            subs += [describe(x) for x in (v if isinstance(v, (list, tuple)) else [v])]
    s = f'{p.func.__name__}({",".join(kws)})'
    if subs:
        s += '[' + ';'.join(subs) + ']'
    return s


def real_static(data):
    """steps of factory_env_from_data before the first call of the reset function"""
    data = copy.deepcopy(data)
    try:
        data = schemas['env'].validate(data)
        ssb = F.factory_state_space_builder(data['state_space'])
        acts = F.factory_action_space(data['action_space']) if 'action_space' in data else ActionSpace(list(Action))
        osb = F.factory_observation_space_builder(data['observation_space'])
        rs = F.factory_reset_function(data['reset_function'])
        tr = F.factory_transition_function({'name': 'chain', 'transition_functions': data['transition_functions']})
        rw = F.factory_reward_function({'name': 'reduce_sum', 'reward_functions': data['reward_functions']})
        ob = F.factory_observation_function(data['observation_function'])
        te = F.factory_terminating_function(data['terminating_function'])
    except SchemaError:
        return 'ERR SchemaError'
    except Exception as e:
        return f'ERR {type(e).__name__}'
    so = ','.join(c.__name__ for c in ssb.object_types)
    sc = ','.join(c.name for c in ssb.colors)
    oo = ','.join(c.__name__ for c in osb.object_types)
    oc = ','.join(c.name for c in osb.colors)
    return (
        f'S:{so}/{sc} A:{",".join(a.name for a in acts.actions)} O:{oo}/{oc} '
        f'R:{describe(rs)} T:{describe(tr)} W:{describe(rw)} V:{describe(ob)} E:{describe(te)}'
    )


def tokenizable(v):
    if isinstance(v, str):
        return v != '' and ' ' not in v
    if isinstance(v, (list, tuple)):
        return all(tokenizable(x) for x in v)
    if isinstance(v, dict):
        return all(isinstance(k, str) and tokenizable(k) and tokenizable(x) for k, x in v.items())
    return v is None or isinstance(v, (bool, int, float))


def cfg_line(data):
    return f'cfg {extract_cfg.regs_tokens()} {extract_cfg.yaml_tokens(data)}'


def paths(d, prefix=()):
    """all paths to nodes of the configuration tree"""
    yield prefix
    if isinstance(d, dict):
        for k, v in d.items():
            yield from paths(v, prefix + (k,))
    elif isinstance(d, list):
        for i, v in enumerate(d):
            yield from paths(v, prefix + (i,))


def get(d, path):
    for k in path:
        d = d[k]
    return d


def corruptions(data, rng):
    """systematic single-site corruptions: delete / rename / retarget each key, wrong arity, wrong
    enum, duplicates, wrong scalar types, emptied lists"""
    for path in list(paths(data)):
        if not path:
            continue
        parent, key = get(data, path[:-1]), path[-1]
        node = get(data, path)

        def variant(mut):
            d = copy.deepcopy(data)
            mut(get(d, path[:-1]))
            return d

        if isinstance(parent, dict):
            yield 'delete-key', variant(lambda p: p.pop(key))
            yield 'rename-key', variant(lambda p: p.update({key + '_x': p.pop(key)}))
            if key == 'name':
                yield 'unknown-name', variant(lambda p: p.update({key: 'no_such_component'}))
                yield 'retarget-name', variant(lambda p: p.update({key: rng.choice(['move_agent', 'reach_exit', 'empty', 'overlap', 'partially_occluded', 'reduce_any'])}))
                yield 'name-not-str', variant(lambda p: p.update({key: 3}))
        if isinstance(parent, list):
            yield 'drop-item', variant(lambda p: p.pop(key))
            yield 'dup-item', variant(lambda p: p.insert(key, copy.deepcopy(p[key])))
        if isinstance(node, list):
            yield 'empty-list', variant(lambda p: p.__setitem__(key, []))
            yield 'extra-item', variant(lambda p: p.__setitem__(key, list(node) + [copy.deepcopy(node[0])] if node else [1]))
            yield 'list-to-scalar', variant(lambda p: p.__setitem__(key, 7))
            if len(node) >= 2:
                # still a valid configuration, but a different one: the order written in the file is the
                # order of the action indices, of the chained transitions, of the summed rewards, ...
                yield 'reverse-list', variant(lambda p: p.__setitem__(key, list(reversed(node))))
                yield 'rotate-list', variant(lambda p: p.__setitem__(key, list(node[1:]) + [node[0]]))
        if isinstance(node, int) and not isinstance(node, bool):
            for repl in (0, -1, 'x', 2.5, node + 1):
                yield 'int-replaced', variant(lambda p, r=repl: p.__setitem__(key, r))
        if isinstance(node, str) and key != 'name':
            for repl in ('PURPLE', 'Nothing', 'MOVE_UP', 5):
                yield 'str-replaced', variant(lambda p, r=repl: p.__setitem__(key, r))
        if isinstance(node, float):
            yield 'float-replaced', variant(lambda p: p.__setitem__(key, 'high'))
            # still valid: another value, zero included (a value, not "left out")
            for repl in (0.0, -0.0, 0, 1.5, None):
                yield 'falsy-value', variant(lambda p, r=repl: p.__setitem__(key, r))
        if isinstance(node, bool):
            yield 'falsy-value', variant(lambda p: p.__setitem__(key, not node))
            yield 'falsy-value', variant(lambda p: p.__setitem__(key, 0))
        if isinstance(node, dict) and 'name' in node and len(node) >= 3:
            # still valid: the same entry with its parameters written in another order
            yield 'reorder-params', variant(lambda p: p.__setitem__(key, dict(reversed(list(node.items())))))
            yield 'reorder-params', variant(lambda p: p.__setitem__(key, dict(list(node.items())[1:] + list(node.items())[:1])))
    d = copy.deepcopy(data)
    d['extra_top_level_key'] = 1
    yield 'extra-top-key', d


def fam_cfg(seed, shard, nshards, n):
    """every shipped file plus corruptions (n = number of corruptions sampled per file; 0 = all)"""
    rng = random.Random(f'cfg-{seed}-{shard}')
    for i, path in enumerate(YAML_FILES):
        if i % nshards != shard:
            continue
        data = load(path)
        yield cfg_line(data), real_static(data), 'cfg-shipped'
        cs = list(corruptions(data, rng))
        if n and len(cs) > n:
            keep = ('reverse-list', 'rotate-list', 'falsy-value', 'reorder-params')
            must = [x for x in cs if x[0] in keep]
            cs = must + rng.sample([x for x in cs if x[0] not in keep], n)
        for kind, d in cs:
            if not tokenizable(d):
                continue
            exp = real_static(d)
            tag = 'cfg-' + kind + ('-rejected' if exp.startswith('ERR') else '-accepted')
            yield cfg_line(d), exp, tag


def fam_factory(seed, shard, nshards, n):
    """`factory(name, **kwargs)` of the six registries: all names (plus an unknown one) x subsets of
    the parameter names (plus a foreign key)"""
    from gym_gridverse.envs import observation_functions as of, reset_functions as rsf, reward_functions as rf
    from gym_gridverse.envs import terminating_functions as tf, transition_functions as trf, visibility_functions as vf

    mods = {'reset': rsf, 'transition': trf, 'reward': rf, 'observation': of, 'visibility': vf, 'terminating': tf}
    r = extract_cfg.regs()
    k = 0
    for kind, mod in mods.items():
        sigs = r[kind]
        reg_tok = f'{len(sigs)} ' + ' '.join(f'{nm} {extract_cfg.tok_list(req)} {extract_cfg.tok_list(opt)}' for nm, req, opt in sigs)
        for nm, req, opt in sigs + [('no_such_function', [], [])]:
            keys = req + opt + ['foreign_key']
            for m in range(len(keys) + 1):
                for sub in itt.combinations(keys, m):
                    k += 1
                    if k % nshards != shard:
                        continue
                    kw = {x: object() for x in sub}
                    try:
                        p = mod.factory(nm, **kw)
                        exp = ','.join(p.keywords.keys())
                    except Exception as e:
                        exp = f'ERR {type(e).__name__}'
                    yield f'factory {reg_tok} {nm} {extract_cfg.tok_list(list(sub))}', exp, f'factory-{kind}' + ('-err' if exp.startswith('ERR') else '')
