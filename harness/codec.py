"""Tokens <-> real gym_gridverse objects (the protocol of lean/GridVerse/Model/Codec.lean)."""
from harness import gvenv  # noqa: F401
from gym_gridverse.action import Action
from gym_gridverse.agent import Agent
from gym_gridverse.geometry import Area, Orientation, Position
from gym_gridverse.grid import Grid
from gym_gridverse.grid_object import (
    Beacon,
    Box,
    Color,
    Door,
    Exit,
    Floor,
    GridObject,
    Hidden,
    Key,
    MovingObstacle,
    NoneGridObject,
    Telepod,
    Wall,
)
from gym_gridverse.state import State

O = Orientation
ORIENT_TOK = {O.F: 'F', O.B: 'B', O.L: 'L', O.R: 'R'}
TOK_ORIENT = {v: k for k, v in ORIENT_TOK.items()}
ACTIONS = list(Action)
KINDS = [NoneGridObject, Hidden, Floor, Wall, Exit, Door, Key, MovingObstacle, Box, Telepod, Beacon]
KIND_INDEX = {k: i for i, k in enumerate(KINDS)}
COLORS = list(Color)
STATUSES = list(Door.Status)


def enc_obj(o: GridObject) -> str:
    t = type(o)
    if t is NoneGridObject:
        return 'N'
    if t is Hidden:
        return 'H'
    if t is Floor:
        return 'F'
    if t is Wall:
        return 'W'
    if t is MovingObstacle:
        return 'O'
    if t is Exit:
        return f'E{o.color.value}'
    if t is Key:
        return f'K{o.color.value}'
    if t is Telepod:
        return f'T{o.color.value}'
    if t is Beacon:
        return f'B{o.color.value}'
    if t is Door:
        return f'D{o.state.value}{o.color.value}'
    if t is Box:
        return 'X' + enc_obj(o.content)
    raise ValueError(f'unencodable object {o!r}')


def dec_obj(s: str) -> GridObject:
    o, rest = _dec_obj(s)
    assert rest == '', s
    return o


def _dec_obj(s: str):
    c = s[0]
    if c == 'N':
        return NoneGridObject(), s[1:]
    if c == 'H':
        return Hidden(), s[1:]
    if c == 'F':
        return Floor(), s[1:]
    if c == 'W':
        return Wall(), s[1:]
    if c == 'O':
        return MovingObstacle(), s[1:]
    if c == 'E':
        return Exit(COLORS[int(s[1])]), s[2:]
    if c == 'K':
        return Key(COLORS[int(s[1])]), s[2:]
    if c == 'T':
        return Telepod(COLORS[int(s[1])]), s[2:]
    if c == 'B':
        return Beacon(COLORS[int(s[1])]), s[2:]
    if c == 'D':
        return Door(STATUSES[int(s[1])], COLORS[int(s[2])]), s[3:]
    if c == 'X':
        inner, rest = _dec_obj(s[1:])
        return Box(inner), rest
    raise ValueError(s)


def enc_grid(g: Grid) -> str:
    cells = [enc_obj(o) for row in g.objects for o in row]
    return ' '.join([str(g.shape.height), str(g.shape.width)] + cells)


def dec_grid(toks, i=0):
    h, w = int(toks[i]), int(toks[i + 1])
    i += 2
    rows = []
    for _ in range(h):
        rows.append([dec_obj(t) for t in toks[i : i + w]])
        i += w
    return Grid(rows), i


def enc_pos(p) -> str:
    return f'{int(p.y)} {int(p.x)}'


def enc_area(a: Area) -> str:
    return f'{a.ymin} {a.ymax} {a.xmin} {a.xmax}'


def enc_agent(a: Agent) -> str:
    return f'{enc_pos(a.position)} {ORIENT_TOK[a.orientation]} {enc_obj(a.grid_object)}'


def enc_state(s) -> str:
    return enc_grid(s.grid) + ' ' + enc_agent(s.agent)


def dec_state(toks, i=0):
    g, i = dec_grid(toks, i)
    y, x = int(toks[i]), int(toks[i + 1])
    o = TOK_ORIENT[toks[i + 2]]
    held = dec_obj(toks[i + 3])
    return State(g, Agent(Position(y, x), o, held)), i + 4


def state_from_str(s: str) -> State:
    st, i = dec_state(s.split())
    return st


def enc_action(a: Action) -> str:
    return str(a.value)


def enc_exc(e: BaseException) -> str:
    return f'ERR {type(e).__name__}'


def enc_rays(rays) -> str:
    out = [str(len(rays))]
    for r in rays:
        out.append(str(len(r)))
        out.extend(enc_pos(p) for p in r)
    return ' '.join(out)
