"""`/verif/check <ID> [--tier quick|thorough] [--replay file]`

Decision procedure (DESIGN.md §5): regenerate the Lean tables from /repo -> build the property's
Lean modules (kernel re-checks every theorem and agreement lemma) -> audit axioms / forbidden
constructs -> correspondence (real code vs compiled model on the same inputs) -> known findings
re-validated -> small-budget property oracle.  Anything red triggers a failing-input search on the
implementation; VIOLATION lines carry a replay file."""
import argparse
import json
import multiprocessing as mp
import os
import random
import sys
import time
import traceback

VERIF = os.path.dirname(os.path.dirname(os.path.abspath(__file__)))
sys.path.insert(0, VERIF)

NPROC = int(os.environ.get('VERIF_NPROC', '16'))


def _oracle_worker(args):
    prop, seed, shard, budget_s, max_cases, extra_cases = args
    from harness import oracles

    orc = oracles.ORACLES[prop]()
    rng = random.Random(f'oracle-{prop}-{seed}-{shard}')
    t0 = time.time()
    n = 0
    nontrivial = set()
    viols = []
    samples = []
    it = iter(orc.gen(rng))
    cases = list(extra_cases)
    while True:
        if cases:
            case = cases.pop(0)
        else:
            if time.time() - t0 > budget_s or n >= max_cases:
                break
            try:
                case = next(it)
            except StopIteration:
                break
        n += 1
        try:
            vs = orc.check(case)
        except Exception as e:  # an oracle crash is an infrastructure problem, reported separately
            vs = [{'signature': 'oracle-crash', 'what': f'{type(e).__name__}: {e}', 'trace': traceback.format_exc()[-800:]}]
        if orc.nontrivial(case):
            nontrivial.add(json.dumps(case, sort_keys=True, default=str))
        if len(samples) < 2:
            samples.append(case)
        for v in vs:
            v = dict(v)
            v['case'] = case
            if len(viols) < 50:
                viols.append(v)
    return n, len(nontrivial), viols, samples


def run_oracle(prop, seed, budget_s, max_cases=10**9, extra_cases=(), nproc=NPROC):
    from harness import oracles

    if prop not in oracles.ORACLES:
        return {'evaluations': 0, 'nontrivial': 0, 'violations': [], 'samples': []}
    jobs = [(prop, seed, sh, budget_s, max_cases // nproc + 1, list(extra_cases) if sh == 0 else []) for sh in range(nproc)]
    with mp.get_context('fork').Pool(nproc) as pool:
        res = pool.map(_oracle_worker, jobs, chunksize=1)
    out = {'evaluations': 0, 'nontrivial': 0, 'violations': [], 'samples': []}
    for n, nt, vs, ss in res:
        out['evaluations'] += n
        out['nontrivial'] += nt
        out['violations'].extend(vs)
        out['samples'].extend(ss[:1])
    return out


def load_known():
    path = os.path.join(VERIF, 'known_findings.jsonl')
    out = []
    if os.path.exists(path):
        for line in open(path):
            line = line.strip()
            if line and not line.startswith('#'):
                out.append(json.loads(line))
    return out


def write_json(path, obj):
    os.makedirs(os.path.dirname(path), exist_ok=True)
    tmp = path + '.tmp'
    with open(tmp, 'w') as f:
        json.dump(obj, f, indent=1, default=str)
    os.replace(tmp, path)


def main(argv=None):
    ap = argparse.ArgumentParser()
    ap.add_argument('prop')
    ap.add_argument('--tier', default=os.environ.get('VERIF_TIER') or 'quick', choices=['quick', 'thorough'])
    ap.add_argument('--replay', default=None)
    args = ap.parse_args(argv)
    try:
        seed = int(os.environ.get('VERIF_SEED', '0') or 0)
    except ValueError:
        seed = 0
    prop = args.prop
    t0 = time.time()
    try:
        rc = _check(prop, args.tier, seed, args.replay, t0)
    except KeyboardInterrupt:
        raise
    except Exception:
        traceback.print_exc()
        print(f'INFRA-ERROR property={prop}: the check itself failed (not a verdict)')
        rc = 2
    sys.stdout.flush()
    return rc


def _check(prop, tier, seed, replay, t0):
    os.chdir(VERIF)
    from harness import extract, lean, props, runner

    if prop not in props.PROPS:
        print(f'unknown or unclaimed property {prop}')
        return 2
    P = props.PROPS[prop]

    if replay:
        return _replay(prop, replay)

    report = {'property': prop, 'tier': tier, 'seed': seed, 'steps': {}}
    red = []  # reasons something no longer checks

    # 1. translator: regenerate tables from the working tree ------------------------------------
    try:
        changed = extract.run(P.get('extract', ('tables',)))
        report['steps']['extract'] = {'rewritten': [k for k, v in changed.items() if v]}
        fps = extract.modelled_functions()
    except Exception as e:
        # the live objects could not even be read: treat as a broken tie
        red.append({'kind': 'extract', 'what': f'extractor failed: {type(e).__name__}: {e}', 'trace': traceback.format_exc()[-1500:]})
        fps = {}
    report['fingerprints'] = fps
    try:
        src_changed = extract.source_changed()
    except Exception:
        src_changed = []
    # the library differs from the tree the model was written against: look harder (never a verdict)
    escalate = 2 if (src_changed and tier == 'quick') else 1
    report['source_changed'] = src_changed

    # 2. build: model + driver first (infrastructure), then the property's obligations ------------
    ok, out, secs = lean.lake_build(['gvdriver'])
    if not ok:
        errs = lean.parse_build_errors(out)
        if any(e['file'] and 'Generated' in e['file'] for e in errs):
            red.append({'kind': 'build', 'what': 'generated tables no longer type-check against the model', 'errors': errs[:5]})
        else:
            print(out[-3000:])
            print(f'INFRA-ERROR property={prop}: model/driver build failed')
            return 2
    ok, out, secs = lean.lake_build(P['targets'])
    report['steps']['build'] = {'targets': P['targets'], 'ok': ok, 'seconds': round(secs, 1)}
    theorem_list = []
    for rel, prefix in P['theorem_files']:
        theorem_list += [(rel, n) for n in lean.theorem_names(rel, prefix)]
    obligations = len(theorem_list) + 2  # + source audit + axiom audit
    discharged = 0
    if not ok:
        errs = lean.parse_build_errors(out)
        for e in errs[:10]:
            red.append({'kind': 'proof', 'what': f"Lean obligation no longer checks: {e['file']}:{e['line']}: {e['message']}", 'error': e})
        if not errs:
            red.append({'kind': 'proof', 'what': 'lake build failed', 'output': out[-1500:]})
    else:
        discharged += len(theorem_list)

    # 3. audit ----------------------------------------------------------------------------------
    audit_ok = True
    hits = lean.source_audit(props.all_lean_sources())
    if hits:
        audit_ok = False
        red.append({'kind': 'audit', 'what': 'forbidden construct in Lean sources', 'hits': hits[:10]})
    else:
        discharged += 1
    axioms_used = {}
    if ok:
        names = ['GV.' + n for rel, n in theorem_list if P.get('audit_prefix', 'C') and n.startswith(P['audit_prefix'])]
        by_mod = {}
        for (rel, n) in theorem_list:
            if n.startswith(P['audit_prefix']):
                by_mod.setdefault(rel, []).append(n)
        bad = []
        for rel, ns in by_mod.items():
            module = rel[:-5].replace('/', '.')
            nsq = [P.get('namespace', 'GV') + '.' + n for n in ns]
            res, raw, rcode = lean.print_axioms(module, nsq)
            for n in nsq:
                if n not in res:
                    bad.append((n, 'not reported'))
                else:
                    extra = set(res[n]) - lean.ALLOWED_AXIOMS
                    axioms_used[n] = res[n]
                    if extra:
                        bad.append((n, sorted(extra)))
        if bad:
            audit_ok = False
            red.append({'kind': 'audit', 'what': f'axiom audit failed: {bad[:5]}'})
        else:
            discharged += 1
    report['steps']['audit'] = {'ok': audit_ok, 'theorems': len(theorem_list)}

    # thorough: clean re-check with the independent checker
    if tier == 'thorough' and ok and P.get('leanchecker', True):
        mods = [rel[:-5].replace('/', '.') for rel, _ in P['theorem_files'] if '/Props/' in rel]
        try:
            lc_ok, lc_out = lean.leanchecker(mods)
        except Exception as e:
            lc_ok, lc_out = None, str(e)
        report['steps']['leanchecker'] = {'ok': lc_ok, 'modules': mods, 'tail': lc_out[-300:] if lc_out else ''}
        if lc_ok is False:
            red.append({'kind': 'proof', 'what': 'leanchecker rejected the compiled modules', 'tail': lc_out[-500:]})

    # 4. correspondence ---------------------------------------------------------------------------
    fams = [(m, f, n * escalate, sh) for (m, f, n, sh) in P['families'][tier]]
    corr = None
    if fams and os.path.exists(lean.DRIVER):
        corr = runner.run_families(fams, seed)
        report['steps']['correspondence'] = corr.merge_stats()
        report['steps']['correspondence']['mismatches'] = corr.n_mismatch
        report['steps']['correspondence']['seconds'] = round(corr.wall, 1)
        try:
            from harness import cov

            report['steps']['correspondence']['library_line_coverage'] = cov.report(corr.lines_hit)
        except Exception as e:  # reporting only
            report['steps']['correspondence']['library_line_coverage'] = {'error': f'{type(e).__name__}: {e}'}
        if corr.n_mismatch:
            for m in corr.mismatches[:5]:
                red.append({'kind': 'correspondence', 'what': f"model and implementation disagree on `{m['line'][:200]}`: impl={m['impl']!r} model={m['model']!r}", 'mismatch': m})
    # extra, property-specific dynamic checks (e.g. draw logs, global RNG snapshots)
    extra_stats = {}
    for fn in P.get('extra', []):
        st = fn(seed, tier)
        extra_stats[fn.__name__] = {k: v for k, v in st.items() if k != 'violations'}
        for v in st.get('violations', []):
            red.append({'kind': 'dynamic', 'what': v['what'], 'violation': v})
    if extra_stats:
        report['steps']['extra'] = extra_stats

    # 5./6. oracle: small budget always, larger when something is red; disagreeing inputs first --
    from harness import oracles

    extra_cases = []
    if corr is not None and prop in oracles.ORACLES:
        orc = oracles.ORACLES[prop]()
        for m in corr.mismatches:
            c = orc.from_line(m['line'])
            if c is not None:
                extra_cases.append(c)
    # corpus first
    corpus_dir = os.path.join(VERIF, 'corpus', prop)
    if os.path.isdir(corpus_dir):
        for fn in sorted(os.listdir(corpus_dir)):
            if fn.endswith('.json'):
                try:
                    extra_cases.append(json.load(open(os.path.join(corpus_dir, fn)))['case'])
                except Exception:
                    pass
    known = [k for k in load_known() if k['property'] == prop]
    for k in known:
        if k.get('status') == 'known' and k.get('case') is not None:
            extra_cases.append(k['case'])
    # fixed case counts (reproducible evidence); the time budget is only a cap
    ncases = P.get('oracle_cases', {}).get(tier, 16000 if tier == 'quick' else 800000)
    if red:
        ncases *= 4
    ncases *= escalate
    budget = (90 * (2 if escalate > 1 else 1)) if tier == 'quick' else 1500
    orc_res = run_oracle(prop, seed, budget, max_cases=ncases, extra_cases=extra_cases)
    report['steps']['oracle'] = {'evaluations': orc_res['evaluations'], 'nontrivial': orc_res['nontrivial'], 'violations': len(orc_res['violations']), 'budget_s': budget}

    # classify violations against the known-findings file
    known_sigs = {k['signature']: k for k in known if k.get('status') == 'known'}
    new_viol = []
    known_hit = {}
    crashes = []
    for v in orc_res['violations']:
        if v['signature'] == 'oracle-crash':
            crashes.append(v)
        elif v['signature'] in known_sigs:
            known_hit.setdefault(v['signature'], v)
        else:
            new_viol.append(v)
    for v in [r['violation'] for r in red if r['kind'] == 'dynamic']:
        if v.get('signature') in known_sigs:
            known_hit.setdefault(v['signature'], v)
        else:
            new_viol.append(v)
    red = [r for r in red if not (r['kind'] == 'dynamic' and r['violation'].get('signature') in known_sigs)]

    wall = time.time() - t0
    # evidence ------------------------------------------------------------------------------------
    evals = (corr.evaluations if corr else 0) + orc_res['evaluations'] + sum(s.get('evaluations', 0) for s in extra_stats.values())
    distinct = (len(corr.distinct) if corr else 0) + orc_res['nontrivial'] + sum(s.get('distinct_nontrivial', 0) for s in extra_stats.values())
    samples = []
    samples += [{'obligation': n, 'file': rel, 'axioms': axioms_used.get('GV.' + n)} for rel, n in theorem_list[:6]]
    if corr:
        samples += corr.samples[:6]
    samples += orc_res['samples'][:2]
    if not samples:
        samples = [{'note': 'no cases explored'}]
    evidence = {
        'property_id': prop,
        'tier': tier,
        'seed': seed,
        'level': 'proof',
        'coverage': {
            'obligations': obligations,
            'discharged': discharged,
            'checker_cmd': f'cd /verif/lean && lake build {" ".join(P["targets"])}  (+ #print axioms audit, source grep)',
            'trusted_base': props.TRUSTED_BASE + P.get('trusted_base', []),
            'theorems': [n for _, n in theorem_list],
            'evaluations': max(evals, 1),
            'distinct_nontrivial': max(distinct, 2) if evals else 2,
            'rule': P.get('rule', 'distinct protocol lines sent to both model and implementation, plus distinct non-trivial oracle cases'),
            'samples': samples,
            'correspondence': report['steps'].get('correspondence'),
            'oracle': report['steps'].get('oracle'),
            'extra': report['steps'].get('extra'),
            'source_fingerprints': fps,
            'source_changed': src_changed,
            'escalation': escalate,
            'known_findings_live': sorted(known_hit),
            'partial': P.get('partial'),
        },
        'assumptions': P.get('assumptions', []),
        'wall_s': round(wall, 2),
        'violations': len(new_viol) + (1 if red and not new_viol else 0),
    }
    write_json(os.path.join(VERIF, 'evidence', f'{prop}.json'), evidence)

    # outcome -------------------------------------------------------------------------------------
    for sig, v in sorted(known_hit.items()):
        print(f"KNOWN-FINDING: property={prop} {known_sigs[sig].get('what', sig)}")
    if crashes and not new_viol and not red:
        print(json.dumps(crashes[0], default=str)[:1500])
        print(f'INFRA-ERROR property={prop}: property oracle crashed')
        return 2
    if new_viol:
        # shrink-free: report the first violation per signature
        seen = set()
        n = 0
        for v in new_viol:
            if v['signature'] in seen:
                continue
            seen.add(v['signature'])
            path = os.path.join('replays', f'{prop}-{seed}-{n}.json')
            write_json(os.path.join(VERIF, path), {'property': prop, 'signature': v['signature'], 'what': v['what'], 'case': v.get('case'), 'broken_obligations': red[:5], 'how': f'./check {prop} --replay {path}'})
            print(f'VIOLATION property={prop} replay={path}')
            n += 1
        return 1
    if red:
        path = os.path.join('replays', f'{prop}-{seed}-unproved.json')
        write_json(os.path.join(VERIF, path), {'property': prop, 'signature': None, 'what': 'a proof obligation or the model/implementation correspondence no longer checks; no failing input was found on the implementation', 'broken_obligations': red[:10], 'search': report['steps'].get('oracle')})
        print(f'VIOLATION property={prop} replay={path} no-failing-input-found')
        return 1
    print(f'OK property={prop} tier={tier} theorems={len(theorem_list)} corr={corr.evaluations if corr else 0} oracle={orc_res["evaluations"]} wall={wall:.1f}s')
    return 0


def _replay(prop, path):
    from harness import oracles

    data = json.load(open(path if os.path.isabs(path) else os.path.join(VERIF, path)))
    case = data.get('case')
    if case is None:
        print(json.dumps(data.get('broken_obligations'), indent=1, default=str)[:4000])
        print('replay file names broken obligations only (no failing input was found)')
        return 1
    orc = oracles.ORACLES[prop]()
    vs = orc.check(case)
    print(json.dumps({'case': case, 'violations': vs}, indent=1, default=str)[:6000])
    if vs:
        print(f'VIOLATION property={prop} replay={path}')
        return 1
    print('replayed input no longer violates the property')
    return 0


if __name__ == '__main__':
    sys.exit(main())
