"""Line coverage of the library under the correspondence runs (Python 3.12 `sys.monitoring`): which
lines of the modelled functions the inputs sent to both model and implementation actually reach.
Reported in the evidence (generator quality); never a verdict.  Each location reports once and is
then disabled, so the overhead is negligible."""
import os
import sys

_HIT = set()
_ON = False


def start():
    global _ON
    if _ON or not hasattr(sys, 'monitoring'):
        return
    from harness import gvenv

    root = os.path.join(gvenv.REPO, 'gym_gridverse') + os.sep
    mon = sys.monitoring
    tool = mon.COVERAGE_ID
    try:
        mon.use_tool_id(tool, 'gv-verif-cov')
    except ValueError:
        return  # another tool holds the id (a debugger, coverage.py): do without

    def on_line(code, line):
        fn = code.co_filename
        if fn.startswith(root):
            _HIT.add((fn[len(root) - len('gym_gridverse') - 1:], line))
        return mon.DISABLE

    mon.register_callback(tool, mon.events.LINE, on_line)
    mon.set_events(tool, mon.events.LINE)
    _ON = True


def hits():
    return set(_HIT)


def _code_lines(code, out):
    for _, _, ln in code.co_lines():
        if ln is not None:
            out.add(ln)
    for c in code.co_consts:
        if hasattr(c, 'co_lines'):
            _code_lines(c, out)


def function_lines(fn):
    """set of (relative file, line) of the executable lines of a function, or of all methods a class
    defines in the library source (generated dataclass / enum methods live in '<string>' and are skipped)"""
    import inspect
    from harness import gvenv

    out = set()
    objs = [fn]
    if inspect.isclass(fn):
        objs = []
        for v in vars(fn).values():
            v = getattr(v, 'fget', v)
            v = getattr(v, '__func__', v)
            v = getattr(v, '__wrapped__', v)
            if hasattr(v, '__code__'):
                objs.append(v)
    for f in objs:
        f = getattr(f, '__wrapped__', f)
        code = getattr(f, '__code__', None)
        if code is None or not code.co_filename.startswith(gvenv.REPO + os.sep):
            continue
        rel = os.path.relpath(code.co_filename, gvenv.REPO)
        lines = set()
        _code_lines(code, lines)
        lines.discard(code.co_firstlineno)  # the `def` line runs at import time, not at call time
        out |= {(rel, ln) for ln in lines}
    return out


def report(hit):
    """per modelled function: executable lines, lines reached, the first few never reached"""
    from harness import extract

    per = {}
    tot = got = 0
    for name, fn in sorted(extract.modelled_function_objects().items()):
        if fn is None:
            continue
        lines = function_lines(fn)
        if not lines:
            continue
        reached = lines & hit
        tot += len(lines)
        got += len(reached)
        missed = sorted(ln for _, ln in lines - reached)
        if missed:
            per[name] = {'lines': len(lines), 'reached': len(reached), 'never_reached': missed[:12]}
    return {'modelled_lines': tot, 'reached': got, 'functions_with_unreached_lines': per}
