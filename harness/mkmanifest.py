"""Writes /verif/MANIFEST.json from the property registry."""
import json
import os
import sys

VERIF = os.path.dirname(os.path.dirname(os.path.abspath(__file__)))
sys.path.insert(0, VERIF)
from harness import props  # noqa: E402

ALL = [f'C{i:02d}' for i in range(1, 21)]


def main():
    checks = []
    for pid in ALL:
        if pid not in props.PROPS:
            continue
        P = props.PROPS[pid]
        checks.append(
            {
                'property_id': pid,
                'quick_cmd': f'./check {pid} --tier quick',
                'thorough_cmd': f'./check {pid} --tier thorough',
                'evidence_file': f'evidence/{pid}.json',
                'replay_cmd_template': f'./check {pid} --replay {{path}}',
                'engine': 'lean4-model',
                'level_claimed': {
                    'category': 'proof',
                    'text': P.get('level_text', 'Lean 4 theorems about an executable model of the code, the model tied to /repo by generated tables (agreement lemmas) and differential execution.'),
                    'design_ref': f'DESIGN.md §6 {pid}',
                },
                'level_note': P.get('level_note', 'Trusted: Lean kernel; axioms propext/Classical.choice/Quot.sound; extractor; correspondence harness; the hand-written model is tied to the code by differential execution only.'),
                'technique': P.get('technique', 'Lean 4 machine-checked proof over a hand-written model + generated tables, with model/implementation correspondence'),
            }
        )
    na = []
    for pid in ALL:
        if pid not in props.PROPS:
            na.append({'property_id': pid, 'reason': props.NOT_CLAIMED.get(pid, 'Lean model and theorems for this property are not built yet in this round; not claimed until its check exists (the technique applies; see DESIGN.md §6).')})
    manifest = {
        'version': 1,
        'setup_cmd': './setup.sh',
        'hooks': {
            'guard': 'GYM_GRIDVERSE_VERIF',
            'enable': 'no hooks are needed: checks import /repo in-process with GYM_GRIDVERSE_VERIF=1 set (nothing in /repo reads it)',
            'baseline_off_cmd': 'cd /repo && /venv/bin/python -m pytest -ra -q -p no:cacheprovider --timeout=900 --continue-on-collection-errors',
            'source_commits': [],
            'add_only': True,
        },
        'engines': [
            {
                'name': 'lean4-model',
                'path': 'lean/',
                'serves_properties': [c['property_id'] for c in checks],
                'kind_free_text': 'Lean 4 project GridVerse: import-free executable model (Model/), tables regenerated from /repo (Generated/) with agreement lemmas (Agree/), helper lemmas (Lemmas/), property theorems (Props/), native line-protocol driver (Main.lean); Python harness in harness/ does extraction, correspondence and failing-input search.',
            }
        ],
        'checks': checks,
        'notes': 'See DESIGN.md. Exit 0 = all obligations discharged and correspondence green; exit 1 + VIOLATION line otherwise; exit 2 = infrastructure error (never a verdict).',
        'not_applicable': na,
    }
    with open(os.path.join(VERIF, 'MANIFEST.json'), 'w') as f:
        json.dump(manifest, f, indent=1)
    print(f'{len(checks)} checks, {len(na)} not claimed')


if __name__ == '__main__':
    main()
