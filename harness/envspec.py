"""From configuration data (the dict a YAML file loads to) to (a) the protocol description of the
environment for the Lean model and (b) the same environment assembled by hand from the named real
components.  Effective parameters = signature defaults overridden by the given ones (what the
factories' `partial`s amount to)."""
import inspect

from harness import gvenv  # noqa: F401
from harness.codec import ACTIONS, KIND_INDEX, enc_area, enc_rays
from harness.corr_reset import enc_list, splits
from gym_gridverse.action import Action
from gym_gridverse.envs import observation_functions as of
from gym_gridverse.envs import reset_functions as rsf
from gym_gridverse.envs import reward_functions as rf
from gym_gridverse.envs import terminating_functions as tf
from gym_gridverse.envs import transition_functions as trf
from gym_gridverse.geometry import Area
from gym_gridverse.grid_object import Color, grid_object_registry

SCALE = 10000
TRANS_INDEX = {n: i for i, n in enumerate(['move_agent', 'turn_agent', 'pickndrop', 'move_obstacles', 'actuate_door', 'actuate_box', 'teleport'])}


class Unsupported(Exception):
    pass


def sc(v):
    x = float(v) * SCALE
    if abs(x - round(x)) > 1e-6:
        raise Unsupported(f'reward parameter {v} not a multiple of 1/{SCALE}')
    return int(round(x))


def defaults(fn):
    return {k: p.default for k, p in inspect.signature(fn).parameters.items() if p.default is not inspect.Parameter.empty}


def kind_tok(name):
    cls = grid_object_registry.from_name(name) if isinstance(name, str) else name
    return str(KIND_INDEX[cls])


def dist_tok(v):
    if callable(v):
        v = 'euclidean' if 'euclid' in v.__name__ else 'manhattan'
    return v[0]


def reward_tok(d):
    name = d['name']
    if name not in rf.reward_function_registry:
        raise Unsupported(name)
    p = defaults(rf.reward_function_registry[name])
    p.update({k: v for k, v in d.items() if k != 'name'})
    if name == 'overlap':
        return f"ov {kind_tok(p['object_type'])} {sc(p['reward_on'])} {sc(p['reward_off'])}"
    if name == 'living_reward':
        return f"lv {sc(p['reward'])}"
    if name == 'reach_exit':
        return f"re {sc(p['reward_on'])} {sc(p['reward_off'])}"
    if name == 'bump_moving_obstacle':
        return f"bo {sc(p['reward'])}"
    if name == 'proportional_to_distance':
        return f"pd {dist_tok(p['distance_function'])} {kind_tok(p['object_type'])} {sc(p['reward_per_unit_distance'])}"
    if name == 'getting_closer':
        return f"gc {dist_tok(p['distance_function'])} {kind_tok(p['object_type'])} {sc(p['reward_closer'])} {sc(p['reward_further'])}"
    if name == 'getting_closer_shortest_path':
        return f"sp {kind_tok(p['object_type'])} {sc(p['reward_closer'])} {sc(p['reward_further'])}"
    if name == 'bump_into_wall':
        return f"bw {sc(p['reward'])}"
    if name == 'actuate_door':
        return f"ad {sc(p['reward_open'])} {sc(p['reward_close'])}"
    if name == 'pickndrop':
        return f"pk {kind_tok(p['object_type'])} {sc(p['reward_pick'])} {sc(p['reward_drop'])}"
    if name == 'reach_exit_memory':
        return f"rm {sc(p['reward_good'])} {sc(p['reward_bad'])}"
    raise Unsupported(name)


def term_tok(d):
    name = d['name']
    if name == 'reach_exit':
        return 're'
    if name == 'bump_moving_obstacle':
        return 'bo'
    if name == 'bump_into_wall':
        return 'bw'
    if name == 'overlap':
        return f"ov {kind_tok(d['object_type'])}"
    if name in ('reduce_any', 'reduce_all'):
        subs = d['terminating_functions']
        return f"{name[7:]} {len(subs)} " + ' '.join(term_tok(x) for x in subs)
    raise Unsupported(name)


def reset_tok(d):
    name = d['name']
    if name not in rsf.reset_function_registry:
        raise Unsupported(name)
    p = defaults(rsf.reset_function_registry[name])
    p.update({k: v for k, v in d.items() if k != 'name'})
    h, w = p['shape']
    if name == 'empty':
        return f"empty {h} {w} {int(bool(p['random_agent']))} {int(bool(p['random_exit']))}"
    if name == 'rooms':
        lh, lw = p['layout']
        return f"rooms {h} {w} {lh} {lw} {enc_list(splits(h, lh))} {enc_list(splits(w, lw))}"
    if name == 'dynamic_obstacles':
        return f"dynobs {h} {w} {p['num_obstacles']} {int(bool(p['random_agent']))}"
    if name == 'keydoor':
        return f'keydoor {h} {w}'
    if name == 'crossing':
        return f"crossing {h} {w} {p['num_rivers']} {kind_tok(p['object_type'])}"
    if name == 'teleport':
        return f'teleport {h} {w}'
    if name == 'memory':
        vals = sorted({Color[c].value for c in p['colors']})
        return f'memory {h} {w} {enc_list(vals)}'
    if name == 'memory_rooms':
        lh, lw = p['layout']
        vals = sorted({Color[c].value for c in p['colors']})
        return f"memrooms {h} {w} {lh} {lw} {enc_list(splits(h, lh))} {enc_list(splits(w, lw))} {enc_list(vals)} {p['num_beacons']} {p['num_exits']}"
    raise Unsupported(name)


def obs_tok(d):
    name = d['name']
    short = {'fully_transparent': 'ft', 'partially_occluded': 'po', 'raytracing': 'rt'}.get(name)
    if short is None:
        raise Unsupported(name)
    (y0, y1), (x0, x1) = d['area']
    area = Area((y0, y1), (x0, x1))
    rays = '0'
    if short == 'rt':
        from harness.corr_obs import rays_for

        r = rays_for(area)
        rays = enc_rays(r) if r is not None else '0'
    return f'{short} {enc_area(area)} {rays}', area


def env_tokens(data, debug=True):
    """protocol description of the environment a configuration describes"""
    ss, os_ = data['state_space'], data['observation_space']
    acts = data.get('action_space') or [a.name for a in Action]
    rs = reset_tok(data['reset_function'])
    h, w = data['reset_function']['shape'] if 'shape' in data['reset_function'] else (None, None)
    otok, area = obs_tok(data['observation_function'])
    parts = [
        f'{h} {w}',
        enc_list([kind_tok(n) for n in ss['objects']]),
        enc_list([Color[c].value for c in ss['colors']]),
        enc_list([Action[a].value for a in acts]),
        f'{area.height} {area.width}',
        enc_list([kind_tok(n) for n in os_['objects']]),
        enc_list([Color[c].value for c in os_['colors']]),
        rs,
        enc_list([TRANS_INDEX[t['name']] for t in data['transition_functions']]),
        f"{len(data['reward_functions'])} " + ' '.join(reward_tok(r) for r in data['reward_functions']),
        otok,
        term_tok(data['terminating_function']),
        '1' if debug else '0',
    ]
    return ' '.join(parts)


def hand_assemble(data):
    """the environment assembled by hand from the named real components with the given
    parameters (no YAML factory involved) -- C17's reference"""
    import copy

    from gym_gridverse.envs.gridworld import GridWorld
    from gym_gridverse.geometry import Position, Shape
    from gym_gridverse.spaces import ActionSpace, ObservationSpace, StateSpace

    data = copy.deepcopy(data)

    from gym_gridverse.utils.custom import import_if_custom

    def objs(names):
        return [grid_object_registry.from_name(import_if_custom(n)) for n in names]

    def conv(d):
        d = dict(d)
        d.pop('name')
        if 'shape' in d:
            d['shape'] = Shape(*d['shape'])
        if 'layout' in d:
            d['layout'] = tuple(d['layout'])
        if 'object_type' in d:
            d['object_type'] = grid_object_registry.from_name(d['object_type'])
        if 'colors' in d:
            d['colors'] = {Color[c] for c in d['colors']}
        if 'distance_function' in d:
            d['distance_function'] = {'manhattan': Position.manhattan_distance, 'euclidean': Position.euclidean_distance}[d['distance_function']]
        if 'area' in d:
            d['area'] = Area(*[tuple(x) for x in d['area']])
        if 'visibility_function' in d:
            from gym_gridverse.envs import visibility_functions as vf

            d['visibility_function'] = mk(vf.visibility_function_registry, d['visibility_function'])
        return d

    def only(fn, kw):
        sig = inspect.signature(fn).parameters
        return {k: v for k, v in kw.items() if k in sig}

    import functools

    def mk(registry, d):
        fn = registry[import_if_custom(d['name'])]
        return functools.partial(fn, **only(fn, conv(d)))

    def mkterm(d):
        if d['name'] in ('reduce_any', 'reduce_all'):
            subs = [mkterm(x) for x in d['terminating_functions']]
            return functools.partial(tf.terminating_function_registry[d['name']], terminating_functions=subs)
        return mk(tf.terminating_function_registry, d)

    reset = mk(rsf.reset_function_registry, data['reset_function'])
    trans = functools.partial(trf.chain, transition_functions=[mk(trf.transition_function_registry, t) for t in data['transition_functions']])
    rew = functools.partial(rf.reduce_sum, reward_functions=[mk(rf.reward_function_registry, r) for r in data['reward_functions']])
    obs = mk(of.observation_function_registry, data['observation_function'])
    term = mkterm(data['terminating_function'])
    if 'shape' in data['reset_function']:
        h, w = data['reset_function']['shape']
    else:
        probe = reset()
        h, w = probe.grid.shape.as_tuple
    (y0, y1), (x0, x1) = data['observation_function']['area']
    area = Area((y0, y1), (x0, x1))
    acts = [Action[a] for a in (data.get('action_space') or [a.name for a in Action])]
    return GridWorld(
        StateSpace(Shape(h, w), objs(data['state_space']['objects']), [Color[c] for c in data['state_space']['colors']]),
        ActionSpace(acts),
        ObservationSpace(Shape(area.height, area.width), objs(data['observation_space']['objects']), [Color[c] for c in data['observation_space']['colors']]),
        reset,
        trans,
        obs,
        rew,
        term,
    )
