"""Runs correspondence families: real code in a process pool, the compiled Lean model on the same
protocol lines, diff of canonical outputs."""
import importlib
import multiprocessing as mp
import os
import time
from collections import Counter

NPROC = int(os.environ.get('VERIF_NPROC', '16'))


def _run_shard(args):
    modname, famname, seed, shard, nshards, n = args
    from harness import cov

    cov.start()
    mod = importlib.import_module(modname)
    fam = getattr(mod, famname)
    out = []
    try:
        for line, exp, tag in fam(seed, shard, nshards, n):
            out.append((line, exp, tag))
    except Exception as e:  # the implementation raised where the family expected a value
        import traceback

        tb = traceback.extract_tb(e.__traceback__)
        where = '; '.join(f'{os.path.basename(f.filename)}:{f.lineno} {f.name}' for f in tb[-4:])
        msg = f'{type(e).__name__}: {e}'.replace('\n', ' ')[:300]
        out.append((f'crash {famname} shard={shard}', f'IMPLEMENTATION-RAISED {msg} @ {where}', f'crash-{famname}'))
    return out, cov.hits()


def _match(exp, got):
    if isinstance(exp, tuple):
        # ('Q', k, sq|None)
        if not got.startswith('Q'):
            return False
        k, sq = got[1:].split(':')
        return int(k) == exp[1] and (exp[2] is None or int(sq) == exp[2])
    return exp == got


class CorrResult:
    def __init__(self):
        self.evaluations = 0
        self.distinct = set()
        self.tags = Counter()
        self.mismatches = []  # dicts
        self.samples = []
        self.families = []
        self.wall = 0.0
        self.lines_hit = set()

    def merge_stats(self):
        return {
            'evaluations': self.evaluations,
            'distinct_lines': len(self.distinct),
            'tags': dict(sorted(self.tags.items())),
            'families': self.families,
        }


def run_families(fams, seed, pool=None, keep_samples=3, max_mismatch=20):
    """fams: list of (module, family, n, nshards).  Returns CorrResult."""
    from harness import lean

    t0 = time.time()
    res = CorrResult()
    jobs = []
    for modname, famname, n, nshards in fams:
        for sh in range(nshards):
            jobs.append((modname, famname, seed, sh, nshards, n))
    own = pool is None
    if own:
        pool = mp.get_context('fork').Pool(NPROC)
    try:
        shards = pool.map(_run_shard, jobs, chunksize=1)
    finally:
        if own:
            pool.close()
            pool.join()
    triples = []
    res.lines_hit = set()
    for job, (sh, hit) in zip(jobs, shards):
        triples.extend((job[1],) + t for t in sh)
        res.lines_hit |= hit
    lines = [t[1] for t in triples]
    outs = lean.driver(lines)
    seen_tag_sample = Counter()
    for (fam, line, exp, tag), got in zip(triples, outs):
        res.evaluations += 1
        res.distinct.add(hash(line))
        res.tags[tag] += 1
        if seen_tag_sample[fam] < keep_samples:
            seen_tag_sample[fam] += 1
            res.samples.append({'family': fam, 'line': line[:400], 'impl': str(exp)[:200], 'model': got[:200]})
        if not _match(exp, got):
            if len(res.mismatches) < max_mismatch:
                res.mismatches.append({'family': fam, 'tag': tag, 'line': line, 'impl': exp if isinstance(exp, str) else list(exp), 'model': got})
            else:
                res.mismatches.append(None)
    res.n_mismatch = len(res.mismatches)
    res.mismatches = [m for m in res.mismatches if m is not None]
    res.families = [f'{m}.{f}' for m, f, _, _ in fams]
    res.wall = time.time() - t0
    return res
