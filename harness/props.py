"""Registry: what each property's check builds, audits, corresponds and searches."""
import glob
import os

VERIF = os.path.dirname(os.path.dirname(os.path.abspath(__file__)))
LEAN = os.path.join(VERIF, 'lean')

TRUSTED_BASE = [
    'Lean 4.33 kernel (theorems re-checked by `lake build`; `leanchecker` in the thorough tier)',
    'axioms allowed: propext, Classical.choice, Quot.sound (audited by #print axioms on every property theorem); no sorry/admit/native_decide/bv_decide/axiom',
    'harness/extract.py: translator regenerating Generated/*.lean from the live objects of /repo on every run',
    'harness correspondence (real code vs compiled Lean model on identical protocol lines), its encoders, and the Lean compiler/runtime of the driver (testing only)',
    'hand-written Lean model of the algorithmic functions: tied by differential execution, exhaustive on the stated small scopes, sampled beyond',
]

CORE = 'harness.corr_core'


def all_lean_sources():
    files = []
    for sub in ('Model', 'Lemmas', 'Agree', 'Props', 'Generated'):
        files += glob.glob(os.path.join(LEAN, 'GridVerse', sub, '*.lean'))
    files.append(os.path.join(LEAN, 'Main.lean'))
    return sorted(os.path.relpath(f, LEAN) for f in files)


AG = lambda *names: [(f'GridVerse/Agree/{n}.lean', 'agree_') for n in names]  # noqa: E731
AGT = lambda *names: [f'GridVerse.Agree.{n}' for n in names]  # noqa: E731

PROPS = {}

PROPS['C18'] = {
    'targets': ['GridVerse.Props.C18'] + AGT('Orient', 'Actions', 'GridRot', 'Boundary', 'Behaviour'),
    'theorem_files': [('GridVerse/Props/C18.lean', 'C18_')] + AG('Orient', 'Actions', 'GridRot', 'Boundary', 'Behaviour'),
    'audit_prefix': 'C18_',
    'families': {
        'quick': [(CORE, 'fam_geometry', 4000, 16)],
        'thorough': [(CORE, 'fam_geometry', 400000, 16)],
    },
    'trusted_base': ['Orientation/Transform operators on Position/Area are tied by correspondence over coordinates in ±10^6; the tables themselves are generated'],
    'assumptions': ['Python ints are unbounded (modelled as Int)'],
}

DYN_QUICK = [(CORE, 'fam_trans_smallscope', 0, 16), (CORE, 'fam_trans_random', 6000, 16), (CORE, 'fam_trans_history', 1600, 16)]
DYN_THOROUGH = [(CORE, 'fam_trans_smallscope', 0, 16), (CORE, 'fam_trans_random', 400000, 16), (CORE, 'fam_trans_history', 80000, 16)]

PROPS['C08'] = {
    'targets': ['GridVerse.Props.C08'] + AGT('Behaviour'),
    'theorem_files': [('GridVerse/Props/C08.lean', 'C08_')] + AG('Actions', 'Orient', 'Objects', 'Behaviour'),
    'audit_prefix': 'C08_',
    'families': {'quick': DYN_QUICK, 'thorough': DYN_THOROUGH},
    'trusted_base': ['the seven transition functions are modelled by hand (Model/Transition.lean) and tied by exhaustive small-scope + random correspondence with recorded draws'],
    'assumptions': ['grids are rectangular (Grid.WF); reset well-formedness (C13) supplies the valid initial state'],
}

PROPS['C09'] = {
    'targets': ['GridVerse.Props.C09'],
    'theorem_files': [('GridVerse/Props/C09.lean', 'C09_')] + AG('Objects'),
    'audit_prefix': 'C09_',
    'families': {'quick': DYN_QUICK, 'thorough': DYN_THOROUGH},
    'trusted_base': ['transition functions modelled by hand, tied by correspondence (exhaustive small scope + random, recorded draws)'],
    'assumptions': ['grids are rectangular (Grid.WF)', 'the multiset of objects is expressed through counts of every door-status-insensitive predicate'],
}

PROPS['C10'] = {
    'targets': ['GridVerse.Props.C10'],
    'theorem_files': [('GridVerse/Props/C10.lean', 'C10_')] + AG('Objects', 'Actions'),
    'audit_prefix': 'C10_',
    'families': {'quick': DYN_QUICK, 'thorough': DYN_THOROUGH},
    'trusted_base': ['transition functions modelled by hand, tied by correspondence (exhaustive small scope + random, recorded draws)'],
    'assumptions': ['grids are rectangular (Grid.WF)'],
}

PROPS['C11'] = {
    'targets': ['GridVerse.Props.C11'],
    'theorem_files': [('GridVerse/Props/C11.lean', 'C11_')] + AG('Boundary', 'Objects'),
    'audit_prefix': 'C11_',
    'families': {
        'quick': DYN_QUICK + [(CORE, 'fam_stochastic_scripted', 1600, 16), (CORE, 'fam_geometry', 1600, 16)],
        'thorough': DYN_THOROUGH + [(CORE, 'fam_stochastic_scripted', 60000, 16), (CORE, 'fam_geometry', 16000, 16)],
    },
    'trusted_base': ['numpy Generator.choice(n) returns each of 0..n-1 for some generator state (support) and raises ValueError without drawing for n = 0', 'recording / scripted generator proxies (harness/recrng.py)'],
    'assumptions': ['random outcomes are modelled as answer streams; every stream is a legal resolution (answer k is used as k mod range)'],
}

REW_QUICK = [(CORE, 'fam_reward', 4000, 16), (CORE, 'fam_term', 4000, 16), (CORE, 'fam_spath', 3000, 16), (CORE, 'fam_trans_random', 2000, 16)]
REW_THOROUGH = [(CORE, 'fam_reward', 160000, 16), (CORE, 'fam_term', 160000, 16), (CORE, 'fam_spath', 100000, 16), (CORE, 'fam_trans_random', 50000, 16)]

PROPS['C12'] = {
    'targets': ['GridVerse.Props.C12'],
    'theorem_files': [('GridVerse/Props/C12.lean', 'C12_')] + AG('Actions', 'Orient', 'Objects'),
    'audit_prefix': 'C12_',
    'families': {'quick': REW_QUICK, 'thorough': REW_THOROUGH},
    'trusted_base': [
        'reward parameters are integers in the model; the harness uses integer-valued float parameters so that parts compare exactly, and compares composites with Python sum()',
        'math.sqrt is strictly monotone on the integers involved (Euclidean distance compared through its square)',
        'breadth-first shortest path of the model (proved equal to the graph distance, Lemmas/Bfs.lean) vs the cached dijkstra of the code: correspondence',
    ],
    'assumptions': ['next-state agent inside a rectangular grid; distance rewards need exactly one object of the type (mitt.one), reach_exit_memory needs a beacon'],
    'partial': 'Wiring of (s, a, s\') inside functional_step is proved in C01/C04.',
}

OBSM = 'harness.corr_obs'
OBS_QUICK = [(OBSM, 'fam_obs_random', 8000, 16), (OBSM, 'fam_obs_smallscope', 6000, 16), (CORE, 'fam_geometry', 1600, 16)]
OBS_THOROUGH = [(OBSM, 'fam_obs_random', 400000, 16), (OBSM, 'fam_obs_smallscope', 0, 16), (CORE, 'fam_geometry', 16000, 16)]

PROPS['C05'] = {
    'targets': ['GridVerse.Props.C05'],
    'theorem_files': [('GridVerse/Props/C05.lean', 'C05_')] + AG('Orient', 'GridRot'),
    'audit_prefix': 'C05_',
    'families': {'quick': OBS_QUICK, 'thorough': OBS_THOROUGH},
    'trusted_base': ['slice/rotate/mask pipeline modelled by hand (Model/Visibility.lean), tied by correspondence on all grids <= 3x3 x poses x areas in [-2,2]^2 (sampled in quick) and random larger cases'],
    'assumptions': ['view areas are well-formed (Area.__post_init__ raises otherwise)'],
}

PROPS['C07'] = {
    'targets': ['GridVerse.Props.C07'],
    'theorem_files': [('GridVerse/Props/C07.lean', 'C07_')] + AG('Orient', 'GridRot'),
    'audit_prefix': 'C07_',
    'families': {'quick': OBS_QUICK, 'thorough': OBS_THOROUGH},
    'trusted_base': ['as C05; the rotated world uses the library grid product, whose four rotation functions are classified by the extractor (agree_gridRot)'],
    'assumptions': ['view areas are well-formed'],
}

PROPS['C06'] = {
    'targets': ['GridVerse.Props.C06'],
    'theorem_files': [('GridVerse/Props/C06.lean', 'C06_')] + AG('Objects'),
    'audit_prefix': 'C06_',
    'families': {
        'quick': [(OBSM, 'fam_obs_random', 8000, 16), (OBSM, 'fam_vis_patterns', 0, 16), (OBSM, 'fam_obs_smallscope', 3000, 16), (OBSM, 'fam_obs_bigviews', 40, 16)],
        'thorough': [(OBSM, 'fam_obs_random', 400000, 16), (OBSM, 'fam_vis_patterns', 0, 16), (OBSM, 'fam_obs_smallscope', 0, 16), (OBSM, 'fam_obs_bigviews', 800, 16)],
    },
    'trusted_base': [
        'IEEE division facts flDivOK (0/d = 0, n/n = 1, 0 < n/d < 1 for 0 < n < d, nan_to_num(0/0) = 0): checked by the driver on the actual quotients the harness sends',
        'the ray fan is an input of the model (the code computes it with libm); theorems hold for every fan; C19 validates the fan',
    ],
    'assumptions': ['the uniform draws of numpy lie in [0, 1) and are multiples of 2^-53'],
}

ENVM = 'harness.corr_env'
ENV_QUICK = [(ENVM, 'fam_env_shipped', 168, 16), (ENVM, 'fam_env_random', 800, 16), (ENVM, 'fam_env_nodebug', 320, 16)]
ENV_THOROUGH = [(ENVM, 'fam_env_shipped', 21 * 200, 16), (ENVM, 'fam_env_random', 40000, 16), (ENVM, 'fam_env_nodebug', 8000, 16)]

PROPS['C04'] = {
    'targets': ['GridVerse.Props.C04'],
    'theorem_files': [('GridVerse/Props/C04.lean', 'C04_')],
    'audit_prefix': 'C04_',
    'families': {'quick': ENV_QUICK + [(ENVM, 'fam_gym_shipped', 84, 16)], 'thorough': ENV_THOROUGH + [(ENVM, 'fam_gym_shipped', 21 * 60, 16)]},
    'oracle_cases': {'quick': 1600, 'thorough': 60000},
    'trusted_base': ['environment shells modelled by hand (Model/Env.lean); histories of reset/step/read operations on every shipped configuration (factory-built and hand-assembled) and random compositions, with every generator call recorded'],
    'assumptions': ['on an exception the model machine keeps the pre-operation generator state (exact for exceptions raised before the first draw, the only ones an in-space environment raises)'],
}

PROPS['C20'] = {
    'targets': ['GridVerse.Props.C20', 'GridVerse.Props.C20History'],
    'theorem_files': [('GridVerse/Props/C20.lean', 'C20_'), ('GridVerse/Props/C20History.lean', 'C20_'), ('GridVerse/Props/C04.lean', 'C04_')] + AG('Actions'),
    'audit_prefix': 'C20_',
    'families': {
        'quick': [(ENVM, 'fam_gym_shipped', 168, 16), (ENVM, 'fam_env_shipped', 84, 16)],
        'thorough': [(ENVM, 'fam_gym_shipped', 21 * 200, 16), (ENVM, 'fam_env_shipped', 21 * 50, 16)],
    },
    'oracle_cases': {'quick': 320, 'thorough': 20000},
    'trusted_base': ['gym.Env / gym.Wrapper / gym.make machinery and gym Box/Dict spaces (third party); GymEnvironment.seed is broken by gym version drift and not used'],
    'assumptions': ['inside the advertised gym spaces = the model space predicate (C15) on the returned representation; gym Box.contains is modelled, checked at run time on every returned array'],
}

REPRM = 'harness.corr_repr'
REPR_QUICK = [(REPRM, 'fam_repr_objects', 500, 16), (REPRM, 'fam_repr_states', 6000, 16), (REPRM, 'fam_space_contains', 4000, 16), (ENVM, 'fam_gym_shipped', 84, 16)]
REPR_THOROUGH = [(REPRM, 'fam_repr_objects', 0, 16), (REPRM, 'fam_repr_states', 300000, 16), (REPRM, 'fam_space_contains', 200000, 16), (ENVM, 'fam_gym_shipped', 21 * 100, 16)]

PROPS['C15'] = {
    'targets': ['GridVerse.Props.C15', 'GridVerse.Props.C01Shipped'],
    'theorem_files': [('GridVerse/Props/C15.lean', 'C15_'), ('GridVerse/Props/C01Shipped.lean', 'C15_')] + AG('Objects'),
    'extract': ('tables', 'configs'),
    'audit_prefix': 'C15_',
    'families': {'quick': REPR_QUICK, 'thorough': REPR_THOROUGH},
    'oracle_cases': {'quick': 4800, 'thorough': 200000},
    'trusted_base': ['numpy array construction / dtypes and Space.contains are exercised, not modelled, beyond shape-and-bounds (the model predicate containsState/containsObs)', 'gym Box.contains (third party)'],
    'assumptions': ['member states have rectangular grids (Python derives the shape from the lists)', 'state grids have at least 2 rows and 2 columns (one row/column divides by zero)'],
}

PROPS['C16'] = {
    'targets': ['GridVerse.Props.C16', 'GridVerse.Props.C16State'],
    'theorem_files': [('GridVerse/Props/C16.lean', 'C16_'), ('GridVerse/Props/C16State.lean', 'C16_'), ('GridVerse/Props/C15.lean', 'C15_')] + AG('Objects'),
    'audit_prefix': 'C16_',
    'families': {'quick': [(CORE, 'fam_equality', 1600, 16)] + REPR_QUICK[:3], 'thorough': [(CORE, 'fam_equality', 100000, 16)] + REPR_THOROUGH[:3]},
    'oracle_cases': {'quick': 4800, 'thorough': 200000},
    'trusted_base': ['float division (2p-n+1)/(n-1) is injective in p at grid sizes (the model compares exact fractions)'],
    'assumptions': ['equality is Python equality of grid objects (type, status, colour)'],
    'partial': 'proved: per-object injectivity (3 encodings), positional grid array, agent marker, agent-array injectivity, channel disjointness, compact density and order-independence, and the assembled state-level statement C16_state_lossless (two member states have equal dictionaries iff they are equal). The observation-level analogue is checked by the oracle on pairs only.',
}

RESETM = 'harness.corr_reset'
PROPS['C13'] = {
    'targets': ['GridVerse.Props.C13', 'GridVerse.Props.C14Rooms', 'GridVerse.Props.C14Crossing', 'GridVerse.Props.C13MemoryRooms'],
    'theorem_files': [('GridVerse/Props/C13.lean', 'C13_'), ('GridVerse/Props/C14Rooms.lean', 'C13_'), ('GridVerse/Props/C14Crossing.lean', 'C13_'), ('GridVerse/Props/C13MemoryRooms.lean', 'C13_')] + AG('Objects'),
    'audit_prefix': 'C13_',
    'families': {
        'quick': [(RESETM, 'fam_reset_random', 16000, 16), (RESETM, 'fam_reset_grid', 0, 16), (RESETM, 'fam_splits', 0, 16)],
        'thorough': [(RESETM, 'fam_reset_random', 1200000, 16), (RESETM, 'fam_reset_grid', 0, 16), (RESETM, 'fam_splits', 0, 16)],
    },
    'oracle_cases': {'quick': 16000, 'thorough': 1600000},
    'trusted_base': [
        'numpy linspace(..., dtype=int): the split vectors of rooms / memory_rooms are inputs of the model (the harness passes numpy\'s values)',
        'numpy Generator.integers/choice/shuffle semantics as recorded by the proxy (request sequence and answers compared on every reset)',
    ],
    'assumptions': ['colour sets are passed sorted by value (the code sorts them since the F6 repair)'],
    'partial': 'Lean theorems (structural description for every stream, and rejection with ValueError) for all eight reset functions: empty, dynamic_obstacles, teleport, keydoor, memory, rooms (>= 4 rows), memory_rooms and crossing (wall rivers). For rooms / memory_rooms the numpy split vectors are inputs satisfying the code\'s own checks; for memory_rooms the number of floor cells of the room grid appears in the validity condition as the length of the model\'s own floor list (no closed form).',
}

PROPS['C01'] = {
    'targets': ['GridVerse.Props.C01', 'GridVerse.Props.C01Shipped'],
    'extract': ('tables', 'configs'),
    'theorem_files': [('GridVerse/Props/C01.lean', 'C01_'), ('GridVerse/Props/C01Shipped.lean', 'C01_')] + AG('Objects', 'Actions'),
    'audit_prefix': 'C01_',
    'families': {
        'quick': [(CORE, 'fam_trans_smallscope', 0, 16), (CORE, 'fam_trans_random', 3000, 16), (CORE, 'fam_reward', 1600, 16), (CORE, 'fam_term', 1600, 16), (ENVM, 'fam_env_shipped', 84, 16), (ENVM, 'fam_env_random', 640, 16), (ENVM, 'fam_env_nodebug', 480, 16), ('harness.corr_repr', 'fam_space_contains', 6000, 16)],
        'thorough': DYN_THOROUGH + REW_THOROUGH[:2] + ENV_THOROUGH + [('harness.corr_repr', 'fam_space_contains', 300000, 16)],
    },
    'oracle_cases': {'quick': 3200, 'thorough': 200000},
    'trusted_base': ['finiteness of rewards: reward values are finite sums of the configured parameters and parameter x integer-distance products (the parameters themselves are assumed finite floats)'],
    'assumptions': ['documented preconditions: Floor declared when pickndrop is used, box contents declared when actuate_box is, unique object for the distance rewards, a beacon for reach_exit_memory', 'observation space declares the state space types/colours and has the view shape with the agent inside the view (true for every shipped configuration)'],
}

PROPS['C19'] = {
    'targets': ['GridVerse.Props.C19'],
    'theorem_files': [('GridVerse/Props/C19.lean', 'C19_')],
    'audit_prefix': 'C19_',
    'families': {
        'quick': [('harness.corr_rays', 'fam_rays', 5, 16), (OBSM, 'fam_vis_patterns', 0, 16)],
        'thorough': [('harness.corr_rays', 'fam_rays', 9, 16), (OBSM, 'fam_vis_patterns', 0, 16)],
    },
    'oracle_cases': {'quick': 800, 'thorough': 40000},
    'trusted_base': [
        'IEEE-754 arithmetic, libm sin/cos/arctan2, numpy linspace/meshgrid/sort and Python round(): the sample sequence of each ray is an input of the model',
        'coverage of the area by the fan is decided by enumeration on the implementation (all areas up to 5x5 quick / 9x9 thorough, every origin), judged by the verified checker coversArea: a test, not a theorem',
    ],
    'assumptions': ['sampleOK (bounded, monotone sample steps) is checked on every ray produced, not proved from floating point'],
    'partial': 'proved: checker soundness/completeness (checkRay <-> RayOK), dedup/takewhile properties for every sample sequence, coverage => unobstructed view all visible, origin visibility, memoisation correctness for every query history. Not provable with the installed tooling: that the float ray marching yields adjacent steps ending on the border and that the arctan2 fan covers the area (libm); these are enumerated on the implementation.',
}

PROPS['C17'] = {
    'targets': ['GridVerse.Props.C17', 'GridVerse.Props.C17Registry', 'GridVerse.Agree.Registry'],
    'theorem_files': [('GridVerse/Props/C17.lean', 'C17_'), ('GridVerse/Props/C17Registry.lean', 'C17_'), ('GridVerse/Agree/Registry.lean', 'agree_')],
    'audit_prefix': 'C17_',
    'extract': ('tables', 'configs'),
    'families': {
        'quick': [('harness.corr_cfg', 'fam_cfg', 60, 16), ('harness.corr_cfg', 'fam_factory', 0, 16), (ENVM, 'fam_env_shipped', 84, 16)],
        'thorough': [('harness.corr_cfg', 'fam_cfg', 0, 16), ('harness.corr_cfg', 'fam_factory', 0, 16), (ENVM, 'fam_env_shipped', 21 * 100, 16), (ENVM, 'fam_env_random', 8000, 16)],
    },
    'oracle_cases': {'quick': 960, 'thorough': 60000},
    'trusted_base': [
        'the `schema` library (its combinators as used by schemas.py are re-implemented in Model/Config.lean) and inspect.signature',
        'PyYAML is not installed in this sandbox: files are loaded with the harness YAML-subset loader (harness/miniyaml.py), which is therefore part of the trusted base for this property',
        'custom components (module:name, examples/coin_env.yaml) are opaque to the model; coin_env is exercised by the oracle only',
        'FunctionRegistry.register is modelled by hand (Model/Registry.lean: signature check, name clash, append); harness/regprobe.py (subprocess) makes refused and accepted registrations on the six real registries and runs the same sequences through the model with `lake env lean` (exception kind per attempt, final name list); which exception a malformed signature gets is not modelled',
    ],
    'assumptions': ['behavioural equality with the hand-assembled environment is decided by running the real factory-built environment, the hand-assembled one and the model on the same histories'],
}

def _custom_classes(seed, tier):
    from harness import customprobe

    return customprobe.check(seed, tier)


_custom_classes.__name__ = 'user_defined_classes_next_to_built_ins'


def _xproc(seed, tier):
    from harness import xproc

    return xproc.check(seed, tier)


_xproc.__name__ = 'cross_process_hashseed_and_debug'

PROPS['C02'] = {
    'targets': ['GridVerse.Props.C02'],
    'theorem_files': [('GridVerse/Props/C02.lean', 'C02_')],
    'audit_prefix': 'C02_',
    'families': {
        'quick': [(ENVM, 'fam_world', 640, 16), (ENVM, 'fam_env_shipped', 84, 16), (ENVM, 'fam_env_random', 320, 16), (RESETM, 'fam_reset_random', 8000, 16), (CORE, 'fam_trans_random', 3000, 16)],
        'thorough': [(ENVM, 'fam_world', 40000, 16), (ENVM, 'fam_env_shipped', 21 * 100, 16), (ENVM, 'fam_env_random', 16000, 16), (RESETM, 'fam_reset_random', 400000, 16), (CORE, 'fam_trans_random', 100000, 16)],
    },
    'extra': [_xproc],
    'oracle_cases': {'quick': 960, 'thorough': 40000},
    'trusted_base': [
        'numpy Generator / default_rng: determinism per seed and independence of distinct generator objects',
        'CPython hash randomisation as a mechanism is represented (arbitrary set iteration order), not exhibited, by the model; it is exercised by re-running trajectories in interpreter processes with different PYTHONHASHSEED values',
        'recording generator proxies (harness/recrng.py): every Generator call of every stochastic component is logged and compared with the model request sequence; numpy legacy global state and random.getstate() are snapshotted',
    ],
    'assumptions': ['the library-level generator exists before the run (get_gv_rng() creates it lazily; creation is not counted as a perturbation)'],
}

HEAPM = 'harness.corr_heap'
PROPS['C03'] = {
    'targets': ['GridVerse.Props.C03', 'GridVerse.Props.C03Refine'],
    'theorem_files': [('GridVerse/Props/C03.lean', 'C03_'), ('GridVerse/Props/C03Refine.lean', 'C03_')],
    'audit_prefix': 'C03_',
    'families': {
        'quick': [(CORE, 'fam_equality', 1600, 16), (HEAPM, 'fam_heap_smallscope', 0, 16), (HEAPM, 'fam_heap_inplace', 6000, 16), (HEAPM, 'fam_heap_step', 3000, 16), (HEAPM, 'fam_heap_obs', 3000, 16), (HEAPM, 'fam_heap_copy', 1000, 16), (ENVM, 'fam_env_shipped', 84, 16), (CORE, 'fam_spath', 2000, 16), ('harness.corr_rays', 'fam_rays', 4, 16)],
        'thorough': [(CORE, 'fam_equality', 100000, 16), (HEAPM, 'fam_heap_smallscope', 0, 16), (HEAPM, 'fam_heap_inplace', 300000, 16), (HEAPM, 'fam_heap_step', 150000, 16), (HEAPM, 'fam_heap_obs', 150000, 16), (HEAPM, 'fam_heap_copy', 50000, 16), (ENVM, 'fam_env_shipped', 21 * 100, 16), (CORE, 'fam_spath', 100000, 16), ('harness.corr_rays', 'fam_rays', 7, 16)],
    },
    'oracle_cases': {'quick': 960, 'thorough': 40000},
    'trusted_base': [
        'reference-level model (Model/Heap.lean): Python object identity and assignment for the outer list, row lists, GridObject instances, Agent and Transform, transcribed by hand; tied by the identity-level correspondence (which pre-existing nodes change, and the provenance of every container, cell object, box-content chain and held object of the result) on the exhaustive small scope and random states',
        'pickle round trip is modelled as "read the value, allocate everything anew" (objects shared between two cells would stay shared under pickle; no state built by the library shares objects)',
        'reward and termination functions have no heap effect in the model; that the real ones assign nothing is checked by node-level snapshots around every call (oracle budget), not proved',
        'functools.lru_cache is modelled as a bounded association list (hit returns the stored value); callers mutating a returned cached object are outside the model and visible only to the history correspondence',
    ],
    'assumptions': ['Shaped: the grid of the input state is rectangular', 'Closed: unallocated memory holds no object contents (true of every heap built by allocation from the empty heap: C03_premises_of_load)'],
    'level_text': 'Lean 4 theorems on a reference-level (heap) model of states: frame/ownership invariant preserved by all seven in-place transition functions, copy allocates only and yields a separated representation, observation assigns only into fresh containers, and the reference-level functional step refines the pure one (C03_step_refines: reading the result back gives the pure next state of the input value, same draws); model tied to /repo by identity-level differential execution.',
}

WINM = 'harness.corr_win'
PROPS['C14'] = {
    'targets': ['GridVerse.Props.C14', 'GridVerse.Props.C14Teleport', 'GridVerse.Props.C14Rooms', 'GridVerse.Props.C14Crossing', 'GridVerse.Props.C14Obstacles', 'GridVerse.Props.C14MemoryRooms', 'GridVerse.Props.C14Shipped'],
    'extract': ('tables', 'configs'),
    'theorem_files': [('GridVerse/Props/C14.lean', 'C14_'), ('GridVerse/Props/C14Teleport.lean', 'C14_'), ('GridVerse/Props/C14Rooms.lean', 'C14_'), ('GridVerse/Props/C14Crossing.lean', 'C14_'), ('GridVerse/Props/C14Obstacles.lean', 'C14_'), ('GridVerse/Props/C14MemoryRooms.lean', 'C14_'), ('GridVerse/Props/C14Shipped.lean', 'C14_')],
    'audit_prefix': 'C14_',
    'families': {
        'quick': [(WINM, 'fam_win_theorem_plans', 1920, 16), (WINM, 'fam_win_solver', 960, 16), (WINM, 'fam_win_real_plans', 640, 16), (RESETM, 'fam_splits', 0, 16), (RESETM, 'fam_reset_random', 4000, 16), (CORE, 'fam_trans_random', 3000, 16), (CORE, 'fam_term', 2000, 16)],
        'thorough': [(WINM, 'fam_win_theorem_plans', 96000, 16), (WINM, 'fam_win_solver', 48000, 16), (WINM, 'fam_win_real_plans', 16000, 16), (RESETM, 'fam_splits', 0, 16), (RESETM, 'fam_reset_random', 200000, 16), (CORE, 'fam_trans_random', 100000, 16), (CORE, 'fam_term', 50000, 16)],
    },
    'oracle_cases': {'quick': 480, 'thorough': 16000},
    'trusted_base': [
        'reset and transition functions modelled by hand (Model/Reset.lean, Model/Transition.lean), tied by correspondence with recorded draws; the structural theorems about the layouts are C13',
        'the plan witnesses are executable (Model/Win.lean) and are run on the real reset / transition / terminating functions for every sampled reset',
        'breadth-first search on the real dynamics (harness/corr_win.py, oracle): used to cross-check solvability and to classify unwinnable instances, never to establish the property',
    ],
    'assumptions': [
        'winnable = some action sequence and some resolution of the draws reaches the rewarded goal with no earlier terminating step (exists-draws reading for the stochastic obstacle dynamics)',
        'each layout is paired with the dynamics and termination of the shipped configurations that use it',
    ],
    'partial': 'Proved for all valid parameters and all draws: empty, memory, keydoor, teleport (closed-form executable plans), rooms (>= 4 rows, split vectors as inputs), crossing (wall rivers) (connectivity through the passages / the opened path). dynamic_obstacles with the shipped parameter sets (5x5 with 1 obstacle, 7x7 with 2, fixed agent, shipped chain and bump termination): proved for every stream of draws by kernel-checked certificates (one winning (actions, draws) witness per layout the reset can produce: 7 resp. 506 index vectors, decide +kernel on the proved-sound checkPlan; the witnesses are static data found once by a model-side search, nothing about them is trusted). memory_rooms and crowded dynamic_obstacles are false today (known findings F9, F11); memory_rooms is proved under the side condition that names the finding (C14_memory_rooms_partial: the matching exit is connected to the agent through free non-exit cells), with a decide counter-example showing that the condition cannot be dropped; for them and for other dynamic_obstacles parameters winnability is decided per sampled instance by plans accepted by the proved-sound certificate check and executed on the real code.',
    'level_text': 'Lean 4 theorems: for every valid parameter value and draw stream the goal is reachable for empty / memory / keydoor / teleport (closed-form winning plans) and rooms / crossing (connectivity), soundness of plan certificates for the remaining layouts; plans executed on the real dynamics.',
    'level_note': 'Partial: for memory_rooms and dynamic_obstacles the for-all-parameters statement is not proved (it is false for memory_rooms and for crowded obstacle rooms); those are decided per sampled instance via proved-sound certificates. Trusted: Lean kernel; standard axioms; hand-written model tied by differential execution.',
}

NOT_CLAIMED = {}

# user-defined GridObject classes next to the built-in ones (subprocess probe, see harness/customprobe.py)
PROPS['C16']['extra'] = [_custom_classes]


def _refused_registrations(seed, tier):
    from harness import regprobe

    return regprobe.check(seed, tier)


_refused_registrations.__name__ = 'refused_registrations_change_nothing'
PROPS['C17']['extra'] = [_custom_classes, _refused_registrations]
for _pid in ('C03', 'C06', 'C15', 'C19', 'C20'):
    PROPS[_pid]['extra'] = list(PROPS[_pid].get('extra', [])) + [_custom_classes]
