"""Registry: what each property's check builds, audits, corresponds and searches."""
import glob
import os

VERIF = os.path.dirname(os.path.dirname(os.path.abspath(__file__)))
LEAN = os.path.join(VERIF, 'lean')

TRUSTED_BASE = [
    'Lean 4.33 kernel (theorems re-checked by `lake build`; `leanchecker` in the thorough tier)',
    'axioms allowed: propext, Classical.choice, Quot.sound (audited by #print axioms on every property theorem); no sorry/admit/native_decide/bv_decide/axiom',
    'harness/extract.py: translator regenerating Generated/*.lean from the live objects of /repo on every run',
    'harness correspondence (real code vs compiled Lean model on identical protocol lines), its encoders, and the Lean compiler/runtime of the driver (testing only)',
    'hand-written Lean model of the algorithmic functions: tied by differential execution, exhaustive on the stated small scopes, sampled beyond',
]

CORE = 'harness.corr_core'


def all_lean_sources():
    files = []
    for sub in ('Model', 'Lemmas', 'Agree', 'Props', 'Generated'):
        files += glob.glob(os.path.join(LEAN, 'GridVerse', sub, '*.lean'))
    files.append(os.path.join(LEAN, 'Main.lean'))
    return sorted(os.path.relpath(f, LEAN) for f in files)


AG = lambda *names: [(f'GridVerse/Agree/{n}.lean', 'agree_') for n in names]  # noqa: E731
AGT = lambda *names: [f'GridVerse.Agree.{n}' for n in names]  # noqa: E731

PROPS = {}

PROPS['C18'] = {
    'targets': ['GridVerse.Props.C18'] + AGT('Orient', 'Actions', 'GridRot', 'Boundary'),
    'theorem_files': [('GridVerse/Props/C18.lean', 'C18_')] + AG('Orient', 'Actions', 'GridRot', 'Boundary'),
    'audit_prefix': 'C18_',
    'families': {
        'quick': [(CORE, 'fam_geometry', 4000, 16)],
        'thorough': [(CORE, 'fam_geometry', 400000, 16)],
    },
    'trusted_base': ['Orientation/Transform operators on Position/Area are tied by correspondence over coordinates in ±10^6; the tables themselves are generated'],
    'assumptions': ['Python ints are unbounded (modelled as Int)'],
}

DYN_QUICK = [(CORE, 'fam_trans_smallscope', 0, 16), (CORE, 'fam_trans_random', 6000, 16)]
DYN_THOROUGH = [(CORE, 'fam_trans_smallscope', 0, 16), (CORE, 'fam_trans_random', 400000, 16)]

PROPS['C08'] = {
    'targets': ['GridVerse.Props.C08'],
    'theorem_files': [('GridVerse/Props/C08.lean', 'C08_')] + AG('Actions', 'Orient', 'Objects'),
    'audit_prefix': 'C08_',
    'families': {'quick': DYN_QUICK, 'thorough': DYN_THOROUGH},
    'trusted_base': ['the seven transition functions are modelled by hand (Model/Transition.lean) and tied by exhaustive small-scope + random correspondence with recorded draws'],
    'assumptions': ['grids are rectangular (Grid.WF); reset well-formedness (C13) supplies the valid initial state'],
}

PROPS['C09'] = {
    'targets': ['GridVerse.Props.C09'],
    'theorem_files': [('GridVerse/Props/C09.lean', 'C09_')] + AG('Objects'),
    'audit_prefix': 'C09_',
    'families': {'quick': DYN_QUICK, 'thorough': DYN_THOROUGH},
    'trusted_base': ['transition functions modelled by hand, tied by correspondence (exhaustive small scope + random, recorded draws)'],
    'assumptions': ['grids are rectangular (Grid.WF)', 'the multiset of objects is expressed through counts of every door-status-insensitive predicate'],
}

PROPS['C10'] = {
    'targets': ['GridVerse.Props.C10'],
    'theorem_files': [('GridVerse/Props/C10.lean', 'C10_')] + AG('Objects', 'Actions'),
    'audit_prefix': 'C10_',
    'families': {'quick': DYN_QUICK, 'thorough': DYN_THOROUGH},
    'trusted_base': ['transition functions modelled by hand, tied by correspondence (exhaustive small scope + random, recorded draws)'],
    'assumptions': ['grids are rectangular (Grid.WF)'],
}

NOT_CLAIMED = {}
