"""Correspondence families for geometry, dynamics, rewards and termination: each yields
(protocol line, output expected from the REAL code, tag) triples."""
import random

from harness import gvenv  # noqa: F401
from harness import gen
from harness.codec import (
    ACTIONS,
    KIND_INDEX,
    KINDS,
    ORIENT_TOK,
    enc_action,
    enc_agent,
    enc_area,
    enc_exc,
    enc_grid,
    enc_obj,
    enc_pos,
    enc_state,
)
from harness.recrng import RecRng
from gym_gridverse.envs import reward_functions as rf
from gym_gridverse.envs import terminating_functions as tf
from gym_gridverse.envs import transition_functions as trf
from gym_gridverse.envs.utils import get_next_position
from gym_gridverse.geometry import (
    Area,
    Orientation,
    Position,
    Transform,
    get_manhattan_boundary,
)
from gym_gridverse.utils.fast_copy import fast_copy

O = Orientation
ORIENTS = gen.ORIENTS
TRANS_NAMES = ['move_agent', 'turn_agent', 'pickndrop', 'move_obstacles', 'actuate_door', 'actuate_box', 'teleport']


def _trans_fns():
    return [trf.transition_function_registry[n] for n in TRANS_NAMES]


# ---------------------------------------------------------------------------------------------
# geometry
# ---------------------------------------------------------------------------------------------


def _ri(rng, big):
    m = 10**6 if big else 6
    return rng.randint(-m, m)


def _rarea(rng, big):
    a, b = sorted((_ri(rng, big), _ri(rng, big)))
    c, d = sorted((_ri(rng, big), _ri(rng, big)))
    return Area((a, b), (c, d))


def fam_geometry(seed, shard, nshards, n):
    rng = random.Random(f'geom-{seed}-{shard}')
    if shard == 0:
        for a in ORIENTS:
            yield f'oneg {ORIENT_TOK[a]}', ORIENT_TOK[-a], 'oneg'
            yield f'pfrom {ORIENT_TOK[a]}', enc_pos(Position.from_orientation(a)), 'pfrom'
            for b in ORIENTS:
                yield f'omul {ORIENT_TOK[a]} {ORIENT_TOK[b]}', ORIENT_TOK[a * b], 'omul'
    for k in range(n // nshards):
        big = k % 2 == 0
        o, r = rng.choice(ORIENTS), rng.choice(ORIENTS)
        p = Position(_ri(rng, big), _ri(rng, big))
        q = Position(_ri(rng, big), _ri(rng, big))
        ar = _rarea(rng, big)
        t, u = Transform(p, o), Transform(q, r)
        if k % 3 == 0:
            # poses are mutable (an Agent moves by assigning to its Transform): a pose that has had another
            # value, and has been used with it, must behave like a fresh one
            t = Transform(q, r)
            _used = (-t, t * p, t * ar, hash(t), t * u)
            t.position, t.orientation = p, o
        yield f'oact {ORIENT_TOK[o]} {enc_pos(p)}', enc_pos(o * p), 'oact'
        yield f'oarea {ORIENT_TOK[o]} {enc_area(ar)}', enc_area(o * ar), 'oarea'
        yield f'padd {enc_pos(p)} {enc_pos(q)}', enc_pos(p + q), 'padd'
        yield f'psub {enc_pos(p)} {enc_pos(q)}', enc_pos(p - q), 'psub'
        yield f'pneg {enc_pos(p)}', enc_pos(-p), 'pneg'
        yield f'parea {enc_pos(p)} {enc_area(ar)}', enc_area(p + ar), 'parea'
        yield f'manh {enc_pos(p)} {enc_pos(q)}', str(int(Position.manhattan_distance(p, q))), 'manh'
        d = p - q
        yield f'sqeu {enc_pos(p)} {enc_pos(q)}', str(d.y**2 + d.x**2), 'sqeu'
        tu = t * u
        yield (f'tmul {enc_pos(p)} {ORIENT_TOK[o]} {enc_pos(q)} {ORIENT_TOK[r]}', f'{enc_pos(tu.position)} {ORIENT_TOK[tu.orientation]}', 'tmul')
        nt = -t
        yield f'tneg {enc_pos(p)} {ORIENT_TOK[o]}', f'{enc_pos(nt.position)} {ORIENT_TOK[nt.orientation]}', 'tneg'
        yield f'tact {enc_pos(p)} {ORIENT_TOK[o]} {enc_pos(q)}', enc_pos(t * q), 'tact'
        yield f'tarea {enc_pos(p)} {ORIENT_TOK[o]} {enc_area(ar)}', enc_area(t * ar), 'tarea'
        yield f'torient {enc_pos(p)} {ORIENT_TOK[o]} {ORIENT_TOK[r]}', ORIENT_TOK[t * r], 'torient'
        yield f'acontains {enc_area(ar)} {enc_pos(q)}', 'T' if ar.contains(q) else 'F', 'acontains'
        a = rng.choice(ACTIONS)
        yield (f'nextpos {enc_pos(p)} {ORIENT_TOK[o]} {enc_action(a)}', enc_pos(get_next_position(p, o, a)), 'nextpos')
        dist = rng.randint(1, 4)
        yield (f'boundary {enc_pos(p)} {dist}', ' '.join(enc_pos(b) for b in get_manhattan_boundary(p, dist)), 'boundary')
        # small areas: position iterators
        sa = _rarea(rng, False)
        sel = rng.choice(['all', 'border', 'inside'])
        yield (f'apositions {sel} {enc_area(sa)}', ' '.join(enc_pos(b) for b in sa.positions(sel)), 'apositions-' + sel)
        # grid rotation / slicing / python indexing on random labelled grids
        s = gen.random_state(rng, max_h=4, max_w=4, p_floor=0.2, p_wall_border=0.0)
        genc = enc_grid(s.grid)
        r1 = enc_grid(s.grid * o)
        r2 = enc_grid(s.grid * o)  # a second product of the same grid object: the source must be intact
        yield f'gridrot {ORIENT_TOK[o]} {genc}', r1 if (r1 == r2 and enc_grid(s.grid) == genc) else 'SOURCE-GRID-MUTATED ' + r2, 'gridrot'
        sa2 = Area(tuple(sorted((rng.randint(-3, 5), rng.randint(-3, 5)))), tuple(sorted((rng.randint(-3, 5), rng.randint(-3, 5)))))
        yield f'subgrid {enc_grid(s.grid)} {enc_area(sa2)}', enc_grid(s.grid.subgrid(sa2)), 'subgrid'
        gp = Position(rng.randint(-5, 5), rng.randint(-5, 5))
        try:
            got = enc_obj(s.grid[gp])
        except Exception as e:  # IndexError
            got = enc_exc(e)
        yield f'gridget {enc_grid(s.grid)} {enc_pos(gp)}', got, 'gridget'
        yield f'front {enc_agent(s.agent)}', enc_pos(s.agent.front()), 'front'



def fam_equality(seed, shard, nshards, n):
    """Python `==` / `hash` of grid objects, grids and states (what C03/C16 mean by "equal" and "hashes
    alike") against the model's `pyEq` / `hashKey`: pairs that are equal, that differ in one place, and
    that differ only in what a Box contains (which equality ignores)"""
    from harness.codec import dec_obj, enc_state
    from gym_gridverse.utils.fast_copy import fast_copy

    rng = random.Random(f'eq-{seed}-{shard}')
    alphabet = list(gen.ALPHABET_CORE) + ['XF', 'XK1', 'XK2', 'XXF', 'XD01', 'D01', 'D11', 'D21', 'D02', 'K1', 'K2', 'E0', 'E3', 'T1', 'T2', 'B1', 'B4', 'O', 'W', 'F', 'N', 'H']
    for k in range(n // nshards):
        ta, tb = rng.choice(alphabet), rng.choice(alphabet)
        if rng.random() < 0.3:
            tb = ta
        a, b = dec_obj(ta), dec_obj(tb)
        key = (a.type_index(), a.state_index, a.color.value)
        exp = f"{'T' if a == b else 'F'} {key[0]} {key[1]} {key[2]}"
        if hash(a) != hash((a.type_index(), a.state_index, a.color)) or ((a == b) and hash(a) != hash(b)):
            exp += ' HASH-MISMATCH'
        yield f'objeq {enc_obj(a)} {enc_obj(b)}', exp, 'objeq-' + ('eq' if a == b else 'ne')
        s1 = gen.random_state(rng, max_h=4, max_w=4, p_floor=0.4, p_wall_border=0.0)
        s2 = fast_copy(s1)
        r = rng.random()
        h, w = s1.grid.shape.height, s1.grid.shape.width
        if r < 0.35:
            s2.grid[rng.randrange(h), rng.randrange(w)] = dec_obj(rng.choice(alphabet))
        elif r < 0.5:
            s2.agent.position = Position(rng.randrange(h), rng.randrange(w))
        elif r < 0.6:
            s2.agent.orientation = rng.choice(ORIENTS)
        elif r < 0.7:
            s2.agent.grid_object = dec_obj(rng.choice(alphabet))
        elif r < 0.8:
            s2 = gen.random_state(rng, max_h=4, max_w=4, p_floor=0.4, p_wall_border=0.0)
        ge = s1.grid == s2.grid
        se = s1 == s2
        gexp = 'T' if ge else 'F'
        if ge and hash(s1.grid) != hash(s2.grid):
            gexp += ' HASH-MISMATCH'
        sexp = 'T' if se else 'F'
        if se and (hash(s1) != hash(s2) or hash(s1.agent) != hash(s2.agent)):
            sexp += ' HASH-MISMATCH'
        yield f'grideq {enc_grid(s1.grid)} {enc_grid(s2.grid)}', gexp, 'grideq-' + ('eq' if ge else 'ne')
        yield f'stateeq {enc_state(s1)} {enc_state(s2)}', sexp, 'stateeq-' + ('eq' if se else 'ne')

# ---------------------------------------------------------------------------------------------
# transitions
# ---------------------------------------------------------------------------------------------


def real_trans(atoms, state, action, seed, via_chain=False):
    """returns (answers, expected_output) from running the real transition functions in place on a copy"""
    rng = RecRng(seed)
    fns = _trans_fns()
    try:
        if via_chain:
            chain = trf.factory('chain', transition_functions=[trf.factory(TRANS_NAMES[i]) for i in atoms])
            s = trf.transition_with_copy(chain, state, action, rng=rng)
        else:
            s = fast_copy(state)
            for i in atoms:
                fns[i](s, action, rng=rng)
        out = enc_state(s) + ' | ' + rng.log_str()
    except Exception as e:
        out = enc_exc(e)
    return rng.answers, out


def trans_line(atoms, state, action, answers):
    return (
        f'trans {len(atoms)} {" ".join(map(str, atoms))} {enc_state(state)} {enc_action(action)} '
        f'{len(answers)} {" ".join(map(str, answers))}'
    ).rstrip()


def fam_trans_smallscope(seed, shard, nshards, n):
    """every primitive transition on the exhaustive small scope (sharded by index)"""
    k = 0
    for s, a in gen.smallscope_steps():
        k += 1
        if k % nshards != shard:
            continue
        for atom in (0, 1, 2, 4, 5, 6):
            ans, out = real_trans([atom], s, a, seed=k)
            yield trans_line([atom], s, a, ans), out, f'trans-small-{TRANS_NAMES[atom]}'


def _sprinkle(rng, s, tok, count):
    from harness.codec import dec_obj

    h, w = s.grid.shape.height, s.grid.shape.width
    for _ in range(count):
        s.grid[rng.randrange(h), rng.randrange(w)] = dec_obj(tok)


def fam_trans_random(seed, shard, nshards, n):
    rng = random.Random(f'trans-{seed}-{shard}')
    for k in range(n // nshards):
        mode = k % 4
        s = gen.random_state(rng, max_h=6, max_w=6, p_floor=0.6)
        if mode == 1:
            _sprinkle(rng, s, 'O', rng.randint(1, 4))
        if mode == 2:
            c = rng.randint(0, 4)
            _sprinkle(rng, s, f'T{c}', rng.randint(1, 3))
            if rng.random() < 0.7:
                from harness.codec import dec_obj

                s.grid[s.agent.position] = dec_obj(f'T{c}')
        if mode == 3 and rng.random() < 0.3:
            # malformed: agent outside the grid
            s.agent.position = Position(rng.randint(-2, 7), rng.randint(-2, 7))
        a = rng.choice(ACTIONS)
        natoms = rng.choice([1, 1, 2, 3, 5, 7])
        atoms = [rng.randrange(7) for _ in range(natoms)]
        if k % 5 == 4:
            gen.alias_equal(s)  # one instance per distinct object: identity must not matter
        ans, out = real_trans(atoms, s, a, seed=rng.randrange(2**32), via_chain=(k % 3 == 0))
        tag = 'trans-rand-' + ('err' if out.startswith('ERR') else f'm{mode}') + ('-aliased' if k % 5 == 4 else '')
        yield trans_line(atoms, s, a, ans), out, tag


def fam_trans_history(seed, shard, nshards, n):
    """multi-step histories run in place on ONE object graph (as an environment does between
    copies, and pickle keeps instance attributes): every step is replayed by the model from the
    printed state alone, so any hidden per-object state that influences the dynamics shows"""
    from harness.codec import dec_obj

    rng = random.Random(f'trans-hist-{seed}-{shard}')
    fns = _trans_fns()
    for k in range(n // nshards):
        s = gen.valid_random_state(rng, max_h=5, max_w=5, p_floor=0.5)
        if k % 2 == 0:
            # a door right in front of the agent and the key to it
            f = s.agent.front()
            if 0 <= f.y < s.grid.shape.height and 0 <= f.x < s.grid.shape.width:
                col = rng.randint(0, 4)
                s.grid[f] = dec_obj(f'D{rng.choice([1, 1, 2])}{col}')
                if rng.random() < 0.8:
                    s.agent.grid_object = dec_obj(f'K{col}')
        atoms = rng.choice([[0, 1, 4, 2], [0, 1, 2, 4, 5], [0, 1, 4], [4, 0, 1, 5, 2], [0, 1, 2, 3, 4, 5, 6]])
        acts = [rng.choice([6, 0, 0, 7, 4, 5, 1, 2, 3]) for _ in range(rng.randint(2, 8))]
        if k % 2 == 0:
            acts[:2] = [6, 0]
        if k % 3 == 2:
            # worlds no shipped layout has: telepods next to doors, boxes and keys, the agent on a telepod,
            # the teleport last in the chain, pose-preserving actions repeated
            h, w = s.grid.shape.height, s.grid.shape.width
            col = rng.randint(0, 4)
            for _ in range(rng.randint(1, 3)):
                s.grid[rng.randrange(h), rng.randrange(w)] = dec_obj(f'T{col}')
            for _ in range(rng.randint(0, 3)):
                c2 = rng.randrange(5)
                s.grid[rng.randrange(h), rng.randrange(w)] = dec_obj(rng.choice([f'D1{c2}', f'D2{c2}', f'K{c2}', 'XK1', 'XF']))
            s.grid[s.agent.position] = dec_obj(f'T{col}')
            atoms = rng.choice([[0, 1, 4, 5, 2, 6], [4, 5, 2, 6], [2, 6], [4, 6], [5, 6], [6, 4, 5, 2]])
            acts = [rng.choice([6, 7, 6, 7, rng.randrange(8)]) for _ in range(rng.randint(2, 6))]
        for ai in acts:
            a = ACTIONS[ai]
            before = enc_state(s)
            rec = RecRng(rng.randrange(2**32))
            try:
                if rng.random() < 0.5:
                    s = trf.transition_with_copy(trf.factory('chain', transition_functions=[trf.factory(TRANS_NAMES[i]) for i in atoms]), s, a, rng=rec)
                else:
                    for i in atoms:
                        fns[i](s, a, rng=rec)
                out = enc_state(s) + ' | ' + rec.log_str()
            except Exception as e:
                out = enc_exc(e)
            line = (f'trans {len(atoms)} {" ".join(map(str, atoms))} {before} {enc_action(a)} {len(rec.answers)} ' + ' '.join(map(str, rec.answers))).rstrip()
            yield line, out, 'trans-history'
            if out.startswith('ERR'):
                break


# ---------------------------------------------------------------------------------------------
# rewards / termination
# ---------------------------------------------------------------------------------------------


def _kind_tok(cls):
    return str(KIND_INDEX[cls])


def rew_specs(rng):
    """(protocol spec, real partial function, integer params) for every registered reward atom"""
    k = rng.choice(KINDS[2:])  # grid kinds
    ints = lambda m: [rng.randint(-9, 9) for _ in range(m)]  # noqa: E731
    a, b = ints(2)
    dist = rng.choice(['manhattan', 'euclidean'])
    dfn = {'manhattan': Position.manhattan_distance, 'euclidean': Position.euclidean_distance}[dist]
    dt = dist[0]
    F = float
    return [
        (f'ov {_kind_tok(k)} {a} {b}', rf.factory('overlap', object_type=k, reward_on=F(a), reward_off=F(b))),
        (f'lv {a}', rf.factory('living_reward', reward=F(a))),
        (f're {a} {b}', rf.factory('reach_exit', reward_on=F(a), reward_off=F(b))),
        (f'bo {a}', rf.factory('bump_moving_obstacle', reward=F(a))),
        (f'pd {dt} {_kind_tok(k)} {a}', rf.factory('proportional_to_distance', distance_function=dfn, object_type=k, reward_per_unit_distance=F(a))),
        (f'gc {dt} {_kind_tok(k)} {a} {b}', rf.factory('getting_closer', distance_function=dfn, object_type=k, reward_closer=F(a), reward_further=F(b))),
        (f'sp {_kind_tok(k)} {a} {b}', rf.factory('getting_closer_shortest_path', object_type=k, reward_closer=F(a), reward_further=F(b))),
        (f'bw {a}', rf.factory('bump_into_wall', reward=F(a))),
        (f'ad {a} {b}', rf.factory('actuate_door', reward_open=F(a), reward_close=F(b))),
        (f'pk {_kind_tok(k)} {a} {b}', rf.factory('pickndrop', object_type=k, reward_pick=F(a), reward_drop=F(b))),
        (f'rm {a} {b}', rf.factory('reach_exit_memory', reward_good=F(a), reward_bad=F(b))),
    ]


def enc_reward_value(spec, v, s2, real_fn):
    """canonical form of a real reward: I<int> or, for euclidean proportional, Q<k>:<sq>"""
    import math

    toks = spec.split()
    if toks[0] == 'pd' and toks[1] == 'e':
        # value = k * sqrt(sq): recover sq from the model-independent definition
        k = int(toks[3])
        if k == 0:
            sq = None
        else:
            sq = round((v / k) ** 2)
            assert abs(k * math.sqrt(sq) - v) < 1e-9
        return ('Q', k, sq)
    assert float(v) == int(v), (spec, v)
    return ('I', int(v))


def _rew_expected(spec, fn, s, a, s2):
    try:
        v = fn(s, a, s2)
    except Exception as e:
        return enc_exc(e)
    form = enc_reward_value(spec, v, s2, fn)
    if form[0] == 'I':
        return f'I{form[1]}'
    return ('Q', form[1], form[2])


def _reward_triples(rng, k):
    """(s, a, s') — half produced by the real dynamics, half arbitrary"""
    s = gen.random_state(rng, max_h=5, max_w=5, p_floor=0.6)
    if rng.random() < 0.5:
        # make some object types unique so the distance-based rewards are exercised
        pass
    a = rng.choice(ACTIONS)
    if k % 2 == 0:
        s_in = s
        if s.grid[s.agent.position].blocks_movement:
            from gym_gridverse.grid_object import Floor

            s.grid[s.agent.position] = Floor()
        s2 = fast_copy(s_in)
        rg = RecRng(rng.randrange(2**32))
        try:
            for i in (0, 1, 4, 2, 5, 3):
                _trans_fns()[i](s2, a, rng=rg)
        except Exception:
            s2 = fast_copy(s_in)
    else:
        s2 = gen.random_state(rng, max_h=5, max_w=5, p_floor=0.6)
        if rng.random() < 0.6:
            # same shape as s, perturbed
            s2 = fast_copy(s)
            h, w = s.grid.shape.height, s.grid.shape.width
            s2.agent.position = Position(rng.randrange(h), rng.randrange(w))
            for _ in range(rng.randint(0, 3)):
                from harness.codec import dec_obj

                s2.grid[rng.randrange(h), rng.randrange(w)] = dec_obj(gen.random_obj(rng))
            s2.agent.grid_object = rng.choice([s.agent.grid_object, gen.dec_obj(rng.choice(gen.HELD_CORE))])
    return s, a, s2


def _uniquify(rng, s, s2):
    """with some probability leave exactly one Exit / Beacon in both states"""
    from gym_gridverse.grid_object import Exit, Floor

    if rng.random() < 0.6:
        for st in (s, s2):
            ps = [p for p in st.grid.area.positions() if isinstance(st.grid[p], Exit)]
            keep = rng.choice(ps) if ps else None
            for p in ps:
                if p != keep:
                    st.grid[p] = Floor()
            if keep is None:
                h, w = st.grid.shape.height, st.grid.shape.width
                st.grid[rng.randrange(h), rng.randrange(w)] = Exit()


def fam_reward(seed, shard, nshards, n):
    rng = random.Random(f'rew-{seed}-{shard}')
    for k in range(n // nshards):
        s, a, s2 = _reward_triples(rng, k)
        _uniquify(rng, s, s2)
        specs = rew_specs(rng)
        if k % 3 == 0:
            # force the object type of the distance rewards to Exit
            pass
        for spec, fn in specs:
            exp = _rew_expected(spec, fn, s, a, s2)
            line = f'reward {spec} {enc_state(s)} {enc_action(a)} {enc_state(s2)}'
            if isinstance(exp, tuple):
                # Q k sq with sq unknown when k == 0: accept the model's sq
                yield line, exp, 'reward-' + spec.split()[0]
            else:
                yield line, exp, 'reward-' + spec.split()[0] + ('-err' if exp.startswith('ERR') else '')
        # composite: reduce_sum over a random sublist (integer-valued parts only)
        sub = [sp for sp in specs if not (sp[0].startswith('pd e'))]
        rng.shuffle(sub)
        sub = sub[: rng.randint(1, 5)]
        composite = rf.factory('reduce_sum', reward_functions=[fn for _, fn in sub])
        try:
            total = composite(s, a, s2)
            parts = [fn(s, a, s2) for _, fn in sub]
            assert total == sum(parts)
            exp = ' '.join(f'I{int(p)}' for p in parts)
        except Exception as e:
            exp = enc_exc(e)
        line = f'rewsum {len(sub)} {" ".join(sp for sp, _ in sub)} {enc_state(s)} {enc_action(a)} {enc_state(s2)}'
        yield line, exp, 'rewsum' + ('-err' if exp.startswith('ERR') else '')


def term_spec(rng, depth=0):
    """(protocol spec, real function)"""
    r = rng.random()
    if depth < 2 and r < 0.35:
        n = rng.randint(0, 3)
        subs = [term_spec(rng, depth + 1) for _ in range(n)]
        which = rng.choice(['any', 'all'])
        fn = tf.factory('reduce_' + which, terminating_functions=[f for _, f in subs])
        return f'{which} {n} ' + ' '.join(sp for sp, _ in subs), fn
    c = rng.randrange(4)
    if c == 0:
        k = rng.choice(KINDS[2:])
        return f'ov {_kind_tok(k)}', tf.factory('overlap', object_type=k)
    if c == 1:
        return 're', tf.factory('reach_exit')
    if c == 2:
        return 'bo', tf.factory('bump_moving_obstacle')
    return 'bw', tf.factory('bump_into_wall')


def fam_term(seed, shard, nshards, n):
    rng = random.Random(f'term-{seed}-{shard}')
    for k in range(n // nshards):
        s, a, s2 = _reward_triples(rng, k)
        for _ in range(4):
            spec, fn = term_spec(rng)
            spec = ' '.join(spec.split())
            try:
                v = fn(s, a, s2)
                assert type(v) is bool, type(v)
                exp = 'T' if v else 'F'
            except Exception as e:
                exp = enc_exc(e)
            yield (f'term {spec} {enc_state(s)} {enc_action(a)} {enc_state(s2)}', exp, 'term-' + spec.split()[0] + ('-' + exp if len(exp) == 1 else '-err'))


def fam_spath(seed, shard, nshards, n):
    """`dijkstra` (cached) against the model's breadth-first search"""
    import numpy as np

    rng = random.Random(f'spath-{seed}-{shard}')
    for k in range(n // nshards):
        s = gen.random_state(rng, max_h=6, max_w=6, p_floor=0.55)
        h, w = s.grid.shape.height, s.grid.shape.width
        layout = tuple(tuple(not s.grid[y, x].blocks_movement for x in range(w)) for y in range(h))
        src = (rng.randrange(h), rng.randrange(w))
        d = rf.dijkstra(layout, src)
        tgt = (rng.randrange(h), rng.randrange(w))
        v = d[tgt]
        exp = 'inf' if np.isinf(v) else str(int(v))
        yield (f'spath {enc_grid(s.grid)} {src[0]} {src[1]} {tgt[0]} {tgt[1]}', exp, 'spath-' + ('inf' if exp == 'inf' else 'fin'))


def real_trans_scripted(atoms, state, action, answers):
    from harness.recrng import ScriptRng

    rng = ScriptRng(answers)
    fns = _trans_fns()
    try:
        s = fast_copy(state)
        for i in atoms:
            fns[i](s, action, rng=rng)
        out = enc_state(s) + ' | ' + rng.log_str()
    except Exception as e:
        out = enc_exc(e)
    return out


def fam_stochastic_scripted(seed, shard, nshards, n):
    """complete support: every answer vector on small obstacle / telepod layouts, replayed on the
    implementation through a scripted generator and on the model through the same answers"""
    import itertools as itt
    from harness.codec import dec_obj

    rng = random.Random(f'script-{seed}-{shard}')
    for k in range(n // nshards):
        h, w = rng.randint(1, 3), rng.randint(1, 4)
        cells = {}
        for i in range(h):
            for j in range(w):
                cells[(i, j)] = 'F' if rng.random() < 0.6 else rng.choice(['W', 'K1', 'E0', 'D01'])
        pos = [(i, j) for i in range(h) for j in range(w)]
        rng.shuffle(pos)
        if k % 2 == 0:
            nobs = rng.randint(1, min(3, len(pos)))
            for p in pos[:nobs]:
                cells[p] = 'O'
            y, x = rng.choice(pos)
            s = gen.mk_state(h, w, cells, y, x, rng.choice(ORIENTS))
            for ans in itt.product(range(4), repeat=nobs):
                a = ACTIONS[0]
                out = real_trans_scripted([3], s, a, list(ans))
                yield trans_line([3], s, a, list(ans)), out, 'scripted-obstacles'
        else:
            ntel = rng.randint(1, min(4, len(pos)))
            c = rng.randint(1, 2)
            for p in pos[:ntel]:
                cells[p] = f'T{c if rng.random() < 0.8 else 3}'
            y, x = pos[0] if rng.random() < 0.8 else rng.choice(pos)
            s = gen.mk_state(h, w, cells, y, x, rng.choice(ORIENTS))
            for ans in range(ntel + 1):
                a = ACTIONS[rng.randrange(8)]
                out = real_trans_scripted([6], s, a, [ans])
                yield trans_line([6], s, a, [ans]), out, 'scripted-teleport'
