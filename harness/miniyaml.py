import re
def _scalar(tok):
    t=tok.strip()
    if t=='' or t in ('~','null','Null','NULL'): return None
    if t in ('true','True','TRUE'): return True
    if t in ('false','False','FALSE'): return False
    if re.fullmatch(r'[-+]?[0-9]+',t): return int(t)
    if re.fullmatch(r'[-+]?(\.[0-9]+|[0-9]+(\.[0-9]*)?)([eE][-+]?[0-9]+)?',t) and ('.' in t or 'e' in t.lower()): return float(t)
    if (t[0]==t[-1]) and t[0] in '"\'' and len(t)>=2: return t[1:-1]
    return t
def _flow(s,i=0):
    # parse flow value starting at s[i]
    while s[i]==' ': i+=1
    if s[i]=='[':
        i+=1; out=[]
        while True:
            while s[i]==' ': i+=1
            if s[i]==']': return out,i+1
            v,i=_flow(s,i); out.append(v)
            while s[i]==' ': i+=1
            if s[i]==',': i+=1
    j=i
    while j<len(s) and s[j] not in ',]': j+=1
    return _scalar(s[i:j]),j
def _value(t):
    t=t.strip()
    if t.startswith('['): return _flow(t)[0]
    return _scalar(t)
def safe_load(f):
    text=f.read() if hasattr(f,'read') else f
    lines=[]
    for raw in text.splitlines():
        l=re.sub(r'\s+#.*$','',raw.rstrip())
        if l.strip()=='' or l.strip().startswith('#'): continue
        lines.append((len(l)-len(l.lstrip()), l.strip()))
    pos=0
    def block(indent):
        nonlocal pos
        if lines[pos][1].startswith('- ') or lines[pos][1]=='-':
            out=[]
            while pos<len(lines) and lines[pos][0]==indent and lines[pos][1].startswith('-'):
                ind,l=lines[pos]; rest=l[1:].lstrip(); off=ind+(len(l)-len(rest))
                if rest=='' : pos+=1; out.append(block(lines[pos][0]))
                elif re.match(r'^[^\[\s][^:]*:(\s|$)',rest):
                    lines[pos]=(off,rest); out.append(block(off))
                else: pos+=1; out.append(_value(rest))
            return out
        out={}
        while pos<len(lines) and lines[pos][0]==indent and not lines[pos][1].startswith('- '):
            ind,l=lines[pos]; k,_,v=l.partition(':'); pos+=1
            if v.strip()=='':
                if pos<len(lines) and (lines[pos][0]>indent or (lines[pos][0]==indent and lines[pos][1].startswith('-'))): out[_scalar(k)]=block(lines[pos][0])
                else: out[_scalar(k)]=None
            else: out[_scalar(k)]=_value(v)
        return out
    return block(lines[0][0])
