"""F5 replay: a genuine numpy Generator whose next doubles are 0.0 makes the pre-fix
`rng.random() <= probs` show cells behind a wall (probability 0).  Usage:
    /venv/bin/python findings/F5-stochastic-raytracing-zero-draw.py   (exit 1 = defect present)"""
import sys
sys.path.insert(0, '/verif')
from harness import gvenv  # noqa
import numpy as np
from gym_gridverse.envs import visibility_functions as vf
from gym_gridverse.geometry import Position
from gym_gridverse.grid import Grid
from gym_gridverse.grid_object import Floor, Wall

bg = np.random.MT19937()
st = bg.state
st['state']['key'][:] = 0
st['state']['pos'] = 0
bg.state = st
rng = np.random.Generator(bg)
grid = Grid([[Floor(), Floor(), Floor()], [Wall(), Wall(), Wall()], [Floor(), Floor(), Floor()]])
vis = vf.stochastic_raytracing(grid, Position(2, 1), rng=rng)
det = vf.raytracing(grid, Position(2, 1))
print('stochastic:\n', vis.astype(int), '\ndeterministic:\n', det.astype(int))
bad = bool((vis & ~det).any())
print('shows a never-lit cell:', bad)
sys.exit(1 if bad else 0)
