"""F6 replay: the same seed gives different `memory` episodes under different PYTHONHASHSEED values
before the repair (fb05790).  Usage: /venv/bin/python findings/F6-hashseed.py  (exit 1 = defect present)"""
import subprocess
import sys

CODE = r'''
import sys
sys.path.insert(0, "/verif")
from harness import gvenv
import numpy as np
from harness.codec import enc_state
from gym_gridverse.envs.reset_functions import memory, memory_rooms
from gym_gridverse.geometry import Shape
from gym_gridverse.grid_object import Color
cs = {Color.RED, Color.GREEN, Color.BLUE, Color.YELLOW}
out = []
for seed in range(8):
    out.append(enc_state(memory(Shape(5, 5), cs, rng=np.random.default_rng(seed))))
    out.append(enc_state(memory_rooms(Shape(7, 7), (2, 2), cs, 1, 2, rng=np.random.default_rng(seed))))
print("|".join(out))
'''
outs = set()
for hs in ('0', '1', '2', '3'):
    p = subprocess.run(['/venv/bin/python', '-c', CODE], env={'PYTHONHASHSEED': hs, 'PATH': '/usr/bin:/bin'}, capture_output=True, text=True)
    outs.add(p.stdout.strip().splitlines()[-1] if p.stdout.strip() else p.stderr[-300:])
print('distinct traces over 4 hash seeds:', len(outs))
sys.exit(1 if len(outs) > 1 else 0)
