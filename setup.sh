#!/bin/sh
# Offline setup: regenerate the tables and the shipped-configuration data from /repo's working tree
# and build the whole Lean project (model, native driver, agreement lemmas, every property module).
# No network, no elan, no Mathlib import needed.  Each check rebuilds what it needs anyway; building
# everything here only moves the cost out of the first check.
set -e
cd "$(dirname "$0")"
/venv/bin/python -m harness.extract tables configs
cd lean
lake build gvdriver GridVerse
targets=$(ls GridVerse/Props/*.lean GridVerse/Agree/*.lean | sed 's/\.lean$//; s#/#.#g')
lake build $targets
