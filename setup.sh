#!/bin/sh
# Offline setup: regenerate tables from /repo and build the whole Lean project (model, driver,
# agreement lemmas, property theorems).  No network, no elan, no Mathlib import needed.
set -e
cd "$(dirname "$0")"
/venv/bin/python -m harness.extract tables
cd lean
lake build
