/-
  Development tool (not part of any proof): searches, in the *model*, a winning (actions, draws)
  certificate for every layout the shipped `dynamic_obstacles` parameter sets can produce, and prints
  the Lean data file `GridVerse/Props/C14ObstaclesData.lean`.  The certificates are re-checked by the
  kernel in `Props/C14Obstacles.lean` (`decide +kernel` on `checkPlan`), so nothing here is trusted.
  usage: lake env lean --run Tools/GenObstacleCerts.lean > GridVerse/Props/C14ObstaclesData.lean
-/
import GridVerse.Model.Win
import GridVerse.Model.Reset
import Std.Data.HashSet
open GV

def chain : List TransAtom := [.moveAgent, .turnAgent, .moveObstacles]
def stopF : State → Action → State → Bool := stopOf (.any [.reachExit, .bumpObstacle, .bumpWall])

def answerVecs : Nat → List (List Nat)
  | 0 => [[]]
  | n+1 => (answerVecs n).flatMap fun v => [0, 1, 2, 3].map (· :: v)

def key (s : State) : String :=
  toString s.agent.pos.y ++ "," ++ toString s.agent.pos.x ++ ":" ++
    String.intercalate ";" ((s.grid.find fun o => o.isKind .obstacle).map fun p => toString p.y ++ "," ++ toString p.x)

partial def bfs (n : Nat) (frontier : List (State × List (Action × List Nat))) (seen : Std.HashSet String) :
    Option (List (Action × List Nat)) := Id.run do
  if frontier.isEmpty then return none
  let mut next : List (State × List (Action × List Nat)) := []
  let mut seen := seen
  for (s, plan) in frontier do
    for a in [Action.moveF, .moveB, .moveL, .moveR] do
      for v in answerVecs n do
        match runChain chain s a ⟨v, []⟩ with
        | .error _ => pure ()
        | .ok (s', d') =>
          let used := v.take (v.length - d'.ans.length)
          if goalExit s' then return some ((a, used) :: plan).reverse
          if stopF s a s' then pure ()
          else if seen.contains (key s') then pure ()
          else
            seen := seen.insert (key s')
            next := (s', (a, used) :: plan) :: next
  bfs n next seen

def showAct : Action → String
  | .moveF => ".moveF" | .moveB => ".moveB" | .moveL => ".moveL" | .moveR => ".moveR"
  | .turnL => ".turnL" | .turnR => ".turnR" | .actuate => ".actuate" | .pickNDrop => ".pickNDrop"

def cert (s : State) (n : Nat) : String :=
  match bfs n [(s, [])] (Std.HashSet.emptyWithCapacity.insert (key s)) with
  | none => "([], [])  -- NO CERTIFICATE FOUND"
  | some plan =>
    let acts := plan.map (·.1)
    let draws := plan.flatMap (·.2)
    "([" ++ String.intercalate ", " (acts.map showAct) ++ "], " ++ toString draws ++ ")"

/-- the state `resetDynamicObstacles` builds from the picked indices (second half of the function) -/
def obstacleState (s0 : State) (idx : List Nat) : Option State :=
  let vac := (floorPositions s0.grid).filter fun p => p != s0.agent.pos
  match drawAll s0.grid (idx.map fun i => vac.getD i ⟨0, 0⟩) .obstacle with
  | .error _ => none
  | .ok g => some { s0 with grid := g }

def table (name : String) (sh : Shape) (idxs : List (List Nat)) (n : Nat) : IO Unit := do
  match resetEmpty sh false false ⟨[], []⟩ with
  | .error _ => IO.println "-- resetEmpty failed"
  | .ok (s0, _) =>
    IO.println s!"def {name} : List (List Nat × (List Action × List Nat)) := ["
    let rows := idxs.map fun idx =>
      match obstacleState s0 idx with
      | none => s!"  ({idx}, ([], []))  -- no state"
      | some s => s!"  ({idx}, {cert s n})"
    IO.println (String.intercalate ",\n" rows)
    IO.println "]"

def main : IO Unit := do
  IO.println "/- GENERATED ONCE by Tools/GenObstacleCerts.lean (model-side search); static data, re-checked by the kernel in Props/C14Obstacles.lean. -/"
  IO.println "import GridVerse.Model.Win"
  IO.println "namespace GV.Cert"
  IO.println ""
  table "obstacles5x5" ⟨5, 5⟩ ((List.range 7).map fun i => [i]) 1
  IO.println ""
  let pairs := (List.range 23).flatMap fun i => ((List.range 23).filter (· != i)).map fun j => [i, j]
  table "obstacles7x7" ⟨7, 7⟩ pairs 2
  IO.println ""
  IO.println "end GV.Cert"
