/-
  The registries extracted from the live modules (names, required and optional keyword parameters
  exactly as each `factory()` computes them through `inspect.signature`), the registered grid-object
  class names, colour and action names equal what the model expects.
-/
import GridVerse.Generated.Configs
namespace GV.Agree

theorem agree_regs_reset : Gen.regs.reset = expectedRegs.reset := by decide
theorem agree_regs_transition : Gen.regs.transition = expectedRegs.transition := by decide
theorem agree_regs_reward : Gen.regs.reward = expectedRegs.reward := by decide
theorem agree_regs_observation : Gen.regs.observation = expectedRegs.observation := by decide
theorem agree_regs_visibility : Gen.regs.visibility = expectedRegs.visibility := by decide
theorem agree_regs_terminating : Gen.regs.terminating = expectedRegs.terminating := by decide
theorem agree_regs_names :
    Gen.regs.objects = expectedRegs.objects ∧ Gen.regs.colors = expectedRegs.colors ∧
    Gen.regs.actions = expectedRegs.actions := by decide

end GV.Agree
