import GridVerse.Generated.Tables
namespace GV.Agree

theorem agree_actionValue : Gen.actionValue = Action.all.map fun a => (a, a.value) := by decide
theorem agree_moveActionOrient : Gen.moveActionOrient = Action.all.map fun a => (a, a.moveOrient) := by
  decide
theorem agree_turnActionOrient : Gen.turnActionOrient = Action.all.map fun a => (a, a.turnOrient) := by
  decide
theorem agree_actionClass : Gen.actionClass = Action.all.map fun a => (a, a.isMove, a.isTurn) := by
  decide

end GV.Agree
