/-
  Agreement of tables obtained by *running* the library's public functions over their complete finite
  domains (orientation product and inverse, tentative next position from the origin for every heading
  and action, `turn_agent` for every heading and action) with what the model computes.  Unlike the
  tables in Agree/Orient.lean and Agree/Actions.lean these do not depend on how the library stores the
  information (private lookup tables), only on what it computes.
-/
import GridVerse.Generated.Tables
import GridVerse.Model.Transition
namespace GV.Agree

theorem agree_orientMulB :
    Gen.orientMulB = Orient.all.flatMap fun a => Orient.all.map fun b => (a, b, a.mul b) := by decide
theorem agree_orientNegB : Gen.orientNegB = Orient.all.map fun a => (a, a.neg) := by decide
theorem agree_nextPosB :
    Gen.nextPosB = Orient.all.flatMap fun o => Action.all.map fun a => (o, a, nextPos ⟨0, 0⟩ o a) := by decide
theorem agree_turnB :
    Gen.turnB = Orient.all.flatMap fun o => Action.all.map fun a =>
      (o, a, (turnAgent ⟨⟨1, 1, [[.floor]]⟩, ⟨⟨0, 0⟩, o, .noneObj⟩⟩ a).agent.o) := by decide

end GV.Agree
