import GridVerse.Generated.Tables
namespace GV.Agree

theorem agree_boundary1 : Gen.boundary1 = manhattanBoundary ⟨0, 0⟩ 1 := by decide
theorem agree_boundary3 : Gen.boundary3 = manhattanBoundary ⟨0, 0⟩ 3 := by decide

end GV.Agree
