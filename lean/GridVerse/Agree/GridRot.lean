import GridVerse.Generated.Tables
namespace GV.Agree

/-- `_grid_rotation_functions`, each entry classified by the extractor against the index-defined
rotations: F ↦ identity, R ↦ rotate-left, B ↦ backward, L ↦ rotate-right -/
theorem agree_gridRot :
    Gen.gridRot = [(.F, Rot.ident), (.B, Rot.backward), (.L, Rot.right), (.R, Rot.left)] := by decide
theorem agree_gridRot_model (o : Orient) (g : Grid) :
    (Gen.gridRot.lookup o).map (fun r => Grid.applyRot r g) = some (Grid.rot o g) := by
  cases o <;> rfl

end GV.Agree
