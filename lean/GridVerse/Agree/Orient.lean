/-
  Agreement of the generated orientation tables (read from the live `geometry` module) with the
  tables of the model.  A change to the source tables changes `Generated/Tables.lean`, and the
  corresponding `decide` below stops closing.
-/
import GridVerse.Generated.Tables
namespace GV.Agree

theorem agree_orientMul :
    Gen.orientMul = Orient.all.flatMap fun a => Orient.all.map fun b => (a, b, a.mul b) := by decide
theorem agree_orientNeg : Gen.orientNeg = Orient.all.map fun a => (a, a.neg) := by decide
theorem agree_posFromOrient : Gen.posFromOrient = Orient.all.map fun a => (a, Pos.ofOrient a) := by
  decide
theorem agree_orientValue : Gen.orientValue = Orient.all.map fun a => (a, a.value) := by decide
theorem agree_orientAct : Gen.orientActSamples.all (fun t => t.1.act t.2.1 == t.2.2) = true := by
  decide
theorem agree_orientActCovers : Gen.orientActSamples.map (·.1) = Orient.all.flatMap fun a => [a, a, a, a] := by
  decide
theorem agree_orientArea : Gen.orientAreaSamples.all (fun t => t.1.actArea t.2.1 == t.2.2) = true := by
  decide
theorem agree_orientAreaCovers : Gen.orientAreaSamples.map (·.1) = Orient.all.flatMap fun a => [a, a] := by
  decide

end GV.Agree
