import GridVerse.Generated.Tables
namespace GV.Agree

theorem agree_kindTable :
    Gen.kindTable = Kind.all.map fun k => (k, k.typeIndex, k.numStates, k.canBeRepresented) := by
  decide
theorem agree_registrySize : Gen.registrySize = Kind.all.length := by decide
theorem agree_colorValue : Gen.colorValue = Color.all.map fun c => (c, c.value) := by decide
theorem agree_statusValue : Gen.statusValue = DoorStatus.all.map fun s => (s, s.value) := by decide
theorem agree_kindDefault : Gen.kindDefault = Kind.all.map fun k => (k, k.default?) := by decide
/-- flags, state index, colour value and type index of every object of the alphabet -/
theorem agree_objFlags :
    Gen.objFlags.all (fun t =>
      t.2.1 == t.1.blocksMovement && t.2.2.1 == t.1.blocksVision && t.2.2.2.1 == t.1.holdable &&
      t.2.2.2.2.1 == t.1.stateIndex && t.2.2.2.2.2.1 == t.1.color.value &&
      t.2.2.2.2.2.2 == t.1.kind.typeIndex) = true := by decide
/-- the alphabet covers every constructor with every status and colour -/
theorem agree_objFlags_covers :
    (Kind.all.all fun k => Gen.objFlags.any fun t => t.1.kind == k) = true ∧
    (DoorStatus.all.all fun s => Color.all.all fun c => Gen.objFlags.any fun t => t.1 == .door s c) = true ∧
    (Color.all.all fun c => Gen.objFlags.any fun t => t.1 == .key c) = true := by decide

end GV.Agree
