/-
  Model of gym_gridverse/envs/visibility_functions.py and observation_functions.py.
  A visibility mask is a predicate on view positions.  Rays enter as data (see `Rays.lean`): the
  fan is computed with floating point in the code and is validated, not recomputed, here.
-/
import GridVerse.Model.Draw
namespace GV

abbrev Mask := Pos → Bool

/-- `fully_transparent` -/
def visFullyTransparent (_g : Grid) (_p : Pos) : Mask := fun _ => true

def poNextLeft (p : Pos) : List Pos := [⟨p.y - 1, p.x⟩, ⟨p.y, p.x - 1⟩, ⟨p.y - 1, p.x - 1⟩]
def poNextRight (p : Pos) : List Pos := [⟨p.y - 1, p.x⟩, ⟨p.y, p.x + 1⟩, ⟨p.y - 1, p.x + 1⟩]

/-- `_partially_occluded_make_visible` with the visited set passed along (the numpy array being
filled); `fuel` bounds the recursion depth. -/
def mkVis (opq : Pos → Bool) (inGrid : Pos → Bool) (next : Pos → List Pos) :
    Nat → List Pos → Pos → List Pos
  | 0, vis, _ => vis
  | fuel+1, vis, p =>
    if inGrid p && !(vis.contains p) then
      if !opq p then (next p).foldl (mkVis opq inGrid next fuel) (p :: vis) else p :: vis
    else vis

/-- recursion depth needed from `p` on an `h×w` grid: every call moves up or sideways-away -/
def floodFuel (g : Grid) : Nat := g.h + g.w + 2

def floodLeft (g : Grid) (p : Pos) : List Pos :=
  mkVis (fun q => (g.at q).blocksVision) g.contains poNextLeft (floodFuel g) [] p
def floodRight (g : Grid) (p : Pos) : List Pos :=
  mkVis (fun q => (g.at q).blocksVision) g.contains poNextRight (floodFuel g) [] p

/-- `partially_occluded`: `NotImplementedError` unless the agent is on the bottom row -/
def visPartiallyOccluded (g : Grid) (p : Pos) : Except PyErr Mask :=
  if p.y ≠ (g.h : Int) - 1 then .error .notImplemented
  else
    let l := floodLeft g p
    let r := floodRight g p
    .ok fun q => l.contains q || r.contains q

abbrev Ray := List Pos

/-- the `(position, lit?)` sequence of one ray: `light` is true up to and including the first
vision-blocking cell -/
def rayMarks (g : Grid) : Bool → Ray → List (Pos × Bool)
  | _, [] => []
  | light, p :: ps => (p, light) :: rayMarks g (light && !(g.at p).blocksVision) ps

def countsNum (g : Grid) (rays : List Ray) (q : Pos) : Nat :=
  (rays.map fun r => ((rayMarks g true r).filter fun m => m.1 == q && m.2).length).sum
def countsDen (rays : List Ray) (q : Pos) : Nat :=
  (rays.map fun r => (r.filter fun p => p == q).length).sum

/-- `raytracing` with the default `absolute_counts=True, threshold=1` -/
def visRaytracing (g : Grid) (rays : List Ray) : Mask := fun q => decide (1 ≤ countsNum g rays q)

/-- `raytracing` as called from `from_visibility`: computing the fan raises `ValueError` when the
agent's cell is not inside the view -/
def visRaytracingChecked (rays : List Ray) (g : Grid) (p : Pos) : Except PyErr Mask :=
  if g.contains p then .ok (visRaytracing g rays) else .error .valueError

/-- a float probability as an exact dyadic rational `num / den` (`float.as_integer_ratio`) -/
structure Prob where
  num : Nat
  den : Nat
deriving DecidableEq, Repr, Inhabited

/-- what IEEE division followed by `nan_to_num` guarantees about `p = fl(n / d)` -/
def flDivOK (n d : Nat) (p : Prob) : Bool :=
  p.den != 0 &&
  (if d == 0 then p.num == 0
   else if n == 0 then p.num == 0
   else if n == d then p.num == p.den
   else decide (0 < p.num) && decide (p.num < p.den))

/-- `stochastic_raytracing`: cell shown iff `u < p`, `u = m / 2^53`. -/
def shownStochastic (m : Nat) (p : Prob) : Bool := decide (m * p.den < p.num * 9007199254740992)

/-- the comparison as it was before the repair (`<=`) -/
def shownStochasticLe (m : Nat) (p : Prob) : Bool := decide (m * p.den ≤ p.num * 9007199254740992)

/-- pre-mask view: `state.grid.subgrid(transform * area) * orientation` -/
def premask (s : State) (a : Area) : Grid :=
  Grid.rot s.agent.o (s.grid.subgrid (s.agent.transform.actArea a))

/-- overwrite non-visible cells with Hidden -/
def applyMask (g : Grid) (m : Mask) : Grid :=
  Grid.tab g.h g.w fun i j => if m ⟨(i : Int), (j : Int)⟩ then g.cell i j else .hidden

/-- `pov_agent_position` -/
def povPos (a : Area) : Pos := ⟨-a.ymin, -a.xmin⟩

/-- `from_visibility` for a visibility function `V` given as a (possibly failing) mask producer -/
def fromVisibility (V : Grid → Pos → Except PyErr Mask) (s : State) (a : Area) : Except PyErr Obs :=
  let g := premask s a
  match V g (povPos a) with
  | .error e => .error e
  | .ok m => .ok { grid := applyMask g m, agent := ⟨povPos a, .F, s.agent.held⟩ }

end GV
