/-
  Randomness as an oracle.  A `DrawSt` carries the stream of answers still to be consumed and the
  log of requests issued so far.  Each request mirrors one numpy `Generator` call made by the code;
  an answer `k` is used as `k % range`, so every stream is a legal resolution of every request.
-/
import GridVerse.Model.Grid
namespace GV

/-- one call on the generator -/
inductive Req
  | choice (n : Nat)                 -- rng.choice(n)
  | choiceNR (n k : Nat)             -- rng.choice(n, size=k, replace=False)
  | integers (lo hi : Int)           -- rng.integers(lo, hi)  (hi exclusive; endpoint=True is hi+1)
  | shuffle (n : Nat)                -- rng.shuffle(list of length n)
  | random (cells : Nat)             -- rng.random(shape) with that many cells
deriving DecidableEq, Repr, Inhabited

structure DrawSt where
  ans : List Nat
  log : List Req
deriving DecidableEq, Repr, Inhabited

def DrawSt.ofAns (l : List Nat) : DrawSt := ⟨l, []⟩

/-- pop one raw answer (0 when the stream is exhausted) -/
def DrawSt.pop (d : DrawSt) : Nat × DrawSt :=
  match d.ans with
  | [] => (0, d)
  | a :: as => (a, { d with ans := as })

def DrawSt.note (d : DrawSt) (r : Req) : DrawSt := { d with log := d.log ++ [r] }

/-- `rng.choice(n)`: `none` is numpy's `ValueError` for `n = 0` (nothing is drawn). -/
def drawChoice (n : Nat) (d : DrawSt) : Option Nat × DrawSt :=
  let d := d.note (.choice n)
  if n = 0 then (none, d) else
    let (a, d) := d.pop
    (some (a % n), d)

/-- `rng.integers(lo, hi)` (`hi` exclusive): `none` is numpy's `ValueError` for `lo ≥ hi`. -/
def drawIntegers (lo hi : Int) (d : DrawSt) : Option Int × DrawSt :=
  let d := d.note (.integers lo hi)
  if hi ≤ lo then (none, d) else
    let (a, d) := d.pop
    (some (lo + ((a % (hi - lo).toNat : Nat) : Int)), d)

/-- remove the element at index `i` -/
def removeAt {α} : List α → Nat → List α
  | [], _ => []
  | _ :: xs, 0 => xs
  | x :: xs, i+1 => x :: removeAt xs i

/-- sequential sampling without replacement from `pool`: `k` picks, answer `a` picks index
`a % remaining`. -/
def pickSeq {α} [Inhabited α] : Nat → List α → DrawSt → List α × DrawSt
  | 0, _, d => ([], d)
  | k+1, pool, d =>
    if pool.length = 0 then ([], d) else
      let (a, d) := d.pop
      let i := a % pool.length
      let (rest, d) := pickSeq k (removeAt pool i) d
      (pool[i]! :: rest, d)

/-- `rng.choice(n, size=k, replace=False)`: `none` is numpy's `ValueError` for `k > n`. -/
def drawChoiceNR (n k : Nat) (d : DrawSt) : Option (List Nat) × DrawSt :=
  let d := d.note (.choiceNR n k)
  if n < k then (none, d) else
    let (l, d) := pickSeq k (List.range n) d
    (some l, d)

/-- `rng.shuffle(indices)` on `range(n)`: a permutation of `range(n)` (Lehmer-coded answers). -/
def drawShuffle (n : Nat) (d : DrawSt) : List Nat × DrawSt :=
  let d := d.note (.shuffle n)
  pickSeq n (List.range n) d

/-- `rng.random(shape)`: one numerator `m` per cell, the uniform being `m / 2^53 ∈ [0,1)`. -/
def drawRandom (cells : Nat) (d : DrawSt) : List Nat × DrawSt :=
  let d := d.note (.random cells)
  let rec go : Nat → DrawSt → List Nat × DrawSt
    | 0, d => ([], d)
    | k+1, d =>
      let (a, d) := d.pop
      let (r, d) := go k d
      ((a % 9007199254740992) :: r, d)
  go cells d

end GV
