/-
  Several live environments plus the library-level generator (`gym_gridverse.rng._gv_rng`).
  An environment's own generator is `None` until `set_seed`; every stochastic component resolves
  its generator as `get_gv_rng_if_none` does: the environment's if it has one, else the library's.
-/
import GridVerse.Model.Env
namespace GV

/-- one `GridWorld` instance: `rng = none` until seeded -/
structure EnvInst where
  spec : EnvSpec
  state : Option State
  obs : Option Obs
  rng : Option DrawSt

structure World where
  lib : DrawSt
  envs : List EnvInst

/-- an event of a schedule: an operation on environment `i`, or a direct call on the library
generator (`get_gv_rng().choice(n)`) by someone else -/
inductive WOp
  | env (i : Nat) (op : Op)
  | libChoice (n : Nat)

def EnvInst.machine (e : EnvInst) (lib : DrawSt) : Machine := ⟨e.state, e.obs, e.rng.getD lib⟩

/-- one operation on one instance, given the current library generator: new instance, new library
generator, output -/
def EnvInst.exec1 (e : EnvInst) (lib : DrawSt) : Op → EnvInst × DrawSt × Out
  | .setSeed ans => ({ e with rng := some ⟨ans, []⟩ }, lib, .unit)
  | op =>
    let r := (e.machine lib).exec e.spec op
    match e.rng with
    | some _ => ({ e with state := r.1.state, obs := r.1.obs, rng := some r.1.d }, lib, r.2)
    | none => ({ e with state := r.1.state, obs := r.1.obs }, r.1.d, r.2)

/-- run one event -/
def World.exec (w : World) : WOp → World × Out
  | .libChoice n => ({ w with lib := (drawChoice n w.lib).2 }, .unit)
  | .env i op =>
    match w.envs[i]? with
    | none => (w, .err .indexError)
    | some e =>
      let r := e.exec1 w.lib op
      ({ lib := r.2.1, envs := w.envs.set i r.1 }, r.2.2)

def World.run : World → List WOp → World × List Out
  | w, [] => (w, [])
  | w, op :: ops =>
    let r := w.exec op
    let rest := World.run r.1 ops
    (rest.1, r.2 :: rest.2)

/-- the operations of a schedule that concern environment `i` -/
def projectOps (i : Nat) : List WOp → List Op
  | [] => []
  | .env j op :: rest => if j = i then op :: projectOps i rest else projectOps i rest
  | .libChoice _ :: rest => projectOps i rest

/-- the outputs of a run that belong to environment `i` -/
def projectOuts (i : Nat) : List WOp → List Out → List Out
  | .env j _ :: rest, o :: os => if j = i then o :: projectOuts i rest os else projectOuts i rest os
  | .libChoice _ :: rest, _ :: os => projectOuts i rest os
  | _, _ => []

/-- an instance run alone on its own operations (the library generator passed is irrelevant for a
seeded instance) -/
def soloRun (lib : DrawSt) : EnvInst → List Op → EnvInst × List Out
  | e, [] => (e, [])
  | e, op :: ops =>
    let r := e.exec1 lib op
    let rest := soloRun lib r.1 ops
    (rest.1, r.2.2 :: rest.2)

/-- the direct calls on the library generator in a schedule -/
def libCalls : List WOp → List Nat
  | [] => []
  | .libChoice n :: rest => n :: libCalls rest
  | .env _ _ :: rest => libCalls rest

def runLib (lib : DrawSt) (ns : List Nat) : DrawSt := ns.foldl (fun d n => (drawChoice n d).2) lib

/-- the colour set as the reset functions consume it since the repair: sorted by value, whatever
order the set iterates in -/
def sortColors (l : List Color) : List Color := Color.all.filter fun c => l.contains c

end GV
