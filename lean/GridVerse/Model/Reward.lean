/-
  Model of gym_gridverse/envs/reward_functions.py and terminating_functions.py.
  Reward parameters are integers here (the harness scales float parameters); a reward value is a
  list of parts, Python's `sum` being the left fold from 0.
-/
import GridVerse.Model.Transition
namespace GV

inductive Dist | manhattan | euclidean
deriving DecidableEq, Repr, Inhabited

/-- one part of a reward: an integer, or `k * sqrt(sq)` (Euclidean `proportional_to_distance`) -/
inductive RTerm
  | int (n : Int)
  | sqrtMul (k : Int) (sq : Int)
deriving DecidableEq, Repr, Inhabited

/-- the comparable quantity of a distance function: Manhattan distance, or the *squared* Euclidean
distance (`sqrt` is strictly monotone, so comparisons agree). -/
def Dist.cmpVal : Dist → Pos → Pos → Int
  | .manhattan, p, q => Pos.manhattan p q
  | .euclidean, p, q => Pos.sqEuclid p q

/-- `mitt.one(position for position in positions if isinstance(grid[position], k))` -/
def uniquePos (g : Grid) (k : Kind) : Except PyErr Pos :=
  match g.find fun o => o.isKind k with
  | [p] => .ok p
  | _ => .error .valueError

def nbrs4 (p : Pos) : List Pos := [⟨p.y - 1, p.x⟩, ⟨p.y + 1, p.x⟩, ⟨p.y, p.x - 1⟩, ⟨p.y, p.x + 1⟩]

/-- breadth-first layers: `some depth` when `tgt` enters the frontier -/
def bfsGo (free : Pos → Bool) (tgt : Pos) : Nat → Nat → List Pos → List Pos → Option Nat
  | 0, _, _, _ => none
  | fuel+1, depth, frontier, visited =>
    if frontier.contains tgt then some depth
    else if frontier.isEmpty then none
    else
      let next := ((frontier.flatMap nbrs4).filter fun q => free q && !visited.contains q).eraseDups
      bfsGo free tgt fuel (depth + 1) next (visited ++ next)

/-- `dijkstra(layout, source)[target]`; `none` is `inf`. The source is visited whatever it holds. -/
def shortestPath (g : Grid) (src tgt : Pos) : Option Nat :=
  bfsGo (fun q => g.contains q && !(g.at q).blocksMovement) tgt (g.h * g.w + 1) 0 [src] [src]

/-- sign of a change of an `inf`-extended distance: -1 closer, 1 further, 0 same -/
def cmpOptDist : Option Nat → Option Nat → Int
  | some a, some b => if b < a then -1 else if a < b then 1 else 0
  | none, some _ => -1
  | some _, none => 1
  | none, none => 0

/-- registered reward functions (except the reducers) with their parameters -/
inductive RewAtom
  | overlap (k : Kind) (on off : Int)
  | living (r : Int)
  | reachExit (on off : Int)
  | bumpObstacle (r : Int)
  | proportional (d : Dist) (k : Kind) (per : Int)
  | gettingCloser (d : Dist) (k : Kind) (closer further : Int)
  | gettingCloserSP (k : Kind) (closer further : Int)
  | bumpWall (r : Int)
  | actuateDoor (ropen rclose : Int)
  | pickndrop (k : Kind) (pick drop : Int)
  | reachExitMemory (good bad : Int)
deriving DecidableEq, Repr, Inhabited

def rewOverlap (k : Kind) (on off : Int) (s' : State) : Except PyErr RTerm :=
  match s'.grid.pyGet s'.agent.pos with
  | .error e => .error e
  | .ok o => .ok (.int (if o.isKind k then on else off))

def RewAtom.eval : RewAtom → State → Action → State → Except PyErr RTerm
  | .overlap k on off, _, _, s' => rewOverlap k on off s'
  | .living r, _, _, _ => .ok (.int r)
  | .reachExit on off, _, _, s' => rewOverlap .exit on off s'
  | .bumpObstacle r, _, _, s' => rewOverlap .obstacle r 0 s'
  | .proportional d k per, _, _, s' =>
    match uniquePos s'.grid k with
    | .error e => .error e
    | .ok p =>
      match d with
      | .manhattan => .ok (.int (per * Pos.manhattan s'.agent.pos p))
      | .euclidean => .ok (.sqrtMul per (Pos.sqEuclid s'.agent.pos p))
  | .gettingCloser d k closer further, s, _, s' =>
    match uniquePos s.grid k with
    | .error e => .error e
    | .ok p =>
      match uniquePos s'.grid k with
      | .error e => .error e
      | .ok p' =>
        let dp := d.cmpVal s.agent.pos p
        let dn := d.cmpVal s'.agent.pos p'
        .ok (.int (if dn < dp then closer else if dn > dp then further else 0))
  | .gettingCloserSP k closer further, s, _, s' =>
    match uniquePos s.grid k with
    | .error e => .error e
    | .ok p =>
      match uniquePos s'.grid k with
      | .error e => .error e
      | .ok p' =>
        let c := cmpOptDist (shortestPath s.grid p s.agent.pos) (shortestPath s'.grid p' s'.agent.pos)
        .ok (.int (if c < 0 then closer else if c > 0 then further else 0))
  | .bumpWall r, s, a, _ =>
    let np := nextPos s.agent.pos s.agent.o a
    .ok (.int (if s.grid.contains np && (s.grid.at np).isKind .wall then r else 0))
  | .actuateDoor ropen rclose, s, a, s' =>
    if a = .actuate then
      let front := s.agent.front
      if s.grid.contains front then
        match s.grid.at front with
        | .door st _ =>
          match s'.grid.pyGet front with
          | .error e => .error e
          | .ok (.door st' _) =>
            .ok (.int (if st != .open && st' == .open then ropen
                       else if st == .open && st' != .open then rclose else 0))
          | .ok _ => .ok (.int 0)
        | _ => .ok (.int 0)
      else .ok (.int 0)
    else .ok (.int 0)
  | .pickndrop k pick drop, s, _, s' =>
    let has := s.agent.held.isKind k
    let has' := s'.agent.held.isKind k
    .ok (.int (if !has && has' then pick else if has && !has' then drop else 0))
  | .reachExitMemory good bad, _, _, s' =>
    match s'.grid.pyGet s'.agent.pos with
    | .error e => .error e
    | .ok o =>
      match (s'.grid.find fun b => b.isKind .beacon) with
      | [] => .error .stopIteration
      | bp :: _ =>
        let bc := (s'.grid.at bp).color
        .ok (.int (if o.isKind .exit then (if o.color = bc then good else bad) else 0))

/-- an exception leaving a generator expression: PEP 479 turns `StopIteration` into `RuntimeError` -/
def genExprErr : PyErr → PyErr
  | .stopIteration => .runtimeError
  | e => e

/-- `reduce_sum(reward_functions=fs)`: the parts in order (the first error propagates, through the
generator expression `reduce` builds) -/
def rewParts : List RewAtom → State → Action → State → Except PyErr (List RTerm)
  | [], _, _, _ => .ok []
  | f :: fs, s, a, s' =>
    match f.eval s a s' with
    | .error e => .error (genExprErr e)
    | .ok t =>
      match rewParts fs s a s' with
      | .error e => .error e
      | .ok ts => .ok (t :: ts)

/-- one step of Python's `sum`: `acc + part` (undefined here as soon as a part is not an integer) -/
def addTerm (acc : Option Int) (t : RTerm) : Option Int :=
  match acc, t with
  | some a, .int n => some (a + n)
  | _, _ => none

/-- Python `sum(parts)`: left fold of `+` from 0, for all-integer parts -/
def sumInts (ts : List RTerm) : Option Int := ts.foldl addTerm (some 0)

/-- registered terminating functions -/
inductive TermFn
  | overlap (k : Kind)
  | reachExit
  | bumpObstacle
  | bumpWall
  | any (l : List TermFn)
  | all (l : List TermFn)
deriving Repr, Inhabited

def termOverlap (k : Kind) (s' : State) : Except PyErr Bool :=
  match s'.grid.pyGet s'.agent.pos with
  | .error e => .error e
  | .ok o => .ok (o.isKind k)

mutual
/-- evaluation; `any`/`all` short-circuit like Python's builtins over a generator -/
def TermFn.eval : TermFn → State → Action → State → Except PyErr Bool
  | .overlap k, _, _, s' => termOverlap k s'
  | .reachExit, _, _, s' => termOverlap .exit s'
  | .bumpObstacle, _, _, s' => termOverlap .obstacle s'
  | .bumpWall, s, a, _ =>
    let np := nextPos s.agent.pos s.agent.o a
    .ok (s.grid.contains np && (s.grid.at np).isKind .wall)
  | .any l, s, a, s' => TermFn.evalAny l s a s'
  | .all l, s, a, s' => TermFn.evalAll l s a s'
def TermFn.evalAny : List TermFn → State → Action → State → Except PyErr Bool
  | [], _, _, _ => .ok false
  | f :: fs, s, a, s' =>
    match f.eval s a s' with
    | .error e => .error e
    | .ok true => .ok true
    | .ok false => TermFn.evalAny fs s a s'
def TermFn.evalAll : List TermFn → State → Action → State → Except PyErr Bool
  | [], _, _, _ => .ok true
  | f :: fs, s, a, s' =>
    match f.eval s a s' with
    | .error e => .error e
    | .ok false => .ok false
    | .ok true => TermFn.evalAll fs s a s'
end

end GV
