/-
  Model of gym_gridverse/utils/raytracing.py at the combinatorial level.  The sample positions of
  a ray (`round(y0 + i*dy), round(x0 + i*dx)`) are computed with libm and IEEE rounding in the code
  and enter here as data; what the code does with them — `takewhile(area.contains)`,
  `unique_everseen`, caching — is modelled and the result is validated by verified checkers.
-/
import GridVerse.Model.Visibility
namespace GV

/-- `mitt.unique_everseen`: keep first occurrences, in order -/
def dedupFirst : List Pos → List Pos → List Pos
  | _, [] => []
  | seen, p :: ps => if seen.contains p then dedupFirst seen ps else p :: dedupFirst (p :: seen) ps

/-- `compute_ray` on a given sample sequence -/
def rayOfSamples (a : Area) (samples : List Pos) : Ray := dedupFirst [] (samples.takeWhile a.contains)

/-- edge- or corner-adjacent, distinct -/
def adjacent (p q : Pos) : Bool :=
  decide ((p.y - q.y).natAbs ≤ 1) && decide ((p.x - q.x).natAbs ≤ 1) && p != q

def onAreaBorder (a : Area) (p : Pos) : Bool :=
  p.y == a.ymin || p.y == a.ymax || p.x == a.xmin || p.x == a.xmax

def chainB (r : Pos → Pos → Bool) : List Pos → Bool
  | [] => true
  | [_] => true
  | p :: q :: rest => r p q && chainB r (q :: rest)

def nodupB : List Pos → Bool
  | [] => true
  | p :: ps => !ps.contains p && nodupB ps

/-- executable check of one ray -/
def checkRay (a : Area) (origin : Pos) (r : Ray) : Bool :=
  r.head? == some origin && r.all a.contains && nodupB r && chainB adjacent r &&
    (match r.getLast? with | some l => onAreaBorder a l | none => false)

/-- executable check of a fan: non-empty, every ray well-formed -/
def checkFan (a : Area) (origin : Pos) (rays : List Ray) : Bool :=
  !rays.isEmpty && rays.all (checkRay a origin)

/-- the fan reaches every cell of the area -/
def coversArea (a : Area) (rays : List Ray) : Bool :=
  a.positions.all fun p => rays.any fun r => r.contains p

/-- properties of a raw sample prefix that the float computation is expected to deliver: starts at
the origin, each coordinate moves by at most one per sample and never turns back -/
def stepOK (p q : Pos) : Bool := decide ((p.y - q.y).natAbs ≤ 1) && decide ((p.x - q.x).natAbs ≤ 1)

def monoB (f : Pos → Int) (l : List Pos) : Bool :=
  chainB (fun p q => decide (f p ≤ f q)) l || chainB (fun p q => decide (f q ≤ f p)) l

def sampleOK (origin : Pos) (samples : List Pos) : Bool :=
  samples.head? == some origin && chainB stepOK samples && monoB Pos.y samples && monoB Pos.x samples

/-- an `lru_cache`-style memo table over a pure function: hit returns the stored value, miss
computes, stores and evicts the oldest entry beyond `maxsize` -/
structure Memo (K V : Type) where
  entries : List (K × V)

def Memo.query {K V} [BEq K] (f : K → V) (maxsize : Nat) (m : Memo K V) (k : K) : V × Memo K V :=
  match m.entries.lookup k with
  | some v => (v, m)
  | none => (f k, ⟨((k, f k) :: m.entries).take maxsize⟩)

def Memo.run {K V} [BEq K] (f : K → V) (maxsize : Nat) : Memo K V → List K → List V × Memo K V
  | m, [] => ([], m)
  | m, k :: ks =>
    let r := m.query f maxsize k
    let rest := Memo.run f maxsize r.2 ks
    (r.1 :: rest.1, rest.2)

end GV
