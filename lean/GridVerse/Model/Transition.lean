/-
  Model of gym_gridverse/envs/transition_functions.py (in-place mutation → state passing).
-/
import GridVerse.Model.Draw
namespace GV

/-- `move_agent` -/
def moveAgent (s : State) (a : Action) : State :=
  if a.isMove then
    let np := nextPos s.agent.pos s.agent.o a
    if s.grid.contains np then
      if (s.grid.at np).blocksMovement then s
      else { s with agent := { s.agent with pos := np } }
    else s
  else s

/-- `move_agent` as it was before the repair (`try: grid[next] except IndexError`): Python's
negative indices wrap, so a target above / left of the grid reads the opposite edge. Kept only to
state the counter-example that motivated the repair. -/
def moveAgentUnguarded (s : State) (a : Action) : State :=
  if a.isMove then
    let np := nextPos s.agent.pos s.agent.o a
    match s.grid.pyGet np with
    | .error _ => s
    | .ok obj => if obj.blocksMovement then s else { s with agent := { s.agent with pos := np } }
  else s

/-- `turn_agent`: `state.agent.orientation *= orientation` -/
def turnAgent (s : State) (a : Action) : State :=
  match a.turnOrient with
  | none => s
  | some t => { s with agent := { s.agent with o := s.agent.o.mul t } }

/-- `pickndrop` -/
def pickndrop (s : State) (a : Action) : State :=
  if a = .pickNDrop then
    let front := s.agent.front
    if s.grid.contains front then
      let objFront := s.grid.at front
      let canBeDropped := objFront.isKind .floor || objFront.holdable
      if canBeDropped then
        let put := if s.agent.held.isKind .noneObj then Obj.floor else s.agent.held
        let newHeld := if objFront.holdable then objFront else Obj.noneObj
        { grid := s.grid.setP front put, agent := { s.agent with held := newHeld } }
      else s
    else s
  else s

/-- one obstacle's turn in `move_obstacles` -/
def obstacleStep (g : Grid) (p : Pos) (d : DrawSt) : Grid × DrawSt :=
  let nexts := (manhattanBoundary p 1).filter fun q => g.contains q && (g.at q).isKind .floor
  match drawChoice nexts.length d with
  | (none, d) => (g, d)
  | (some i, d) => (g.swap p (nexts.getD i p), d)

/-- `move_obstacles`: positions collected first, then processed in row-major order -/
def moveObstacles (s : State) (d : DrawSt) : State × DrawSt :=
  let ps := s.grid.find fun o => o.isKind .obstacle
  let r := ps.foldl (fun (acc : Grid × DrawSt) p => obstacleStep acc.1 p acc.2) (s.grid, d)
  ({ s with grid := r.1 }, r.2)

/-- `actuate_door` -/
def actuateDoor (s : State) (a : Action) : State :=
  if a = .actuate then
    let front := s.agent.front
    if s.grid.contains front then
      match s.grid.at front with
      | .door st c =>
        match st with
        | .open => s
        | .closed => { s with grid := s.grid.setP front (.door .open c) }
        | .locked =>
          match s.agent.held with
          | .key kc => if kc = c then { s with grid := s.grid.setP front (.door .open c) } else s
          | _ => s
      | _ => s
    else s
  else s

/-- `actuate_box` -/
def actuateBox (s : State) (a : Action) : State :=
  if a = .actuate then
    let front := s.agent.front
    if s.grid.contains front then
      match s.grid.at front with
      | .box content => { s with grid := s.grid.setP front content }
      | _ => s
    else s
  else s

/-- destinations of `teleport`: the other telepods of the same colour, row-major -/
def teleportTargets (s : State) (c : Color) : List Pos :=
  s.grid.positions.filter fun q =>
    q != s.agent.pos && (s.grid.at q).isKind .telepod && (s.grid.at q).color == c

/-- `teleport` (the read of the agent's own cell uses Python indexing) -/
def teleport (s : State) (d : DrawSt) : Except PyErr (State × DrawSt) :=
  match s.grid.pyGet s.agent.pos with
  | .error e => .error e
  | .ok t =>
    if t.isKind .telepod then
      let ps := teleportTargets s t.color
      if ps.isEmpty then .ok (s, d) else
        match drawChoice ps.length d with
        | (none, d) => .ok (s, d)
        | (some i, d) => .ok ({ s with agent := { s.agent with pos := ps.getD i s.agent.pos } }, d)
    else .ok (s, d)

/-- the seven registered primitive transition functions -/
inductive TransAtom
  | moveAgent | turnAgent | pickndrop | moveObstacles | actuateDoor | actuateBox | teleport
deriving DecidableEq, Repr, Inhabited

def TransAtom.all : List TransAtom :=
  [.moveAgent, .turnAgent, .pickndrop, .moveObstacles, .actuateDoor, .actuateBox, .teleport]

def TransAtom.run : TransAtom → State → Action → DrawSt → Except PyErr (State × DrawSt)
  | .moveAgent, s, a, d => .ok (GV.moveAgent s a, d)
  | .turnAgent, s, a, d => .ok (GV.turnAgent s a, d)
  | .pickndrop, s, a, d => .ok (GV.pickndrop s a, d)
  | .moveObstacles, s, _, d => .ok (GV.moveObstacles s d)
  | .actuateDoor, s, a, d => .ok (GV.actuateDoor s a, d)
  | .actuateBox, s, a, d => .ok (GV.actuateBox s a, d)
  | .teleport, s, _, d => GV.teleport s d

/-- `chain(transition_functions=fs)`; nested chains flatten to the same list. -/
def runChain : List TransAtom → State → Action → DrawSt → Except PyErr (State × DrawSt)
  | [], s, _, d => .ok (s, d)
  | f :: fs, s, a, d =>
    match f.run s a d with
    | .error e => .error e
    | .ok (s', d') => runChain fs s' a d'

end GV
