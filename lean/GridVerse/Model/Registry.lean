/-
  `utils/registry.py` `FunctionRegistry.register` as a state machine: the registry is an association
  list from names to functions (`UserDict.data`, insertion-ordered), a registration attempt names a
  function, optionally another name to file it under, and whether its signature follows the registry's
  protocol (`check_signature`, modelled as its outcome).  The result is the registry afterwards together
  with the exception raised, if any — so that "a refused registration changes nothing" is a statement
  and not a convention of the encoding.
-/
namespace GV

inductive RegErr | valueError | typeError
deriving DecidableEq, Repr

structure RegAttempt (F : Type) where
  fn : F
  fnName : String            -- `function.__name__`
  asName : Option String     -- `name=` keyword
  sigOK : Bool               -- `check_signature(function)` does not raise

abbrev Registry (F : Type) := List (String × F)

def Registry.lookup {F} (r : Registry F) (n : String) : Option F :=
  match r.find? (fun p => p.1 == n) with
  | some p => some p.2
  | none => none

/-- `registry.register(function, name=…)`: signature first, then the name clash, then the write -/
def Registry.register {F} (r : Registry F) (a : RegAttempt F) : Registry F × Option RegErr :=
  if !a.sigOK then (r, some .typeError)
  else
    let n := a.asName.getD a.fnName
    if (r.lookup n).isSome then (r, some .valueError)
    else (r ++ [(n, a.fn)], none)

def Registry.registerAll {F} (r : Registry F) : List (RegAttempt F) → Registry F
  | [] => r
  | a :: as => Registry.registerAll (r.register a).1 as

end GV
