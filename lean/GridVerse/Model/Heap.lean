/-
  Layer H: a reference-level model of states, for the purity / alias-freedom property (C03).
  Immutable Lean values make "does not modify its argument" vacuous, so here Python's mutable
  nodes have identities: the outer list of a grid, each row list, each GridObject instance (a Door's
  status and a Box's content are mutable fields), the agent and its Transform.  The seven transition
  functions are transcribed statement by statement as heap updates; `fast_copy` (pickle round trip)
  allocates a fresh node for everything reachable; `from_visibility` builds fresh lists over the
  *same* cell objects.  Every write is logged (ghost field `writes`).
-/
import GridVerse.Model.Transition
import GridVerse.Model.Visibility
namespace GV

abbrev Ref := Nat

/-- a GridObject instance; `content` is meaningful for boxes only -/
structure HObj where
  obj : Obj          -- kind / status / colour (content ignored: see `content`)
  content : Option Ref
deriving Inhabited, DecidableEq

/-- the heap: typed maps from references to node contents, the allocation pointer, the write log -/
structure Heap where
  next : Nat
  rowsOf : Ref → List Ref           -- outer list (`grid.objects`): its row lists
  cellsOf : Ref → List Ref          -- a row list: its GridObject references
  objOf : Ref → HObj                -- a GridObject instance
  tfOf : Ref → Transform            -- a Transform (position, orientation)
  agentOf : Ref → Ref × Ref         -- an Agent: (transform, held object)
  writes : List Ref                 -- ghost: every reference assigned through so far

/-- a state as the Python objects that make it up -/
structure HState where
  outer : Ref
  agent : Ref
  h : Nat
  w : Nat
deriving DecidableEq, Repr, Inhabited

def Heap.setCells (hp : Heap) (r : Ref) (cs : List Ref) : Heap :=
  { hp with cellsOf := fun x => if x = r then cs else hp.cellsOf x, writes := r :: hp.writes }
def Heap.setRows (hp : Heap) (r : Ref) (rs : List Ref) : Heap :=
  { hp with rowsOf := fun x => if x = r then rs else hp.rowsOf x, writes := r :: hp.writes }
def Heap.setObj (hp : Heap) (r : Ref) (o : HObj) : Heap :=
  { hp with objOf := fun x => if x = r then o else hp.objOf x, writes := r :: hp.writes }
def Heap.setTf (hp : Heap) (r : Ref) (t : Transform) : Heap :=
  { hp with tfOf := fun x => if x = r then t else hp.tfOf x, writes := r :: hp.writes }
def Heap.setAgent (hp : Heap) (r : Ref) (a : Ref × Ref) : Heap :=
  { hp with agentOf := fun x => if x = r then a else hp.agentOf x, writes := r :: hp.writes }

/-- constructing a new node allocates and initialises it (not an assignment to an existing
object): no log entry -/
def Heap.newObj (hp : Heap) (o : HObj) : Ref × Heap :=
  (hp.next, { hp with next := hp.next + 1, objOf := fun x => if x = hp.next then o else hp.objOf x })
def Heap.newCells (hp : Heap) (cs : List Ref) : Ref × Heap :=
  (hp.next, { hp with next := hp.next + 1, cellsOf := fun x => if x = hp.next then cs else hp.cellsOf x })
def Heap.newRows (hp : Heap) (rs : List Ref) : Ref × Heap :=
  (hp.next, { hp with next := hp.next + 1, rowsOf := fun x => if x = hp.next then rs else hp.rowsOf x })
def Heap.newTf (hp : Heap) (t : Transform) : Ref × Heap :=
  (hp.next, { hp with next := hp.next + 1, tfOf := fun x => if x = hp.next then t else hp.tfOf x })
def Heap.newAgent (hp : Heap) (a : Ref × Ref) : Ref × Heap :=
  (hp.next, { hp with next := hp.next + 1, agentOf := fun x => if x = hp.next then a else hp.agentOf x })

/-! ### reading a state back (abstraction to the pure layer) -/

/-- the pure object behind a reference (`fuel` bounds box nesting) -/
def Heap.absObj (hp : Heap) : Nat → Ref → Obj
  | 0, r => (hp.objOf r).obj
  | fuel + 1, r =>
    match (hp.objOf r).obj, (hp.objOf r).content with
    | .box _, some c => .box (hp.absObj fuel c)
    | o, _ => o

def boxFuel : Nat := 8

def Heap.absGrid (hp : Heap) (s : HState) : Grid :=
  ⟨s.h, s.w, (hp.rowsOf s.outer).map fun row => (hp.cellsOf row).map (hp.absObj boxFuel)⟩

def Heap.absAgent (hp : Heap) (s : HState) : Agent :=
  let (tf, held) := hp.agentOf s.agent
  ⟨(hp.tfOf tf).pos, (hp.tfOf tf).o, hp.absObj boxFuel held⟩

def Heap.abs (hp : Heap) (s : HState) : State := ⟨hp.absGrid s, hp.absAgent s⟩

/-! ### `grid[pos]` / `grid[pos] = obj` on the heap (positions inside the grid) -/

def Heap.cellRef (hp : Heap) (s : HState) (p : Pos) : Ref :=
  ((hp.cellsOf ((hp.rowsOf s.outer).getD p.y.toNat 0)).getD p.x.toNat 0)

def Heap.assignCell (hp : Heap) (s : HState) (p : Pos) (r : Ref) : Heap :=
  let row := (hp.rowsOf s.outer).getD p.y.toNat 0
  hp.setCells row ((hp.cellsOf row).set p.x.toNat r)

def HState.contains (s : HState) (p : Pos) : Bool :=
  decide (0 ≤ p.y) && decide (p.y < s.h) && decide (0 ≤ p.x) && decide (p.x < s.w)

def Heap.pos (hp : Heap) (s : HState) : Pos := (hp.tfOf (hp.agentOf s.agent).1).pos
def Heap.orient (hp : Heap) (s : HState) : Orient := (hp.tfOf (hp.agentOf s.agent).1).o
def Heap.heldRef (hp : Heap) (s : HState) : Ref := (hp.agentOf s.agent).2
def Heap.front (hp : Heap) (s : HState) : Pos :=
  Transform.act ⟨hp.pos s, hp.orient s⟩ (Pos.ofOrient .F)

/-! ### the in-place transition functions -/

/-- `state.agent.position = p`: the setter assigns `self.transform.position` -/
def Heap.setPos (hp : Heap) (s : HState) (p : Pos) : Heap :=
  let tf := (hp.agentOf s.agent).1
  hp.setTf tf { hp.tfOf tf with pos := p }

def hMoveAgent (hp : Heap) (s : HState) (a : Action) : Heap :=
  if a.isMove then
    let np := nextPos (hp.pos s) (hp.orient s) a
    if s.contains np then
      if (hp.objOf (hp.cellRef s np)).obj.blocksMovement then hp else hp.setPos s np
    else hp
  else hp

def hTurnAgent (hp : Heap) (s : HState) (a : Action) : Heap :=
  match a.turnOrient with
  | none => hp
  | some t =>
    let tf := (hp.agentOf s.agent).1
    hp.setTf tf { hp.tfOf tf with o := (hp.tfOf tf).o.mul t }

def hPickndrop (hp : Heap) (s : HState) (a : Action) : Heap :=
  if a = .pickNDrop then
    let front := hp.front s
    if s.contains front then
      let objFront := hp.cellRef s front
      let of := (hp.objOf objFront).obj
      if of.isKind .floor || of.holdable then
        let held := hp.heldRef s
        -- what goes on the front cell: the held object, or a new Floor()
        let put := if (hp.objOf held).obj.isKind .noneObj then hp.newObj ⟨.floor, none⟩ else (held, hp)
        let hp1 := put.2.assignCell s front put.1
        -- what goes in the hand: the object in front, or a new NoneGridObject()
        let nh := if of.holdable then (objFront, hp1) else hp1.newObj ⟨.noneObj, none⟩
        nh.2.setAgent s.agent ((nh.2.agentOf s.agent).1, nh.1)
      else hp
    else hp
  else hp

/-- all positions whose cell satisfies a predicate, row-major -/
def Heap.findCells (hp : Heap) (s : HState) (p : Obj → Bool) : List Pos :=
  ((List.range s.h).flatMap fun (i : Nat) => (List.range s.w).map fun (j : Nat) => (⟨(i : Int), (j : Int)⟩ : Pos)).filter
    fun q => p (hp.objOf (hp.cellRef s q)).obj

/-- `grid.swap(p, q)`: two reads, two assignments -/
def Heap.swapCells (hp : Heap) (s : HState) (p q : Pos) : Heap :=
  let a := hp.cellRef s p
  let b := hp.cellRef s q
  (hp.assignCell s p b).assignCell s q a

def hObstacleStep (s : HState) (hp : Heap) (p : Pos) (d : DrawSt) : Heap × DrawSt :=
  let nexts := (manhattanBoundary p 1).filter fun q => s.contains q && (hp.objOf (hp.cellRef s q)).obj.isKind .floor
  match drawChoice nexts.length d with
  | (none, d) => (hp, d)
  | (some i, d) => (hp.swapCells s p (nexts.getD i p), d)

def hMoveObstacles (hp : Heap) (s : HState) (d : DrawSt) : Heap × DrawSt :=
  let ps := hp.findCells s fun o => o.isKind .obstacle
  ps.foldl (fun (acc : Heap × DrawSt) p => hObstacleStep s acc.1 p acc.2) (hp, d)

/-- `door.state = Door.Status.OPEN`: assignment to a field of the door object in the grid -/
def hActuateDoor (hp : Heap) (s : HState) (a : Action) : Heap :=
  if a = .actuate then
    let front := hp.front s
    if s.contains front then
      let dr := hp.cellRef s front
      match (hp.objOf dr).obj with
      | .door st c =>
        match st with
        | .open => hp
        | .closed => hp.setObj dr { hp.objOf dr with obj := .door .open c }
        | .locked =>
          match (hp.objOf (hp.heldRef s)).obj with
          | .key kc => if kc = c then hp.setObj dr { hp.objOf dr with obj := .door .open c } else hp
          | _ => hp
      | _ => hp
    else hp
  else hp

/-- `state.grid[position] = box.content` -/
def hActuateBox (hp : Heap) (s : HState) (a : Action) : Heap :=
  if a = .actuate then
    let front := hp.front s
    if s.contains front then
      let br := hp.cellRef s front
      match (hp.objOf br).obj, (hp.objOf br).content with
      | .box _, some c => hp.assignCell s front c
      | _, _ => hp
    else hp
  else hp

def hTeleport (hp : Heap) (s : HState) (d : DrawSt) : Heap × DrawSt :=
  let here := (hp.objOf (hp.cellRef s (hp.pos s))).obj
  if here.isKind .telepod then
    let ps := (hp.findCells s fun o => o.isKind .telepod && o.color == here.color).filter fun q => q != hp.pos s
    if ps.isEmpty then (hp, d) else
      match drawChoice ps.length d with
      | (none, d) => (hp, d)
      | (some i, d) => (hp.setPos s (ps.getD i (hp.pos s)), d)
  else (hp, d)

def hRunAtom (f : TransAtom) (hp : Heap) (s : HState) (a : Action) (d : DrawSt) : Heap × DrawSt :=
  match f with
  | .moveAgent => (hMoveAgent hp s a, d)
  | .turnAgent => (hTurnAgent hp s a, d)
  | .pickndrop => (hPickndrop hp s a, d)
  | .moveObstacles => hMoveObstacles hp s d
  | .actuateDoor => (hActuateDoor hp s a, d)
  | .actuateBox => (hActuateBox hp s a, d)
  | .teleport => hTeleport hp s d

def hRunChain : List TransAtom → Heap → HState → Action → DrawSt → Heap × DrawSt
  | [], hp, _, _, d => (hp, d)
  | f :: fs, hp, s, a, d =>
    let r := hRunAtom f hp s a d
    hRunChain fs r.1 s a r.2

/-! ### `fast_copy`: `pickle.loads(pickle.dumps(state))`
`dumps` reads the state into a value (here: the pure `State` it denotes, `Heap.abs`); `loads`
allocates a fresh node for every part of that value. -/

/-- unpickle one object (a box's content first) -/
def Heap.loadObj (hp : Heap) : Obj → Ref × Heap
  | .box c =>
    let c' := hp.loadObj c
    c'.2.newObj ⟨.box c, some c'.1⟩
  | o => hp.newObj ⟨o, none⟩

def Heap.loadList {α : Type} (hp : Heap) (load : Heap → α → Ref × Heap) : List α → List Ref × Heap
  | [] => ([], hp)
  | x :: xs =>
    let r := load hp x
    let rs := r.2.loadList load xs
    (r.1 :: rs.1, rs.2)

def Heap.loadRow (hp : Heap) (row : List Obj) : Ref × Heap :=
  let r := hp.loadList Heap.loadObj row
  r.2.newCells r.1

/-- unpickle a state -/
def Heap.load (hp : Heap) (st : State) : HState × Heap :=
  let rows := hp.loadList Heap.loadRow st.grid.cells
  let outer := rows.2.newRows rows.1
  let tf := outer.2.newTf ⟨st.agent.pos, st.agent.o⟩
  let held := tf.2.loadObj st.agent.held
  let ag := held.2.newAgent (tf.1, held.1)
  (⟨outer.1, ag.1, st.grid.h, st.grid.w⟩, ag.2)

def Heap.fastCopy (hp : Heap) (s : HState) : HState × Heap := hp.load (hp.abs s)

/-- `transition_with_copy` as used by `functional_step` -/
def hFunctionalStep (fs : List TransAtom) (hp : Heap) (s : HState) (a : Action) (d : DrawSt) :
    HState × Heap × DrawSt :=
  let c := hp.fastCopy s
  let r := hRunChain fs c.2 c.1 a d
  (c.1, r.1, r.2)

/-! ### `from_visibility` on the heap: fresh lists over the same cell objects -/

/-- build a fresh grid (outer list + row lists) from an index function giving, per cell, either an
existing object reference or the request for a new `Hidden()` -/
def Heap.buildRow (hp : Heap) : List (Option Ref) → List Ref × Heap
  | [] => ([], hp)
  | some r :: rest =>
    let rs := hp.buildRow rest
    (r :: rs.1, rs.2)
  | none :: rest =>
    let r := hp.newObj ⟨.hidden, none⟩
    let rs := r.2.buildRow rest
    (r.1 :: rs.1, rs.2)

def Heap.buildRows (hp : Heap) : List (List (Option Ref)) → List Ref × Heap
  | [] => ([], hp)
  | row :: rest =>
    let cs := hp.buildRow row
    let r := cs.2.newCells cs.1
    let rs := r.2.buildRows rest
    (r.1 :: rs.1, rs.2)

/-- `observation_grid[pos] = Hidden()` for every cell the mask hides: assignments into the (fresh)
row lists of the observation grid -/
def Heap.hideCells (hp : Heap) (o : HState) (m : Mask) : List Pos → Heap
  | [] => hp
  | p :: ps =>
    if m p then hp.hideCells o m ps
    else
      let r := hp.newObj ⟨.hidden, none⟩
      (r.2.assignCell o p r.1).hideCells o m ps

/-- the observation: `subgrid` + rotation build new lists whose in-grid cells *are* the state's
objects (new `Hidden()` outside the grid); the mask then overwrites hidden cells of the new lists;
a new Agent with a new Transform holds the state's held object -/
def hFromVisibility (hp : Heap) (s : HState) (a : Area) (m : Mask) : HState × Heap :=
  let t : Transform := ⟨hp.pos s, hp.orient s⟩
  let cells : List (List (Option Ref)) :=
    (List.range a.height).map fun (i : Nat) => (List.range a.width).map fun (j : Nat) =>
      let wp := t.act ⟨a.ymin + i, a.xmin + j⟩
      if s.contains wp then some (hp.cellRef s wp) else none
  let rows := hp.buildRows cells
  let outer := rows.2.newRows rows.1
  let tf := outer.2.newTf ⟨povPos a, .F⟩
  let ag := tf.2.newAgent (tf.1, hp.heldRef s)
  let o : HState := ⟨outer.1, ag.1, a.height, a.width⟩
  let ps := (List.range a.height).flatMap fun (i : Nat) => (List.range a.width).map fun (j : Nat) =>
    (⟨(i : Int), (j : Int)⟩ : Pos)
  (o, ag.2.hideCells o m ps)

/-- the empty heap -/
def Heap.empty : Heap := ⟨0, fun _ => [], fun _ => [], fun _ => default, fun _ => default, fun _ => (0, 0), []⟩

/-! ### naming nodes (for the identity-level correspondence with the code) -/

inductive NodeKind | outer | row | obj | tf | agent
deriving DecidableEq

/-- an object and its content chain: `(ref, name)`, `(content, name.1)`, … -/
def Heap.objChain (hp : Heap) : Nat → Ref → String → List (Ref × String × NodeKind)
  | 0, r, nm => [(r, nm, .obj)]
  | fuel + 1, r, nm =>
    (r, nm, .obj) :: match (hp.objOf r).content with
      | some c => hp.objChain fuel c (nm ++ ".1")
      | none => []

/-- every node of `s` with its name: `o`, `r<i>`, `c<i>,<j>` (`.1` per box level), `a`, `t`, `h` -/
def Heap.nodeNames (hp : Heap) (s : HState) : List (Ref × String × NodeKind) :=
  let rows := hp.rowsOf s.outer
  let rowNodes := rows.zipIdx.map fun (r, i) => (r, s!"r{i}", NodeKind.row)
  let cellNodes := rows.zipIdx.flatMap fun (r, i) =>
    (hp.cellsOf r).zipIdx.flatMap fun (c, j) => hp.objChain boxFuel c s!"c{i},{j}"
  let ag := hp.agentOf s.agent
  [(s.outer, "o", .outer)] ++ rowNodes ++ cellNodes ++ [(s.agent, "a", .agent), (ag.1, "t", .tf)]
    ++ hp.objChain boxFuel ag.2 "h"

/-- has the content of node `r` changed between two heaps? -/
def nodeChanged (h h' : Heap) (r : Ref) : NodeKind → Bool
  | .outer => h.rowsOf r != h'.rowsOf r
  | .row => h.cellsOf r != h'.cellsOf r
  | .obj => decide (h.objOf r ≠ h'.objOf r)
  | .tf => decide (h.tfOf r ≠ h'.tfOf r)
  | .agent => h.agentOf r != h'.agentOf r

def nameOf (names : List (Ref × String × NodeKind)) (r : Ref) : String :=
  match names.find? (fun e => e.1 == r) with
  | some e => e.2.1
  | none => "n"

end GV
