/-
  Model of gym_gridverse/envs/reset_functions.py and design.py: the eight layout generators, with
  the generator calls in the order the code makes them.

  `np.linspace(0, n - 1, num = L + 1, dtype = int)` is *not* `⌊k (n-1) / L⌋` in all cases, so the
  split vectors of `rooms` / `memory_rooms` are parameters (`ys`, `xs`): the harness passes numpy's
  actual values, the theorems hold for every vector satisfying `SplitsOK`.
-/
import GridVerse.Model.Draw
namespace GV

/-- `grid[pos] = obj` during drawing: `IndexError` outside the grid -/
def Grid.setE (g : Grid) (p : Pos) (o : Obj) : Except PyErr Grid :=
  if g.contains p then .ok (g.setP p o) else .error .indexError

/-- assign `o` to every position in order -/
def drawAll (g : Grid) (ps : List Pos) (o : Obj) : Except PyErr Grid :=
  ps.foldlM (fun g p => g.setE p o) g

/-- `[Position(y, x) for y in ys for x in xs]` -/
def cartesian (ys xs : List Int) : List Pos := ys.flatMap fun y => xs.map fun x => (⟨y, x⟩ : Pos)

/-- Python `range(a, b)` -/
def pyRange (a b : Int) : List Int := intRange a (b - 1)

/-- Python `range(a, b, 2)` -/
def pyRange2 (a b : Int) : List Int :=
  (List.range ((b - a + 1) / 2).toNat).map fun (k : Nat) => a + 2 * (k : Int)

/-- floor positions in row-major order -/
def floorPositions (g : Grid) : List Pos := g.find fun o => o.isKind .floor

structure Shape where
  h : Int
  w : Int
deriving DecidableEq, Repr, Inhabited

def orientList : List Orient := [.F, .B, .L, .R]

/-- where `empty` puts the exit -/
def emptyExit (g1 : Grid) (sh : Shape) (randomAgent randomExit : Bool) (d : DrawSt) :
    Except PyErr (Pos × DrawSt) :=
  if randomExit then
    let cands := g1.area.insidePositions.filter fun p => randomAgent || p != (⟨1, 1⟩ : Pos)
    match drawChoice cands.length d with
    | (none, _) => .error .valueError
    | (some i, d) => .ok (cands.getD i ⟨1, 1⟩, d)
  else .ok (⟨sh.h - 2, sh.w - 2⟩, d)

/-- where `empty` puts the agent -/
def emptyAgent (g2 : Grid) (randomAgent : Bool) (d : DrawSt) : Except PyErr (Agent × DrawSt) :=
  if randomAgent then
    let ps := floorPositions g2
    match drawChoice ps.length d with
    | (none, _) => .error .valueError
    | (some i, d) =>
      match drawChoice 4 d with
      | (none, _) => .error .valueError
      | (some k, d) => .ok (⟨ps.getD i ⟨1, 1⟩, orientList.getD k .F, .noneObj⟩, d)
  else .ok (⟨⟨1, 1⟩, .R, .noneObj⟩, d)

/-- `empty(shape, random_agent, random_exit)` -/
def resetEmpty (sh : Shape) (randomAgent randomExit : Bool) (d : DrawSt) : Except PyErr (State × DrawSt) :=
  if sh.h < 4 || sh.w < 4 then .error .valueError else
  let g0 := Grid.fill sh.h.toNat sh.w.toNat .floor
  match drawAll g0 g0.area.borderPositions .wall with
  | .error e => .error e
  | .ok g1 =>
    match emptyExit g1 sh randomAgent randomExit d with
    | .error e => .error e
    | .ok (ep, d) =>
      match g1.setE ep (.exit .none) with
      | .error e => .error e
      | .ok g2 =>
        match emptyAgent g2 randomAgent d with
        | .error e => .error e
        | .ok (ag, d) => .ok (⟨g2, ag⟩, d)

/-- consecutive pairs (`mitt.pairwise`) -/
def pairwise {α} : List α → List (α × α)
  | a :: b :: rest => (a, b) :: pairwise (b :: rest)
  | _ => []

/-- `np.any(np.diff(l) < 2)`: two consecutive split lines leave no room interior between them -/
def tooClose : List Int → Bool
  | a :: b :: rest => decide (b - a < 2) || tooClose (b :: rest)
  | _ => false

def listMin (l : List Int) : Int := l.foldl min (l.headD 0)
def listMax (l : List Int) : Int := l.foldl max (l.headD 0)

/-- `draw_room_grid(grid, ys, xs, Wall)` -/
def drawRoomGrid (g : Grid) (ys xs : List Int) : Except PyErr Grid :=
  let yRange := intRange (listMin ys) (listMax ys)
  let xRange := intRange (listMin xs) (listMax xs)
  match drawAll g (cartesian ys xRange) .wall with
  | .error e => .error e
  | .ok g1 =>
    let ysRem := yRange.filter fun y => !ys.contains y
    drawAll g1 (cartesian ysRem xs) .wall

/-- one passage: `x = rng.integers(lo + 1, hi); grid[...] = Floor()` -/
def passage (mk : Int → Pos) (lo hi : Int) (acc : Grid × DrawSt) : Except PyErr (Grid × DrawSt) :=
  match drawIntegers (lo + 1) hi acc.2 with
  | (none, _) => .error .valueError
  | (some v, d) =>
    match acc.1.setE (mk v) .floor with
    | .error e => .error e
    | .ok g => .ok (g, d)

/-- the two passage loops shared by `rooms` and `memory_rooms` -/
def drawPassages (g : Grid) (ys xs : List Int) (d : DrawSt) : Except PyErr (Grid × DrawSt) :=
  let inner (l : List Int) : List Int := (l.drop 1).dropLast
  let horiz : List (Int × (Int × Int)) := (inner ys).flatMap fun y => (pairwise xs).map fun pr => (y, pr)
  let vert : List ((Int × Int) × Int) := (pairwise ys).flatMap fun pr => (inner xs).map fun x => (pr, x)
  match horiz.foldlM (fun acc (t : Int × (Int × Int)) => passage (fun v => ⟨t.1, v⟩) t.2.1 t.2.2 acc) (g, d) with
  | .error e => .error e
  | .ok acc => vert.foldlM (fun acc (t : (Int × Int) × Int) => passage (fun v => ⟨v, t.2⟩) t.1.1 t.1.2 acc) acc

/-- the validated room grid with passages, shared by `rooms` and `memory_rooms` -/
def roomsGrid (sh : Shape) (lh lw : Int) (ys xs : List Int) (d : DrawSt) : Except PyErr (Grid × DrawSt) :=
  if lh < 1 || lw < 1 then .error .valueError else
  if tooClose ys then .error .valueError else
  if tooClose xs then .error .valueError else
  let g0 := Grid.fill sh.h.toNat sh.w.toNat .floor
  match drawRoomGrid g0 ys xs with
  | .error e => .error e
  | .ok g1 => drawPassages g1 ys xs d

/-- `rooms(shape, layout)` with the numpy split vectors as inputs -/
def resetRooms (sh : Shape) (lh lw : Int) (ys xs : List Int) (d : DrawSt) : Except PyErr (State × DrawSt) :=
  match roomsGrid sh lh lw ys xs d with
  | .error e => .error e
  | .ok (g, d) =>
    let ps := floorPositions g
    match drawChoiceNR ps.length 2 d with
    | (none, _) => .error .valueError
    | (some idx, d) =>
      let ap := ps.getD (idx.getD 0 0) ⟨0, 0⟩
      let ep := ps.getD (idx.getD 1 0) ⟨0, 0⟩
      match drawChoice 4 d with
      | (none, _) => .error .valueError
      | (some k, d) =>
        match g.setE ep (.exit .none) with
        | .error e => .error e
        | .ok g' => .ok (⟨g', ⟨ap, orientList.getD k .F, .noneObj⟩⟩, d)

/-- `dynamic_obstacles(shape, num_obstacles, random_agent)` -/
def resetDynamicObstacles (sh : Shape) (n : Int) (randomAgent : Bool) (d : DrawSt) :
    Except PyErr (State × DrawSt) :=
  match resetEmpty sh randomAgent false d with
  | .error e => .error e
  | .ok (s, d) =>
    let vac := (floorPositions s.grid).filter fun p => p != s.agent.pos
    if n < 0 then .error .valueError else
    match drawChoiceNR vac.length n.toNat d with
    | (none, _) => .error .valueError
    | (some idx, d) =>
      match drawAll s.grid (idx.map fun i => vac.getD i ⟨0, 0⟩) .obstacle with
      | .error e => .error e
      | .ok g => .ok ({ s with grid := g }, d)

/-- `keydoor(shape)` -/
def resetKeydoor (sh : Shape) (d : DrawSt) : Except PyErr (State × DrawSt) :=
  if sh.h < 3 || sh.w < 5 || (sh.h == 3 && sh.w == 5) then .error .valueError else
  match resetEmpty sh false false ⟨[], []⟩ with
  | .error e => .error e
  | .ok (s, _) =>
    match drawIntegers 2 (sh.w - 2) d with
    | (none, _) => .error .valueError
    | (some xWall, d) =>
      let line := (pyRange 1 (sh.h - 1)).map fun y => (⟨y, xWall⟩ : Pos)
      match drawAll s.grid line .wall with
      | .error e => .error e
      | .ok g1 =>
        match drawChoice line.length d with
        | (none, _) => .error .valueError
        | (some i, d) =>
          match g1.setE (line.getD i ⟨0, 0⟩) (.door .locked .yellow) with
          | .error e => .error e
          | .ok g2 =>
            match drawIntegers 1 (sh.h - 1) d with
            | (none, _) => .error .valueError
            | (some yKey, d) =>
              match drawIntegers 1 xWall d with
              | (none, _) => .error .valueError
              | (some xKey, d) =>
                match g2.setE ⟨yKey, xKey⟩ (.key .yellow) with
                | .error e => .error e
                | .ok g3 =>
                  match drawIntegers 1 (sh.h - 1) d with
                  | (none, _) => .error .valueError
                  | (some yA, d) =>
                    match drawIntegers 1 xWall d with
                    | (none, _) => .error .valueError
                    | (some xA, d) =>
                      match drawChoice 4 d with
                      | (none, _) => .error .valueError
                      | (some k, d) => .ok (⟨g3, ⟨⟨yA, xA⟩, orientList.getD k .F, .noneObj⟩⟩, d)

/-- insertion sort (the code's `sorted`) -/
def insertSorted (x : Int) : List Int → List Int
  | [] => [x]
  | y :: ys => if x ≤ y then x :: y :: ys else y :: insertSorted x ys
def sortInts (l : List Int) : List Int := l.foldr insertSorted []

/-- the loop that opens one crossing per river along the sampled path; `true` = horizontal step -/
def crossingPath (limH limV : List Int) : List Bool → Nat → Nat → Grid × DrawSt → Except PyErr (Grid × DrawSt)
  | [], _, _, acc => .ok acc
  | stepH :: rest, ri, rj, acc =>
    if stepH then
      match drawIntegers (limH.getD ri 0 + 1) (limH.getD (ri + 1) 0) acc.2 with
      | (none, _) => .error .valueError
      | (some i, d) =>
        match acc.1.setE ⟨i, limV.getD (rj + 1) 0⟩ .floor with
        | .error e => .error e
        | .ok g => crossingPath limH limV rest ri (rj + 1) (g, d)
    else
      match drawIntegers (limV.getD rj 0 + 1) (limV.getD (rj + 1) 0) acc.2 with
      | (none, _) => .error .valueError
      | (some j, d) =>
        match acc.1.setE ⟨limH.getD (ri + 1) 0, j⟩ .floor with
        | .error e => .error e
        | .ok g => crossingPath limH limV rest (ri + 1) rj (g, d)

/-- `crossing(shape, num_rivers, object_type)` -/
def resetCrossing (sh : Shape) (numRivers : Int) (k : Kind) (d : DrawSt) : Except PyErr (State × DrawSt) :=
  if sh.h < 5 || sh.h % 2 == 0 then .error .valueError else
  if sh.w < 5 || sh.w % 2 == 0 then .error .valueError else
  if numRivers ≤ 0 then .error .valueError else
  match resetEmpty sh false false ⟨[], []⟩ with
  | .error e => .error e
  | .ok (s, _) =>
    -- (isHorizontal, coordinate)
    let rivers : List (Bool × Int) :=
      ((pyRange2 2 (sh.h - 2)).map fun i => (true, i)) ++ ((pyRange2 2 (sh.w - 2)).map fun j => (false, j))
    let (perm, d) := drawShuffle rivers.length d
    let chosen := (perm.map fun i => rivers.getD i (true, 0)).take numRivers.toNat
    let riversH := sortInts ((chosen.filter fun r => r.1).map fun r => r.2)
    let riversV := sortInts ((chosen.filter fun r => !r.1).map fun r => r.2)
    match k.default? with
    | none => .error .typeError
    | some obj =>
      match drawAll s.grid (cartesian riversH (pyRange 1 (sh.w - 1))) obj with
      | .error e => .error e
      | .ok g1 =>
        match drawAll g1 (cartesian (pyRange 1 (sh.h - 1)) riversV) obj with
        | .error e => .error e
        | .ok g2 =>
          let path0 := (riversV.map fun _ => true) ++ (riversH.map fun _ => false)
          let (perm2, d) := drawShuffle path0.length d
          let path := perm2.map fun i => path0.getD i true
          let limH := [0] ++ riversH ++ [sh.h - 1]
          let limV := [0] ++ riversV ++ [sh.w - 1]
          match crossingPath limH limV path 0 0 (g2, d) with
          | .error e => .error e
          | .ok (g3, d) => .ok (⟨g3, ⟨⟨1, 1⟩, .R, .noneObj⟩⟩, d)

/-- `teleport(shape)` -/
def resetTeleport (sh : Shape) (d : DrawSt) : Except PyErr (State × DrawSt) :=
  match resetEmpty sh false false ⟨[], []⟩ with
  | .error e => .error e
  | .ok (s, _) =>
    match drawChoice 2 d with
    | (none, _) => .error .valueError
    | (some _, d) =>
      let ps := (floorPositions s.grid).filter fun p => p != (⟨1, 1⟩ : Pos)
      match drawChoiceNR ps.length 2 d with
      | (none, _) => .error .valueError
      | (some idx, d) =>
        match drawAll s.grid (idx.map fun i => ps.getD i ⟨0, 0⟩) (.telepod .red) with
        | .error e => .error e
        | .ok g =>
          match drawChoice 2 d with
          | (none, _) => .error .valueError
          | (some k, d) => .ok (⟨g, ⟨⟨1, 1⟩, [Orient.R, Orient.B].getD k .R, .noneObj⟩⟩, d)

/-- the cells `memory` turns into floor: rows 1 and h-2 between the corners, the middle column -/
def memoryFloorCells (sh : Shape) : List Pos :=
  cartesian [1] (pyRange 2 (sh.w - 2)) ++ cartesian [sh.h - 2] (pyRange 2 (sh.w - 2)) ++
    cartesian (pyRange 2 (sh.h - 2)) [sh.w / 2]

/-- `memory(shape, colors)`; `colors` is the colour set sorted by value -/
def resetMemory (sh : Shape) (colors : List Color) (d : DrawSt) : Except PyErr (State × DrawSt) :=
  if sh.h < 5 then .error .valueError else
  if sh.w < 5 || sh.w % 2 == 0 then .error .valueError else
  if colors.contains .none then .error .valueError else
  if colors.length < 2 then .error .valueError else
  let g0 := Grid.fill sh.h.toNat sh.w.toNat .wall
  match drawAll g0 (memoryFloorCells sh) .floor with
  | .error e => .error e
  | .ok g1 =>
    match drawChoiceNR colors.length 2 d with
    | (none, _) => .error .valueError
    | (some ci, d) =>
      let good := colors.getD (ci.getD 0 0) .none
      let bad := colors.getD (ci.getD 1 0) .none
      match drawChoiceNR 2 2 d with
      | (none, _) => .error .valueError
      | (some xi, d) =>
        let xs : List Int := [1, sh.w - 2]
        let xGood := xs.getD (xi.getD 0 0) 1
        let xBad := xs.getD (xi.getD 1 0) 1
        match g1.setE ⟨1, xGood⟩ (.exit good) with
        | .error e => .error e
        | .ok g2 =>
          match g2.setE ⟨1, xBad⟩ (.exit bad) with
          | .error e => .error e
          | .ok g3 =>
            match g3.setE ⟨sh.h - 2, 1⟩ (.beacon good) with
            | .error e => .error e
            | .ok g4 =>
              match g4.setE ⟨sh.h - 2, sh.w - 2⟩ (.beacon good) with
              | .error e => .error e
              | .ok g5 => .ok (⟨g5, ⟨⟨sh.h / 2, sh.w / 2⟩, .F, .noneObj⟩⟩, d)

/-- place one object per (position, object) pair, in order -/
def placeAll (g : Grid) : List (Pos × Obj) → Except PyErr Grid
  | [] => .ok g
  | (p, o) :: rest =>
    match g.setE p o with
    | .error e => .error e
    | .ok g' => placeAll g' rest

/-- `memory_rooms(shape, layout, colors, num_beacons, num_exits)` -/
def resetMemoryRooms (sh : Shape) (lh lw : Int) (ys xs : List Int) (colors : List Color)
    (numBeacons numExits : Int) (d : DrawSt) : Except PyErr (State × DrawSt) :=
  if colors.contains .none then .error .valueError else
  if colors.length < 2 then .error .valueError else
  if numBeacons < 1 then .error .valueError else
  if numExits < 2 then .error .valueError else
  match roomsGrid sh lh lw ys xs d with
  | .error e => .error e
  | .ok (g, d) =>
    let ps := floorPositions g
    let nb := numBeacons.toNat
    let ne := numExits.toNat
    match drawChoiceNR ps.length (1 + nb + ne) d with
    | (none, _) => .error .valueError
    | (some idx, d) =>
      let chosen := idx.map fun i => ps.getD i ⟨0, 0⟩
      match drawChoice 4 d with
      | (none, _) => .error .valueError
      | (some k, d) =>
        match drawChoiceNR colors.length ne d with
        | (none, _) => .error .valueError
        | (some ci, d) =>
          let sample := ci.map fun i => colors.getD i .none
          let good := sample.headD .none
          let beacons := ((chosen.drop 1).take nb).map fun p => (p, Obj.beacon good)
          let exits := ((chosen.drop (1 + nb)).zip sample).map fun pc => (pc.1, Obj.exit pc.2)
          match placeAll g (beacons ++ exits) with
          | .error e => .error e
          | .ok g' => .ok (⟨g', ⟨chosen.headD ⟨0, 0⟩, orientList.getD k .F, .noneObj⟩⟩, d)

end GV

namespace GV

/-- a registered reset function with its parameters (split vectors as explained above) -/
inductive ResetSpec
  | empty (sh : Shape) (randomAgent randomExit : Bool)
  | rooms (sh : Shape) (lh lw : Int) (ys xs : List Int)
  | dynamicObstacles (sh : Shape) (n : Int) (randomAgent : Bool)
  | keydoor (sh : Shape)
  | crossing (sh : Shape) (numRivers : Int) (k : Kind)
  | teleport (sh : Shape)
  | memory (sh : Shape) (colors : List Color)
  | memoryRooms (sh : Shape) (lh lw : Int) (ys xs : List Int) (colors : List Color) (nb ne : Int)
deriving Repr, Inhabited

def ResetSpec.run : ResetSpec → DrawSt → Except PyErr (State × DrawSt)
  | .empty sh ra re, d => resetEmpty sh ra re d
  | .rooms sh lh lw ys xs, d => resetRooms sh lh lw ys xs d
  | .dynamicObstacles sh n ra, d => resetDynamicObstacles sh n ra d
  | .keydoor sh, d => resetKeydoor sh d
  | .crossing sh n k, d => resetCrossing sh n k d
  | .teleport sh, d => resetTeleport sh d
  | .memory sh cs, d => resetMemory sh cs d
  | .memoryRooms sh lh lw ys xs cs nb ne, d => resetMemoryRooms sh lh lw ys xs cs nb ne d

/-- executable form of the hypothesis of the `rooms` theorems on a split vector of a side of length
`n`: starts at 0, ends at `n - 1`, consecutive entries at least two apart -/
def gappedB : List Int → Bool
  | a :: b :: rest => decide (a + 2 ≤ b) && gappedB (b :: rest)
  | _ => true

def splitsOKb (n : Int) (l : List Int) : Bool :=
  gappedB l && l.head? == some 0 && l.getLast? == some (n - 1) && decide (2 ≤ l.length)

end GV
