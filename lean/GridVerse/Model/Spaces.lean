/-
  Model of gym_gridverse/spaces.py: StateSpace, ObservationSpace, ActionSpace and their `contains`.
-/
import GridVerse.Model.Grid
namespace GV

/-- `StateSpace(grid_shape, object_types, colors)`; the constructor adds `Color.NONE` to the colours -/
structure StateSpace where
  h : Nat
  w : Nat
  kinds : List Kind
  colors : List Color
deriving Repr, Inhabited

/-- membership in `set(colors) | {Color.NONE}` -/
def colorOk (colors : List Color) (c : Color) : Bool := c == .none || colors.contains c

def StateSpace.contains (sp : StateSpace) (s : State) : Bool :=
  s.grid.h == sp.h && s.grid.w == sp.w
  && s.grid.flat.all (fun o => sp.kinds.contains o.kind)
  && s.grid.flat.all (fun o => colorOk sp.colors o.color)
  && s.grid.contains s.agent.pos
  && (s.agent.held.kind == .noneObj || sp.kinds.contains s.agent.held.kind)
  && colorOk sp.colors s.agent.held.color

/-- `can_be_represented` -/
def StateSpace.canBeRepresented (sp : StateSpace) : Bool := sp.kinds.all Kind.canBeRepresented

/-- `ObservationSpace(grid_shape, object_types, colors)`; the constructor raises `ValueError` for an
even width -/
structure ObsSpace where
  h : Nat
  w : Nat
  kinds : List Kind
  colors : List Color
deriving Repr, Inhabited

def ObsSpace.valid (sp : ObsSpace) : Bool := sp.w % 2 == 1

/-- `ObservationSpace.area`: the view with (0,0) the agent -/
def ObsSpace.area (sp : ObsSpace) : Area :=
  ⟨-(sp.h : Int) + 1, 0, -((sp.w / 2 : Nat) : Int), ((sp.w / 2 : Nat) : Int)⟩

def ObsSpace.contains (sp : ObsSpace) (o : Obs) : Bool :=
  o.grid.h == sp.h && o.grid.w == sp.w
  && o.grid.flat.all (fun c => c.kind == .hidden || sp.kinds.contains c.kind)
  && o.grid.flat.all (fun c => colorOk sp.colors c.color)
  && decide (0 ≤ o.agent.pos.y) && decide (o.agent.pos.y < sp.h)
  && decide (0 ≤ o.agent.pos.x) && decide (o.agent.pos.x < sp.w)
  && (o.agent.held.kind == .noneObj || sp.kinds.contains o.agent.held.kind)
  && colorOk sp.colors o.agent.held.color

/-- `ActionSpace(actions)` -/
structure ActionSpace where
  actions : List Action
deriving Repr, Inhabited

def ActionSpace.contains (sp : ActionSpace) (a : Action) : Bool := sp.actions.contains a

/-- `int_to_action(i)` = `self.actions[i]` (Python indexing: negative wraps, else IndexError) -/
def ActionSpace.intToAction (sp : ActionSpace) (i : Int) : Except PyErr Action :=
  match pyIdx sp.actions i with
  | some a => .ok a
  | none => .error .indexError

end GV
