/-
  One protocol line in, one line out.  Every model function is reachable from here so that the
  harness can run model and implementation on the same inputs.
-/
import GridVerse.Model.Codec
import GridVerse.Model.Heap
import GridVerse.Model.Win
namespace GV.Driver
open GV.Codec

def showExcept {α} (f : α → String) : Except PyErr α → String
  | .ok a => f a
  | .error e => showErr e

def handleGeom (op : String) : P String := do
  match op with
  | "omul" => do let a ← pOrient; let b ← pOrient; pure (showOrient (a.mul b))
  | "oneg" => do let a ← pOrient; pure (showOrient a.neg)
  | "oact" => do let o ← pOrient; let p ← pPos; pure (showPos (o.act p))
  | "oarea" => do let o ← pOrient; let a ← pArea; pure (showArea (o.actArea a))
  | "padd" => do let p ← pPos; let q ← pPos; pure (showPos (p.add q))
  | "psub" => do let p ← pPos; let q ← pPos; pure (showPos (p.sub q))
  | "pneg" => do let p ← pPos; pure (showPos p.neg)
  | "pfrom" => do let o ← pOrient; pure (showPos (Pos.ofOrient o))
  | "parea" => do let p ← pPos; let a ← pArea; pure (showArea (Area.shift p a))
  | "manh" => do let p ← pPos; let q ← pPos; pure (toString (Pos.manhattan p q))
  | "sqeu" => do let p ← pPos; let q ← pPos; pure (toString (Pos.sqEuclid p q))
  | "tmul" => do
      let p ← pPos; let o ← pOrient; let q ← pPos; let r ← pOrient
      let t := Transform.mul ⟨p, o⟩ ⟨q, r⟩
      pure s!"{showPos t.pos} {showOrient t.o}"
  | "tneg" => do
      let p ← pPos; let o ← pOrient
      let t := Transform.neg ⟨p, o⟩
      pure s!"{showPos t.pos} {showOrient t.o}"
  | "tact" => do let p ← pPos; let o ← pOrient; let q ← pPos; pure (showPos (Transform.act ⟨p, o⟩ q))
  | "tarea" => do let p ← pPos; let o ← pOrient; let a ← pArea; pure (showArea (Transform.actArea ⟨p, o⟩ a))
  | "torient" => do let p ← pPos; let o ← pOrient; let r ← pOrient; pure (showOrient (Transform.actOrient ⟨p, o⟩ r))
  | "acontains" => do let a ← pArea; let p ← pPos; pure (showBool (a.contains p))
  | "apositions" => do
      let sel ← tok; let a ← pArea
      let ps := match sel with
        | "all" => a.positions | "border" => a.borderPositions | _ => a.insidePositions
      pure (" ".intercalate (ps.map showPos))
  | "nextpos" => do let p ← pPos; let o ← pOrient; let a ← pAction; pure (showPos (nextPos p o a))
  | "boundary" => do let p ← pPos; let d ← pNat; pure (" ".intercalate ((manhattanBoundary p d).map showPos))
  | "gridrot" => do let o ← pOrient; let g ← pGrid; pure (showGrid (Grid.rot o g))
  | "subgrid" => do let g ← pGrid; let a ← pArea; pure (showGrid (g.subgrid a))
  | "gridget" => do let g ← pGrid; let p ← pPos; pure (showExcept showObj (g.pyGet p))
  | "front" => do let a ← pAgent; pure (showPos a.front)
  | "objeq" => do
      let a ← pObj; let b ← pObj
      pure s!"{showBool (a.pyEq b)} {a.hashKey.1} {a.hashKey.2.1} {a.hashKey.2.2}"
  | "grideq" => do let a ← pGrid; let b ← pGrid; pure (showBool (a.pyEq b))
  | "stateeq" => do let a ← pState; let b ← pState; pure (showBool (a.pyEq b))
  | _ => failure

def handleDyn (op : String) : P String := do
  match op with
  | "trans" => do
      let fs ← pCounted pTransAtom
      let s ← pState
      let a ← pAction
      let d ← pDraw
      pure (showExcept (fun (r : State × DrawSt) => showState r.1 ++ " | " ++ showLog r.2.log)
        (runChain fs s a d))
  | "reward" => do
      let f ← pRewAtom
      let s ← pState; let a ← pAction; let s' ← pState
      pure (showExcept showRTerm (f.eval s a s'))
  | "rewsum" => do
      let fs ← pCounted pRewAtom
      let s ← pState; let a ← pAction; let s' ← pState
      pure (showExcept (fun ts => " ".intercalate (ts.map showRTerm)) (rewParts fs s a s'))
  | "term" => do
      let f ← pTermFn 8
      let s ← pState; let a ← pAction; let s' ← pState
      pure (showExcept showBool (f.eval s a s'))
  | "spath" => do
      let g ← pGrid; let p ← pPos; let q ← pPos
      pure (match shortestPath g p q with | some n => toString n | none => "inf")
  | _ => failure

def handleVis (op : String) : P String := do
  match op with
  | "vis" => do
      let which ← tok
      let g ← pGrid
      let p ← pPos
      match which with
      | "ft" => pure (showMask g.h g.w (visFullyTransparent g p))
      | "po" => pure (showExcept (showMask g.h g.w) (visPartiallyOccluded g p))
      | "rt" => do
          let rays ← pRays
          pure (showMask g.h g.w (visRaytracing g rays))
      | "cnt" => do
          let rays ← pRays
          pure (" ".intercalate (g.positions.map fun q => s!"{countsNum g rays q}/{countsDen rays q}"))
      | _ => failure
  | "obs" => do
      let which ← tok
      let s ← pState
      let a ← pArea
      match which with
      | "ft" => pure (showExcept showState (fromVisibility (fun g p => .ok (visFullyTransparent g p)) s a))
      | "po" => pure (showExcept showState (fromVisibility visPartiallyOccluded s a))
      | "rt" => do
          let rays ← pRays
          pure (showExcept showState (fromVisibility (visRaytracingChecked rays) s a))
      | "srt" => do
          -- stochastic: rays, then per cell (row-major) the float quotient and the uniform numerator
          let rays ← pRays
          let g := premask s a
          let n := g.h * g.w
          let ps ← pList pProb n
          let us ← pList pNat n
          let okDiv := (List.range n).all fun k =>
            let q : Pos := ⟨((k / g.w : Nat) : Int), ((k % g.w : Nat) : Int)⟩
            flDivOK (countsNum g rays q) (countsDen rays q) (ps.getD k ⟨0, 1⟩)
          if !okDiv then pure "BAD-FLDIV" else
          let m : Mask := fun q =>
            let k := q.y.toNat * g.w + q.x.toNat
            shownStochastic (us.getD k 0) (ps.getD k ⟨0, 1⟩)
          pure (showExcept showState (fromVisibility
            (fun g p => if g.contains p then .ok m else .error .valueError) s a))
      | _ => failure
  | "premask" => do let s ← pState; let a ← pArea; pure (showGrid (premask s a))
  | "raycheck" => do
      let a ← pArea; let o ← pPos; let rays ← pRays
      pure (showBool (checkFan a o rays) ++ " " ++ showBool (coversArea a rays))
  | "raysamples" => do
      let a ← pArea; let samples ← pCounted pPos
      let r := rayOfSamples a samples
      let ok := sampleOK (samples.headD ⟨0, 0⟩) samples && samples.all a.contains
      pure (" ".intercalate (r.map showPos) ++ " | " ++ showBool ok)
  | _ => failure

def handleEnv (op : String) : P String := do
  match op with
  | "reset" => do
      let rs ← pResetSpec
      let d ← pDraw
      pure (showExcept (fun (r : State × DrawSt) => showState r.1 ++ " | " ++ showLog r.2.log) (rs.run d))
  | "env" => do
      let e ← pEnv
      let d ← pDraw
      let ops ← pCounted pOp
      let r := Machine.run e (Machine.init d) ops
      pure (" ; ".intercalate (r.2.map showOut) ++ " | " ++ showLog r.1.d.log)
  | "world" => do
      let e ← pEnv
      let nenv ← pNat
      let d ← pDraw
      let n ← pNat
      let pW : P WOp := do
        match (← tok) with
        | "E" => do let i ← pNat; let op ← pOp; pure (.env i op)
        | "L" => do let k ← pNat; pure (.libChoice k)
        | _ => failure
      let ops ← pList pW n
      let w : World := ⟨d, List.replicate nenv ⟨e, none, none, none⟩⟩
      let r := World.run w ops
      let envLogs := r.1.envs.map fun x => match x.rng with | some dd => showLog dd.log | none => "-"
      pure (" ; ".intercalate (r.2.map showOut) ++ " | " ++ showLog r.1.lib.log ++ " | " ++
        " ; ".intercalate envLogs)
  | "gym" => do
      let e ← pEnv
      let enc ← pEnc
      let withState ← pBool
      let d ← pDraw
      let n ← pNat
      let o : OuterSpec (StateRepr ⊕ ObsRepr) := {
        stateRep := if withState then
            some fun s => match stateConvert enc e.stateSpace e.debug s with
              | .ok r => .ok (.inl r) | .error err => .error err
          else none
        obsRep := some fun ob => match obsConvert enc e.obsSpace e.debug ob with
              | .ok r => .ok (.inr r) | .error err => .error err }
      let showRep : (StateRepr ⊕ ObsRepr) → String
        | .inl r => showStateRepr r ++ " | " ++ showBool ((stateSpaceOf enc e.stateSpace).containsState r)
        | .inr r => showObsRepr r ++ " | " ++ showBool ((obsSpaceOf enc e.obsSpace).containsObs r)
      let showG : GymOut (StateRepr ⊕ ObsRepr) → String
        | .reset ob => showRep ob
        | .step ob r t => showRep ob ++ " # " ++ " ".intercalate (r.map showRTerm) ++ " " ++ showBool t
        | .stateStep st r t ob => showRep st ++ " # " ++ " ".intercalate (r.map showRTerm) ++ " " ++ showBool t ++ " # " ++ showRep ob
        | .err err => showErr err
      let rec go : Nat → Machine → List String → P (List String)
        | 0, _, acc => pure acc.reverse
        | k+1, m, acc => do
          match (← tok) with
          | "S" => do let l ← pCounted pNat; go k { m with d := ⟨l, m.d.log⟩ } ("ok" :: acc)
          | "R" => let r := gymReset e o m; go k r.1 (showG r.2 :: acc)
          | "T" => do let i ← pInt; let r := gymStep e o m i; go k r.1 (showG r.2 :: acc)
          | "W" => do let i ← pInt; let r := gymStateStep e o m i; go k r.1 (showG r.2 :: acc)
          | "V" => let r := gymStateReset e o m; go k r.1 (showG r.2 :: acc)
          | _ => failure
      let outs ← go n (Machine.init d) []
      pure (" ; ".intercalate outs)
  | "cfg" => do
      let r ← pRegs
      let y ← pYaml 12
      pure (showExcept showDesc (buildDesc r y))
  | "factory" => do
      let reg ← pCounted pSig
      let name ← tok
      let kws ← pCounted tok
      pure (showExcept (fun (r : Sig × List String) => ",".intercalate r.2) (factoryCheck reg name kws))
  | "repr" => do
      match (← tok) with
      | "state" => do
          let enc ← pEnc; let sp ← pStateSpace; let dbg ← pBool; let s ← pState
          if !stateReprOk sp then pure "ERR ValueError" else
          let r := stateConvert enc sp dbg s
          pure (showExcept (fun r => showStateRepr r ++ " | " ++ showBool ((stateSpaceOf enc sp).containsState r)) r)
      | "obs" => do
          let enc ← pEnc; let sp ← pObsSpace; let dbg ← pBool; let o ← pState
          let r := obsConvert enc sp dbg o
          pure (showExcept (fun r => showObsRepr r ++ " | " ++ showBool ((obsSpaceOf enc sp).containsObs r)) r)
      | "sobj" => do
          let enc ← pEnc; let sp ← pStateSpace; let o ← pObj
          pure (showExcept showInts (objConvert enc (ReprCtx.ofState sp) o))
      | "oobj" => do
          let enc ← pEnc; let sp ← pObsSpace; let o ← pObj
          pure (showExcept showInts (objConvert enc (ReprCtx.ofObs sp) o))
      | "sspace" => do
          let enc ← pEnc; let sp ← pStateSpace
          pure (showInts (objUpper enc (ReprCtx.ofState sp)))
      | "ospace" => do
          let enc ← pEnc; let sp ← pObsSpace
          pure (showInts (objUpper enc (ReprCtx.ofObs sp)))
      | _ => failure
  | "sscontains" => do
      let sh ← pNat; let sw ← pNat
      let kinds ← pCounted pKind; let colors ← pCounted pColor
      let s ← pState
      pure (showBool ((⟨sh, sw, kinds, colors⟩ : StateSpace).contains s))
  | "oscontains" => do
      let sh ← pNat; let sw ← pNat
      let kinds ← pCounted pKind; let colors ← pCounted pColor
      let o ← pState
      pure (showBool ((⟨sh, sw, kinds, colors⟩ : ObsSpace).contains o))
  | _ => failure

/-! ### identity-level ops (Layer H) -/

def shallowTok : Obj → String
  | .box _ => "X"
  | o => showObj o

/-- `name:token` of the object at `r`, then `>` and the same for its content -/
def descr (names : List (Ref × String × NodeKind)) (hp : Heap) : Nat → Ref → String
  | 0, r => nameOf names r ++ ":" ++ shallowTok (hp.objOf r).obj
  | fuel + 1, r =>
    nameOf names r ++ ":" ++ shallowTok (hp.objOf r).obj ++
      match (hp.objOf r).obj, (hp.objOf r).content with
      | .box _, some c => ">" ++ descr names hp fuel c
      | _, _ => ""

/-- the nodes of the input whose contents changed, and the identity graph of the result -/
def heapReport (names : List (Ref × String × NodeKind)) (h0 h1 : Heap) (res : HState) : String :=
  let changed := (names.filter fun e => nodeChanged h0 h1 e.1 e.2.2).map fun e => e.2.1
  let rows := h1.rowsOf res.outer
  let ag := h1.agentOf res.agent
  let containers := [nameOf names res.outer] ++ rows.map (nameOf names) ++ [nameOf names res.agent, nameOf names ag.1]
  let cells := rows.flatMap fun r => (h1.cellsOf r).map (descr names h1 boxFuel)
  (if changed.isEmpty then "-" else " ".intercalate changed) ++ " | " ++ " ".intercalate containers ++ " | " ++
    " ".intercalate cells ++ " | " ++ descr names h1 boxFuel ag.2 ++ " | " ++ showState (h1.abs res)

def pMaskBits (h w : Nat) : P Mask := do
  let bits := (← tok).toList
  if bits.length ≠ h * w then failure else
  pure fun q => decide (0 ≤ q.y) && decide (0 ≤ q.x) && decide (q.x < w) && bits.getD (q.y.toNat * w + q.x.toNat) '0' == '1'

def handleHeap (op : String) : P String := do
  match op with
  | "heap" => do
      let which ← tok
      match which with
      | "inplace" | "step" => do
          let fs ← pCounted pTransAtom
          let st ← pState
          let a ← pAction
          let d ← pDraw
          let l := Heap.empty.load st
          let names := l.2.nodeNames l.1
          match runChain fs st a d with
          | .error e => pure (showErr e)
          | .ok pure' =>
            if which == "inplace" then
              let r := hRunChain fs l.2 l.1 a d
              pure (heapReport names l.2 r.1 l.1 ++ " | ref=" ++ showBool (decide (r.1.abs l.1 = pure'.1)) ++
                " | " ++ showLog r.2.log)
            else
              let r := hFunctionalStep fs l.2 l.1 a d
              pure (heapReport names l.2 r.2.1 r.1 ++ " | ref=" ++ showBool (decide (r.2.1.abs r.1 = pure'.1)) ++
                " | " ++ showLog r.2.2.log)
      | "obs" => do
          let st ← pState
          let a ← pArea
          let m ← pMaskBits a.height a.width
          let l := Heap.empty.load st
          let names := l.2.nodeNames l.1
          if !(st.grid.contains st.agent.pos) then pure "skip" else
          let r := hFromVisibility l.2 l.1 a m
          pure (heapReport names l.2 r.2 r.1)
      | "copy" => do
          let st ← pState
          let l := Heap.empty.load st
          let names := l.2.nodeNames l.1
          let r := l.2.fastCopy l.1
          pure (heapReport names l.2 r.2 r.1)
      | _ => failure
  | _ => failure

/-! ### winnability ops -/

def showActs (l : List Action) : String := " ".intercalate (l.map fun a => toString a.value)

/-- run a plan like `checkPlan`, also returning the state reached and the number of steps used -/
def runPlan (fs : List TransAtom) (stop : State → Action → State → Bool) (goal : State → Bool) :
    State → List Action → DrawSt → Nat → String
  | s, [], _, k => (if goal s then "WIN " else "SHORT ") ++ toString k ++ " " ++ showState s
  | s, a :: as, d, k =>
    if goal s then "WIN " ++ toString k ++ " " ++ showState s else
    match runChain fs s a d with
    | .error e => showErr e
    | .ok (s', d') =>
      if goal s' then "WIN " ++ toString (k + 1) ++ " " ++ showState s'
      else if stop s a s' then "LOSE " ++ toString (k + 1) ++ " " ++ showState s'
      else runPlan fs stop goal s' as d' (k + 1)

def handleWin (op : String) : P String := do
  match op with
  | "splitsok" => do
      let n ← pInt
      let l ← pCounted pInt
      pure (showBool (splitsOKb n l) ++ " " ++ showBool (tooClose l))
  | "win" => do
      let mode ← tok
      let fs ← pCounted pTransAtom
      let t ← pTermFn 8
      let goal ← (do match (← tok) with | "e" => pure goalExit | "m" => pure goalMemory | _ => failure)
      let s ← pState
      let stop := stopOf t
      match mode with
      | "check" => do
          let acts ← pCounted pAction
          let d ← pDraw
          pure (runPlan fs stop goal s acts d 0 ++ " | " ++ showBool (checkPlan fs stop goal s acts d))
      | "solve" =>
          match solve fs stop goal s with
          | none => pure "NOPLAN"
          | some plan => pure ("PLAN " ++ showActs plan ++ " | " ++ showBool (checkPlan fs stop goal s plan ⟨[], []⟩))
      | "empty" => pure ("PLAN " ++ showActs (planEmpty s) ++ " | " ++ showBool (checkPlan fs stop goal s (planEmpty s) ⟨[], []⟩))
      | "memory" => pure ("PLAN " ++ showActs (planMemory s) ++ " | " ++ showBool (checkPlan fs stop goal s (planMemory s) ⟨[], []⟩))
      | "keydoor" => pure ("PLAN " ++ showActs (planKeydoor s) ++ " | " ++ showBool (checkPlan fs stop goal s (planKeydoor s) ⟨[], []⟩))
      | "teleport" => pure ("PLAN " ++ showActs (planTeleport s) ++ " | " ++ showBool (checkPlan fs stop goal s (planTeleport s) ⟨[], []⟩))
      | _ => failure
  | _ => failure

def handleLine (line : String) : String :=
  match (line.splitOn " ").filter (· ≠ "") with
  | [] => "bad-op"
  | op :: args =>
    let run (h : String → P String) : Option String :=
      match (h op).run args with
      | some (out, []) => some out
      | _ => none
    match run handleGeom with
    | some o => o
    | none =>
      match run handleDyn with
      | some o => o
      | none =>
        match run handleVis with
        | some o => o
        | none =>
          match run handleEnv with
          | some o => o
          | none =>
            match run handleHeap with
            | some o => o
            | none =>
              match run handleWin with
              | some o => o
              | none => "bad-op"

end GV.Driver
