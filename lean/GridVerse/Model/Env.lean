/-
  Model of gym_gridverse/envs/gridworld.py (functional interface, debug-gated membership checks),
  envs/inner_env.py (stateful shell with memoised observation), outer_env.py and gym.py
  (delegation).
-/
import GridVerse.Model.Spaces
import GridVerse.Model.Reward
import GridVerse.Model.Visibility
namespace GV

/-- a `GridWorld`: spaces + the five component functions.  Reset and observation are kept as
functions of the draw state (their concrete models live in `Reset.lean` / `Visibility.lean`). -/
structure EnvSpec where
  stateSpace : StateSpace
  actions : ActionSpace
  obsSpace : ObsSpace
  reset : DrawSt → Except PyErr (State × DrawSt)
  trans : List TransAtom
  rewards : List RewAtom
  observe : State → DrawSt → Except PyErr (Obs × DrawSt)
  term : TermFn
  debug : Bool

/-- `functional_reset` -/
def EnvSpec.functionalReset (e : EnvSpec) (d : DrawSt) : Except PyErr (State × DrawSt) :=
  match e.reset d with
  | .error err => .error err
  | .ok (s, d') =>
    if e.debug && !e.stateSpace.contains s then .error .valueError else .ok (s, d')

structure StepResult where
  next : State
  reward : List RTerm
  terminal : Bool
  d : DrawSt

/-- `functional_step` -/
def EnvSpec.functionalStep (e : EnvSpec) (s : State) (a : Action) (d : DrawSt) : Except PyErr StepResult :=
  if e.debug && !e.stateSpace.contains s then .error .valueError
  else if !e.actions.contains a then .error .valueError
  else
    match runChain e.trans s a d with
    | .error err => .error err
    | .ok (s', d') =>
      if e.debug && !e.stateSpace.contains s' then .error .valueError
      else
        match rewParts e.rewards s a s' with
        | .error err => .error err
        | .ok r =>
          match e.term.eval s a s' with
          | .error err => .error err
          | .ok t => .ok ⟨s', r, t, d'⟩

/-- `functional_observation` -/
def EnvSpec.functionalObservation (e : EnvSpec) (s : State) (d : DrawSt) : Except PyErr (Obs × DrawSt) :=
  match e.observe s d with
  | .error err => .error err
  | .ok (o, d') =>
    if e.debug && !e.obsSpace.contains o then .error .valueError else .ok (o, d')

/-- the stateful `InnerEnv`: current state, memoised observation, the environment's generator -/
structure Machine where
  state : Option State
  obs : Option Obs
  d : DrawSt

def Machine.init (d : DrawSt) : Machine := ⟨none, none, d⟩

inductive Op
  | setSeed (ans : List Nat)
  | reset
  | step (a : Action)
  | readState
  | readObs

inductive Out
  | unit
  | err (e : PyErr)
  | state (s : State)
  | obs (o : Obs)
  | stepRes (r : List RTerm) (t : Bool)

/-- one operation on the stateful interface.  On an exception the machine is left as it was (exact
for every exception raised before the first draw of the operation — the only ones an in-space
environment can raise, C01). -/
def Machine.exec (e : EnvSpec) (m : Machine) : Op → Machine × Out
  | .setSeed ans => ({ m with d := ⟨ans, m.d.log⟩ }, .unit)
  | .reset =>
    match e.functionalReset m.d with
    | .error err => (m, .err err)
    | .ok (s, d') => (⟨some s, none, d'⟩, .unit)
  | .step a =>
    match m.state with
    | none => (m, .err .runtimeError)
    | some s =>
      match e.functionalStep s a m.d with
      | .error err => (m, .err err)
      | .ok r => (⟨some r.next, none, r.d⟩, .stepRes r.reward r.terminal)
  | .readState =>
    match m.state with
    | none => (m, .err .runtimeError)
    | some s => (m, .state s)
  | .readObs =>
    match m.obs with
    | some o => (m, .obs o)
    | none =>
      match m.state with
      | none => (m, .err .runtimeError)
      | some s =>
        match e.functionalObservation s m.d with
        | .error err => (m, .err err)
        | .ok (o, d') => ({ m with obs := some o, d := d' }, .obs o)

def Machine.run (e : EnvSpec) : Machine → List Op → Machine × List Out
  | m, [] => (m, [])
  | m, op :: ops =>
    let r := m.exec e op
    let rest := Machine.run e r.1 ops
    (rest.1, r.2 :: rest.2)

/-- `OuterEnv`: optional representations on top of an inner environment -/
structure OuterSpec (Rep : Type) where
  stateRep : Option (State → Except PyErr Rep)
  obsRep : Option (Obs → Except PyErr Rep)

inductive OuterOut (Rep : Type)
  | inner (o : Out)
  | rep (r : Rep)
  | err (e : PyErr)

/-- `outer_env.state` -/
def outerState {Rep} (e : EnvSpec) (o : OuterSpec Rep) (m : Machine) : Machine × OuterOut Rep :=
  match o.stateRep with
  | none => (m, .err .runtimeError)
  | some f =>
    match m.exec e .readState with
    | (m', .state s) =>
      match f s with
      | .ok r => (m', .rep r)
      | .error err => (m', .err err)
    | (m', out) => (m', .inner out)

/-- `outer_env.observation` -/
def outerObs {Rep} (e : EnvSpec) (o : OuterSpec Rep) (m : Machine) : Machine × OuterOut Rep :=
  match o.obsRep with
  | none => (m, .err .runtimeError)
  | some f =>
    match m.exec e .readObs with
    | (m', .obs ob) =>
      match f ob with
      | .ok r => (m', .rep r)
      | .error err => (m', .err err)
    | (m', out) => (m', .inner out)

/-- result of `GymEnvironment.step` / `reset` -/
inductive GymOut (Rep : Type)
  | reset (obs : Rep)
  | step (obs : Rep) (reward : List RTerm) (done : Bool)
  | stateStep (state : Rep) (reward : List RTerm) (done : Bool) (infoObs : Rep)
  | err (e : PyErr)

/-- `GymEnvironment.reset` -/
def gymReset {Rep} (e : EnvSpec) (o : OuterSpec Rep) (m : Machine) : Machine × GymOut Rep :=
  match m.exec e .reset with
  | (m', .err err) => (m', .err err)
  | (m', _) =>
    match outerObs e o m' with
    | (m'', .rep r) => (m'', .reset r)
    | (m'', .err err) => (m'', .err err)
    | (m'', .inner (.err err)) => (m'', .err err)
    | (m'', _) => (m'', .err .runtimeError)

/-- `GymEnvironment.step(i)` -/
def gymStep {Rep} (e : EnvSpec) (o : OuterSpec Rep) (m : Machine) (i : Int) : Machine × GymOut Rep :=
  match e.actions.intToAction i with
  | .error err => (m, .err err)
  | .ok a =>
    match m.exec e (.step a) with
    | (m', .stepRes r t) =>
      match outerObs e o m' with
      | (m'', .rep ob) => (m'', .step ob r t)
      | (m'', .err err) => (m'', .err err)
      | (m'', .inner (.err err)) => (m'', .err err)
      | (m'', _) => (m'', .err .runtimeError)
    | (m', .err err) => (m', .err err)
    | (m', _) => (m', .err .runtimeError)

/-- `GymStateWrapper.step(i)`: the state representation, the observation passed through `info` -/
def gymStateStep {Rep} (e : EnvSpec) (o : OuterSpec Rep) (m : Machine) (i : Int) : Machine × GymOut Rep :=
  match gymStep e o m i with
  | (m', .step ob r t) =>
    match outerState e o m' with
    | (m'', .rep st) => (m'', .stateStep st r t ob)
    | (m'', .err err) => (m'', .err err)
    | (m'', .inner (.err err)) => (m'', .err err)
    | (m'', _) => (m'', .err .runtimeError)
  | (m', out) => (m', out)

/-- `GymStateWrapper.reset()`: resets (which also computes the observation), returns the state
representation -/
def gymStateReset {Rep} (e : EnvSpec) (o : OuterSpec Rep) (m : Machine) : Machine × GymOut Rep :=
  match gymReset e o m with
  | (m', .reset _) =>
    match outerState e o m' with
    | (m'', .rep st) => (m'', .reset st)
    | (m'', .err err) => (m'', .err err)
    | (m'', .inner (.err err)) => (m'', .err err)
    | (m'', _) => (m'', .err .runtimeError)
  | (m', out) => (m', out)

/-- the concrete observation functions the driver can run (`stochastic_raytracing` is exercised at
the visibility level only) -/
inductive VisKind | ft | po | rt
deriving DecidableEq, Repr, Inhabited

def observeOf (k : VisKind) (a : Area) (rays : List Ray) (s : State) (d : DrawSt) :
    Except PyErr (Obs × DrawSt) :=
  let V : Grid → Pos → Except PyErr Mask :=
    match k with
    | .ft => fun g p => .ok (visFullyTransparent g p)
    | .po => visPartiallyOccluded
    | .rt => visRaytracingChecked rays
  match fromVisibility V s a with
  | .error e => .error e
  | .ok o => .ok (o, d)

end GV
