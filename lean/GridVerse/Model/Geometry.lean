/-
  Model of gym_gridverse/geometry.py, gym_gridverse/action.py, gym_gridverse/envs/utils.py
  (import-free: this file is also compiled into the native driver).
-/
namespace GV

/-- `Orientation` (enum order FORWARD=0, BACKWARD=1, LEFT=2, RIGHT=3). -/
inductive Orient | F | B | L | R
deriving DecidableEq, Repr, Inhabited

def Orient.all : List Orient := [.F, .B, .L, .R]

/-- `Orientation.value` -/
def Orient.value : Orient → Nat
  | .F => 0 | .B => 1 | .L => 2 | .R => 3

structure Pos where
  y : Int
  x : Int
deriving DecidableEq, Repr, Inhabited

/-- `Orientation * Orientation` (`_orientation_rotations`). -/
def Orient.mul : Orient → Orient → Orient
  | .F, o => o
  | .R, .F => .R | .R, .R => .B | .R, .B => .L | .R, .L => .F
  | .B, .F => .B | .B, .R => .L | .B, .B => .F | .B, .L => .R
  | .L, .F => .L | .L, .R => .F | .L, .B => .R | .L, .L => .B

/-- `-Orientation` (`_orientation_neg`). -/
def Orient.neg : Orient → Orient
  | .F => .F | .R => .L | .B => .B | .L => .R

/-- `Orientation * Position`. -/
def Orient.act : Orient → Pos → Pos
  | .F, p => ⟨p.y, p.x⟩
  | .B, p => ⟨-p.y, -p.x⟩
  | .R, p => ⟨p.x, -p.y⟩
  | .L, p => ⟨-p.x, p.y⟩

def Pos.add (p q : Pos) : Pos := ⟨p.y + q.y, p.x + q.x⟩
def Pos.sub (p q : Pos) : Pos := ⟨p.y - q.y, p.x - q.x⟩
def Pos.neg (p : Pos) : Pos := ⟨-p.y, -p.x⟩

/-- `Position.from_orientation` (`_position_from_orientation`). -/
def Pos.ofOrient : Orient → Pos
  | .F => ⟨-1, 0⟩ | .R => ⟨0, 1⟩ | .B => ⟨1, 0⟩ | .L => ⟨0, -1⟩

def Pos.manhattan (p q : Pos) : Int := (p.y - q.y).natAbs + (p.x - q.x).natAbs
/-- squared Euclidean distance (the code takes `math.sqrt` of this integer). -/
def Pos.sqEuclid (p q : Pos) : Int := (p.y - q.y) * (p.y - q.y) + (p.x - q.x) * (p.x - q.x)

/-- `Area((ymin, ymax), (xmin, xmax))`; the constructor check (`ys`/`xs` non-decreasing) is `Area.WF`. -/
structure Area where
  ymin : Int
  ymax : Int
  xmin : Int
  xmax : Int
deriving DecidableEq, Repr, Inhabited

def Area.WF (a : Area) : Prop := a.ymin ≤ a.ymax ∧ a.xmin ≤ a.xmax
instance (a : Area) : Decidable a.WF := by unfold Area.WF; exact inferInstance

def Area.height (a : Area) : Nat := (a.ymax - a.ymin + 1).toNat
def Area.width (a : Area) : Nat := (a.xmax - a.xmin + 1).toNat

def Area.contains (a : Area) (p : Pos) : Bool :=
  decide (a.ymin ≤ p.y) && decide (p.y ≤ a.ymax) && decide (a.xmin ≤ p.x) && decide (p.x ≤ a.xmax)

/-- `Orientation * Area`. -/
def Orient.actArea : Orient → Area → Area
  | .F, a => ⟨a.ymin, a.ymax, a.xmin, a.xmax⟩
  | .B, a => ⟨-a.ymax, -a.ymin, -a.xmax, -a.xmin⟩
  | .R, a => ⟨a.xmin, a.xmax, -a.ymax, -a.ymin⟩
  | .L, a => ⟨-a.xmax, -a.xmin, a.ymin, a.ymax⟩

/-- `Position + Area`. -/
def Area.shift (p : Pos) (a : Area) : Area :=
  ⟨p.y + a.ymin, p.y + a.ymax, p.x + a.xmin, p.x + a.xmax⟩

/-- integer range `[lo, hi]` as a list (Python `range(lo, hi + 1)`). -/
def intRange (lo hi : Int) : List Int :=
  (List.range (hi - lo + 1).toNat).map fun (k : Nat) => lo + (k : Int)

/-- `Area.positions('all')`: row-major. -/
def Area.positions (a : Area) : List Pos :=
  (intRange a.ymin a.ymax).flatMap fun y => (intRange a.xmin a.xmax).map fun x => ⟨y, x⟩

/-- `Area.positions('border')` in the code's order. -/
def Area.borderPositions (a : Area) : List Pos :=
  ([a.ymin, a.ymax].flatMap fun y => (intRange a.xmin a.xmax).map fun x => (⟨y, x⟩ : Pos)) ++
  ((intRange (a.ymin + 1) (a.ymax - 1)).flatMap fun y => [a.xmin, a.xmax].map fun x => (⟨y, x⟩ : Pos))

/-- `Area.positions('inside')`. -/
def Area.insidePositions (a : Area) : List Pos :=
  (intRange (a.ymin + 1) (a.ymax - 1)).flatMap fun y =>
    (intRange (a.xmin + 1) (a.xmax - 1)).map fun x => ⟨y, x⟩

/-- `Transform(position, orientation)`. -/
structure Transform where
  pos : Pos
  o : Orient
deriving DecidableEq, Repr, Inhabited

def Transform.mul (t u : Transform) : Transform := ⟨t.pos.add (t.o.act u.pos), t.o.mul u.o⟩
def Transform.act (t : Transform) (p : Pos) : Pos := t.pos.add (t.o.act p)
def Transform.actArea (t : Transform) (a : Area) : Area := Area.shift t.pos (t.o.actArea a)
def Transform.actOrient (t : Transform) (o : Orient) : Orient := t.o.mul o
def Transform.neg (t : Transform) : Transform := ⟨(t.o.neg.act t.pos).neg, t.o.neg⟩
def Transform.id : Transform := ⟨⟨0, 0⟩, .F⟩

/-- `get_manhattan_boundary(position, distance)` for `distance > 0` (the code raises `ValueError`
otherwise): clockwise from the top in four straight lines. -/
def manhattanBoundary (p : Pos) (d : Nat) : List Pos :=
  ((List.range d).map fun (i : Nat) => (⟨p.y - (d : Int) + (i : Int), p.x + (i : Int)⟩ : Pos)) ++
  ((List.range d).map fun (i : Nat) => (⟨p.y + (i : Int), p.x + (d : Int) - (i : Int)⟩ : Pos)) ++
  ((List.range d).map fun (i : Nat) => (⟨p.y + (d : Int) - (i : Int), p.x - (i : Int)⟩ : Pos)) ++
  ((List.range d).map fun (i : Nat) => (⟨p.y - (i : Int), p.x - (d : Int) + (i : Int)⟩ : Pos))

/-- `Action` in enum order. -/
inductive Action | moveF | moveB | moveL | moveR | turnL | turnR | actuate | pickNDrop
deriving DecidableEq, Repr, Inhabited

def Action.all : List Action :=
  [.moveF, .moveB, .moveL, .moveR, .turnL, .turnR, .actuate, .pickNDrop]

def Action.value : Action → Nat
  | .moveF => 0 | .moveB => 1 | .moveL => 2 | .moveR => 3
  | .turnL => 4 | .turnR => 5 | .actuate => 6 | .pickNDrop => 7

/-- `_move_action_to_orientation` (`None` = `KeyError`). -/
def Action.moveOrient : Action → Option Orient
  | .moveF => some .F | .moveB => some .B | .moveL => some .L | .moveR => some .R | _ => none

/-- `_action_orientations` of `turn_agent`. -/
def Action.turnOrient : Action → Option Orient
  | .turnL => some .L | .turnR => some .R | _ => none

def Action.isMove (a : Action) : Bool := a.moveOrient.isSome
def Action.isTurn (a : Action) : Bool := a.turnOrient.isSome

/-- `get_next_position(position, orientation, action)`. -/
def nextPos (p : Pos) (o : Orient) (a : Action) : Pos :=
  match a.moveOrient with
  | none => p
  | some m => p.add (Pos.ofOrient (o.mul m))

end GV
