/-
  Line-protocol codec shared by the driver: tokens ↔ model values.  Not part of any theorem.
-/
import GridVerse.Model.Reward
import GridVerse.Model.Visibility
import GridVerse.Model.Reset
import GridVerse.Model.Env
import GridVerse.Model.Repr
import GridVerse.Model.Rays
import GridVerse.Model.Config
import GridVerse.Model.World
namespace GV.Codec

abbrev P := StateT (List String) Option

def tok : P String := do
  let s ← get
  match s with
  | [] => failure
  | t :: ts => set ts; pure t

def pInt : P Int := do
  let t ← tok
  match t.toInt? with
  | some i => pure i
  | none => failure

def pNat : P Nat := do
  let i ← pInt
  if i < 0 then failure else pure i.toNat

def pOrient : P Orient := do
  match (← tok) with
  | "F" => pure .F | "B" => pure .B | "L" => pure .L | "R" => pure .R | _ => failure

def showOrient : Orient → String
  | .F => "F" | .B => "B" | .L => "L" | .R => "R"

def actionOfNat : Nat → Option Action
  | 0 => some .moveF | 1 => some .moveB | 2 => some .moveL | 3 => some .moveR
  | 4 => some .turnL | 5 => some .turnR | 6 => some .actuate | 7 => some .pickNDrop | _ => none

def pAction : P Action := do
  match actionOfNat (← pNat) with
  | some a => pure a
  | none => failure

def colorOfChar : Char → Option Color
  | '0' => some .none | '1' => some .red | '2' => some .green | '3' => some .blue
  | '4' => some .yellow | _ => none

def statusOfChar : Char → Option DoorStatus
  | '0' => some .open | '1' => some .closed | '2' => some .locked | _ => none

/-- objects: N H F W E<c> D<s><c> K<c> O X<obj> T<c> B<c> -/
def objOfChars : List Char → Option (Obj × List Char)
  | 'N' :: r => some (.noneObj, r)
  | 'H' :: r => some (.hidden, r)
  | 'F' :: r => some (.floor, r)
  | 'W' :: r => some (.wall, r)
  | 'O' :: r => some (.obstacle, r)
  | 'E' :: c :: r => (colorOfChar c).map fun c => (.exit c, r)
  | 'K' :: c :: r => (colorOfChar c).map fun c => (.key c, r)
  | 'T' :: c :: r => (colorOfChar c).map fun c => (.telepod c, r)
  | 'B' :: c :: r => (colorOfChar c).map fun c => (.beacon c, r)
  | 'D' :: s :: c :: r =>
    match statusOfChar s, colorOfChar c with
    | some s, some c => some (.door s c, r)
    | _, _ => none
  | 'X' :: r =>
    match objOfChars r with
    | some (o, r') => some (.box o, r')
    | none => none
  | _ => none

def pObj : P Obj := do
  let t ← tok
  match objOfChars t.toList with
  | some (o, []) => pure o
  | _ => failure

def showColor (c : Color) : String := toString c.value

def showObj : Obj → String
  | .noneObj => "N" | .hidden => "H" | .floor => "F" | .wall => "W" | .obstacle => "O"
  | .exit c => "E" ++ showColor c
  | .key c => "K" ++ showColor c
  | .telepod c => "T" ++ showColor c
  | .beacon c => "B" ++ showColor c
  | .door s c => "D" ++ toString s.value ++ showColor c
  | .box o => "X" ++ showObj o

def kindOfNat : Nat → Option Kind
  | 0 => some .noneObj | 1 => some .hidden | 2 => some .floor | 3 => some .wall | 4 => some .exit
  | 5 => some .door | 6 => some .key | 7 => some .obstacle | 8 => some .box | 9 => some .telepod
  | 10 => some .beacon | _ => none

def pKind : P Kind := do
  match kindOfNat (← pNat) with
  | some k => pure k
  | none => failure

def pColor : P Color := do
  match (← pNat) with
  | 0 => pure .none | 1 => pure .red | 2 => pure .green | 3 => pure .blue | 4 => pure .yellow
  | _ => failure

def pList {α} (p : P α) : Nat → P (List α)
  | 0 => pure []
  | n+1 => do
    let a ← p
    let r ← pList p n
    pure (a :: r)

/-- counted list: `n x1 … xn` -/
def pCounted {α} (p : P α) : P (List α) := do
  let n ← pNat
  pList p n

def pGrid : P Grid := do
  let h ← pNat
  let w ← pNat
  let rows ← pList (pList pObj w) h
  pure ⟨h, w, rows⟩

def showGrid (g : Grid) : String :=
  s!"{g.h} {g.w}" ++ String.join (g.cells.map fun r => String.join (r.map fun o => " " ++ showObj o))

def pPos : P Pos := do
  let y ← pInt
  let x ← pInt
  pure ⟨y, x⟩

def showPos (p : Pos) : String := s!"{p.y} {p.x}"

def pArea : P Area := do
  let a ← pInt
  let b ← pInt
  let c ← pInt
  let d ← pInt
  pure ⟨a, b, c, d⟩

def showArea (a : Area) : String := s!"{a.ymin} {a.ymax} {a.xmin} {a.xmax}"

def pAgent : P Agent := do
  let p ← pPos
  let o ← pOrient
  let h ← pObj
  pure ⟨p, o, h⟩

def showAgent (a : Agent) : String := s!"{showPos a.pos} {showOrient a.o} {showObj a.held}"

def pState : P State := do
  let g ← pGrid
  let a ← pAgent
  pure ⟨g, a⟩

def showState (s : State) : String := showGrid s.grid ++ " " ++ showAgent s.agent

def pDraw : P DrawSt := do
  let l ← pCounted pNat
  pure (DrawSt.ofAns l)

def showReq : Req → String
  | .choice n => s!"c{n}"
  | .choiceNR n k => s!"n{n}:{k}"
  | .integers lo hi => s!"i{lo}:{hi}"
  | .shuffle n => s!"s{n}"
  | .random c => s!"r{c}"

def showLog (l : List Req) : String := ",".intercalate (l.map showReq)

def showErr : PyErr → String
  | .indexError => "ERR IndexError" | .valueError => "ERR ValueError"
  | .stopIteration => "ERR StopIteration" | .notImplemented => "ERR NotImplementedError"
  | .runtimeError => "ERR RuntimeError" | .typeError => "ERR TypeError"
  | .schemaError => "ERR SchemaError" | .zeroDivision => "ERR ZeroDivisionError"
  | .keyError => "ERR KeyError"

def transAtomOfNat : Nat → Option TransAtom
  | 0 => some .moveAgent | 1 => some .turnAgent | 2 => some .pickndrop | 3 => some .moveObstacles
  | 4 => some .actuateDoor | 5 => some .actuateBox | 6 => some .teleport | _ => none

def pTransAtom : P TransAtom := do
  match transAtomOfNat (← pNat) with
  | some a => pure a
  | none => failure

def pDist : P Dist := do
  match (← tok) with
  | "m" => pure .manhattan | "e" => pure .euclidean | _ => failure

def pRewAtom : P RewAtom := do
  match (← tok) with
  | "ov" => do let k ← pKind; let a ← pInt; let b ← pInt; pure (.overlap k a b)
  | "lv" => do let r ← pInt; pure (.living r)
  | "re" => do let a ← pInt; let b ← pInt; pure (.reachExit a b)
  | "bo" => do let r ← pInt; pure (.bumpObstacle r)
  | "pd" => do let d ← pDist; let k ← pKind; let r ← pInt; pure (.proportional d k r)
  | "gc" => do let d ← pDist; let k ← pKind; let a ← pInt; let b ← pInt; pure (.gettingCloser d k a b)
  | "sp" => do let k ← pKind; let a ← pInt; let b ← pInt; pure (.gettingCloserSP k a b)
  | "bw" => do let r ← pInt; pure (.bumpWall r)
  | "ad" => do let a ← pInt; let b ← pInt; pure (.actuateDoor a b)
  | "pk" => do let k ← pKind; let a ← pInt; let b ← pInt; pure (.pickndrop k a b)
  | "rm" => do let a ← pInt; let b ← pInt; pure (.reachExitMemory a b)
  | _ => failure

def showRTerm : RTerm → String
  | .int n => s!"I{n}"
  | .sqrtMul k sq => s!"Q{k}:{sq}"

/-- termination spec, prefix notation; `fuel` bounds nesting depth -/
def pTermFn : Nat → P TermFn
  | 0 => failure
  | fuel+1 => do
    match (← tok) with
    | "ov" => do let k ← pKind; pure (.overlap k)
    | "re" => pure .reachExit
    | "bo" => pure .bumpObstacle
    | "bw" => pure .bumpWall
    | "any" => do let n ← pNat; let l ← pList (pTermFn fuel) n; pure (.any l)
    | "all" => do let n ← pNat; let l ← pList (pTermFn fuel) n; pure (.all l)
    | _ => failure

def showBool (b : Bool) : String := if b then "T" else "F"

def showMask (h w : Nat) (m : Mask) : String :=
  String.join ((List.range h).map fun (i : Nat) =>
    String.join ((List.range w).map fun (j : Nat) => if m ⟨(i : Int), (j : Int)⟩ then "1" else "0"))

def pRay : P Ray := pCounted pPos
def pRays : P (List Ray) := pCounted pRay

def pProb : P Prob := do
  let n ← pNat
  let d ← pNat
  pure ⟨n, d⟩

def pBool : P Bool := do
  match (← tok) with
  | "1" => pure true | "0" => pure false | _ => failure

def pShape : P Shape := do
  let h ← pInt
  let w ← pInt
  pure ⟨h, w⟩

def pResetSpec : P ResetSpec := do
  match (← tok) with
  | "empty" => do let sh ← pShape; let ra ← pBool; let re ← pBool; pure (.empty sh ra re)
  | "rooms" => do
      let sh ← pShape; let lh ← pInt; let lw ← pInt
      let ys ← pCounted pInt; let xs ← pCounted pInt
      pure (.rooms sh lh lw ys xs)
  | "dynobs" => do let sh ← pShape; let n ← pInt; let ra ← pBool; pure (.dynamicObstacles sh n ra)
  | "keydoor" => do let sh ← pShape; pure (.keydoor sh)
  | "crossing" => do let sh ← pShape; let n ← pInt; let k ← pKind; pure (.crossing sh n k)
  | "teleport" => do let sh ← pShape; pure (.teleport sh)
  | "memory" => do let sh ← pShape; let cs ← pCounted pColor; pure (.memory sh cs)
  | "memrooms" => do
      let sh ← pShape; let lh ← pInt; let lw ← pInt
      let ys ← pCounted pInt; let xs ← pCounted pInt
      let cs ← pCounted pColor; let nb ← pInt; let ne ← pInt
      pure (.memoryRooms sh lh lw ys xs cs nb ne)
  | _ => failure

def pVisKind : P VisKind := do
  match (← tok) with
  | "ft" => pure .ft | "po" => pure .po | "rt" => pure .rt | _ => failure

/-- environment description: spaces, components, debug flag -/
def pEnv : P EnvSpec := do
  let sh ← pNat; let sw ← pNat
  let skinds ← pCounted pKind; let scolors ← pCounted pColor
  let acts ← pCounted pAction
  let oh ← pNat; let ow ← pNat
  let okinds ← pCounted pKind; let ocolors ← pCounted pColor
  let rs ← pResetSpec
  let trans ← pCounted pTransAtom
  let rews ← pCounted pRewAtom
  let vk ← pVisKind; let area ← pArea; let rays ← pRays
  let term ← pTermFn 8
  let dbg ← pBool
  pure {
    stateSpace := ⟨sh, sw, skinds, scolors⟩
    actions := ⟨acts⟩
    obsSpace := ⟨oh, ow, okinds, ocolors⟩
    reset := rs.run
    trans := trans
    rewards := rews
    observe := observeOf vk area rays
    term := term
    debug := dbg }

def pOp : P Op := do
  match (← tok) with
  | "S" => do let l ← pCounted pNat; pure (.setSeed l)
  | "R" => pure .reset
  | "T" => do
      -- an action outside the enum (for bad-action tests) is encoded as 8..: not representable;
      -- the harness only sends enum members, membership is the action space's business
      let a ← pAction; pure (.step a)
  | "GS" => pure .readState
  | "GO" => pure .readObs
  | _ => failure

def showOut : Out → String
  | .unit => "ok"
  | .err e => showErr e
  | .state s => showState s
  | .obs o => showState o
  | .stepRes r t => " ".intercalate (r.map showRTerm) ++ " " ++ showBool t

def pEnc : P Enc := do
  match (← tok) with
  | "default" => pure .default | "no-overlap" => pure .noOverlap | "compact" => pure .compact
  | _ => failure

def showInts (l : List Int) : String := " ".intercalate (l.map toString)

def showStateRepr (r : StateRepr) : String :=
  "G " ++ showInts (r.grid.flatten.flatten) ++ " | A " ++ showInts r.agentIdGrid.flatten ++
  " | P " ++ " ".intercalate (r.agent.map fun p => s!"{p.1}/{p.2}") ++ " | I " ++ showInts r.item

def showObsRepr (r : ObsRepr) : String :=
  "G " ++ showInts (r.grid.flatten.flatten) ++ " | A " ++ showInts r.agentIdGrid.flatten ++
  " | I " ++ showInts r.item

def pStateSpace : P StateSpace := do
  let h ← pNat; let w ← pNat
  let kinds ← pCounted pKind; let colors ← pCounted pColor
  pure ⟨h, w, kinds, colors⟩

def pObsSpace : P ObsSpace := do
  let h ← pNat; let w ← pNat
  let kinds ← pCounted pKind; let colors ← pCounted pColor
  pure ⟨h, w, kinds, colors⟩

/-- configuration data in prefix notation: n | b0 | b1 | i<int> | f<m>e<e> | s<text> | l n … | m n key val … -/
def pYaml : Nat → P Yaml
  | 0 => failure
  | fuel + 1 => do
    let t ← tok
    match t.toList with
    | ['n'] => pure .null
    | ['b', '0'] => pure (.bool false)
    | ['b', '1'] => pure (.bool true)
    | 'i' :: rest =>
      match (String.ofList rest).toInt? with
      | some i => pure (.int i)
      | none => failure
    | 'f' :: rest =>
      match (String.ofList rest).splitOn "e" with
      | [m, e] =>
        match m.toInt?, e.toNat? with
        | some m, some e => pure (.float m e)
        | _, _ => failure
      | _ => failure
    | 's' :: rest => pure (.str (String.ofList rest))
    | ['l'] => do
      let n ← pNat
      let items ← pList (pYaml fuel) n
      pure (.list items)
    | ['m'] => do
      let n ← pNat
      let items ← pList (do
        let k ← tok
        let v ← pYaml fuel
        pure ((k.drop 1).toString, v)) n
      pure (.map items)
    | _ => failure

def pSig : P Sig := do
  let name ← tok
  let req ← pCounted tok
  let opt ← pCounted tok
  pure ⟨name, req, opt⟩

def pRegs : P Regs := do
  let a ← pCounted pSig; let b ← pCounted pSig; let c ← pCounted pSig
  let d ← pCounted pSig; let e ← pCounted pSig; let f ← pCounted pSig
  let objs ← pCounted tok; let cols ← pCounted tok; let acts ← pCounted tok
  pure ⟨a, b, c, d, e, f, objs, cols, acts⟩

/-- a parameter value as the harness prints it (`b0`, `i5`, `f-5e2`, `sWall`, `[i5;i5]`) -/
partial def showYamlVal : Yaml → String
  | .null => "n"
  | .bool b => if b then "b1" else "b0"
  | .int i => "i" ++ toString i
  | .float m e => "f" ++ toString m ++ "e" ++ toString e
  | .str t => "s" ++ t
  | .list l => "[" ++ ";".intercalate (l.map showYamlVal) ++ "]"
  | .map _ => "{}"

/-- keys whose values are turned into objects by `process_reserved_keys` (only the key is printed),
except `shape`, `layout` (the same pair of integers) and `distance_function` (the same name) -/
def convertedKeys : List String :=
  ["transition_functions", "reward_functions", "terminating_functions", "reward_function",
   "visibility_function", "area", "object_type", "colors"]

def showKw (kv : String × Yaml) : String :=
  if convertedKeys.contains kv.1 then kv.1 else
  match kv.2 with
  | .map _ => kv.1
  | v => kv.1 ++ "=" ++ showYamlVal v

partial def showComp : Comp → String
  | .mk name kws subs =>
    name ++ "(" ++ ",".intercalate (kws.map showKw) ++ ")" ++
      (if subs.isEmpty then "" else "[" ++ ";".intercalate (subs.map showComp) ++ "]")

def showDesc (d : EnvDesc) : String :=
  "S:" ++ ",".intercalate d.stateObjects ++ "/" ++ ",".intercalate d.stateColors ++
  " A:" ++ ",".intercalate d.actions ++
  " O:" ++ ",".intercalate d.obsObjects ++ "/" ++ ",".intercalate d.obsColors ++
  " R:" ++ showComp d.reset ++ " T:" ++ showComp d.transition ++ " W:" ++ showComp d.reward ++
  " V:" ++ showComp d.observation ++ " E:" ++ showComp d.terminating

end GV.Codec
