/-
  Model of gym_gridverse/grid.py (list-of-lists grid with Python indexing), agent.py, state.py,
  observation.py.
-/
import GridVerse.Model.Geometry
import GridVerse.Model.Obj
namespace GV

/-- Python exception kinds the modelled code can raise. -/
inductive PyErr
  | indexError | valueError | stopIteration | notImplemented | runtimeError | typeError
  | schemaError | zeroDivision | keyError
deriving DecidableEq, Repr, Inhabited

/-- Python list indexing: negative indices wrap once, otherwise `IndexError` (`none`). -/
def pyIdx {α} (l : List α) (i : Int) : Option α :=
  if 0 ≤ i then l[i.toNat]? else
  if -(l.length : Int) ≤ i then l[(i + l.length).toNat]? else none

/-- `Grid(objects)`: `h = len(objects)`, `w = len(objects[0])`. -/
structure Grid where
  h : Nat
  w : Nat
  cells : List (List Obj)
deriving DecidableEq, Repr, Inhabited

/-- rectangular and consistent with the cached shape -/
def Grid.WF (g : Grid) : Prop := g.cells.length = g.h ∧ ∀ r ∈ g.cells, r.length = g.w

/-- executable version of `WF` (additionally: at least one row and one column, as `Grid.__init__`
needs `objects[0]`). -/
def Grid.wfb (g : Grid) : Bool :=
  g.cells.length == g.h && g.cells.all (fun r => r.length == g.w)

/-- grid built from an index function -/
def Grid.tab (h w : Nat) (f : Nat → Nat → Obj) : Grid :=
  ⟨h, w, (List.range h).map fun i => (List.range w).map fun j => f i j⟩

/-- cell by natural indices (Hidden outside; never relevant for well-formed grids) -/
def Grid.cell (g : Grid) (i j : Nat) : Obj := ((g.cells[i]?).getD [])[j]?.getD .hidden

/-- `grid.area` -/
def Grid.area (g : Grid) : Area := ⟨0, (g.h : Int) - 1, 0, (g.w : Int) - 1⟩

/-- `grid.area.contains(position)` -/
def Grid.contains (g : Grid) (p : Pos) : Bool :=
  decide (0 ≤ p.y) && decide (p.y < g.h) && decide (0 ≤ p.x) && decide (p.x < g.w)

/-- world lookup with Hidden padding (what `subgrid` does per cell) -/
def Grid.at (g : Grid) (p : Pos) : Obj :=
  if g.contains p then g.cell p.y.toNat p.x.toNat else .hidden

/-- `grid[position]` = `self.objects[y][x]` with Python index semantics on both levels. -/
def Grid.pyGet (g : Grid) (p : Pos) : Except PyErr Obj :=
  match pyIdx g.cells p.y with
  | none => .error .indexError
  | some row =>
    match pyIdx row p.x with
    | none => .error .indexError
    | some o => .ok o

/-- in-range assignment `grid[y, x] = obj` -/
def Grid.set (g : Grid) (y x : Nat) (o : Obj) : Grid :=
  { g with cells := g.cells.modify y (fun row => row.set x o) }

/-- `grid[position] = obj` for a position inside the grid (callers guard with `contains`). -/
def Grid.setP (g : Grid) (p : Pos) (o : Obj) : Grid := g.set p.y.toNat p.x.toNat o

/-- `grid.swap(p, q)` for positions inside the grid. -/
def Grid.swap (g : Grid) (p q : Pos) : Grid :=
  let a := g.at p
  let b := g.at q
  (g.setP p b).setP q a

/-- `Grid.from_shape((h, w), factory=o)` -/
def Grid.fill (h w : Nat) (o : Obj) : Grid := Grid.tab h w fun _ _ => o

/-- all positions in row-major order (`grid.area.positions()`) -/
def Grid.positions (g : Grid) : List Pos :=
  (List.range g.h).flatMap fun (i : Nat) => (List.range g.w).map fun (j : Nat) => (⟨(i : Int), (j : Int)⟩ : Pos)

/-- all cells in row-major order -/
def Grid.flat (g : Grid) : List Obj := g.cells.flatten

/-- `grid.subgrid(area)`: slice with Hidden padding. -/
def Grid.subgrid (g : Grid) (a : Area) : Grid :=
  Grid.tab a.height a.width fun i j => g.at ⟨a.ymin + (i : Int), a.xmin + (j : Int)⟩

/-- `grid * orientation` (`_grid_rotation_functions`: F ↦ identity, R ↦ `_rotate_matrix_left`,
B ↦ `_rotate_matrix_backward`, L ↦ `_rotate_matrix_right`), index-defined. -/
def Grid.rot : Orient → Grid → Grid
  | .F, g => g
  | .R, g => Grid.tab g.w g.h fun i j => g.cell j (g.w - 1 - i)
  | .B, g => Grid.tab g.h g.w fun i j => g.cell (g.h - 1 - i) (g.w - 1 - j)
  | .L, g => Grid.tab g.w g.h fun i j => g.cell (g.h - 1 - j) i

/-- The three list-level rotations the code is written with (`zip(*data[::-1])` etc.), used by the
extractor's classification and the correspondence; `rotRightIdx` = `_rotate_matrix_right`. -/
inductive Rot | ident | left | right | backward | unknown
deriving DecidableEq, Repr, Inhabited

def Grid.applyRot : Rot → Grid → Grid
  | .ident, g => g
  | .left, g => Grid.rot .R g
  | .backward, g => Grid.rot .B g
  | .right, g => Grid.rot .L g
  | .unknown, g => g

/-- `Grid.__eq__`: same shape and `==` cells (Python object equality). -/
def Grid.pyEq (a b : Grid) : Bool :=
  a.h == b.h && a.w == b.w &&
    (List.range a.h).all fun i => (List.range a.w).all fun j => (a.cell i j).pyEq (b.cell i j)

/-- number of cells satisfying a predicate -/
def Grid.count (g : Grid) (p : Obj → Bool) : Nat := (g.flat.filter p).length

/-- positions (row-major) whose cell satisfies a predicate -/
def Grid.find (g : Grid) (p : Obj → Bool) : List Pos := g.positions.filter fun q => p (g.at q)

/-- `Agent(position, orientation, grid_object)`; `held = .noneObj` is `NoneGridObject()`. -/
structure Agent where
  pos : Pos
  o : Orient
  held : Obj
deriving DecidableEq, Repr, Inhabited

def Agent.transform (a : Agent) : Transform := ⟨a.pos, a.o⟩
/-- `agent.front()` -/
def Agent.front (a : Agent) : Pos := a.transform.act (Pos.ofOrient .F)

def Agent.pyEq (a b : Agent) : Bool := a.pos == b.pos && a.o == b.o && a.held.pyEq b.held

structure State where
  grid : Grid
  agent : Agent
deriving DecidableEq, Repr, Inhabited

def State.pyEq (a b : State) : Bool := a.grid.pyEq b.grid && a.agent.pyEq b.agent

/-- An observation has the same components as a state. -/
abbrev Obs := State

end GV
