/-
  Winnability (C14): what it means for a plan to win, executable plan constructors (the witnesses
  of the theorems in Props/C14.lean) and a breadth-first solver used to produce per-instance
  certificates where no closed-form plan is proved.
-/
import GridVerse.Model.Transition
import GridVerse.Model.Reward
namespace GV

/-- a terminating function as a stop predicate: an error counts as a stop -/
def stopOf (t : TermFn) (s : State) (a : Action) (s' : State) : Bool :=
  match t.eval s a s' with
  | .ok false => false
  | _ => true

/-- the rewarded goal of every task but the memory ones: the agent stands on an exit -/
def goalExit (s : State) : Bool := s.grid.contains s.agent.pos && (s.grid.at s.agent.pos).isKind .exit

/-- the memory tasks: the agent stands on the exit whose colour is the beacons' -/
def goalMemory (s : State) : Bool :=
  s.grid.contains s.agent.pos && (s.grid.at s.agent.pos).isKind .exit &&
  match s.grid.find fun b => b.isKind .beacon with
  | [] => false
  | bp :: _ => (s.grid.at s.agent.pos).color == (s.grid.at bp).color

/-- does this action sequence (with this stream of draws) reach the goal without an earlier
terminating step?  Reaching the goal ends the run; a terminating non-goal step loses. -/
def checkPlan (fs : List TransAtom) (stop : State → Action → State → Bool) (goal : State → Bool) :
    State → List Action → DrawSt → Bool
  | s, [], _ => goal s
  | s, a :: as, d =>
    goal s ||
    match runChain fs s a d with
    | .error _ => false
    | .ok (s', d') => (goal s' || !stop s a s') && checkPlan fs stop goal s' as d'

/-! ### plan constructors -/

/-- the relative move that takes an agent heading `o` one cell in absolute direction `dir` -/
def moveToward (o dir : Orient) : Action :=
  match o.neg.mul dir with
  | .F => .moveF | .B => .moveB | .L => .moveL | .R => .moveR

/-- `n` cells in absolute direction `dir` -/
def walk (o dir : Orient) (n : Nat) : List Action := List.replicate n (moveToward o dir)

/-- along the column to row `y`, then along the row to column `x` (absolute directions: `F` is up,
i.e. decreasing `y`) -/
def lPlan (o : Orient) (p q : Pos) : List Action :=
  walk o (if q.y < p.y then .F else .B) (q.y - p.y).natAbs ++
  walk o (if q.x < p.x then .L else .R) (q.x - p.x).natAbs

/-- along the row first, then along the column -/
def lPlanH (o : Orient) (p q : Pos) : List Action :=
  walk o (if q.x < p.x then .L else .R) (q.x - p.x).natAbs ++
  walk o (if q.y < p.y then .F else .B) (q.y - p.y).natAbs

/-- turn actions taking heading `o` to heading `t` -/
def turnsTo (o t : Orient) : List Action :=
  match o.neg.mul t with
  | .F => [] | .L => [.turnL] | .R => [.turnR] | .B => [.turnL, .turnL]

def firstExit (g : Grid) : Pos := (g.find fun o => o.isKind .exit).headD ⟨0, 0⟩

/-- the exit of the beacons' colour -/
def goodExit (g : Grid) : Pos :=
  match g.find fun b => b.isKind .beacon with
  | [] => ⟨0, 0⟩
  | bp :: _ => (g.find fun o => o.isKind .exit && o.color == (g.at bp).color).headD ⟨0, 0⟩

/-- `empty` (and anything whose interior is an obstacle-free room): column first, then row -/
def planEmpty (s : State) : List Action := lPlan s.agent.o s.agent.pos (firstExit s.grid)

/-- `memory`: up the middle corridor, then along the top corridor to the matching exit -/
def planMemory (s : State) : List Action := lPlan s.agent.o s.agent.pos (goodExit s.grid)

/-- `keydoor`: go to the cell above the key (below it when the key is in the top row; the key does
not block, so any way there will do), face the key, pick it up, go to the cell left of the door, face
the door, open it, walk through and on to the exit -/
def planKeydoor (s : State) : List Action :=
  let g := s.grid
  let key := (g.find fun o => o.isKind .key).headD ⟨0, 0⟩
  let door := (g.find fun o => o.isKind .door).headD ⟨0, 0⟩
  let o := s.agent.o
  let stand : Pos := if 1 < key.y then ⟨key.y - 1, key.x⟩ else ⟨key.y + 1, key.x⟩
  let face : Orient := if 1 < key.y then .B else .F
  lPlan o s.agent.pos stand ++ (turnsTo o face ++ (.pickNDrop :: (lPlan face stand ⟨door.y, door.x - 1⟩ ++
    (turnsTo face .R ++ (.actuate :: (walk .R .R 2 ++ (lPlan .R ⟨door.y, door.x + 1⟩ (firstExit g) ++ [])))))))

/-- the two monotone ways through a walled room from the top-left to the bottom-right interior
corner: down the first column then along the last row (`A`), or along the first row then down the
last column (`B`) -/
def onPathA (h w : Int) (q : Pos) : Bool :=
  (q.x == 1 && decide (1 ≤ q.y) && decide (q.y ≤ h - 2)) || (q.y == h - 2 && decide (1 ≤ q.x) && decide (q.x ≤ w - 2))
def onPathB (h w : Int) (q : Pos) : Bool :=
  (q.y == 1 && decide (1 ≤ q.x) && decide (q.x ≤ w - 2)) || (q.x == w - 2 && decide (1 ≤ q.y) && decide (q.y ≤ h - 2))

/-- `teleport`: take a way without telepods if there is one; otherwise each way holds one telepod:
walk `A` into its telepod, come out of the other one on `B`, finish along `B` -/
def planTeleport (s : State) : List Action :=
  let g := s.grid
  let h : Int := g.h
  let w : Int := g.w
  let tps := g.find fun o => o.isKind .telepod
  let ex := firstExit g
  let p := s.agent.pos
  let o := s.agent.o
  if tps.all fun t => !onPathA h w t then lPlan o p ex
  else if tps.all fun t => !onPathB h w t then lPlanH o p ex
  else
    let tA := (tps.filter (onPathA h w)).headD p
    let tB := (tps.filter fun t => t != tA).headD p
    lPlan o p tA ++ (lPlanH o tB ex ++ [])

/-! ### breadth-first certificates (grids that do not change: no pick, door, box, obstacle) -/

/-- one BFS layer: expand every frontier state by the four moves, keep unseen agent positions -/
def bfsLayer (fs : List TransAtom) (stop : State → Action → State → Bool) (goal : State → Bool)
    (frontier : List (State × List Action)) (seen : List Pos) :
    List (State × List Action) × List Pos × Option (List Action) :=
  frontier.foldl (fun (acc : List (State × List Action) × List Pos × Option (List Action)) (sp : State × List Action) =>
    [Action.moveF, .moveB, .moveL, .moveR].foldl (fun acc a =>
      match acc.2.2 with
      | some _ => acc
      | none =>
        match runChain fs sp.1 a ⟨[], []⟩ with
        | .error _ => acc
        | .ok (s', _) =>
          if goal s' then (acc.1, acc.2.1, some (a :: sp.2))
          else if stop sp.1 a s' || acc.2.1.contains s'.agent.pos then acc
          else ((s', a :: sp.2) :: acc.1, s'.agent.pos :: acc.2.1, none)) acc) ([], seen, none)

def bfsGoal (fs : List TransAtom) (stop : State → Action → State → Bool) (goal : State → Bool) :
    Nat → List (State × List Action) → List Pos → Option (List Action)
  | 0, _, _ => none
  | fuel + 1, frontier, seen =>
    if frontier.isEmpty then none else
    match bfsLayer fs stop goal frontier seen with
    | (_, _, some plan) => some plan.reverse
    | (next, seen', none) => bfsGoal fs stop goal fuel next seen'

/-- a plan found by search (draws: none needed on a grid that does not change, the single-target
teleport resolves the same for every draw) -/
def solve (fs : List TransAtom) (stop : State → Action → State → Bool) (goal : State → Bool) (s : State) :
    Option (List Action) :=
  if goal s then some [] else bfsGoal fs stop goal (s.grid.h * s.grid.w + 1) [(s, [])] [s.agent.pos]

end GV
