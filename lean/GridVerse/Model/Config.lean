/-
  Model of gym_gridverse/envs/yaml/{schemas,factory}.py and utils/{registry,functions}.py: the
  static part of building an environment from configuration data — schema validation, reserved-key
  processing, component lookup by name, required/optional keyword selection.  The `schema`
  library's combinators are re-implemented as used by `schemas.py`.
-/
import GridVerse.Model.Grid
namespace GV

/-- configuration data as loaded from YAML (floats as decimal `m / 10^e`) -/
inductive Yaml
  | null
  | bool (b : Bool)
  | int (i : Int)
  | float (m : Int) (e : Nat)
  | str (s : String)
  | list (l : List Yaml)
  | map (m : List (String × Yaml))
deriving Repr, Inhabited

def Yaml.get? : Yaml → String → Option Yaml
  | .map m, k => m.lookup k
  | _, _ => none

def Yaml.keys : Yaml → List String
  | .map m => m.map (·.1)
  | _ => []

def Yaml.isMap : Yaml → Bool
  | .map _ => true
  | _ => false

def Yaml.asStr? : Yaml → Option String
  | .str s => some s
  | _ => none

def Yaml.asList? : Yaml → Option (List Yaml)
  | .list l => some l
  | _ => none

/-- `int` in the `schema` library is `isinstance(x, int)`: Python `bool` is an `int` -/
def Yaml.asPyInt? : Yaml → Option Int
  | .int i => some i
  | .bool b => some (if b then 1 else 0)
  | _ => none

/-- signature of a registered function: its non-protocol parameters, split by default presence -/
structure Sig where
  name : String
  required : List String
  optional : List String
deriving DecidableEq, Repr, Inhabited

/-- what the code knows by name -/
structure Regs where
  reset : List Sig
  transition : List Sig
  reward : List Sig
  observation : List Sig
  visibility : List Sig
  terminating : List Sig
  objects : List String
  colors : List String
  actions : List String
deriving Repr, Inhabited

/-- `factory(name, **kwargs)`: unknown name or a missing required keyword is `ValueError`; the
returned `partial` binds exactly the given keywords the function accepts -/
def factoryCheck (reg : List Sig) (name : String) (kw : List String) : Except PyErr (Sig × List String) :=
  match reg.find? (fun s => s.name == name) with
  | none => .error .valueError
  | some sig =>
    if sig.required.all kw.contains then .ok (sig, kw.filter (sig.required ++ sig.optional).contains)
    else .error .valueError

def allDistinct (l : List String) : Bool := l.eraseDups.length == l.length

/-- `_positive_int_pair()` -/
def okPosIntPair (y : Yaml) : Bool :=
  match y with
  | .list [a, b] =>
    match a.asPyInt?, b.asPyInt? with
    | some i, some j => decide (0 < i) && decide (0 < j)
    | _, _ => false
  | _ => false

/-- a non-empty list of unique strings each satisfying `p` -/
def okNameList (p : String → Bool) (y : Yaml) : Bool :=
  match y with
  | .list l =>
    match l.mapM Yaml.asStr? with
    | some names => !names.isEmpty && names.all p && allDistinct names
    | none => false
  | _ => false

def okObjectTypes (y : Yaml) : Bool := okNameList (fun _ => true) y
def okColors (r : Regs) (y : Yaml) : Bool := okNameList r.colors.contains y
def okActions (r : Regs) (y : Yaml) : Bool := okNameList r.actions.contains y

/-- the function schema `{'name': str, Optional(object): object}` plus one optional entry per
reserved key; nested function schemas are validated recursively (`fuel` bounds the nesting) -/
def okFunction (r : Regs) : Nat → Yaml → Bool
  | 0, _ => false
  | fuel + 1, y =>
    match y with
    | .map m =>
      (match m.lookup "name" with | some (.str _) => true | _ => false) &&
      allDistinct (m.map (·.1)) &&
      m.all fun kv =>
        match kv.1 with
        | "reset_function" | "transition_function" | "reward_function" | "terminating_function" =>
          okFunction r fuel kv.2
        | "reset_functions" | "transition_functions" | "reward_functions" | "terminating_functions" =>
          (match kv.2 with
           | .list l => !l.isEmpty && l.all (okFunction r fuel)
           | _ => false)
        | "shape" | "layout" => okPosIntPair kv.2
        | "object_type" => (kv.2.asStr?).isSome
        | "colors" => okColors r kv.2
        | _ => true
    | _ => false

def okSpace (r : Regs) (y : Yaml) : Bool :=
  match y with
  | .map m =>
    (m.map (·.1)).all (fun k => k == "objects" || k == "colors") && allDistinct (m.map (·.1)) &&
    (match m.lookup "objects" with | some o => okObjectTypes o | none => false) &&
    (match m.lookup "colors" with | some c => okColors r c | none => false)
  | _ => false

def envRequired : List String :=
  ["state_space", "observation_space", "reset_function", "transition_functions", "reward_functions",
   "observation_function", "terminating_function"]

def schemaFuel : Nat := 8

/-- `schemas['env'].validate(data)` -/
def okEnv (r : Regs) (y : Yaml) : Bool :=
  match y with
  | .map m =>
    let ks := m.map (·.1)
    envRequired.all ks.contains && ks.all (fun k => envRequired.contains k || k == "action_space") &&
    allDistinct ks &&
    m.all fun kv =>
      match kv.1 with
      | "state_space" | "observation_space" => okSpace r kv.2
      | "action_space" => okActions r kv.2
      | "reset_function" | "observation_function" | "terminating_function" => okFunction r schemaFuel kv.2
      | "transition_functions" | "reward_functions" =>
        (match kv.2 with
         | .list l => !l.isEmpty && l.all (okFunction r schemaFuel)
         | _ => false)
      | _ => true
  | _ => false

/-- numeric value of a scalar as `m / 10^e` -/
def Yaml.asNum? : Yaml → Option (Int × Nat)
  | .int i => some (i, 0)
  | .bool b => some (if b then 1 else 0, 0)
  | .float m e => some (m, e)
  | _ => none

/-- `Area.__post_init__` on one coordinate pair: `pair[0] > pair[1]` is `ValueError`; too short a
list is `IndexError`; non-subscriptable or non-comparable entries `TypeError`; extra entries are
ignored -/
def pairErr (y : Yaml) : Option PyErr :=
  match y with
  | .list (a :: b :: _) =>
    (match a.asNum?, b.asNum? with
     | some (m1, e1), some (m2, e2) =>
       if m1 * (10 : Int) ^ e2 > m2 * (10 : Int) ^ e1 then some .valueError else none
     | _, _ => some .typeError)
  | .list _ => some .indexError
  | _ => some .typeError

/-- a component as built by a factory: registered name and the bound keywords *with the values given
for them* (a value is carried verbatim: `0`, `0.0` and `false` are values like any other; what the
reserved keys are converted to — shapes, areas, object types, nested functions — is outside this
static description, their descriptions are kept); nested components (chains, reducers, the visibility
function of `from_visibility`) are components themselves -/
inductive Comp
  | mk (name : String) (kws : List (String × Yaml)) (subs : List Comp)
deriving Repr, Inhabited

/-- the bound keyword names -/
def Comp.keys : Comp → List String
  | .mk _ kws _ => kws.map (·.1)

/-- `import_if_custom`: `module:name` is resolved outside the model -/
def isCustom (name : String) : Bool := name.toList.any (· == ':')

inductive RegKind | reset | transition | reward | observation | visibility | terminating
deriving DecidableEq, Repr

def Regs.of (r : Regs) : RegKind → List Sig
  | .reset => r.reset | .transition => r.transition | .reward => r.reward
  | .observation => r.observation | .visibility => r.visibility | .terminating => r.terminating

/-- `factory_<kind>_function(data)` after validation: process the reserved keys (which builds the
nested components and resolves object types), then look the function up by name -/
def buildComp (r : Regs) : Nat → RegKind → Yaml → Except PyErr Comp
  | 0, _, _ => .error .runtimeError
  | fuel + 1, kind, y =>
    match y with
    | .map m =>
      match m.lookup "name" with
      | some (.str name) =>
        let rest := m.filter fun kv => kv.1 != "name"
        -- reserved keys, in the order `process_reserved_keys` handles them
        let nestedList (key : String) (k : RegKind) : Except PyErr (List Comp) :=
          match rest.lookup key with
          | some (.list l) => l.mapM (buildComp r fuel k)
          | some _ => .error .typeError
          | none => .ok []
        let nestedOne (key : String) (k : RegKind) : Except PyErr (List Comp) :=
          match rest.lookup key with
          | some v => (buildComp r fuel k v).map fun c => [c]
          | none => .ok []
        match nestedList "transition_functions" .transition with
        | .error e => .error e
        | .ok s1 =>
        match nestedList "reward_functions" .reward with
        | .error e => .error e
        | .ok s2 =>
        match nestedList "terminating_functions" .terminating with
        | .error e => .error e
        | .ok s3 =>
        match nestedOne "reward_function" .reward with
        | .error e => .error e
        | .ok s4 =>
        let distOk : Bool := match rest.lookup "distance_function" with
          | some (.str d) => d == "manhattan" || d == "euclidean"
          | some _ => false
          | none => true
        if !distOk then .error .schemaError else
        match nestedOne "visibility_function" .visibility with
        | .error e => .error e
        | .ok s5 =>
        -- `Area(*data['area'])`: not schema-checked; a non-decreasing pair of pairs is needed
        let areaErr : Option PyErr := match rest.lookup "area" with
          | some (.list [ys, xs]) =>
            (match pairErr ys with
             | some e => some e
             | none => pairErr xs)
          | some _ => some .typeError
          | none => none
        if let some e := areaErr then .error e else
        let objOk : Bool := match rest.lookup "object_type" with
          | some (.str o) => isCustom o || r.objects.contains o
          | some _ => false
          | none => true
        if !objOk then .error .valueError else
        let colorsOk : Bool := match rest.lookup "colors" with
          | some c => okColors r c
          | none => true
        if !colorsOk then .error .schemaError else
        if isCustom name then .ok (.mk name rest (s1 ++ s2 ++ s3 ++ s4 ++ s5)) else
        match factoryCheck (r.of kind) name (rest.map (·.1)) with
        | .error e => .error e
        | .ok (_, sel) =>
          -- a nested component is part of what is built only if its key is one the function accepts
          -- (`select_kwargs` drops the others together with whatever was built for them)
          let keep (key : String) (l : List Comp) : List Comp := if sel.contains key then l else []
          .ok (.mk name (rest.filter fun kv => sel.contains kv.1) (keep "transition_functions" s1 ++ keep "reward_functions" s2 ++
            keep "terminating_functions" s3 ++ keep "reward_function" s4 ++ keep "visibility_function" s5))
      | _ => .error .schemaError
    | _ => .error .schemaError

/-- the static description of the built environment -/
structure EnvDesc where
  stateObjects : List String
  stateColors : List String
  actions : List String
  obsObjects : List String
  obsColors : List String
  reset : Comp
  transition : Comp
  reward : Comp
  observation : Comp
  terminating : Comp
deriving Repr, Inhabited

def namesOf (y : Option Yaml) : List String :=
  match y with
  | some (.list l) => l.filterMap Yaml.asStr?
  | _ => []

def objectsKnown (r : Regs) (names : List String) : Bool := names.all fun n => isCustom n || r.objects.contains n

/-- `factory_env_from_data` up to (excluding) the first call of the reset function -/
def buildDesc (r : Regs) (y : Yaml) : Except PyErr EnvDesc :=
  if !okEnv r y then .error .schemaError else
  let ss := y.get? "state_space"
  let os := y.get? "observation_space"
  let sObjs := namesOf ((ss.bind fun s => s.get? "objects"))
  let sCols := namesOf ((ss.bind fun s => s.get? "colors"))
  if !objectsKnown r sObjs then .error .valueError else
  let acts := match y.get? "action_space" with
    | some a => namesOf (some a)
    | none => r.actions
  let oObjs := namesOf ((os.bind fun s => s.get? "objects"))
  let oCols := namesOf ((os.bind fun s => s.get? "colors"))
  if !objectsKnown r oObjs then .error .valueError else
  match buildComp r schemaFuel .reset ((y.get? "reset_function").getD .null) with
  | .error e => .error e
  | .ok rs =>
  match buildComp r schemaFuel .transition
      (.map [("name", .str "chain"), ("transition_functions", (y.get? "transition_functions").getD .null)]) with
  | .error e => .error e
  | .ok tr =>
  match buildComp r schemaFuel .reward
      (.map [("name", .str "reduce_sum"), ("reward_functions", (y.get? "reward_functions").getD .null)]) with
  | .error e => .error e
  | .ok rw =>
  match buildComp r schemaFuel .observation ((y.get? "observation_function").getD .null) with
  | .error e => .error e
  | .ok ob =>
  match buildComp r schemaFuel .terminating ((y.get? "terminating_function").getD .null) with
  | .error e => .error e
  | .ok te => .ok ⟨sObjs, sCols, acts, oObjs, oCols, rs, tr, rw, ob, te⟩

def isOkE {ε α} : Except ε α → Bool
  | .ok _ => true
  | .error _ => false

/-- the registries as the hand-written model (and the harness' component mapping) expects them;
`Agree/Registry.lean` proves the generated registries equal to this -/
def expectedRegs : Regs := {
  reset :=
     [⟨"empty", ["shape"], ["random_agent", "random_exit"]⟩,
      ⟨"rooms", ["shape", "layout"], []⟩,
      ⟨"dynamic_obstacles", ["shape", "num_obstacles"], ["random_agent"]⟩,
      ⟨"keydoor", ["shape"], []⟩,
      ⟨"crossing", ["shape", "num_rivers", "object_type"], []⟩,
      ⟨"teleport", ["shape"], []⟩,
      ⟨"memory", ["shape", "colors"], []⟩,
      ⟨"memory_rooms", ["shape", "layout", "colors", "num_beacons", "num_exits"], []⟩]
  transition :=
     [⟨"chain", ["transition_functions"], []⟩,
      ⟨"move_agent", [], []⟩,
      ⟨"turn_agent", [], []⟩,
      ⟨"pickndrop", [], []⟩,
      ⟨"move_obstacles", [], []⟩,
      ⟨"actuate_door", [], []⟩,
      ⟨"actuate_box", [], []⟩,
      ⟨"teleport", [], []⟩]
  reward :=
     [⟨"reduce", ["reward_functions", "reduction"], []⟩,
      ⟨"reduce_sum", ["reward_functions"], []⟩,
      ⟨"overlap", ["object_type"], ["reward_on", "reward_off"]⟩,
      ⟨"living_reward", [], ["reward"]⟩,
      ⟨"reach_exit", [], ["reward_on", "reward_off"]⟩,
      ⟨"bump_moving_obstacle", [], ["reward"]⟩,
      ⟨"proportional_to_distance", ["object_type"], ["distance_function", "reward_per_unit_distance"]⟩,
      ⟨"getting_closer", ["object_type"], ["distance_function", "reward_closer", "reward_further"]⟩,
      ⟨"getting_closer_shortest_path", ["object_type"], ["reward_closer", "reward_further"]⟩,
      ⟨"bump_into_wall", [], ["reward"]⟩,
      ⟨"actuate_door", [], ["reward_open", "reward_close"]⟩,
      ⟨"pickndrop", ["object_type"], ["reward_pick", "reward_drop"]⟩,
      ⟨"reach_exit_memory", [], ["reward_good", "reward_bad"]⟩]
  observation :=
     [⟨"from_visibility", ["area", "visibility_function"], []⟩,
      ⟨"fully_transparent", ["area"], []⟩,
      ⟨"partially_occluded", ["area"], []⟩,
      ⟨"raytracing", ["area"], []⟩,
      ⟨"stochastic_raytracing", ["area"], []⟩]
  visibility :=
     [⟨"fully_transparent", [], []⟩,
      ⟨"partially_occluded", [], []⟩,
      ⟨"raytracing", [], ["absolute_counts", "threshold"]⟩,
      ⟨"stochastic_raytracing", [], []⟩]
  terminating :=
     [⟨"reduce", ["terminating_functions", "reduction"], []⟩,
      ⟨"reduce_any", ["terminating_functions"], []⟩,
      ⟨"reduce_all", ["terminating_functions"], []⟩,
      ⟨"overlap", ["object_type"], []⟩,
      ⟨"reach_exit", [], []⟩,
      ⟨"bump_moving_obstacle", [], []⟩,
      ⟨"bump_into_wall", [], []⟩]
  objects := ["NoneGridObject", "Hidden", "Floor", "Wall", "Exit", "Door", "Key", "MovingObstacle", "Box", "Telepod", "Beacon"]
  colors := ["NONE", "RED", "GREEN", "BLUE", "YELLOW"]
  actions := ["MOVE_FORWARD", "MOVE_BACKWARD", "MOVE_LEFT", "MOVE_RIGHT", "TURN_LEFT", "TURN_RIGHT", "ACTUATE", "PICK_N_DROP"] }

end GV
