/-
  Model of gym_gridverse/representations/*: the three grid-object encodings (default, no-overlap,
  compact), the dict representations of states and observations, their declared spaces.
  Float entries of the `agent` array are exact rationals (numerator, denominator).
-/
import GridVerse.Model.Spaces
namespace GV

inductive Enc | default | noOverlap | compact
deriving DecidableEq, Repr, Inhabited

/-- the type and colour sets a grid-object representation is built from
(state: `object_types ∪ {NoneGridObject}`; observation: `∪ {Hidden, NoneGridObject}`; colours with
NONE added by the space) -/
structure ReprCtx where
  kinds : List Kind
  colors : List Color
deriving Repr, Inhabited

def maxOf (l : List Nat) : Nat := l.foldl max 0

def ReprCtx.maxType (c : ReprCtx) : Nat := maxOf (c.kinds.map Kind.typeIndex)
/-- NB the code takes the max of `num_states()` (not of the largest state index) -/
def ReprCtx.maxState (c : ReprCtx) : Nat := maxOf (c.kinds.map Kind.numStates)
def ReprCtx.maxColor (c : ReprCtx) : Nat := maxOf (c.colors.map Color.value)

def ReprCtx.ofState (sp : StateSpace) : ReprCtx := ⟨.noneObj :: sp.kinds, .none :: sp.colors⟩
def ReprCtx.ofObs (sp : ObsSpace) : ReprCtx := ⟨.hidden :: .noneObj :: sp.kinds, .none :: sp.colors⟩

/-- kinds sorted by type index without duplicates, colours by value (`_sorted_object_types` on a set) -/
def ReprCtx.sortedKinds (c : ReprCtx) : List Kind := Kind.all.filter fun k => c.kinds.contains k
def ReprCtx.sortedColors (c : ReprCtx) : List Color := Color.all.filter fun k => c.colors.contains k

def indexOf? {α} [BEq α] (l : List α) (a : α) : Option Nat :=
  let i := l.findIdx (· == a)
  if i < l.length then some i else none

/-- compact type map entry (`-1` when the type is not in the space) -/
def ReprCtx.compactType (c : ReprCtx) (k : Kind) : Int :=
  match indexOf? c.sortedKinds k with
  | some i => i
  | none => -1

/-- number of status slots of the sorted kinds before `k` -/
def ReprCtx.statesBefore (c : ReprCtx) (k : Kind) : Nat :=
  ((c.sortedKinds.takeWhile fun x => x != k).map Kind.numStates).sum

def ReprCtx.totalStates (c : ReprCtx) : Nat := (c.sortedKinds.map Kind.numStates).sum

def ReprCtx.compactState (c : ReprCtx) (k : Kind) (j : Nat) : Int :=
  if c.sortedKinds.contains k && decide (j < k.numStates) then
    ((c.sortedKinds.length + c.statesBefore k + j : Nat) : Int)
  else -1

def ReprCtx.compactColor (c : ReprCtx) (col : Color) : Int :=
  match indexOf? c.sortedColors col with
  | some i => ((c.sortedKinds.length + c.totalStates + i : Nat) : Int)
  | none => -1

/-- sizes of the compact lookup tables (`max_type_index + 1`, `max_state_index + 1`, `max_color + 1`);
indexing beyond them is numpy's `IndexError` -/
structure CompactDims where
  types : Nat
  states : Nat
  colors : Nat

def ReprCtx.dims (c : ReprCtx) : CompactDims := ⟨c.maxType + 1, c.maxState + 1, c.maxColor + 1⟩

/-- the declared upper bounds of the three channels -/
def objUpper (enc : Enc) (c : ReprCtx) : List Int :=
  match enc with
  | .default => [c.maxType, c.maxState, c.maxColor]
  | .noOverlap => [c.maxType, c.maxType + c.maxState + 1, c.maxType + c.maxState + c.maxColor + 2]
  | .compact =>
    -- `.max()` of the three tables (entries not mapped are -1)
    [ (c.sortedKinds.length : Int) - 1,
      if c.totalStates = 0 then -1 else ((c.sortedKinds.length + c.totalStates : Nat) : Int) - 1,
      if c.sortedColors.length = 0 then -1
      else ((c.sortedKinds.length + c.totalStates + c.sortedColors.length : Nat) : Int) - 1 ]

/-- `convert(grid_object)` -/
def objConvert (enc : Enc) (c : ReprCtx) (o : Obj) : Except PyErr (List Int) :=
  match enc with
  | .default => .ok [o.kind.typeIndex, o.stateIndex, o.color.value]
  | .noOverlap =>
    .ok [o.kind.typeIndex, c.maxType + o.stateIndex + 1, c.maxType + c.maxState + o.color.value + 2]
  | .compact =>
    if o.kind.typeIndex < c.dims.types && o.stateIndex < c.dims.states && o.color.value < c.dims.colors then
      .ok [c.compactType o.kind, c.compactState o.kind o.stateIndex, c.compactColor o.color]
    else .error .indexError

def mapE {α β} (f : α → Except PyErr β) : List α → Except PyErr (List β)
  | [] => .ok []
  | a :: as =>
    match f a with
    | .error e => .error e
    | .ok b =>
      match mapE f as with
      | .error e => .error e
      | .ok bs => .ok (b :: bs)

/-- the `grid` array: per-cell encodings, rows of the state's own shape -/
def gridConvert (enc : Enc) (c : ReprCtx) (g : Grid) : Except PyErr (List (List (List Int))) :=
  mapE (fun (i : Nat) => mapE (fun (j : Nat) => objConvert enc c (g.cell i j)) (List.range g.w)) (List.range g.h)

/-- the `agent_id_grid` array (numpy index assignment: negative indices wrap) -/
def agentIdGrid (g : Grid) (p : Pos) : Except PyErr (List (List Int)) :=
  let wrap (v : Int) (n : Nat) : Option Nat :=
    if 0 ≤ v ∧ v < n then some v.toNat else if -(n : Int) ≤ v ∧ v < 0 then some (v + n).toNat else none
  match wrap p.y g.h, wrap p.x g.w with
  | some y, some x =>
    .ok ((List.range g.h).map fun i => (List.range g.w).map fun j => if i = y ∧ j = x then (1 : Int) else 0)
  | _, _ => .error .indexError

/-- the `agent` array of the state representation: `[y, x, onehot(orientation)]`, `y` and `x` as
exact fractions `(2 p - n + 1) / (n - 1)`; `ZeroDivisionError` for a one-row / one-column grid -/
def agentArray (g : Grid) (a : Agent) : Except PyErr (List (Int × Int)) :=
  if g.h = 1 ∨ g.w = 1 then .error .zeroDivision
  else
    .ok ([ (2 * a.pos.y - g.h + 1, (g.h : Int) - 1), (2 * a.pos.x - g.w + 1, (g.w : Int) - 1) ] ++
      (List.range 4).map fun i => (if i = a.o.value then (1 : Int) else 0, (1 : Int)))

structure StateRepr where
  grid : List (List (List Int))
  agentIdGrid : List (List Int)
  agent : List (Int × Int)
  item : List Int
deriving DecidableEq, Repr, Inhabited

structure ObsRepr where
  grid : List (List (List Int))
  agentIdGrid : List (List Int)
  item : List Int
deriving DecidableEq, Repr, Inhabited

/-- `make_state_representation(name, space)`: ValueError when a type cannot be represented -/
def stateReprOk (sp : StateSpace) : Bool := sp.canBeRepresented

/-- `DictStateRepresentation.convert` (debug check first; dict order grid, agent_id_grid, agent, item) -/
def stateConvert (enc : Enc) (sp : StateSpace) (debug : Bool) (s : State) : Except PyErr StateRepr :=
  if debug && !sp.contains s then .error .valueError else
  let c := ReprCtx.ofState sp
  match gridConvert enc c s.grid with
  | .error e => .error e
  | .ok g =>
    match agentIdGrid s.grid s.agent.pos with
    | .error e => .error e
    | .ok ag =>
      match agentArray s.grid s.agent with
      | .error e => .error e
      | .ok aa =>
        match objConvert enc c s.agent.held with
        | .error e => .error e
        | .ok it => .ok ⟨g, ag, aa, it⟩

def obsConvert (enc : Enc) (sp : ObsSpace) (debug : Bool) (o : Obs) : Except PyErr ObsRepr :=
  if debug && !sp.contains o then .error .valueError else
  let c := ReprCtx.ofObs sp
  match gridConvert enc c o.grid with
  | .error e => .error e
  | .ok g =>
    match agentIdGrid o.grid o.agent.pos with
    | .error e => .error e
    | .ok ag =>
      match objConvert enc c o.agent.held with
      | .error e => .error e
      | .ok it => .ok ⟨g, ag, it⟩

/-- declared space of one key: shape, integer/float dtype, per-entry bounds.  `grid`: `h × w`
copies of the object bounds; `agent_id_grid`: `h × w` entries in `[0, 1]`; `agent`: six floats,
`[-1, 1]²×[0, 1]⁴`; `item`: the object bounds. -/
structure ReprSpace where
  h : Nat
  w : Nat
  objUpper : List Int
deriving Repr, Inhabited

def stateSpaceOf (enc : Enc) (sp : StateSpace) : ReprSpace := ⟨sp.h, sp.w, objUpper enc (ReprCtx.ofState sp)⟩
def obsSpaceOf (enc : Enc) (sp : ObsSpace) : ReprSpace := ⟨sp.h, sp.w, objUpper enc (ReprCtx.ofObs sp)⟩

def objInBounds (upper : List Int) (v : List Int) : Bool :=
  v.length == upper.length && (v.zip upper).all fun p => decide (0 ≤ p.1) && decide (p.1 ≤ p.2)

/-- `Space.contains` key by key -/
def ReprSpace.containsGrid (rs : ReprSpace) (g : List (List (List Int))) : Bool :=
  g.length == rs.h && g.all fun row => row.length == rs.w && row.all (objInBounds rs.objUpper)
def ReprSpace.containsAgentId (rs : ReprSpace) (g : List (List Int)) : Bool :=
  g.length == rs.h && g.all fun row => row.length == rs.w && row.all fun v => decide (0 ≤ v) && decide (v ≤ 1)
/-- `-1 ≤ n/d ≤ 1` resp. `0 ≤ n/d ≤ 1` for `d > 0` -/
def ReprSpace.containsAgent (a : List (Int × Int)) : Bool :=
  a.length == 6 &&
  ((a.take 2).all fun p => decide (0 < p.2) && decide (-p.2 ≤ p.1) && decide (p.1 ≤ p.2)) &&
  ((a.drop 2).all fun p => decide (0 < p.2) && decide (0 ≤ p.1) && decide (p.1 ≤ p.2))

def ReprSpace.containsState (rs : ReprSpace) (r : StateRepr) : Bool :=
  rs.containsGrid r.grid && rs.containsAgentId r.agentIdGrid && ReprSpace.containsAgent r.agent &&
  objInBounds rs.objUpper r.item
def ReprSpace.containsObs (rs : ReprSpace) (r : ObsRepr) : Bool :=
  rs.containsGrid r.grid && rs.containsAgentId r.agentIdGrid && objInBounds rs.objUpper r.item

end GV
