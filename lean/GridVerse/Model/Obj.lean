/-
  Model of gym_gridverse/grid_object.py: the eleven registered grid-object classes, their flags,
  Python-level equality / hash key.
-/
namespace GV

/-- `Color` in enum order (value = index). -/
inductive Color | none | red | green | blue | yellow
deriving DecidableEq, Repr, Inhabited

def Color.all : List Color := [.none, .red, .green, .blue, .yellow]
def Color.value : Color → Nat
  | .none => 0 | .red => 1 | .green => 2 | .blue => 3 | .yellow => 4

/-- `Door.Status` in enum order. -/
inductive DoorStatus | open | closed | locked
deriving DecidableEq, Repr, Inhabited

def DoorStatus.all : List DoorStatus := [.open, .closed, .locked]
def DoorStatus.value : DoorStatus → Nat
  | .open => 0 | .closed => 1 | .locked => 2

/-- The registered classes, in registration order (`type_index`). -/
inductive Kind
  | noneObj | hidden | floor | wall | exit | door | key | obstacle | box | telepod | beacon
deriving DecidableEq, Repr, Inhabited

def Kind.all : List Kind :=
  [.noneObj, .hidden, .floor, .wall, .exit, .door, .key, .obstacle, .box, .telepod, .beacon]

/-- `cls.type_index()` -/
def Kind.typeIndex : Kind → Nat
  | .noneObj => 0 | .hidden => 1 | .floor => 2 | .wall => 3 | .exit => 4 | .door => 5
  | .key => 6 | .obstacle => 7 | .box => 8 | .telepod => 9 | .beacon => 10

/-- `cls.num_states()` -/
def Kind.numStates : Kind → Nat
  | .door => 3 | _ => 1

/-- `cls.can_be_represented_in_state()` -/
def Kind.canBeRepresented : Kind → Bool
  | .hidden => false | .box => false | _ => true

/-- A grid-object instance.  `Exit()` without argument is `exit .none`. -/
inductive Obj
  | noneObj | hidden | floor | wall
  | exit (c : Color)
  | door (s : DoorStatus) (c : Color)
  | key (c : Color)
  | obstacle
  | box (content : Obj)
  | telepod (c : Color)
  | beacon (c : Color)
deriving DecidableEq, Repr, Inhabited

def Obj.kind : Obj → Kind
  | .noneObj => .noneObj | .hidden => .hidden | .floor => .floor | .wall => .wall
  | .exit _ => .exit | .door _ _ => .door | .key _ => .key | .obstacle => .obstacle
  | .box _ => .box | .telepod _ => .telepod | .beacon _ => .beacon

def Obj.color : Obj → Color
  | .exit c | .door _ c | .key c | .telepod c | .beacon c => c
  | _ => .none

def Obj.stateIndex : Obj → Nat
  | .door s _ => s.value
  | _ => 0

def Obj.blocksMovement : Obj → Bool
  | .wall => true
  | .box _ => true
  | .door s _ => s != .open
  | _ => false

def Obj.blocksVision : Obj → Bool
  | .noneObj => true | .hidden => true | .wall => true
  | .door s _ => s != .open
  | _ => false

def Obj.holdable : Obj → Bool
  | .key _ => true
  | _ => false

/-- `isinstance(obj, cls)` for a registered class `cls`. -/
def Obj.isKind (o : Obj) (k : Kind) : Bool := o.kind == k

/-- `Box.__init__` raises `ValueError` on `NoneGridObject`/`Hidden` content (recursively well-formed). -/
def Obj.WF : Obj → Bool
  | .box c => c.kind != .noneObj && c.kind != .hidden && c.WF
  | _ => true

/-- key of `GridObject.__hash__`: `(type_index, state_index, color)` -/
def Obj.hashKey (o : Obj) : Nat × Nat × Nat := (o.kind.typeIndex, o.stateIndex, o.color.value)

/-- `GridObject.__eq__`: compares type index, state index and colour — *not* a box's content. -/
def Obj.pyEq (a b : Obj) : Bool := a.hashKey == b.hashKey

/-- `cls()` for classes constructible without arguments (`Exit()` has colour NONE); the others
raise `TypeError`. -/
def Kind.default? : Kind → Option Obj
  | .noneObj => some .noneObj | .hidden => some .hidden | .floor => some .floor
  | .wall => some .wall | .exit => some (.exit .none) | .obstacle => some .obstacle
  | _ => none

end GV
