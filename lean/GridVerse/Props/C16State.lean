/-
  C16, state level: two members of a state space have equal representations iff they are equal
  (Python equality: cell-wise and held-item equality of (type, status, colour), same pose).
-/
import GridVerse.Props.C16
import GridVerse.Lemmas.Flat
set_option linter.unusedSimpArgs false
namespace GV

/-- inversion of `mapE` -/
theorem mapE_ok_iff {α β : Type} (f : α → Except PyErr β) (l : List α) (bs : List β) :
    mapE f l = .ok bs ↔ bs.length = l.length ∧ ∀ i (h1 : i < l.length) (h2 : i < bs.length), f l[i] = .ok bs[i] := by
  induction l generalizing bs with
  | nil =>
    simp only [mapE, Except.ok.injEq, List.length_nil]
    constructor
    · intro h; subst h; exact ⟨rfl, fun i h1 => absurd h1 (Nat.not_lt_zero _)⟩
    · rintro ⟨h, _⟩; exact (List.eq_nil_of_length_eq_zero h).symm
  | cons a as ih =>
    simp only [mapE]
    constructor
    · intro h
      cases hfa : f a with
      | error e => rw [hfa] at h; cases h
      | ok b =>
        rw [hfa] at h
        cases hr : mapE f as with
        | error e => rw [hr] at h; cases h
        | ok bs' =>
          rw [hr] at h
          simp only [Except.ok.injEq] at h
          subst h
          obtain ⟨hl, hi⟩ := (ih bs').mp hr
          refine ⟨by simp [hl], ?_⟩
          intro i h1 h2
          cases i with
          | zero => simpa using hfa
          | succ j => simpa using hi j (by simpa using h1) (by simpa using h2)
    · rintro ⟨hl, hi⟩
      cases bs with
      | nil => simp at hl
      | cons b bs' =>
        have h0 := hi 0 (by simp) (by simp)
        simp only [List.getElem_cons_zero] at h0
        have hrest : mapE f as = .ok bs' := by
          rw [ih bs']
          refine ⟨by simpa using hl, ?_⟩
          intro i h1 h2
          have := hi (i + 1) (by simpa using h1) (by simpa using h2)
          simpa using this
        rw [h0, hrest]

/-- `mapE` of two functions over the same list agree when the functions agree pointwise -/
theorem mapE_congr {α β : Type} (f g : α → Except PyErr β) (l : List α) (h : ∀ a ∈ l, f a = g a) :
    mapE f l = mapE g l := by
  induction l with
  | nil => rfl
  | cons a as ih =>
    simp only [mapE, h a (List.mem_cons_self ..), ih (fun x hx => h x (List.mem_cons_of_mem _ hx))]

/-- the objects of a member: kind and colour belong to the representation context -/
def InCtx (c : ReprCtx) (o : Obj) : Prop := o.kind ∈ c.kinds ∧ o.color ∈ c.colors

/-- one statement for the three encodings: on objects of the context, equal encodings iff equal -/
theorem objConvert_inj (enc : Enc) (c : ReprCtx) (a b : Obj) (ha : InCtx c a) (hb : InCtx c b) :
    objConvert enc c a = objConvert enc c b ↔ a.pyEq b = true := by
  cases enc
  · exact C16_obj_injective_default c a b
  · exact C16_obj_injective_noOverlap c a b
  · exact C16_obj_injective_compact c a b ha.1 hb.1 ha.2 hb.2

/-- what membership in the state space gives about every cell and the held item -/
theorem member_inCtx (sp : StateSpace) (s : State) (wf : s.grid.WF) (h : sp.contains s = true) :
    s.grid.h = sp.h ∧ s.grid.w = sp.w ∧ s.grid.contains s.agent.pos = true ∧
    (∀ i j, i < s.grid.h → j < s.grid.w → InCtx (ReprCtx.ofState sp) (s.grid.cell i j)) ∧
    InCtx (ReprCtx.ofState sp) s.agent.held := by
  simp only [StateSpace.contains, Bool.and_eq_true, beq_iff_eq, Bool.or_eq_true, List.contains_eq_mem,
    decide_eq_true_eq] at h
  obtain ⟨⟨⟨⟨⟨⟨h1, h2⟩, h3⟩, h4⟩, h5⟩, h6⟩, h7⟩ := h
  refine ⟨h1, h2, h5, ?_, ?_⟩
  · intro i j hi hj
    have hq : s.grid.contains ⟨(i : Int), (j : Int)⟩ = true := by
      rw [Grid.contains_iff]; simp only; omega
    have hm : s.grid.cell i j ∈ s.grid.flat :=
      (Grid.mem_flat_iff s.grid wf _).mpr ⟨⟨(i : Int), (j : Int)⟩, hq, by rw [Grid.at_of_contains _ _ hq]; simp⟩
    rw [List.all_eq_true] at h3 h4
    have k := h3 _ hm
    have cc := h4 _ hm
    simp only [List.contains_eq_mem, decide_eq_true_eq] at k
    exact ⟨List.mem_cons_of_mem _ k, colorOk_mem _ _ cc⟩
  · refine ⟨?_, colorOk_mem _ _ h7⟩
    rcases h6 with h | h
    · rw [h]; exact List.mem_cons_self ..
    · exact List.mem_cons_of_mem _ h

/-- **C16 (states).**  For two members of the same state space and any of the three encodings:
their representations (all four arrays) are equal iff the states are equal. -/
theorem C16_state_lossless (enc : Enc) (sp : StateSpace) (dbg : Bool) (s1 s2 : State)
    (wf1 : s1.grid.WF) (wf2 : s2.grid.WF) (m1 : sp.contains s1 = true) (m2 : sp.contains s2 = true)
    (r1 r2 : StateRepr) (c1 : stateConvert enc sp dbg s1 = .ok r1) (c2 : stateConvert enc sp dbg s2 = .ok r2) :
    r1 = r2 ↔ s1.pyEq s2 = true := by
  obtain ⟨h1, w1, p1, cells1, held1⟩ := member_inCtx sp s1 wf1 m1
  obtain ⟨h2, w2, p2, cells2, held2⟩ := member_inCtx sp s2 wf2 m2
  -- unfold the two conversions
  simp only [stateConvert, m1, m2, Bool.not_true, Bool.and_false, Bool.false_eq_true, if_false] at c1 c2
  cases g1 : gridConvert enc (ReprCtx.ofState sp) s1.grid with
  | error e => rw [g1] at c1; cases c1
  | ok ga =>
  cases g2 : gridConvert enc (ReprCtx.ofState sp) s2.grid with
  | error e => rw [g2] at c2; cases c2
  | ok gb =>
  rw [g1] at c1; rw [g2] at c2
  simp only [C16_agent_marker _ _ p1, C16_agent_marker _ _ p2] at c1 c2
  cases a1 : agentArray s1.grid s1.agent with
  | error e => rw [a1] at c1; cases c1
  | ok aa =>
  cases a2 : agentArray s2.grid s2.agent with
  | error e => rw [a2] at c2; cases c2
  | ok ab =>
  rw [a1] at c1; rw [a2] at c2
  cases i1 : objConvert enc (ReprCtx.ofState sp) s1.agent.held with
  | error e => rw [i1] at c1; cases c1
  | ok ia =>
  cases i2 : objConvert enc (ReprCtx.ofState sp) s2.agent.held with
  | error e => rw [i2] at c2; cases c2
  | ok ib =>
  rw [i1] at c1; rw [i2] at c2
  simp only [Except.ok.injEq] at c1 c2
  subst c1; subst c2
  have hdims : s1.grid.h = s2.grid.h ∧ s1.grid.w = s2.grid.w := ⟨by rw [h1, h2], by rw [w1, w2]⟩
  have hh2 : 2 ≤ s1.grid.h ∧ 2 ≤ s1.grid.w := by
    have : ¬ (s1.grid.h = 1 ∨ s1.grid.w = 1) := by
      intro h; simp [agentArray, h] at a1
    rw [Grid.contains_iff] at p1
    omega
  -- the grid arrays are equal iff the cells are pairwise equal
  have hgrid : ga = gb ↔ ∀ i j, i < s1.grid.h → j < s1.grid.w → (s1.grid.cell i j).pyEq (s2.grid.cell i j) = true := by
    constructor
    · intro hg i j hi hj
      obtain ⟨x1, x2, e1⟩ := C16_positional enc _ s1.grid ga g1 i j hi hj
      obtain ⟨y1, y2, e2⟩ := C16_positional enc _ s2.grid gb g2 i j (by omega) (by omega)
      subst hg
      rw [← objConvert_inj enc _ _ _ (cells1 i j hi hj) (cells2 i j (by omega) (by omega)), e1, e2]
    · intro hc
      have : gridConvert enc (ReprCtx.ofState sp) s1.grid = gridConvert enc (ReprCtx.ofState sp) s2.grid := by
        unfold gridConvert
        rw [← hdims.1, ← hdims.2]
        apply mapE_congr
        intro i hi
        apply mapE_congr
        intro j hj
        rw [List.mem_range] at hi hj
        exact (objConvert_inj enc _ _ _ (cells1 i j hi hj) (cells2 i j (by omega) (by omega))).mpr (hc i j hi hj)
      rw [g1, g2] at this
      exact Except.ok.inj this
  have hitem : ia = ib ↔ s1.agent.held.pyEq s2.agent.held = true := by
    rw [← objConvert_inj enc _ _ _ held1 held2, i1, i2]
    constructor
    · intro h; rw [h]
    · intro h; exact Except.ok.inj h
  constructor
  · intro h
    have e := StateRepr.mk.inj h
    obtain ⟨eg, eid, ea, ei⟩ := e
    have hpose := C16_agent_array_injective s1.grid s1.agent s2.agent hh2.1 hh2.2 (by
      rw [a1]
      have : agentArray s1.grid s2.agent = agentArray s2.grid s2.agent := by
        simp only [agentArray, hdims.1, hdims.2]
      rw [this, a2, ea])
    simp only [State.pyEq, Grid.pyEq, Agent.pyEq, Bool.and_eq_true, beq_iff_eq, hdims.1, hdims.2, true_and,
      List.all_eq_true, List.mem_range, hpose.1, hpose.2, hitem.mp ei, and_true]
    intro i hi j hj
    exact hgrid.mp eg i j (by omega) (by omega)
  · intro h
    simp only [State.pyEq, Grid.pyEq, Agent.pyEq, Bool.and_eq_true, beq_iff_eq, List.all_eq_true,
      List.mem_range] at h
    obtain ⟨⟨⟨_, _⟩, hc⟩, ⟨hp, ho⟩, hheld⟩ := h
    have eg := hgrid.mpr (fun i j hi hj => hc i hi j hj)
    have ei := hitem.mpr hheld
    have ea : aa = ab := by
      have : agentArray s1.grid s1.agent = agentArray s2.grid s2.agent := by
        simp only [agentArray, hdims.1, hdims.2, hp, ho]
      rw [a1, a2] at this
      exact Except.ok.inj this
    have eid : ((List.range s1.grid.h).map fun i => (List.range s1.grid.w).map fun j =>
        if i = s1.agent.pos.y.toNat ∧ j = s1.agent.pos.x.toNat then (1 : Int) else 0) =
        ((List.range s2.grid.h).map fun i => (List.range s2.grid.w).map fun j =>
        if i = s2.agent.pos.y.toNat ∧ j = s2.agent.pos.x.toNat then (1 : Int) else 0) := by
      rw [hdims.1, hdims.2, hp]
    rw [eg, ei, ea, eid]

end GV
