/-
  C12 — Rewards and termination mean what they say, and agree with each other.

  "Each built-in reward and termination component is a deterministic function of (state, action,
  next state) returning exactly its documented value: reaching an exit terminates and pays the
  on-reward iff the agent's next cell is an exit, bumping fires iff the attempted move targets a
  wall (or the agent ends on a moving obstacle), distance shaping has the sign of the change in
  distance, pick/drop and door rewards fire exactly on the corresponding change, the memory reward
  is good iff the exit's colour matches the beacon. A composite reward is the sum of its parts and
  composite termination the any/all of its parts, so an environment pays its exit reward on exactly
  the steps on which exit-termination fires."

  (Being functions in Lean, the components are deterministic functions of the triple by
  construction; that the *code* is — no hidden state, no draws — is the correspondence's and C02's
  business.)
-/
import GridVerse.Lemmas.Atoms
import GridVerse.Lemmas.Bfs
import GridVerse.Model.Reward
import GridVerse.Agree.Actions
import GridVerse.Agree.Orient
import GridVerse.Agree.Objects
set_option linter.unusedSimpArgs false
namespace GV

/-- the next state's agent stands inside a rectangular grid -/
def State.AgentIn (s : State) : Prop := s.grid.WF ∧ s.grid.contains s.agent.pos = true

/-! ### overlap family: reach_exit, bump_moving_obstacle (reward and termination) -/

theorem C12_overlap_reward (k : Kind) (on off : Int) (s : State) (a : Action) (s' : State)
    (h : s'.AgentIn) :
    (RewAtom.overlap k on off).eval s a s' =
      .ok (.int (if (s'.grid.at s'.agent.pos).kind = k then on else off)) := by
  simp [RewAtom.eval, rewOverlap, Grid.pyGet_of_contains _ h.1 _ h.2, Obj.isKind]

theorem C12_reach_exit_reward (on off : Int) (s : State) (a : Action) (s' : State) (h : s'.AgentIn) :
    (RewAtom.reachExit on off).eval s a s' =
      .ok (.int (if (s'.grid.at s'.agent.pos).kind = .exit then on else off)) := by
  simp [RewAtom.eval, rewOverlap, Grid.pyGet_of_contains _ h.1 _ h.2, Obj.isKind]

theorem C12_reach_exit_term (s : State) (a : Action) (s' : State) (h : s'.AgentIn) :
    TermFn.reachExit.eval s a s' = .ok ((s'.grid.at s'.agent.pos).kind == .exit) := by
  simp [TermFn.eval, termOverlap, Grid.pyGet_of_contains _ h.1 _ h.2, Obj.isKind]

theorem C12_overlap_term (k : Kind) (s : State) (a : Action) (s' : State) (h : s'.AgentIn) :
    (TermFn.overlap k).eval s a s' = .ok ((s'.grid.at s'.agent.pos).kind == k) := by
  simp [TermFn.eval, termOverlap, Grid.pyGet_of_contains _ h.1 _ h.2, Obj.isKind]

/-- the exit reward pays `on` on exactly the steps on which exit-termination fires -/
theorem C12_exit_consistent (on off : Int) (hne : on ≠ off) (s : State) (a : Action) (s' : State)
    (h : s'.AgentIn) :
    (RewAtom.reachExit on off).eval s a s' = .ok (.int on) ↔ TermFn.reachExit.eval s a s' = .ok true := by
  rw [C12_reach_exit_reward on off s a s' h, C12_reach_exit_term s a s' h]
  by_cases hk : (s'.grid.at s'.agent.pos).kind = .exit
  · simp [hk]
  · simp [hk, Ne.symm hne]

theorem C12_bump_obstacle (r : Int) (s : State) (a : Action) (s' : State) (h : s'.AgentIn) :
    (RewAtom.bumpObstacle r).eval s a s' =
      .ok (.int (if (s'.grid.at s'.agent.pos).kind = .obstacle then r else 0)) ∧
    TermFn.bumpObstacle.eval s a s' = .ok ((s'.grid.at s'.agent.pos).kind == .obstacle) := by
  simp [RewAtom.eval, TermFn.eval, rewOverlap, termOverlap, Grid.pyGet_of_contains _ h.1 _ h.2, Obj.isKind]

/-! ### bump_into_wall: the attempted move targets an in-grid wall -/

theorem C12_bump_wall (r : Int) (s : State) (a : Action) (s' : State) :
    (RewAtom.bumpWall r).eval s a s' =
      .ok (.int (if s.grid.contains (nextPos s.agent.pos s.agent.o a) = true ∧
                    s.grid.at (nextPos s.agent.pos s.agent.o a) = .wall then r else 0)) ∧
    TermFn.bumpWall.eval s a s' =
      .ok (decide (s.grid.contains (nextPos s.agent.pos s.agent.o a) = true ∧
                   s.grid.at (nextPos s.agent.pos s.agent.o a) = .wall)) := by
  have hw : ∀ o : Obj, o.isKind .wall = true ↔ o = .wall := by
    intro o; cases o <;> simp [Obj.isKind, Obj.kind]
  constructor
  · simp only [RewAtom.eval]
    by_cases h1 : s.grid.contains (nextPos s.agent.pos s.agent.o a) = true
    · by_cases h2 : s.grid.at (nextPos s.agent.pos s.agent.o a) = .wall
      · simp [h1, h2, Obj.isKind, Obj.kind]
      · have : (s.grid.at (nextPos s.agent.pos s.agent.o a)).isKind .wall = false := by
          rw [Bool.eq_false_iff]; intro hh; exact h2 ((hw _).mp hh)
        simp [h1, h2, this]
    · simp [h1]
  · simp only [TermFn.eval]
    by_cases h1 : s.grid.contains (nextPos s.agent.pos s.agent.o a) = true
    · by_cases h2 : s.grid.at (nextPos s.agent.pos s.agent.o a) = .wall
      · simp [h1, h2, Obj.isKind, Obj.kind]
      · have : (s.grid.at (nextPos s.agent.pos s.agent.o a)).isKind .wall = false := by
          rw [Bool.eq_false_iff]; intro hh; exact h2 ((hw _).mp hh)
        simp [h1, h2, this]
    · simp [h1]

/-- for a non-move action the "target" is the agent's own cell: never a wall for an agent standing
on a non-blocking cell (C08's invariant) -/
theorem C12_bump_wall_non_move (s : State) (a : Action) (s' : State) (hm : a.isMove = false)
    (hb : (s.grid.at s.agent.pos).blocksMovement = false) :
    TermFn.bumpWall.eval s a s' = .ok false := by
  rw [(C12_bump_wall 0 s a s').2]
  have : nextPos s.agent.pos s.agent.o a = s.agent.pos := by
    simp only [nextPos]
    cases hmo : a.moveOrient with
    | none => rfl
    | some m => simp [Action.isMove, hmo] at hm
  rw [this]
  have : s.grid.at s.agent.pos ≠ .wall := by
    intro h; rw [h] at hb; cases hb
  simp [this]

/-! ### distance shaping -/

theorem C12_getting_closer (d : Dist) (k : Kind) (closer further : Int) (s : State) (a : Action)
    (s' : State) (p p' : Pos) (hp : uniquePos s.grid k = .ok p) (hp' : uniquePos s'.grid k = .ok p') :
    (RewAtom.gettingCloser d k closer further).eval s a s' =
      .ok (.int (if d.cmpVal s'.agent.pos p' < d.cmpVal s.agent.pos p then closer
                 else if d.cmpVal s'.agent.pos p' > d.cmpVal s.agent.pos p then further else 0)) := by
  simp [RewAtom.eval, hp, hp']

/-- the squared Euclidean distance compares like the Euclidean distance the code computes
(`sqrt` is strictly monotone on non-negative reals — trusted for the float `math.sqrt`) and is
non-negative; the Manhattan value is the Manhattan distance itself -/
theorem C12_cmpVal (p q : Pos) :
    Dist.manhattan.cmpVal p q = (p.y - q.y).natAbs + (p.x - q.x).natAbs ∧
    Dist.euclidean.cmpVal p q = (p.y - q.y) * (p.y - q.y) + (p.x - q.x) * (p.x - q.x) ∧
    0 ≤ Dist.euclidean.cmpVal p q := by
  refine ⟨rfl, rfl, ?_⟩
  simp only [Dist.cmpVal, Pos.sqEuclid]
  have sq : ∀ z : Int, 0 ≤ z * z := by
    intro z
    rcases Int.le_total 0 z with h | h
    · exact Int.mul_nonneg h h
    · exact Int.mul_nonneg_of_nonpos_of_nonpos h h
  have h1 := sq (p.y - q.y)
  have h2 := sq (p.x - q.x)
  omega

theorem C12_proportional (k : Kind) (per : Int) (s : State) (a : Action) (s' : State) (p : Pos)
    (hp : uniquePos s'.grid k = .ok p) :
    (RewAtom.proportional .manhattan k per).eval s a s' = .ok (.int (per * Pos.manhattan s'.agent.pos p)) ∧
    (RewAtom.proportional .euclidean k per).eval s a s' = .ok (.sqrtMul per (Pos.sqEuclid s'.agent.pos p)) := by
  simp [RewAtom.eval, hp]

/-- the documented precondition of the distance rewards: exactly one object of the type -/
theorem C12_unique_iff (g : Grid) (k : Kind) (p : Pos) :
    uniquePos g k = .ok p ↔ (g.find fun o => o.isKind k) = [p] := by
  unfold uniquePos
  split
  · rename_i q h; rw [h]; simp
  · rename_i h
    constructor
    · intro hh; cases hh
    · intro hh; exact absurd hh (h p)

theorem C12_getting_closer_sp (k : Kind) (closer further : Int) (s : State) (a : Action) (s' : State)
    (p p' : Pos) (hp : uniquePos s.grid k = .ok p) (hp' : uniquePos s'.grid k = .ok p') :
    (RewAtom.gettingCloserSP k closer further).eval s a s' =
      .ok (.int (
        let c := cmpOptDist (shortestPath s.grid p s.agent.pos) (shortestPath s'.grid p' s'.agent.pos)
        if c < 0 then closer else if c > 0 then further else 0)) := by
  simp [RewAtom.eval, hp, hp']

/-! ### the shortest-path distance really is the graph distance (`dijkstra`)

`Walk g.freeCell src p n`: `p` is reached from `src` in `n` unit steps, each onto an in-grid cell that
does not block movement (the source is exempt, as `dijkstra` marks it visited whatever it holds).
`IsDist … d`: such a walk of length `d` exists and none shorter. -/

theorem C12_shortest_path_some (g : Grid) (src tgt : Pos) (d : Nat) :
    shortestPath g src tgt = some d ↔ IsDist g.freeCell src tgt d :=
  shortestPath_some_iff g src tgt d

/-- `inf` exactly when the target cannot be reached at all -/
theorem C12_shortest_path_none (g : Grid) (src tgt : Pos) :
    shortestPath g src tgt = none ↔ ∀ n, ¬ Walk g.freeCell src tgt n :=
  shortestPath_none_iff g src tgt

/-- the shortest-path shaping reward has the sign of the change of the true graph distance: with
finite distances `d` before and `d'` after, it pays `closer` iff `d' < d`, `further` iff `d < d'`,
nothing when equal. -/
theorem C12_getting_closer_sp_sign (k : Kind) (closer further : Int) (s : State) (a : Action) (s' : State)
    (p p' : Pos) (hp : uniquePos s.grid k = .ok p) (hp' : uniquePos s'.grid k = .ok p') (d d' : Nat)
    (hd : IsDist s.grid.freeCell p s.agent.pos d) (hd' : IsDist s'.grid.freeCell p' s'.agent.pos d') :
    (RewAtom.gettingCloserSP k closer further).eval s a s' =
      .ok (.int (if d' < d then closer else if d < d' then further else 0)) := by
  rw [C12_getting_closer_sp k closer further s a s' p p' hp hp']
  rw [(shortestPath_some_iff _ _ _ _).mpr hd, (shortestPath_some_iff _ _ _ _).mpr hd']
  simp only [cmpOptDist]
  congr 2
  split <;> split <;> simp <;> omega

/-- … and becoming reachable counts as closer, becoming unreachable as further -/
theorem C12_getting_closer_sp_inf (k : Kind) (closer further : Int) (s : State) (a : Action) (s' : State)
    (p p' : Pos) (hp : uniquePos s.grid k = .ok p) (hp' : uniquePos s'.grid k = .ok p') :
    ((∀ n, ¬ Walk s.grid.freeCell p s.agent.pos n) → (∃ n, Walk s'.grid.freeCell p' s'.agent.pos n) →
      (RewAtom.gettingCloserSP k closer further).eval s a s' = .ok (.int closer)) ∧
    ((∃ n, Walk s.grid.freeCell p s.agent.pos n) → (∀ n, ¬ Walk s'.grid.freeCell p' s'.agent.pos n) →
      (RewAtom.gettingCloserSP k closer further).eval s a s' = .ok (.int further)) ∧
    ((∀ n, ¬ Walk s.grid.freeCell p s.agent.pos n) → (∀ n, ¬ Walk s'.grid.freeCell p' s'.agent.pos n) →
      (RewAtom.gettingCloserSP k closer further).eval s a s' = .ok (.int 0)) := by
  rw [C12_getting_closer_sp k closer further s a s' p p' hp hp']
  refine ⟨?_, ?_, ?_⟩
  · intro h1 ⟨n, h2⟩
    obtain ⟨d, _, hD⟩ := Walk.exists_isDist n h2
    rw [(shortestPath_none_iff _ _ _).mpr h1, (shortestPath_some_iff _ _ _ _).mpr hD]
    simp [cmpOptDist]
  · intro ⟨n, h1⟩ h2
    obtain ⟨d, _, hD⟩ := Walk.exists_isDist n h1
    rw [(shortestPath_none_iff _ _ _).mpr h2, (shortestPath_some_iff _ _ _ _).mpr hD]
    simp [cmpOptDist]
  · intro h1 h2
    rw [(shortestPath_none_iff _ _ _).mpr h1, (shortestPath_none_iff _ _ _).mpr h2]
    simp [cmpOptDist]

/-- non-vacuity: around a wall the graph distance (4) exceeds the Manhattan distance (2) -/
example :
    let g : Grid := ⟨3, 3, [[.floor, .wall, .floor], [.floor, .wall, .floor], [.floor, .floor, .floor]]⟩
    shortestPath g ⟨1, 0⟩ ⟨1, 2⟩ = some 4 ∧ IsDist g.freeCell ⟨1, 0⟩ ⟨1, 2⟩ 4 := by
  intro g
  have h : shortestPath g ⟨1, 0⟩ ⟨1, 2⟩ = some 4 := by decide
  exact ⟨h, (shortestPath_some_iff _ _ _ _).mp h⟩

/-- `cmpOptDist` is the sign of the change of an `inf`-extended distance -/
theorem C12_cmpOptDist (x y : Option Nat) :
    (cmpOptDist x y < 0 ↔ (match x, y with | some a, some b => b < a | none, some _ => True | _, _ => False)) ∧
    (cmpOptDist x y > 0 ↔ (match x, y with | some a, some b => a < b | some _, none => True | _, _ => False)) := by
  cases x <;> cases y <;> simp [cmpOptDist] <;> (try constructor) <;> (try split) <;> omega

/-! ### pick/drop, door and memory rewards -/

theorem C12_pickndrop_reward (k : Kind) (pick drop : Int) (s : State) (a : Action) (s' : State) :
    (RewAtom.pickndrop k pick drop).eval s a s' =
      .ok (.int (if s.agent.held.kind ≠ k ∧ s'.agent.held.kind = k then pick
                 else if s.agent.held.kind = k ∧ s'.agent.held.kind ≠ k then drop else 0)) := by
  simp only [RewAtom.eval, Obj.isKind]
  by_cases h1 : s.agent.held.kind = k <;> by_cases h2 : s'.agent.held.kind = k <;> simp [h1, h2]

/-- the door reward fires exactly when ACTUATE was used facing an in-grid door that went from
not-open to open (resp. open to not-open) -/
theorem C12_actuate_door_reward (ropen rclose : Int) (s : State) (a : Action) (s' : State)
    (hw' : s'.grid.WF) (hsh : s'.grid.h = s.grid.h ∧ s'.grid.w = s.grid.w) :
    (RewAtom.actuateDoor ropen rclose).eval s a s' =
      .ok (.int (
        if a = .actuate ∧ s.grid.contains s.agent.front = true then
          match s.grid.at s.agent.front, s'.grid.at s.agent.front with
          | .door st _, .door st' _ =>
            if st ≠ .open ∧ st' = .open then ropen else if st = .open ∧ st' ≠ .open then rclose else 0
          | _, _ => 0
        else 0)) := by
  simp only [RewAtom.eval]
  by_cases ha : a = .actuate
  · by_cases hc : s.grid.contains s.agent.front = true
    · have hc' : s'.grid.contains s.agent.front = true := by
        simp only [Grid.contains, hsh.1, hsh.2] at hc ⊢; exact hc
      simp only [ha, hc, if_true, true_and]
      cases h1 : s.grid.at s.agent.front <;> simp only [] <;> try rfl
      rw [Grid.pyGet_of_contains _ hw' _ hc']
      cases h2 : s'.grid.at s.agent.front <;> simp only [] <;> try rfl
      rename_i st c st' c'
      cases st <;> cases st' <;> simp
    · simp [ha, hc]
  · simp [ha]

theorem C12_memory_reward (good bad : Int) (s : State) (a : Action) (s' : State) (h : s'.AgentIn)
    (bp : Pos) (rest : List Pos) (hb : (s'.grid.find fun b => b.isKind .beacon) = bp :: rest) :
    (RewAtom.reachExitMemory good bad).eval s a s' =
      .ok (.int (if (s'.grid.at s'.agent.pos).kind = .exit then
                   (if (s'.grid.at s'.agent.pos).color = (s'.grid.at bp).color then good else bad)
                 else 0)) := by
  simp only [RewAtom.eval, Grid.pyGet_of_contains _ h.1 _ h.2, hb]
  simp [Obj.isKind]

theorem C12_living (r : Int) (s : State) (a : Action) (s' : State) :
    (RewAtom.living r).eval s a s' = .ok (.int r) := rfl

/-! ### composites -/

/-- the composite reward lists exactly its parts' values, in order -/
theorem C12_sum_parts (fs : List RewAtom) (s : State) (a : Action) (s' : State) (ts : List RTerm)
    (h : rewParts fs s a s' = .ok ts) :
    ts.length = fs.length ∧ ∀ i (hi : i < fs.length) (hi' : i < ts.length),
      (fs[i]).eval s a s' = .ok (ts[i]) := by
  induction fs generalizing ts with
  | nil => simp only [rewParts, Except.ok.injEq] at h; subst h; exact ⟨rfl, fun i hi => absurd hi (by simp)⟩
  | cons f fs ih =>
    simp only [rewParts] at h
    cases hf : f.eval s a s' with
    | error e => rw [hf] at h; cases h
    | ok t =>
      rw [hf] at h
      cases hr : rewParts fs s a s' with
      | error e => rw [hr] at h; cases h
      | ok ts' =>
        rw [hr] at h
        simp only [Except.ok.injEq] at h
        subst h
        obtain ⟨hl, hi⟩ := ih ts' hr
        refine ⟨by simp [hl], ?_⟩
        intro i h1 h2
        cases i with
        | zero => simpa using hf
        | succ j => simpa using hi j (by simpa using h1) (by simpa using h2)

/-- … and every part evaluating makes the composite evaluate -/
theorem C12_sum_total (fs : List RewAtom) (s : State) (a : Action) (s' : State)
    (h : ∀ f ∈ fs, ∃ t, f.eval s a s' = .ok t) : ∃ ts, rewParts fs s a s' = .ok ts := by
  induction fs with
  | nil => exact ⟨[], rfl⟩
  | cons f fs ih =>
    obtain ⟨t, ht⟩ := h f (by simp)
    obtain ⟨ts, hts⟩ := ih (fun g hg => h g (by simp [hg]))
    exact ⟨t :: ts, by simp [rewParts, ht, hts]⟩

/-- Python's `sum`: the left fold of `+` from 0 -/
theorem C12_sum_value (ns : List Int) : sumInts (ns.map RTerm.int) = some (ns.foldl (· + ·) 0) := by
  have key : ∀ (acc : Int), (ns.map RTerm.int).foldl addTerm (some acc) = some (ns.foldl (· + ·) acc) := by
    induction ns with
    | nil => intro acc; rfl
    | cons n ns ih => intro acc; simp only [List.map_cons, List.foldl_cons, addTerm]; exact ih (acc + n)
  exact key 0

def TermFn.fires (s : State) (a : Action) (s' : State) (f : TermFn) : Bool :=
  match f.eval s a s' with
  | .ok true => true
  | _ => false

/-- composite termination is the `any` / `all` of its parts -/
theorem C12_any (l : List TermFn) (s : State) (a : Action) (s' : State)
    (h : ∀ f ∈ l, ∃ b, f.eval s a s' = .ok b) :
    (TermFn.any l).eval s a s' = .ok (l.any (TermFn.fires s a s')) := by
  simp only [TermFn.eval]
  induction l with
  | nil => rfl
  | cons f fs ih =>
    obtain ⟨b, hb⟩ := h f (by simp)
    simp only [TermFn.evalAny, hb, List.any_cons, TermFn.fires]
    cases b
    · simp only [Bool.false_or]
      exact ih (fun g hg => h g (by simp [hg]))
    · simp

theorem C12_all (l : List TermFn) (s : State) (a : Action) (s' : State)
    (h : ∀ f ∈ l, ∃ b, f.eval s a s' = .ok b) :
    (TermFn.all l).eval s a s' = .ok (l.all (TermFn.fires s a s')) := by
  simp only [TermFn.eval]
  induction l with
  | nil => rfl
  | cons f fs ih =>
    obtain ⟨b, hb⟩ := h f (by simp)
    simp only [TermFn.evalAll, hb, List.all_cons, TermFn.fires]
    cases b
    · simp
    · simp only [Bool.true_and]
      exact ih (fun g hg => h g (by simp [hg]))

/-- so: an environment whose termination is `reach_exit` (possibly inside a `reduce_any` of total
parts) and whose reward list contains `reach_exit on off` pays `on` exactly when the exit part of
the termination fires -/
theorem C12_exit_consistent_any (l : List TermFn) (hmem : TermFn.reachExit ∈ l) (on off : Int)
    (hne : on ≠ off) (s : State) (a : Action) (s' : State) (h : s'.AgentIn)
    (htot : ∀ f ∈ l, ∃ b, f.eval s a s' = .ok b)
    (hpay : (RewAtom.reachExit on off).eval s a s' = .ok (.int on)) :
    (TermFn.any l).eval s a s' = .ok true := by
  rw [C12_any l s a s' htot]
  have := (C12_exit_consistent on off hne s a s' h).mp hpay
  congr 1
  rw [List.any_eq_true]
  exact ⟨.reachExit, hmem, by simp [TermFn.fires, this]⟩

/-! ### non-vacuity -/
example :
    let s' : State := ⟨⟨1, 3, [[.floor, .exit .none, .beacon .red]]⟩, ⟨⟨0, 1⟩, .R, .noneObj⟩⟩
    s'.AgentIn ∧ uniquePos s'.grid .exit = .ok ⟨0, 1⟩ ∧
    TermFn.reachExit.eval s' .moveF s' = .ok true := by
  refine ⟨⟨⟨rfl, ?_⟩, by decide⟩, by rfl, by rfl⟩
  intro r hr; simp at hr; subst hr; rfl

end GV
