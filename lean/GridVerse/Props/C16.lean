/-
  C16 — Numeric representations are faithful: lossless, positional and well-separated.

  "Two states (or observations) of a space have equal representations if and only if they are
  equal, and equal ones hash alike; the entry for grid cell (y, x) depends only on the object in
  that cell and is the same encoding at every cell, and the agent marker is set exactly at the
  agent's cell. The default encoding is the (type, status, colour) index triple, the no-overlap
  encoding uses pairwise disjoint value ranges for its three channels, and the compact encoding
  additionally leaves no gaps: the values it uses are consecutive from zero."

  "Equal" is Python equality of grid objects (`Obj.pyEq`: type, status, colour — a box's content is
  not part of it, which is why boxes are excluded from state representations).
-/
import GridVerse.Props.C15
set_option linter.unusedSimpArgs false
namespace GV

/-- the default encoding is the index triple -/
theorem C16_default_triple (c : ReprCtx) (o : Obj) :
    objConvert .default c o = .ok [(o.kind.typeIndex : Int), (o.stateIndex : Int), (o.color.value : Int)] := rfl

/-- Python equality is equality of the triple, and equal objects hash alike -/
theorem C16_pyEq_iff (a b : Obj) :
    a.pyEq b = true ↔ (a.kind.typeIndex = b.kind.typeIndex ∧ a.stateIndex = b.stateIndex ∧
      a.color.value = b.color.value) := by
  simp [Obj.pyEq, Obj.hashKey]

theorem C16_eq_hash (a b : Obj) (h : a.pyEq b = true) : a.hashKey = b.hashKey := by
  simpa [Obj.pyEq] using h

theorem C16_pyEq_equiv : (∀ a : Obj, a.pyEq a = true) ∧ (∀ a b : Obj, a.pyEq b = true → b.pyEq a = true) ∧
    (∀ a b c : Obj, a.pyEq b = true → b.pyEq c = true → a.pyEq c = true) := by
  refine ⟨fun a => by simp [Obj.pyEq], fun a b h => ?_, fun a b c h1 h2 => ?_⟩
  · simp only [Obj.pyEq, beq_iff_eq] at h ⊢; exact h.symm
  · simp only [Obj.pyEq, beq_iff_eq] at h1 h2 ⊢; exact h1.trans h2

theorem typeIndex_inj (a b : Kind) (h : a.typeIndex = b.typeIndex) : a = b := by
  cases a <;> cases b <;> simp [Kind.typeIndex] at h <;> rfl
theorem colorValue_inj (a b : Color) (h : a.value = b.value) : a = b := by
  cases a <;> cases b <;> simp [Color.value] at h <;> rfl

/-- lossless per object: default and no-overlap encodings are equal exactly for Python-equal
objects (for all objects, member or not) -/
theorem C16_obj_injective_default (c : ReprCtx) (a b : Obj) :
    objConvert .default c a = objConvert .default c b ↔ a.pyEq b = true := by
  rw [C16_pyEq_iff]
  simp only [objConvert, Except.ok.injEq, List.cons.injEq, and_true]
  constructor
  · rintro ⟨h1, h2, h3⟩; exact ⟨by omega, by omega, by omega⟩
  · rintro ⟨h1, h2, h3⟩; exact ⟨by omega, by omega, by omega⟩

theorem C16_obj_injective_noOverlap (c : ReprCtx) (a b : Obj) :
    objConvert .noOverlap c a = objConvert .noOverlap c b ↔ a.pyEq b = true := by
  rw [C16_pyEq_iff]
  simp only [objConvert, Except.ok.injEq, List.cons.injEq, and_true]
  constructor
  · rintro ⟨h1, h2, h3⟩; exact ⟨by omega, by omega, by omega⟩
  · rintro ⟨h1, h2, h3⟩; exact ⟨by omega, by omega, by omega⟩

theorem compactType_inj (c : ReprCtx) (a b : Kind) (ha : a ∈ c.kinds) (hb : b ∈ c.kinds)
    (h : c.compactType a = c.compactType b) : a = b := by
  obtain ⟨i, hi, _, _⟩ := indexOf?_mem c.sortedKinds a ((mem_sortedKinds c a).mpr ha)
  obtain ⟨j, hj, _, _⟩ := indexOf?_mem c.sortedKinds b ((mem_sortedKinds c b).mpr hb)
  simp only [ReprCtx.compactType, hi, hj] at h
  have : i = j := by omega
  subst this
  exact indexOf?_inj _ _ _ _ hi hj

theorem compactColor_inj (c : ReprCtx) (a b : Color) (ha : a ∈ c.colors) (hb : b ∈ c.colors)
    (h : c.compactColor a = c.compactColor b) : a = b := by
  obtain ⟨i, hi, _, _⟩ := indexOf?_mem c.sortedColors a ((mem_sortedColors c a).mpr ha)
  obtain ⟨j, hj, _, _⟩ := indexOf?_mem c.sortedColors b ((mem_sortedColors c b).mpr hb)
  simp only [ReprCtx.compactColor, hi, hj] at h
  have : i = j := by omega
  subst this
  exact indexOf?_inj _ _ _ _ hi hj

/-- … and so is the compact encoding on the objects of the space -/
theorem C16_obj_injective_compact (c : ReprCtx) (a b : Obj) (hak : a.kind ∈ c.kinds)
    (hbk : b.kind ∈ c.kinds) (hac : a.color ∈ c.colors) (hbc : b.color ∈ c.colors) :
    objConvert .compact c a = objConvert .compact c b ↔ a.pyEq b = true := by
  obtain ⟨va, hva, _⟩ := C15_obj_compact c a hak hac
  obtain ⟨vb, hvb, _⟩ := C15_obj_compact c b hbk hbc
  have ea : objConvert .compact c a =
      .ok [c.compactType a.kind, c.compactState a.kind a.stateIndex, c.compactColor a.color] := by
    simp only [objConvert] at hva ⊢
    split at hva
    · rename_i hcond; simp only [hcond, if_true]
    · cases hva
  have eb : objConvert .compact c b =
      .ok [c.compactType b.kind, c.compactState b.kind b.stateIndex, c.compactColor b.color] := by
    simp only [objConvert] at hvb ⊢
    split at hvb
    · rename_i hcond; simp only [hcond, if_true]
    · cases hvb
  rw [ea, eb, C16_pyEq_iff]
  simp only [Except.ok.injEq, List.cons.injEq, and_true]
  constructor
  · rintro ⟨h1, h2, h3⟩
    have hk := compactType_inj c _ _ hak hbk h1
    have hc := compactColor_inj c _ _ hac hbc h3
    refine ⟨by rw [hk], ?_, by rw [hc]⟩
    rw [hk] at h2
    have hm := (mem_sortedKinds c b.kind).mpr hbk
    have hcont : c.sortedKinds.contains b.kind = true := by simpa using hm
    have ja := stateIndex_lt_numStates a
    have jb := stateIndex_lt_numStates b
    rw [hk] at ja
    simp only [ReprCtx.compactState, hcont, ja, jb, decide_true, Bool.and_self, if_true] at h2
    omega
  · rintro ⟨h1, h2, h3⟩
    have hk := typeIndex_inj _ _ h1
    have hc := colorValue_inj _ _ h3
    rw [hk, h2, hc]; exact ⟨rfl, rfl, rfl⟩

/-- no-overlap: the three channels use pairwise disjoint value ranges -/
theorem C16_noOverlap_disjoint (c : ReprCtx) (a b d : Obj) (hbk : b.kind ∈ c.kinds)
    (hac : a.kind ∈ c.kinds) (hbc : b.color ∈ c.colors) :
    -- type channel of any member < status channel of any member < colour channel of any object
    (a.kind.typeIndex : Int) < c.maxType + b.stateIndex + 1 ∧
    (c.maxType + b.stateIndex + 1 : Int) < c.maxType + c.maxState + d.color.value + 2 := by
  obtain ⟨_, h2, _⟩ := c.bounds b hbk hbc
  have h1 := le_maxOf _ _ (List.mem_map_of_mem (f := Kind.typeIndex) hac)
  have : a.kind.typeIndex ≤ c.maxType := h1
  constructor <;> omega

/-- compact: every value below the number of (types + status slots + colours) is used, by exactly
the channel it belongs to — no gaps, consecutive from zero -/
theorem C16_compact_dense_types (c : ReprCtx) (v : Nat) (hv : v < c.sortedKinds.length) :
    ∃ k ∈ c.kinds, c.compactType k = v := by
  refine ⟨c.sortedKinds[v], (mem_sortedKinds c _).mp (List.getElem_mem hv), ?_⟩
  obtain ⟨i, hi, hlt, hget⟩ := indexOf?_mem c.sortedKinds c.sortedKinds[v] (List.getElem_mem hv)
  simp only [ReprCtx.compactType, hi]
  -- the sorted kinds are duplicate-free, so the index found is v
  have hnd : c.sortedKinds.Nodup := by
    unfold ReprCtx.sortedKinds
    exact List.Pairwise.filter _ (by decide)
  have : i = v := by
    rw [List.getElem?_eq_getElem hlt, Option.some.injEq] at hget
    exact (List.getElem_inj hnd).mp hget
  omega

theorem C16_compact_dense_colors (c : ReprCtx) (v : Nat) (hv : v < c.sortedColors.length) :
    ∃ k ∈ c.colors, c.compactColor k = ((c.sortedKinds.length + c.totalStates + v : Nat) : Int) := by
  refine ⟨c.sortedColors[v], (mem_sortedColors c _).mp (List.getElem_mem hv), ?_⟩
  obtain ⟨i, hi, hlt, hget⟩ := indexOf?_mem c.sortedColors c.sortedColors[v] (List.getElem_mem hv)
  simp only [ReprCtx.compactColor, hi]
  have hnd : c.sortedColors.Nodup := by
    unfold ReprCtx.sortedColors
    exact List.Pairwise.filter _ (by decide)
  have : i = v := by
    rw [List.getElem?_eq_getElem hlt, Option.some.injEq] at hget
    exact (List.getElem_inj hnd).mp hget
  rw [this]

/-- every status slot value is used -/
theorem sum_slots (l : List Kind) (hnd : l.Nodup) (v : Nat) (hv : v < (l.map Kind.numStates).sum) :
    ∃ k ∈ l, ∃ j, j < k.numStates ∧ ((l.takeWhile fun x => x != k).map Kind.numStates).sum + j = v := by
  induction l generalizing v with
  | nil => simp at hv
  | cons x xs ih =>
    simp only [List.map_cons, List.sum_cons] at hv
    by_cases hx : v < x.numStates
    · exact ⟨x, by simp, v, hx, by simp [List.takeWhile]⟩
    · obtain ⟨k, hk, j, hj, he⟩ := ih (List.nodup_cons.mp hnd).2 (v - x.numStates) (by omega)
      refine ⟨k, by simp [hk], j, hj, ?_⟩
      have hne : x ≠ k := fun e => (List.nodup_cons.mp hnd).1 (e ▸ hk)
      have : (x != k) = true := by simp [hne]
      simp only [List.takeWhile, this, List.map_cons, List.sum_cons]
      omega

theorem C16_compact_dense_states (c : ReprCtx) (v : Nat) (hv : v < c.totalStates) :
    ∃ k ∈ c.kinds, ∃ j, j < k.numStates ∧ c.compactState k j = ((c.sortedKinds.length + v : Nat) : Int) := by
  have hnd : c.sortedKinds.Nodup := by
    unfold ReprCtx.sortedKinds
    exact List.Pairwise.filter _ (by decide)
  obtain ⟨k, hk, j, hj, he⟩ := sum_slots c.sortedKinds hnd v hv
  refine ⟨k, (mem_sortedKinds c k).mp hk, j, hj, ?_⟩
  have hcont : c.sortedKinds.contains k = true := by simpa using hk
  simp only [ReprCtx.compactState, hcont, hj, decide_true, Bool.and_self, if_true, ReprCtx.statesBefore]
  omega

/-- all three together with the upper bounds of C15: the values used are exactly `0 … n-1` -/
theorem C16_compact_dense (c : ReprCtx) :
    (∀ v, v < c.sortedKinds.length → ∃ k ∈ c.kinds, c.compactType k = v) ∧
    (∀ v, v < c.totalStates → ∃ k ∈ c.kinds, ∃ j, j < k.numStates ∧
      c.compactState k j = ((c.sortedKinds.length + v : Nat) : Int)) ∧
    (∀ v, v < c.sortedColors.length → ∃ k ∈ c.colors,
      c.compactColor k = ((c.sortedKinds.length + c.totalStates + v : Nat) : Int)) :=
  ⟨C16_compact_dense_types c, C16_compact_dense_states c, C16_compact_dense_colors c⟩

/-- the compact maps depend on the *sets* of types and colours only, not on their enumeration order
(the code sorts) -/
theorem C16_compact_perm_invariant (c c' : ReprCtx) (hk : ∀ k, k ∈ c.kinds ↔ k ∈ c'.kinds)
    (hc : ∀ k, k ∈ c.colors ↔ k ∈ c'.colors) :
    c.sortedKinds = c'.sortedKinds ∧ c.sortedColors = c'.sortedColors ∧
    (∀ k, c.compactType k = c'.compactType k) ∧ (∀ k j, c.compactState k j = c'.compactState k j) ∧
    (∀ k, c.compactColor k = c'.compactColor k) := by
  have e1 : c.sortedKinds = c'.sortedKinds := by
    unfold ReprCtx.sortedKinds
    apply List.filter_congr
    intro k _
    simp only [List.contains_eq_mem]
    rw [Bool.eq_iff_iff]; simp [hk k]
  have e2 : c.sortedColors = c'.sortedColors := by
    unfold ReprCtx.sortedColors
    apply List.filter_congr
    intro k _
    simp only [List.contains_eq_mem]
    rw [Bool.eq_iff_iff]; simp [hc k]
  refine ⟨e1, e2, ?_, ?_, ?_⟩
  · intro k; simp [ReprCtx.compactType, e1]
  · intro k j; simp [ReprCtx.compactState, ReprCtx.statesBefore, e1]
  · intro k; simp [ReprCtx.compactColor, ReprCtx.totalStates, e1, e2]

/-! ### positional -/

/-- entry (y, x) of the `grid` array is the encoding of the object in cell (y, x) — the same
encoding function at every cell -/
theorem C16_positional (enc : Enc) (c : ReprCtx) (g : Grid) (r : List (List (List Int)))
    (h : gridConvert enc c g = .ok r) (y x : Nat) (hy : y < g.h) (hx : x < g.w) :
    ∃ (h1 : y < r.length) (h2 : x < (r[y]).length), objConvert enc c (g.cell y x) = .ok ((r[y])[x]) := by
  unfold gridConvert at h
  -- invert mapE
  have inv : ∀ {α β} (f : α → Except PyErr β) (l : List α) (bs : List β), mapE f l = .ok bs →
      bs.length = l.length ∧ ∀ i (h1 : i < l.length) (h2 : i < bs.length), f l[i] = .ok bs[i] := by
    intro α β f l
    induction l with
    | nil => intro bs hbs; simp only [mapE, Except.ok.injEq] at hbs; subst hbs; exact ⟨rfl, fun i h1 => absurd h1 (Nat.not_lt_zero _)⟩
    | cons a as ih =>
      intro bs hbs
      simp only [mapE] at hbs
      cases hfa : f a with
      | error e => rw [hfa] at hbs; cases hbs
      | ok b =>
        rw [hfa] at hbs
        cases hr : mapE f as with
        | error e => rw [hr] at hbs; cases hbs
        | ok bs' =>
          rw [hr] at hbs
          simp only [Except.ok.injEq] at hbs
          subst hbs
          obtain ⟨hl, hi⟩ := ih bs' hr
          refine ⟨by simp [hl], ?_⟩
          intro i h1 h2
          cases i with
          | zero => simpa using hfa
          | succ j => simpa using hi j (by simpa using h1) (by simpa using h2)
  obtain ⟨hl, hrows⟩ := inv _ _ _ h
  have h1 : y < r.length := by simpa [hl] using hy
  have hrow := hrows y (by simpa using hy) h1
  simp only [List.getElem_range] at hrow
  obtain ⟨hl2, hcells⟩ := inv _ _ _ hrow
  have h2 : x < (r[y]).length := by simpa [hl2] using hx
  have := hcells x (by simpa using hx) h2
  simp only [List.getElem_range] at this
  exact ⟨h1, h2, this⟩

/-- the agent marker is set exactly at the agent's cell -/
theorem C16_agent_marker (g : Grid) (p : Pos) (hp : g.contains p = true) :
    agentIdGrid g p = .ok ((List.range g.h).map fun i => (List.range g.w).map fun j =>
      if i = p.y.toNat ∧ j = p.x.toNat then (1 : Int) else 0) := by
  rw [Grid.contains_iff] at hp
  obtain ⟨h1, h2, h3, h4⟩ := hp
  simp [agentIdGrid, h1, h2, h3, h4]

/-- the position and heading are recoverable from the `agent` array (fractions with the same
positive denominator are equal iff the numerators are; the one-hot block identifies the heading) -/
theorem C16_agent_array_injective (g : Grid) (a b : Agent) (hh : 2 ≤ g.h) (hw : 2 ≤ g.w)
    (h : agentArray g a = agentArray g b) : a.pos = b.pos ∧ a.o = b.o := by
  have hne : ¬ (g.h = 1 ∨ g.w = 1) := by omega
  simp only [agentArray, hne, if_false, Except.ok.injEq, List.cons_append, List.nil_append,
    List.cons.injEq, Prod.mk.injEq, and_true] at h
  obtain ⟨h1, h2, h3⟩ := h
  refine ⟨by rw [Pos.ext_iff']; omega, ?_⟩
  have := h3
  revert this
  cases a.o <;> cases b.o <;> simp [Orient.value, List.range_succ]

/-! ### non-vacuity / the box caveat -/
example : (Obj.box .floor).pyEq (Obj.box (.key .red)) = true ∧ Kind.canBeRepresented .box = false := by
  decide
example :
    let c : ReprCtx := ReprCtx.ofObs ⟨3, 3, [.wall, .floor, .door], [.yellow]⟩
    c.sortedKinds = [.noneObj, .hidden, .floor, .wall, .door] ∧ c.totalStates = 7 ∧
    objConvert .compact c (.door .locked .yellow) = .ok [4, 11, 13] ∧
    objUpper .compact c = [4, 11, 13] := ⟨by decide, by decide, rfl, by decide⟩

end GV
