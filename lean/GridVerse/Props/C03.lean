/-
  C03 — The functional interface is pure, alias-free and history-independent.

  "The functional step, observation, reward and termination computations never modify the states
  passed to them, and a returned next state shares no mutable component with its input state, so
  that changing either afterwards cannot affect the other. They are history-independent: asking the
  same deterministic question again, after any other calls on any environment, gives an equal
  answer, and a copied state equals and hashes like its original."

  Immutable values cannot express "modifies its argument", so this file works on the reference
  level model (`Model/Heap.lean`): every Python object that can be assigned through — the outer
  list of a grid, each row list, each GridObject instance, the Agent, its Transform — is a node with
  an identity; the seven in-place transition functions are transcribed as heap updates and every
  assignment is logged.  The theorems say where assignments can land.

  * `transition_with_copy` (what `functional_step` runs): every node that existed before the call
    holds the same contents afterwards, every assignment lands in a node allocated by the call, and
    the next state consists only of such nodes (so it has no node in common with the input state,
    nor with anything else that existed).
  * `from_visibility` (every observation function): assignments only into the new containers.
  * reward and termination functions have no heap effect in the model at all (they are functions of
    the denoted values); that the code's do not assign is the correspondence's part (deep snapshots
    around every call, identity graph of the result).
  * history independence: all functional-interface computations are functions of their arguments
    (`C04_step_functional` etc.), and a memo table over a function never changes an answer
    (`C03_memo_transparent`, any history of queries with eviction).
  * copy: `loads (dumps s)` denotes the same value as `s` (`C03_copy_equal`); `__eq__`/`__hash__`
    are functions of that value (`Obj.pyEq`, `Obj.hashKey`).
-/
import GridVerse.Lemmas.Heap
import GridVerse.Props.C19
set_option linter.unusedSimpArgs false
namespace GV

/-! ### reading a state depends only on its own nodes -/

/-- a set of references containing everything `s` is made of, closed under box content -/
structure Within (S : Ref → Prop) (hp : Heap) (s : HState) : Prop where
  outer : S s.outer
  agent : S s.agent
  rows : ∀ row ∈ hp.rowsOf s.outer, S row ∧ ∀ c ∈ hp.cellsOf row, S c
  tf : S (hp.agentOf s.agent).1
  held : S (hp.agentOf s.agent).2
  closed : ∀ r, S r → ∀ c, (hp.objOf r).content = some c → S c

/-- two heaps with the same contents on `S` -/
structure AgreeOn (S : Ref → Prop) (h h' : Heap) : Prop where
  rows : ∀ r, S r → h'.rowsOf r = h.rowsOf r
  cells : ∀ r, S r → h'.cellsOf r = h.cellsOf r
  obj : ∀ r, S r → h'.objOf r = h.objOf r
  tf : ∀ r, S r → h'.tfOf r = h.tfOf r
  agent : ∀ r, S r → h'.agentOf r = h.agentOf r

theorem absObj_congr {S : Ref → Prop} {h h' : Heap} (ag : AgreeOn S h h')
    (hcl : ∀ r, S r → ∀ c, (h.objOf r).content = some c → S c) (fuel : Nat) (r : Ref) (hr : S r) :
    h'.absObj fuel r = h.absObj fuel r := by
  induction fuel generalizing r with
  | zero => simp only [Heap.absObj, ag.obj r hr]
  | succ k ih =>
    simp only [Heap.absObj, ag.obj r hr]
    cases ho : (h.objOf r).obj <;> cases hc : (h.objOf r).content <;> simp only []
    rename_i c
    rw [ih c (hcl r hr c hc)]

/-- the value a state denotes is determined by the contents of its own nodes -/
theorem abs_congr {S : Ref → Prop} {h h' : Heap} {s : HState} (wi : Within S h s) (ag : AgreeOn S h h') :
    h'.abs s = h.abs s := by
  have hobj := fun r hr => absObj_congr ag wi.closed boxFuel r hr
  unfold Heap.abs
  congr 1
  · unfold Heap.absGrid
    rw [ag.rows s.outer wi.outer]
    congr 1
    apply List.map_congr_left
    intro row hrow
    rw [ag.cells row (wi.rows row hrow).1]
    apply List.map_congr_left
    intro c hc
    exact hobj c ((wi.rows row hrow).2 c hc)
  · unfold Heap.absAgent
    rw [ag.agent s.agent wi.agent]
    simp only [ag.tf _ wi.tf, hobj _ wi.held]

/-- an allocated state: all its nodes are below `n` -/
abbrev Below (n : Nat) (hp : Heap) (s : HState) : Prop := Within (· < n) hp s

theorem AgreeBelow.on {n : Nat} {h h' : Heap} (a : AgreeBelow n h h') : AgreeOn (· < n) h h' :=
  ⟨a.rows, a.cells, a.obj, a.tf, a.agent⟩

theorem OwnedFrom.within {n : Nat} {hp : Heap} {s : HState} (o : OwnedFrom n hp s) (hout : n ≤ s.outer) :
    Within (n ≤ ·) hp s :=
  ⟨hout, o.agent, fun row hrow => ⟨(o.rows row hrow).1, (o.rows row hrow).2.2⟩, o.tf, o.held, o.closed⟩

/-! ### the input of `fast_copy` -/

/-- the grid of `s` has `s`'s shape -/
structure Shaped (hp : Heap) (s : HState) : Prop where
  rowsLen : (hp.rowsOf s.outer).length = s.h
  rows : ∀ row ∈ hp.rowsOf s.outer, (hp.cellsOf row).length = s.w

/-- `fast_copy`: allocation only, and the copy lives entirely in nodes the call allocated -/
theorem fastCopy_spec (hp : Heap) (s : HState) (sh : Shaped hp s) (hc : Closed hp.next hp) :
    Ext hp (hp.fastCopy s).2 ∧ OwnedFrom hp.next (hp.fastCopy s).2 (hp.fastCopy s).1 ∧
    hp.next ≤ (hp.fastCopy s).1.outer := by
  unfold Heap.fastCopy
  have hwf : ∀ row ∈ (hp.abs s).grid.cells, row.length = (hp.abs s).grid.w := by
    intro row hrow
    simp only [Heap.abs, Heap.absGrid, List.mem_map] at hrow
    obtain ⟨r, hr, rfl⟩ := hrow
    simp only [List.length_map, Heap.abs, Heap.absGrid]
    exact sh.rows r hr
  have hh : (hp.abs s).grid.cells.length = (hp.abs s).grid.h := by
    simp only [Heap.abs, Heap.absGrid, List.length_map]; exact sh.rowsLen
  obtain ⟨e, o⟩ := load_spec (hp.abs s) hwf hh hp hc
  refine ⟨e, o, ?_⟩
  -- the outer list is allocated after the rows
  simp only [Heap.load, Heap.newRows]
  have := (loadList_spec hp.next Heap.loadRow (fun _ _ => True) (fun _ => True)
    (fun h' x _ hn hc => ⟨(loadRow_spec hp.next x h' hn hc).1, trivial⟩) (fun _ _ _ _ _ _ => trivial)
    (hp.abs s).grid.cells (fun _ _ => trivial) hp (Nat.le_refl _) hc).1.next
  exact this

/-- **C03 (copy).**  `fast_copy(s)` denotes exactly the value `s` denotes — for any heap, with no
assumption on the state (boxes nested to any depth the reader `absObj` reaches) — so the copy
compares equal to and hashes like the original (`__eq__`/`__hash__` are structural: functions of
the denoted value). -/
theorem C03_copy_equal (hp : Heap) (s : HState) : (hp.fastCopy s).2.abs (hp.fastCopy s).1 = hp.abs s :=
  load_abs (hp.abs s) hp

theorem C03_copy_hash (hp : Heap) (s : HState) (p : Pos) :
    (((hp.fastCopy s).2.abs (hp.fastCopy s).1).grid.at p).hashKey = ((hp.abs s).grid.at p).hashKey ∧
    (((hp.fastCopy s).2.abs (hp.fastCopy s).1).grid.at p).pyEq ((hp.abs s).grid.at p) =
      ((hp.abs s).grid.at p).pyEq ((hp.abs s).grid.at p) := by
  rw [C03_copy_equal]; exact ⟨rfl, rfl⟩

/-- the copy itself assigns nothing and leaves every existing node alone -/
theorem C03_copy_pure (hp : Heap) (s : HState) (sh : Shaped hp s) (hc : Closed hp.next hp) :
    (hp.fastCopy s).2.writes = hp.writes ∧ AgreeBelow hp.next hp (hp.fastCopy s).2 :=
  ⟨(fastCopy_spec hp s sh hc).1.writes, (fastCopy_spec hp s sh hc).1.agree⟩

/-! ### the functional step -/

/-- **C03 (step).**  For any chain of built-in transition functions, any state (boxes with nested
content, held items, doors in any status: whatever the heap holds), any action and any draws,
`transition_with_copy`
1. leaves the contents of every node that existed before the call exactly as they were
   (`AgreeBelow hp.next`): the input state, and every other state or observation alive, is unmodified;
2. assigns only through references it allocated itself (`writes`);
3. returns a state made only of nodes it allocated (`OwnedFrom hp.next`): next state and input state
   have no node in common. -/
theorem C03_step_pure (fs : List TransAtom) (hp : Heap) (s : HState) (a : Action) (d : DrawSt)
    (sh : Shaped hp s) (hc : Closed hp.next hp) :
    AgreeBelow hp.next hp (hFunctionalStep fs hp s a d).2.1 ∧
    (∀ w ∈ (hFunctionalStep fs hp s a d).2.1.writes, w ∈ hp.writes ∨ hp.next ≤ w) ∧
    OwnedFrom hp.next (hFunctionalStep fs hp s a d).2.1 (hFunctionalStep fs hp s a d).1 ∧
    hp.next ≤ (hFunctionalStep fs hp s a d).1.outer := by
  obtain ⟨e, o, hout⟩ := fastCopy_spec hp s sh hc
  have f := chain_frame fs (hp.fastCopy s).2 o a d
  have st := (e.toStep (Nat.le_refl _)).trans f.1
  exact ⟨st.agree, st.writes, f.2, hout⟩

/-- the input state denotes the same value after the call as before (and so does every other
allocated state or observation `t`: the statement is for any `t`) -/
theorem C03_step_input_unchanged (fs : List TransAtom) (hp : Heap) (s : HState) (a : Action) (d : DrawSt)
    (sh : Shaped hp s) (hc : Closed hp.next hp) (t : HState) (ht : Below hp.next hp t) :
    (hFunctionalStep fs hp s a d).2.1.abs t = hp.abs t :=
  abs_congr ht (C03_step_pure fs hp s a d sh hc).1.on

/-- "changing either afterwards cannot affect the other", one direction: whatever is later done
to the nodes of the next state (any heap `h2` that differs from the result only at or above
`hp.next`), the input state still denotes what it did -/
theorem C03_mutating_next_leaves_input (fs : List TransAtom) (hp : Heap) (s : HState) (a : Action) (d : DrawSt)
    (sh : Shaped hp s) (hc : Closed hp.next hp) (hs : Below hp.next hp s) (h2 : Heap)
    (hlater : AgreeBelow hp.next (hFunctionalStep fs hp s a d).2.1 h2) : h2.abs s = hp.abs s := by
  have a1 := (C03_step_pure fs hp s a d sh hc).1
  have : AgreeBelow hp.next hp h2 :=
    ⟨fun r hr => by rw [hlater.rows r hr, a1.rows r hr], fun r hr => by rw [hlater.cells r hr, a1.cells r hr],
     fun r hr => by rw [hlater.obj r hr, a1.obj r hr], fun r hr => by rw [hlater.tf r hr, a1.tf r hr],
     fun r hr => by rw [hlater.agent r hr, a1.agent r hr]⟩
  exact abs_congr hs this.on

/-- the other direction: whatever is later done to nodes that existed before the call (in
particular to the input state), the next state still denotes what it did -/
theorem C03_mutating_input_leaves_next (fs : List TransAtom) (hp : Heap) (s : HState) (a : Action) (d : DrawSt)
    (sh : Shaped hp s) (hc : Closed hp.next hp) (h2 : Heap)
    (hlater : AgreeOn (hp.next ≤ ·) (hFunctionalStep fs hp s a d).2.1 h2) :
    h2.abs (hFunctionalStep fs hp s a d).1 =
      (hFunctionalStep fs hp s a d).2.1.abs (hFunctionalStep fs hp s a d).1 := by
  obtain ⟨_, _, o, hout⟩ := C03_step_pure fs hp s a d sh hc
  exact abs_congr (o.within hout) hlater

theorem ne_of_sep {n a b : Nat} (ha : n ≤ a) (hb : b < n) : a ≠ b := by omega

/-- the two states are separated: no reference is a node of both -/
theorem C03_no_shared_node (fs : List TransAtom) (hp : Heap) (s : HState) (a : Action) (d : DrawSt)
    (sh : Shaped hp s) (hc : Closed hp.next hp) (hs : Below hp.next hp s) :
    let r := hFunctionalStep fs hp s a d
    r.1.outer ≠ s.outer ∧ r.1.agent ≠ s.agent ∧
    (r.2.1.agentOf r.1.agent).1 ≠ (hp.agentOf s.agent).1 ∧
    (r.2.1.agentOf r.1.agent).2 ≠ (hp.agentOf s.agent).2 ∧
    ∀ row' ∈ r.2.1.rowsOf r.1.outer, ∀ row ∈ hp.rowsOf s.outer, row' ≠ row ∧
      ∀ c' ∈ r.2.1.cellsOf row', ∀ c ∈ hp.cellsOf row, c' ≠ c := by
  obtain ⟨_, _, o, hout⟩ := C03_step_pure fs hp s a d sh hc
  refine ⟨ne_of_sep hout hs.outer, ne_of_sep o.agent hs.agent, ne_of_sep o.tf hs.tf, ne_of_sep o.held hs.held, ?_⟩
  intro row' hrow' row hrow
  refine ⟨ne_of_sep (o.rows row' hrow').1 (hs.rows row hrow).1, ?_⟩
  intro c' hc' c hcc
  exact ne_of_sep ((o.rows row' hrow').2.2 c' hc') ((hs.rows row hrow).2 c hcc)

/-- without the copy the claim is false, and the model can say so: running `pickndrop` in place on
a state assigns through the state's own nodes (the theorem above is about the copy, not about how
the model was built) -/
example :
    let st : State := ⟨⟨3, 3, [[.wall, .wall, .wall], [.wall, .key .red, .wall], [.wall, .floor, .wall]]⟩,
      ⟨⟨2, 1⟩, .F, .noneObj⟩⟩
    let hp0 : Heap := ⟨0, fun _ => [], fun _ => [], fun _ => default, fun _ => default, fun _ => (0, 0), []⟩
    let l := hp0.load st
    (hRunAtom .pickndrop l.2 l.1 .pickNDrop ⟨[], []⟩).1.writes.length = 2 ∧
    (hRunAtom .pickndrop l.2 l.1 .pickNDrop ⟨[], []⟩).1.writes.all (· < l.2.next) = true := by
  decide

/-- the hypotheses of the step theorems are met by every state built by `loads` on the empty heap,
e.g. this one with a box holding a key and a held item; and the step really runs (the agent picks
the box content up after opening it) -/
example :
    let st : State := ⟨⟨3, 3, [[.wall, .wall, .wall], [.wall, .box (.key .red), .wall], [.wall, .floor, .wall]]⟩,
      ⟨⟨2, 1⟩, .F, .key .blue⟩⟩
    let hp0 : Heap := ⟨0, fun _ => [], fun _ => [], fun _ => default, fun _ => default, fun _ => (0, 0), []⟩
    let l := hp0.load st
    let r := hFunctionalStep [.actuateBox, .moveAgent] l.2 l.1 .actuate ⟨[], []⟩
    l.2.abs l.1 = st ∧ r.2.1.abs l.1 = st ∧ r.2.1.writes.all (l.2.next ≤ ·) = true ∧ r.2.1.writes.length = 1 ∧
    (r.2.1.abs r.1).grid.at ⟨1, 1⟩ = .key .red := by
  decide

/-- every state unpickled onto a heap whose unallocated part is empty (e.g. the empty heap) meets
the premises `Shaped` and `Closed` of the step theorems -/
theorem C03_premises_of_load (st : State) (hwf : ∀ row ∈ st.grid.cells, row.length = st.grid.w)
    (hh : st.grid.cells.length = st.grid.h) (h : Heap) (c : Clean h) :
    Shaped (h.load st).2 (h.load st).1 ∧ Closed (h.load st).2.next (h.load st).2 := by
  obtain ⟨_, o⟩ := load_spec st hwf hh h c.closed
  exact ⟨⟨o.rowsLen, fun row hrow => (o.rows row hrow).2.1⟩, (clean_load st h c).closed⟩

/-- and the premise `Below` (every node allocated) on a concrete instance -/
example :
    let st : State := ⟨⟨2, 2, [[.wall, .box (.key .red)], [.door .locked .red, .floor]]⟩, ⟨⟨1, 1⟩, .F, .key .blue⟩⟩
    let l := Heap.empty.load st
    Below l.2.next l.2 l.1 := by
  intro st l
  refine ⟨by decide, by decide, by decide, by decide, by decide, ?_⟩
  intro r hr c hc
  have key : ∀ r, r < l.2.next → (match (l.2.objOf r).content with | some c => decide (c < l.2.next) | none => true) = true := by
    decide
  have := key r hr
  rw [hc] at this
  exact of_decide_eq_true this

/-! ### observations -/

/-- **C03 (observation).**  `from_visibility` — the common tail of every observation function —
leaves every existing node as it was and assigns only into the containers it built: the state it
was given (and everything else) is unmodified, although the observation's visible cells *are* the
state's objects. -/
theorem C03_observation_pure (hp : Heap) (s : HState) (a : Area) (m : Mask) :
    AgreeBelow hp.next hp (hFromVisibility hp s a m).2 ∧
    (∀ w ∈ (hFromVisibility hp s a m).2.writes, w ∈ hp.writes ∨ hp.next ≤ w) := by
  unfold hFromVisibility
  simp only []
  generalize hcells : (List.map (fun (i : Nat) => List.map (fun (j : Nat) =>
      if s.contains (Transform.act ⟨hp.pos s, hp.orient s⟩ ⟨a.ymin + ↑i, a.xmin + ↑j⟩) = true then
        some (hp.cellRef s (Transform.act ⟨hp.pos s, hp.orient s⟩ ⟨a.ymin + ↑i, a.xmin + ↑j⟩)) else none)
      (List.range a.width)) (List.range a.height)) = cells
  have hcl : ∀ row ∈ cells, row.length = a.width := by
    intro row hrow
    rw [← hcells] at hrow
    simp only [List.mem_map] at hrow
    obtain ⟨i, _, rfl⟩ := hrow
    simp
  have hlen : cells.length = a.height := by rw [← hcells]; simp
  obtain ⟨e1, len1, all1⟩ := buildRows_spec a.width cells hcl hp
  generalize hp.buildRows cells = rows at e1 len1 all1
  have e2 := ext_newRows rows.2 rows.1
  generalize hO : rows.2.newRows rows.1 = outer at e2
  have hOv : @Eq Nat outer.1 rows.2.next ∧ outer.2.rowsOf outer.1 = rows.1 ∧
      @Eq Nat outer.2.next (rows.2.next + 1) := by
    rw [← hO]; simp [Heap.newRows]
  have e3 := ext_newTf outer.2 ⟨povPos a, .F⟩
  generalize outer.2.newTf ⟨povPos a, .F⟩ = tf at e3
  have e4 := ext_newAgent tf.2 (tf.1, hp.heldRef s)
  generalize tf.2.newAgent (tf.1, hp.heldRef s) = ag at e4
  have eAll : Ext hp ag.2 := e1.trans (e2.trans (e3.trans e4))
  have e34 : Ext outer.2 ag.2 := e3.trans e4
  have q1 := hOv.1
  have q3 := hOv.2.2
  have n1 := e1.next
  -- the new containers
  have ro : RowsFrom hp.next ag.2 ⟨outer.1, ag.1, a.height, a.width⟩ := by
    constructor
    · show (ag.2.rowsOf outer.1).length = a.height
      rw [e34.agree.rows outer.1 (by omega), hOv.2.1, len1, hlen]
    · show ∀ row ∈ ag.2.rowsOf outer.1, _
      rw [e34.agree.rows outer.1 (by omega), hOv.2.1]
      intro row hrow
      obtain ⟨lo, hi, len⟩ := all1 row hrow
      refine ⟨lo, ?_⟩
      rw [(e2.trans e34).agree.cells row hi]; exact len
  have hps : ∀ p ∈ (List.range a.height).flatMap (fun (i : Nat) => (List.range a.width).map fun (j : Nat) =>
      (⟨(i : Int), (j : Int)⟩ : Pos)), (⟨outer.1, ag.1, a.height, a.width⟩ : HState).contains p = true := by
    intro p hp'
    simp only [List.mem_flatMap, List.mem_map, List.mem_range] at hp'
    obtain ⟨i, hi, j, hj, rfl⟩ := hp'
    rw [HState.contains_iff]
    simp only
    omega
  obtain ⟨st, _⟩ := hideCells_step m _ hps ag.2 eAll.next ro
  have := (eAll.toStep (Nat.le_refl _)).trans st
  exact ⟨this.agree, this.writes⟩

theorem C03_observation_input_unchanged (hp : Heap) (s : HState) (a : Area) (m : Mask) (t : HState)
    (ht : Below hp.next hp t) : (hFromVisibility hp s a m).2.abs t = hp.abs t :=
  abs_congr ht (C03_observation_pure hp s a m).1.on

/-! ### history independence of memoised helpers -/

/-- the shortest-path table (`dijkstra`, `lru_cache`) and the ray fans
(`cached_compute_rays_fancy`): whatever was asked before, in any order, with eviction, every answer
is the underlying function's -/
theorem C03_memo_transparent {K V} [BEq K] [LawfulBEq K] (f : K → V) (maxsize : Nat) (history ks : List K) :
    (Memo.run f maxsize (Memo.run f maxsize ⟨[]⟩ history).2 ks).1 = ks.map f := by
  have sound : ∀ (hs : List K) (m : Memo K V), m.Sound f → (Memo.run f maxsize m hs).2.Sound f := by
    intro hs
    induction hs with
    | nil => intro m hm; exact hm
    | cons k ks ih => intro m hm; exact ih _ (Memo.query_sound f maxsize m k hm).2
  exact C19_memo_correct f maxsize _ (sound history _ (C19_memo_empty_sound f)) ks

end GV
