/-
  C20 — the gym adapter along *histories*, and the inversion of its returns.

  `Props/C20.lean` pins each call down in the forward direction (given what the inner environment
  answers, this is what the adapter returns).  Here the statements a user relies on are proved in the
  direction the user meets them — *from the returned value*, for every history of gym-level calls,
  whatever succeeded or failed before:

  * whatever array `reset`/`step` return is the representation of the memoised observation, and that
    observation is one the functional interface produces for the state the environment is in *now*
    (`C20_returned_is_current`, through the freshness invariant lifted to gym histories,
    `C20_fresh_always`);
  * a successful `step i` has executed the `i`-th action on the state held before the call and
    returns the inner reward and flag of exactly that transition (`C20_step_inv`);
  * the state wrapper is a view: it leaves the inner environment exactly as the wrapped call leaves
    it (`C20_state_wrapper_same_machine`) and the state array it returns is the representation of the
    current state, the `info` array that of the current observation (`C20_state_wrapper_inv`);
  * a refused index or a failed reset/step changes nothing (`C20_refused_changes_nothing`).
-/
import GridVerse.Props.C20
set_option linter.unusedSimpArgs false
set_option linter.unusedVariables false
namespace GV

/-- the calls a gym user can make -/
inductive GymOp
  | reset
  | step (i : Int)
  | stateReset
  | stateStep (i : Int)

def gymExec {Rep} (e : EnvSpec) (o : OuterSpec Rep) (m : Machine) : GymOp → Machine × GymOut Rep
  | .reset => gymReset e o m
  | .step i => gymStep e o m i
  | .stateReset => gymStateReset e o m
  | .stateStep i => gymStateStep e o m i

def gymRun {Rep} (e : EnvSpec) (o : OuterSpec Rep) : Machine → List GymOp → Machine × List (GymOut Rep)
  | m, [] => (m, [])
  | m, op :: ops =>
    let r := gymExec e o m op
    let rest := gymRun e o r.1 ops
    (rest.1, r.2 :: rest.2)

/-! ### the outer reads -/

/-- reading the state representation never changes the inner environment -/
theorem outerState_machine {Rep} (e : EnvSpec) (o : OuterSpec Rep) (m : Machine) :
    (outerState e o m).1 = m := by
  simp only [outerState]
  split
  · rfl
  · have hm : (m.exec e .readState).1 = m := C04_read_state_pure e m
    split
    · rename_i m' s hx
      have : m' = m := by rw [← hm, hx]
      subst this
      split <;> rfl
    · rename_i m' out _ hx
      have : m' = m := by rw [← hm, hx]
      exact this

/-- the machine after `outer_env.observation` is the machine after the inner read (or untouched) -/
theorem outerObs_machine {Rep} (e : EnvSpec) (o : OuterSpec Rep) (m : Machine) :
    (outerObs e o m).1 = m ∨ (outerObs e o m).1 = (m.exec e .readObs).1 := by
  simp only [outerObs]
  split
  · exact .inl rfl
  · split
    · rename_i m' ob hx
      right
      split <;> simp [hx]
    · rename_i m' out _ hx
      right; simp [hx]

theorem outerObs_fresh {Rep} (e : EnvSpec) (o : OuterSpec Rep) (m : Machine) (hf : m.Fresh e) :
    (outerObs e o m).1.Fresh e := by
  rcases outerObs_machine e o m with h | h
  · rw [h]; exact hf
  · rw [h]; exact C04_fresh_step e m .readObs hf

/-- inversion of a successful `outer_env.observation` -/
theorem outerObs_inv {Rep} (e : EnvSpec) (o : OuterSpec Rep) (m m' : Machine) (r : Rep)
    (h : outerObs e o m = (m', .rep r)) :
    ∃ f ob, o.obsRep = some f ∧ m.exec e .readObs = (m', .obs ob) ∧ f ob = .ok r := by
  simp only [outerObs] at h
  split at h
  · cases h
  · rename_i f hf
    split at h
    · rename_i m1 ob hx
      split at h
      · rename_i r' hr
        simp only [Prod.mk.injEq, OuterOut.rep.injEq] at h
        obtain ⟨rfl, rfl⟩ := h
        exact ⟨f, ob, hf, hx, hr⟩
      · cases h
    · cases h

/-- a successful inner read leaves the observation memoised -/
theorem readObs_memo (e : EnvSpec) (m m' : Machine) (ob : Obs)
    (h : m.exec e .readObs = (m', .obs ob)) : m'.obs = some ob ∧ m'.state = m.state := by
  simp only [Machine.exec] at h
  split at h
  · rename_i o' ho'
    simp only [Prod.mk.injEq, Out.obs.injEq] at h
    obtain ⟨rfl, rfl⟩ := h
    exact ⟨ho', rfl⟩
  · split at h
    · cases h
    · split at h
      · cases h
      · simp only [Prod.mk.injEq, Out.obs.injEq] at h
        obtain ⟨rfl, rfl⟩ := h
        exact ⟨rfl, rfl⟩

/-- inversion of a successful `outer_env.state` -/
theorem outerState_inv {Rep} (e : EnvSpec) (o : OuterSpec Rep) (m m' : Machine) (r : Rep)
    (h : outerState e o m = (m', .rep r)) :
    m' = m ∧ ∃ g s, o.stateRep = some g ∧ m.state = some s ∧ g s = .ok r := by
  have hm : m' = m := by
    have := outerState_machine e o m
    rw [h] at this; exact this
  refine ⟨hm, ?_⟩
  simp only [outerState] at h
  split at h
  · cases h
  · rename_i g hg
    split at h
    · rename_i m1 s hx
      split at h
      · rename_i r' hr
        simp only [Prod.mk.injEq, OuterOut.rep.injEq] at h
        obtain ⟨_, rfl⟩ := h
        refine ⟨g, s, hg, ?_, hr⟩
        simp only [Machine.exec] at hx
        split at hx
        · cases hx
        · rename_i s' hs'
          simp only [Prod.mk.injEq, Out.state.injEq] at hx
          rw [hs', hx.2]
      · cases h
    · cases h

/-! ### freshness along gym histories -/

theorem gymReset_fresh {Rep} (e : EnvSpec) (o : OuterSpec Rep) (m : Machine) (hf : m.Fresh e) :
    (gymReset e o m).1.Fresh e := by
  have h1 := C04_fresh_step e m .reset hf
  simp only [gymReset]
  split
  · rename_i m' err hx
    rw [hx] at h1; exact h1
  · rename_i m' out _ hx
    rw [hx] at h1
    have h2 := outerObs_fresh e o m' h1
    split <;> (rename_i hy; rw [hy] at h2; exact h2)

theorem gymStep_fresh {Rep} (e : EnvSpec) (o : OuterSpec Rep) (m : Machine) (i : Int)
    (hf : m.Fresh e) : (gymStep e o m i).1.Fresh e := by
  simp only [gymStep]
  split
  · exact hf
  · rename_i a ha
    have h1 := C04_fresh_step e m (.step a) hf
    split
    · rename_i m' r t hx
      rw [hx] at h1
      have h2 := outerObs_fresh e o m' h1
      split <;> (rename_i hy; rw [hy] at h2; exact h2)
    · rename_i m' err hx
      rw [hx] at h1; exact h1
    · rename_i m' out _ _ hx
      rw [hx] at h1; exact h1

/-- the state wrapper leaves the inner environment exactly as the wrapped call leaves it -/
theorem C20_state_wrapper_same_machine {Rep} (e : EnvSpec) (o : OuterSpec Rep) (m : Machine) :
    (gymStateReset e o m).1 = (gymReset e o m).1 ∧
    ∀ i, (gymStateStep e o m i).1 = (gymStep e o m i).1 := by
  constructor
  · simp only [gymStateReset]
    split
    · rename_i m' r hx
      have hm := outerState_machine e o m'
      rw [hx]
      split <;> (rename_i hy; rw [hy] at hm; simpa using hm)
    · rename_i hx; rw [hx]
  · intro i
    simp only [gymStateStep]
    split
    · rename_i m' ob r t hx
      have hm := outerState_machine e o m'
      rw [hx]
      split <;> (rename_i hy; rw [hy] at hm; simpa using hm)
    · rename_i hx; rw [hx]

theorem C20_fresh_step {Rep} (e : EnvSpec) (o : OuterSpec Rep) (m : Machine) (op : GymOp)
    (hf : m.Fresh e) : (gymExec e o m op).1.Fresh e := by
  cases op with
  | reset => exact gymReset_fresh e o m hf
  | step i => exact gymStep_fresh e o m i hf
  | stateReset =>
    simp only [gymExec]; rw [(C20_state_wrapper_same_machine e o m).1]; exact gymReset_fresh e o m hf
  | stateStep i =>
    simp only [gymExec]; rw [(C20_state_wrapper_same_machine e o m).2 i]; exact gymStep_fresh e o m i hf

/-- after any history of gym-level calls — successful or not, on the plain adapter or through the
state wrapper — the memoised observation belongs to the current state -/
theorem C20_fresh_always {Rep} (e : EnvSpec) (o : OuterSpec Rep) (d : DrawSt) (ops : List GymOp) :
    (gymRun e o (Machine.init d) ops).1.Fresh e := by
  have key : ∀ (m : Machine), m.Fresh e → (gymRun e o m ops).1.Fresh e := by
    induction ops with
    | nil => intro m hm; exact hm
    | cons op ops ih => intro m hm; exact ih _ (C20_fresh_step e o m op hm)
  exact key _ (C04_fresh_init e d)

/-! ### what a returned value is -/

/-- the array is the representation of the memoised observation, which the functional interface
produces for the state held now -/
def IsCurrentObs {Rep} (e : EnvSpec) (o : OuterSpec Rep) (m' : Machine) (r : Rep) : Prop :=
  ∃ f ob s d0 d1, o.obsRep = some f ∧ m'.obs = some ob ∧ f ob = .ok r ∧ m'.state = some s ∧
    e.functionalObservation s d0 = .ok (ob, d1)

/-- the array is the representation of the state held now -/
def IsCurrentState {Rep} (o : OuterSpec Rep) (m' : Machine) (r : Rep) : Prop :=
  ∃ g s, o.stateRep = some g ∧ m'.state = some s ∧ g s = .ok r

theorem outerObs_current {Rep} (e : EnvSpec) (o : OuterSpec Rep) (m m' : Machine) (r : Rep)
    (hf : m.Fresh e) (h : outerObs e o m = (m', .rep r)) : IsCurrentObs e o m' r := by
  obtain ⟨f, ob, hfo, hx, hr⟩ := outerObs_inv e o m m' r h
  have hfr : m'.Fresh e := by
    have := C04_fresh_step e m .readObs hf
    rw [hx] at this; exact this
  obtain ⟨hob, _⟩ := readObs_memo e m m' ob hx
  obtain ⟨s, d0, d1, hs, hobs⟩ := hfr ob hob
  exact ⟨f, ob, s, d0, d1, hfo, hob, hr, hs, hobs⟩

/-- inversion of `GymEnvironment.reset` -/
theorem gymReset_inv {Rep} (e : EnvSpec) (o : OuterSpec Rep) (m m' : Machine) (r : Rep)
    (hf : m.Fresh e) (h : gymReset e o m = (m', .reset r)) :
    IsCurrentObs e o m' r ∧
    ∃ s d1, e.functionalReset m.d = .ok (s, d1) ∧ m'.state = some s := by
  simp only [gymReset] at h
  have h1 := C04_fresh_step e m .reset hf
  split at h
  · cases h
  · rename_i m1 out hne hx
    rw [hx] at h1
    split at h
    · rename_i m2 r' hy
      simp only [Prod.mk.injEq, GymOut.reset.injEq] at h
      obtain ⟨rfl, rfl⟩ := h
      refine ⟨outerObs_current e o m1 m2 r' h1 hy, ?_⟩
      obtain ⟨f, ob, _, hrd, _⟩ := outerObs_inv e o m1 m2 r' hy
      have hst := (readObs_memo e m1 m2 ob hrd).2
      simp only [Machine.exec] at hx
      split at hx
      · rename_i err herr
        simp only [Prod.mk.injEq] at hx
        exact (hne err hx.2.symm).elim
      · rename_i s d1 hok
        simp only [Prod.mk.injEq] at hx
        refine ⟨s, d1, hok, ?_⟩
        rw [hst, ← hx.1]
    all_goals cases h

/-- inversion of `GymEnvironment.step`: a successful return comes from executing the `i`-th action
on the state held before the call; the reward and the flag are those of that transition, the machine
holds the post-step state, and the array shows it -/
theorem C20_step_inv {Rep} (e : EnvSpec) (o : OuterSpec Rep) (m m' : Machine) (i : Int) (r : Rep)
    (rw : List RTerm) (t : Bool) (hf : m.Fresh e) (h : gymStep e o m i = (m', .step r rw t)) :
    IsCurrentObs e o m' r ∧
    ∃ a s res, e.actions.intToAction i = .ok a ∧ m.state = some s ∧
      e.functionalStep s a m.d = .ok res ∧ rw = res.reward ∧ t = res.terminal ∧
      m'.state = some res.next := by
  simp only [gymStep] at h
  split at h
  · cases h
  · rename_i a ha
    have h1 := C04_fresh_step e m (.step a) hf
    split at h
    · rename_i m1 r1 t1 hx
      rw [hx] at h1
      split at h
      · rename_i m2 ob hy
        simp only [Prod.mk.injEq, GymOut.step.injEq] at h
        obtain ⟨rfl, rfl, rfl, rfl⟩ := h
        refine ⟨outerObs_current e o m1 m2 ob h1 hy, a, ?_⟩
        obtain ⟨f, ob', _, hrd, _⟩ := outerObs_inv e o m1 m2 ob hy
        have hst := (readObs_memo e m1 m2 ob' hrd).2
        simp only [Machine.exec] at hx
        split at hx
        · cases hx
        · rename_i s hs
          split at hx
          · cases hx
          · rename_i res hres
            simp only [Prod.mk.injEq, Out.stepRes.injEq] at hx
            obtain ⟨rfl, rfl, rfl⟩ := hx
            exact ⟨s, res, ha, hs, hres, rfl, rfl, by simpa using hst⟩
      all_goals cases h
    all_goals cases h

/-- what the plain adapter returns is current, for every machine reached by any gym history -/
theorem C20_returned_is_current {Rep} (e : EnvSpec) (o : OuterSpec Rep) (d : DrawSt)
    (ops : List GymOp) (i : Int) (m' : Machine) :
    let m := (gymRun e o (Machine.init d) ops).1
    (∀ r, gymReset e o m = (m', .reset r) → IsCurrentObs e o m' r) ∧
    (∀ r rw t, gymStep e o m i = (m', .step r rw t) → IsCurrentObs e o m' r) := by
  intro m
  have hf : m.Fresh e := C20_fresh_always e o d ops
  exact ⟨fun r h => (gymReset_inv e o m m' r hf h).1,
    fun r rw t h => (C20_step_inv e o m m' i r rw t hf h).1⟩

theorem gymStep_ne_stateStep {Rep} (e : EnvSpec) (o : OuterSpec Rep) (m : Machine) (i : Int)
    (st : Rep) (rw : List RTerm) (t : Bool) (ob : Rep) :
    (gymStep e o m i).2 ≠ .stateStep st rw t ob := by
  simp only [gymStep]
  repeat' split
  all_goals (intro h; cases h)

/-- inversion of the state wrapper: the state array represents the current (post-step) state, the
`info` array the current observation; reward and flag as for the wrapped step -/
theorem C20_state_wrapper_inv {Rep} (e : EnvSpec) (o : OuterSpec Rep) (m m' : Machine) (i : Int)
    (st ob : Rep) (rw : List RTerm) (t : Bool) (hf : m.Fresh e)
    (h : gymStateStep e o m i = (m', .stateStep st rw t ob)) :
    gymStep e o m i = (m', .step ob rw t) ∧ IsCurrentState o m' st ∧ IsCurrentObs e o m' ob := by
  simp only [gymStateStep] at h
  split at h
  · rename_i m1 ob1 r1 t1 hx
    split at h
    · rename_i m2 st1 hy
      simp only [Prod.mk.injEq, GymOut.stateStep.injEq] at h
      obtain ⟨rfl, rfl, rfl, rfl, rfl⟩ := h
      obtain ⟨hm, g, s, hg, hs, hgs⟩ := outerState_inv e o m1 m2 st1 hy
      subst hm
      exact ⟨hx, ⟨g, s, hg, hs, hgs⟩, (C20_step_inv e o m m2 i ob1 r1 t1 hf hx).1⟩
    all_goals cases h
  · rename_i m1 out hne hx
    simp only [Prod.mk.injEq] at h
    obtain ⟨rfl, rfl⟩ := h
    have := gymStep_ne_stateStep e o m i st rw t ob
    rw [hx] at this
    exact (this rfl).elim

/-- a refused index, a failed reset and a failed step leave the environment as it was -/
theorem C20_refused_changes_nothing {Rep} (e : EnvSpec) (o : OuterSpec Rep) (m : Machine) :
    (∀ i err, e.actions.intToAction i = .error err → gymStep e o m i = (m, .err err)) ∧
    (∀ err, e.functionalReset m.d = .error err → gymReset e o m = (m, .err err)) ∧
    (∀ i a s err, e.actions.intToAction i = .ok a → m.state = some s →
      e.functionalStep s a m.d = .error err → gymStep e o m i = (m, .err err)) ∧
    (∀ i a, e.actions.intToAction i = .ok a → m.state = none →
      gymStep e o m i = (m, .err .runtimeError)) := by
  refine ⟨?_, ?_, ?_, ?_⟩
  · intro i err h; simp [gymStep, h]
  · intro err h; simp [gymReset, Machine.exec, h]
  · intro i a s err ha hs h; simp [gymStep, ha, Machine.exec, hs, h]
  · intro i a ha hs; simp [gymStep, ha, Machine.exec, hs]

/-! ### the adapter has no state of its own: trace inclusion into the inner interface -/

theorem Machine.run_append (e : EnvSpec) (m : Machine) (l1 l2 : List Op) :
    (Machine.run e m (l1 ++ l2)).1 = (Machine.run e (Machine.run e m l1).1 l2).1 := by
  induction l1 generalizing m with
  | nil => rfl
  | cons op l1 ih => simp only [List.cons_append, Machine.run]; exact ih _

theorem gymReset_reach {Rep} (e : EnvSpec) (o : OuterSpec Rep) (m : Machine) :
    (gymReset e o m).1 = (Machine.run e m [.reset]).1 ∨
    (gymReset e o m).1 = (Machine.run e m [.reset, .readObs]).1 := by
  simp only [gymReset, Machine.run]
  split
  · rename_i m' err hx; left; rw [hx]
  · rename_i m' out _ hx
    rw [hx]
    have h := outerObs_machine e o m'
    split <;> (rename_i hy; rw [hy] at h; simp only at h ⊢; rcases h with h | h <;> simp [h])

theorem gymStep_reach {Rep} (e : EnvSpec) (o : OuterSpec Rep) (m : Machine) (i : Int) :
    (gymStep e o m i).1 = m ∨ ∃ a, e.actions.intToAction i = .ok a ∧
      ((gymStep e o m i).1 = (Machine.run e m [.step a]).1 ∨
       (gymStep e o m i).1 = (Machine.run e m [.step a, .readObs]).1) := by
  simp only [gymStep, Machine.run]
  split
  · left; rfl
  · rename_i a ha
    right
    refine ⟨a, ha, ?_⟩
    split
    · rename_i m' r t hx
      rw [hx]
      have h := outerObs_machine e o m'
      split <;> (rename_i hy; rw [hy] at h; simp only at h ⊢; rcases h with h | h <;> simp [h])
    · rename_i m' err hx; left; rw [hx]
    · rename_i m' out _ _ hx; left; rw [hx]

/-- every machine a gym history reaches is reached by a history of the inner interface that uses
only `reset`, `step` (with actions of the action space) and `readObs`: the adapter and the state
wrapper keep nothing of their own between calls -/
theorem C20_trace_inclusion {Rep} (e : EnvSpec) (o : OuterSpec Rep) (m : Machine) (ops : List GymOp) :
    ∃ l : List Op, (gymRun e o m ops).1 = (Machine.run e m l).1 ∧
      ∀ op ∈ l, op = .reset ∨ op = .readObs ∨ ∃ i a, e.actions.intToAction i = .ok a ∧ op = .step a := by
  induction ops generalizing m with
  | nil => exact ⟨[], rfl, by simp⟩
  | cons op ops ih =>
    have one : ∃ l1 : List Op, (gymExec e o m op).1 = (Machine.run e m l1).1 ∧
        ∀ op ∈ l1, op = .reset ∨ op = .readObs ∨ ∃ i a, e.actions.intToAction i = .ok a ∧ op = .step a := by
      have hr : ∃ l1 : List Op, (gymReset e o m).1 = (Machine.run e m l1).1 ∧
          ∀ op ∈ l1, op = .reset ∨ op = .readObs ∨ ∃ i a, e.actions.intToAction i = .ok a ∧ op = .step a := by
        rcases gymReset_reach e o m with h | h
        · exact ⟨_, h, by simp⟩
        · exact ⟨_, h, by simp⟩
      have hs : ∀ i, ∃ l1 : List Op, (gymStep e o m i).1 = (Machine.run e m l1).1 ∧
          ∀ op ∈ l1, op = .reset ∨ op = .readObs ∨ ∃ i a, e.actions.intToAction i = .ok a ∧ op = .step a := by
        intro i
        rcases gymStep_reach e o m i with h | ⟨a, ha, h | h⟩
        · exact ⟨[], h, by simp⟩
        · refine ⟨_, h, ?_⟩
          intro op hop
          simp only [List.mem_singleton] at hop
          exact .inr (.inr ⟨i, a, ha, hop⟩)
        · refine ⟨_, h, ?_⟩
          intro op hop
          simp only [List.mem_cons, List.not_mem_nil, or_false] at hop
          rcases hop with hop | hop
          · exact .inr (.inr ⟨i, a, ha, hop⟩)
          · exact .inr (.inl hop)
      cases op with
      | reset => exact hr
      | step i => exact hs i
      | stateReset => simp only [gymExec]; rw [(C20_state_wrapper_same_machine e o m).1]; exact hr
      | stateStep i => simp only [gymExec]; rw [(C20_state_wrapper_same_machine e o m).2 i]; exact hs i
    obtain ⟨l1, h1, p1⟩ := one
    obtain ⟨l2, h2, p2⟩ := ih (gymExec e o m op).1
    refine ⟨l1 ++ l2, ?_, ?_⟩
    · simp only [gymRun]
      rw [h2, h1, Machine.run_append]
    · intro op hop
      rcases List.mem_append.mp hop with h | h
      · exact p1 op h
      · exact p2 op h

/-! ### non-vacuity: a concrete environment, a history with a refused call in the middle -/
section
private def exEnv : EnvSpec := {
  stateSpace := ⟨4, 4, [.wall, .floor, .exit], [.none]⟩, actions := ⟨Action.all⟩,
  obsSpace := ⟨2, 3, [.wall, .floor, .exit], [.none]⟩,
  reset := fun d => .ok (⟨Grid.fill 4 4 .floor, ⟨⟨1, 1⟩, .R, .noneObj⟩⟩, d),
  trans := [.moveAgent, .turnAgent], rewards := [.living (-1)],
  observe := observeOf .ft ⟨-1, 0, -1, 1⟩ [], term := .reachExit, debug := true }
/-- representations that merely tag (position of the agent / number of rows of the view) -/
private def exOuter : OuterSpec Nat :=
  ⟨some fun s => .ok s.agent.pos.x.toNat, some fun ob => .ok ob.grid.cells.length⟩

/-- after reset, a step, a refused index and a state-wrapper step: the machine holds the state two
moves on, the memo is present, the last return is a `stateStep` whose hypotheses the inversion
theorems therefore meet -/
example :
    let r := gymRun exEnv exOuter (Machine.init ⟨[], []⟩) [.reset, .step 0, .step 99, .stateStep 0]
    r.1.state = some ⟨Grid.fill 4 4 .floor, ⟨⟨1, 3⟩, .R, .noneObj⟩⟩ ∧ r.1.obs.isSome = true ∧
    (match r.2 with
     | [.reset _, .step _ _ false, .err .indexError, .stateStep 3 _ false _] => true
     | _ => false) = true := by
  decide
end

end GV
