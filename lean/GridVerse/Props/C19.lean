/-
  C19 — Rays are connected paths that sweep the whole area.

  "Every ray starts at its origin cell, stays inside the area, visits each cell at most once,
  advances between adjacent (edge- or corner-sharing) cells and ends on the area's border; the fan
  of rays from any origin reaches every cell of the area, so an unobstructed ray-traced view shows
  everything. Ray computations are deterministic and unaffected by caching."

  Three layers (DESIGN §6 C19).  (1) Proved here, unbounded: the executable checkers decide exactly
  the path properties; a fan that passes them and covers the area makes every cell of an
  unobstructed view visible; `unique_everseen ∘ takewhile` of *any* sample sequence starts at the
  first sample, stays inside and has no repeated cell; a memo table never changes an answer.
  (2) Assumed and checked at run time on every ray the implementation produces: the float sample
  sequence is step-bounded and monotone (`sampleOK`) and the model's `rayOfSamples` of it equals the
  implementation's ray.  (3) Coverage itself (that the fan of `arctan2` directions reaches every
  cell) depends on libm: decided by exhaustive enumeration on the implementation — a test, labelled
  as such — with the Lean checker `coversArea` as the judge.
-/
import GridVerse.Model.Rays
import GridVerse.Lemmas.Flood
set_option linter.unusedSimpArgs false
namespace GV

/-- the path properties of one ray -/
structure RayOK (a : Area) (origin : Pos) (r : Ray) : Prop where
  start : r.head? = some origin
  inside : ∀ p ∈ r, a.contains p = true
  nodup : r.Nodup
  steps : ∀ i (h : i + 1 < r.length), adjacent (r[i]) (r[i + 1]) = true
  border : ∃ l, r.getLast? = some l ∧ onAreaBorder a l = true

theorem nodupB_iff (l : List Pos) : nodupB l = true ↔ l.Nodup := by
  induction l with
  | nil => simp [nodupB]
  | cons p ps ih => simp [nodupB, ih, List.nodup_cons]

theorem chainB_iff (rel : Pos → Pos → Bool) (l : List Pos) :
    chainB rel l = true ↔ ∀ i (h : i + 1 < l.length), rel (l[i]) (l[i + 1]) = true := by
  induction l with
  | nil => simp [chainB]
  | cons p ps ih =>
    cases ps with
    | nil => simp [chainB]
    | cons q rest =>
      simp only [chainB, Bool.and_eq_true, ih]
      constructor
      · rintro ⟨h1, h2⟩ i hi
        cases i with
        | zero => simpa using h1
        | succ j =>
          simp only [List.getElem_cons_succ]
          exact h2 j (by simpa using hi)
      · intro h
        refine ⟨by simpa using h 0 (by simp), ?_⟩
        intro i hi
        have := h (i + 1) (by simpa using hi)
        simp only [List.getElem_cons_succ] at this
        exact this

/-- the executable check decides exactly the path properties -/
theorem C19_checkRay_iff (a : Area) (origin : Pos) (r : Ray) : checkRay a origin r = true ↔ RayOK a origin r := by
  simp only [checkRay, Bool.and_eq_true, beq_iff_eq, List.all_eq_true, nodupB_iff, chainB_iff]
  constructor
  · rintro ⟨⟨⟨⟨h1, h2⟩, h3⟩, h4⟩, h5⟩
    refine ⟨h1, h2, h3, h4, ?_⟩
    cases hl : r.getLast? with
    | none => rw [hl] at h5; cases h5
    | some l => rw [hl] at h5; exact ⟨l, rfl, h5⟩
  · rintro ⟨h1, h2, h3, h4, l, hl, hb⟩
    exact ⟨⟨⟨⟨h1, h2⟩, h3⟩, h4⟩, by rw [hl]; exact hb⟩

theorem C19_checkFan_iff (a : Area) (origin : Pos) (rays : List Ray) :
    checkFan a origin rays = true ↔ rays ≠ [] ∧ ∀ r ∈ rays, RayOK a origin r := by
  simp only [checkFan, Bool.and_eq_true, Bool.not_eq_true', List.isEmpty_eq_false_iff, List.all_eq_true,
    C19_checkRay_iff]

theorem C19_covers_iff (a : Area) (rays : List Ray) :
    coversArea a rays = true ↔ ∀ p ∈ a.positions, ∃ r ∈ rays, p ∈ r := by
  simp [coversArea]

/-! ### what `unique_everseen ∘ takewhile` guarantees for *any* sample sequence -/

theorem dedupFirst_sub (seen l : List Pos) : ∀ p ∈ dedupFirst seen l, p ∈ l ∧ p ∉ seen := by
  induction l generalizing seen with
  | nil => intro p hp; simp [dedupFirst] at hp
  | cons q qs ih =>
    intro p hp
    simp only [dedupFirst] at hp
    split at hp
    · obtain ⟨h1, h2⟩ := ih seen p hp
      exact ⟨List.mem_cons_of_mem _ h1, h2⟩
    · rename_i hq
      rcases List.mem_cons.mp hp with rfl | hp
      · exact ⟨by simp, by simpa using hq⟩
      · obtain ⟨h1, h2⟩ := ih (q :: seen) p hp
        exact ⟨List.mem_cons_of_mem _ h1, fun h => h2 (List.mem_cons_of_mem _ h)⟩

theorem dedupFirst_nodup (seen l : List Pos) : (dedupFirst seen l).Nodup := by
  induction l generalizing seen with
  | nil => simp [dedupFirst]
  | cons q qs ih =>
    simp only [dedupFirst]
    split
    · exact ih seen
    · rw [List.nodup_cons]
      refine ⟨?_, ih (q :: seen)⟩
      intro h
      exact (dedupFirst_sub (q :: seen) qs q h).2 (by simp)

theorem dedupFirst_complete (seen l : List Pos) (p : Pos) (hp : p ∈ l) (hs : p ∉ seen) :
    p ∈ dedupFirst seen l := by
  induction l generalizing seen with
  | nil => cases hp
  | cons q qs ih =>
    simp only [dedupFirst]
    by_cases hq : seen.contains q = true
    · simp only [hq, if_true]
      rcases List.mem_cons.mp hp with rfl | hp
      · exact absurd (by simpa using hq) hs
      · exact ih seen hp hs
    · simp only [hq, if_false]
      by_cases hpq : p = q
      · simp [hpq]
      · rcases List.mem_cons.mp hp with h | hp
        · exact absurd h hpq
        · exact List.mem_cons_of_mem _ (ih (q :: seen) hp (by simp [hpq, hs]))

theorem takeWhile_all (f : Pos → Bool) (l : List Pos) : ∀ p ∈ l.takeWhile f, f p = true := by
  induction l with
  | nil => intro p hp; cases hp
  | cons q qs ih =>
    intro p hp
    simp only [List.takeWhile] at hp
    split at hp
    · rename_i hq
      rcases List.mem_cons.mp hp with rfl | hp
      · exact hq
      · exact ih p hp
    · cases hp

/-- the ray computed from any sample sequence whose first sample is the (in-area) origin: starts at
the origin, stays inside the area, visits no cell twice, and visits exactly the cells sampled
before the area is left -/
theorem C19_ray_of_samples (a : Area) (origin : Pos) (rest : List Pos) (ho : a.contains origin = true) :
    (rayOfSamples a (origin :: rest)).head? = some origin ∧
    (∀ p ∈ rayOfSamples a (origin :: rest), a.contains p = true) ∧
    (rayOfSamples a (origin :: rest)).Nodup ∧
    (∀ p, p ∈ rayOfSamples a (origin :: rest) ↔ p ∈ (origin :: rest).takeWhile a.contains) := by
  refine ⟨?_, ?_, dedupFirst_nodup _ _, ?_⟩
  · simp [rayOfSamples, List.takeWhile, ho, dedupFirst]
  · intro p hp
    have := (dedupFirst_sub [] _ p hp).1
    exact takeWhile_all _ _ p this
  · intro p
    constructor
    · intro hp; exact (dedupFirst_sub [] _ p hp).1
    · intro hp; exact dedupFirst_complete [] _ p hp (by simp)

/-! ### an unobstructed ray-traced view shows everything the fan covers -/

theorem rayMarks_all_lit (g : Grid) (r : Ray) (ht : ∀ p ∈ r, (g.at p).blocksVision = false) :
    ∀ p ∈ r, (p, true) ∈ rayMarks g true r := by
  induction r with
  | nil => intro p hp; cases hp
  | cons q qs ih =>
    intro p hp
    simp only [rayMarks, ht q (by simp), Bool.not_false, Bool.and_self]
    rcases List.mem_cons.mp hp with rfl | hp
    · simp
    · exact List.mem_cons_of_mem _ (ih (fun x hx => ht x (by simp [hx])) p hp)

/-- if the fan covers the area and nothing in the view blocks vision, every cell is visible -/
theorem C19_unobstructed_all_visible (g : Grid) (a : Area) (rays : List Ray)
    (hcov : coversArea a rays = true) (hin : ∀ r ∈ rays, ∀ p ∈ r, a.contains p = true)
    (ht : ∀ p, a.contains p = true → (g.at p).blocksVision = false) :
    ∀ p ∈ a.positions, visRaytracing g rays p = true := by
  intro p hp
  obtain ⟨r, hr, hpr⟩ := (C19_covers_iff a rays).mp hcov p hp
  simp only [visRaytracing, decide_eq_true_eq]
  rw [countsNum_pos_iff]
  exact ⟨r, hr, rayMarks_all_lit g r (fun q hq => ht q (hin r hr q hq)) p hpr⟩

/-- a checked fan makes the agent's own cell visible whatever the grid holds -/
theorem C19_origin_visible (g : Grid) (a : Area) (origin : Pos) (rays : List Ray)
    (hf : checkFan a origin rays = true) : visRaytracing g rays origin = true := by
  obtain ⟨hne, hall⟩ := (C19_checkFan_iff a origin rays).mp hf
  obtain ⟨r, hr⟩ := List.exists_mem_of_ne_nil _ hne
  have hs := (hall r hr).start
  simp only [visRaytracing, decide_eq_true_eq]
  rw [countsNum_pos_iff]
  refine ⟨r, hr, ?_⟩
  cases r with
  | nil => cases hs
  | cons q qs => simp only [List.head?_cons, Option.some.injEq] at hs; subst hs; simp [rayMarks]

/-! ### caching never changes an answer -/

def Memo.Sound {K V} (f : K → V) (m : Memo K V) : Prop := ∀ kv ∈ m.entries, kv.2 = f kv.1

theorem Memo.query_sound {K V} [BEq K] [LawfulBEq K] (f : K → V) (n : Nat) (m : Memo K V) (k : K)
    (hm : m.Sound f) : (m.query f n k).1 = f k ∧ (m.query f n k).2.Sound f := by
  unfold Memo.query
  cases hl : m.entries.lookup k with
  | some v =>
    refine ⟨?_, hm⟩
    -- a hit returns what was stored, which is f k
    have : ∃ kv ∈ m.entries, kv.1 = k ∧ kv.2 = v := by
      have key : ∀ l : List (K × V), l.lookup k = some v → ∃ kv ∈ l, kv.1 = k ∧ kv.2 = v := by
        intro l
        induction l with
        | nil => intro h; cases h
        | cons x xs ih =>
          obtain ⟨xk, xv⟩ := x
          intro h
          rw [List.lookup_cons] at h
          by_cases hx : (k == xk) = true
          · simp only [hx] at h
            refine ⟨(xk, xv), by simp, (beq_iff_eq.mp hx).symm, ?_⟩
            simpa using h
          · have hx' : (k == xk) = false := by simpa using hx
            simp only [hx'] at h
            obtain ⟨kv, h1, h2⟩ := ih h
            exact ⟨kv, by simp [h1], h2⟩
      exact key _ hl
    obtain ⟨kv, hmem, h1, h2⟩ := this
    rw [← h2, hm kv hmem, h1]
  | none =>
    refine ⟨rfl, ?_⟩
    intro kv hkv
    have := List.mem_of_mem_take hkv
    rcases List.mem_cons.mp this with rfl | h
    · rfl
    · exact hm kv h

/-- for any history of queries (any order, any repetitions, with eviction) every answer is the
pure function's value: ray computations are unaffected by caching -/
theorem C19_memo_correct {K V} [BEq K] [LawfulBEq K] (f : K → V) (n : Nat) (m : Memo K V) (hm : m.Sound f)
    (ks : List K) : (Memo.run f n m ks).1 = ks.map f := by
  induction ks generalizing m with
  | nil => rfl
  | cons k ks ih =>
    obtain ⟨h1, h2⟩ := Memo.query_sound f n m k hm
    simp only [Memo.run, List.map_cons, h1, ih _ h2]

theorem C19_memo_empty_sound {K V} (f : K → V) : (⟨[]⟩ : Memo K V).Sound f := by
  intro kv h; cases h

/-! ### non-vacuity: the 3×3 fan from the bottom-centre cell as the code computes it is accepted -/
example :
    let a : Area := ⟨0, 1, 0, 2⟩
    let rays : List Ray := [[⟨1, 1⟩, ⟨1, 0⟩], [⟨1, 1⟩, ⟨0, 0⟩], [⟨1, 1⟩, ⟨0, 1⟩], [⟨1, 1⟩, ⟨0, 2⟩], [⟨1, 1⟩, ⟨1, 2⟩]]
    checkFan a ⟨1, 1⟩ rays = true ∧ coversArea a rays = true ∧
    rayOfSamples a [⟨1, 1⟩, ⟨1, 1⟩, ⟨0, 1⟩, ⟨0, 1⟩, ⟨-1, 1⟩, ⟨0, 1⟩] = [⟨1, 1⟩, ⟨0, 1⟩] := by decide

end GV
