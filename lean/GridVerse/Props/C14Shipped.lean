/-
  C14 for the shipped environments, collected: for each shipped environment other than the four
  `memory_rooms` ones (known finding F9), every stream of draws: the reset succeeds and the rewarded
  goal can be reached under the environment's own chain of transition functions and its own
  termination, without an earlier terminating step.  `Generated/Envs.lean` (regenerated from the
  YAML files on every run) supplies reset parameters, chain and termination; the Boolean
  `ShippedEnv.winClass` matches them against the hypotheses of the per-layout theorems and is
  checked by `decide`.
-/
import GridVerse.Props.C14Rooms
import GridVerse.Props.C14Crossing
import GridVerse.Props.C14Teleport
import GridVerse.Props.C14Obstacles
import GridVerse.Generated.Envs
set_option linter.unusedSimpArgs false
set_option linter.unusedVariables false
namespace GV

def TermFn.isReachExit : TermFn → Bool
  | .reachExit => true
  | _ => false

theorem TermFn.eq_reachExit {t : TermFn} (h : t.isReachExit = true) : t = .reachExit := by
  cases t <;> simp [TermFn.isReachExit] at h ⊢

/-- the shipped termination of the obstacle tasks -/
def TermFn.isBumpAny : TermFn → Bool
  | .any [.reachExit, .bumpObstacle, .bumpWall] => true
  | _ => false

theorem TermFn.eq_bumpAny {t : TermFn} (h : t.isBumpAny = true) : t = .any [.reachExit, .bumpObstacle, .bumpWall] := by
  unfold TermFn.isBumpAny at h
  split at h
  · rfl
  · cases h

/-- the rewarded goal of an environment: the matching exit for the memory tasks, the exit otherwise -/
def Gen.ShippedEnv.goal (e : Gen.ShippedEnv) : State → Bool :=
  match e.reset with
  | .memory _ _ | .memoryRooms _ _ _ _ _ _ _ _ => goalMemory
  | _ => goalExit

/-- which winnability theorem applies (false: none — the `memory_rooms` environments) -/
def Gen.ShippedEnv.winClass (e : Gen.ShippedEnv) : Bool :=
  match e.reset with
  | .empty sh _ _ => decide (4 ≤ sh.h ∧ 4 ≤ sh.w) && e.trans == [.moveAgent, .turnAgent] && e.term.isReachExit
  | .rooms sh lh lw ys xs =>
    decide (4 ≤ sh.h ∧ 3 ≤ sh.w) && decide (1 ≤ lh ∧ 1 ≤ lw) && splitsOKb sh.h ys && splitsOKb sh.w xs &&
      e.trans == [.moveAgent, .turnAgent] && e.term.isReachExit
  | .dynamicObstacles sh n ra =>
    ((sh == ⟨5, 5⟩ && n == 1) || (sh == ⟨7, 7⟩ && n == 2)) && !ra && e.trans == obsChain && e.term.isBumpAny
  | .keydoor sh => decide (4 ≤ sh.h ∧ 5 ≤ sh.w) && e.trans == kdChain && e.term.isReachExit
  | .crossing sh n k =>
    decide (5 ≤ sh.h ∧ sh.h % 2 = 1 ∧ 5 ≤ sh.w ∧ sh.w % 2 = 1 ∧ 0 < n) && k == .wall &&
      e.trans == [.moveAgent, .turnAgent] && e.term.isReachExit
  | .teleport sh => decide (4 ≤ sh.h ∧ 4 ≤ sh.w) && e.trans == tpChain && e.term.isReachExit
  | .memory sh cs =>
    decide (5 ≤ sh.h ∧ 5 ≤ sh.w ∧ sh.w % 2 = 1 ∧ .none ∉ cs ∧ 2 ≤ cs.length) && decide cs.Nodup &&
      e.trans == [.moveAgent, .turnAgent] && e.term.isReachExit
  | .memoryRooms _ _ _ _ _ _ _ _ => false

theorem plainTurn : PlainRest [TransAtom.turnAgent] := ⟨by decide, by decide, by decide⟩

theorem winnable_of_class (e : Gen.ShippedEnv) (hc : e.winClass = true) (d : DrawSt) :
    ∃ s d', e.reset.run d = .ok (s, d') ∧ Reaches e.trans (stopOf e.term) e.goal s := by
  unfold Gen.ShippedEnv.winClass at hc
  unfold Gen.ShippedEnv.goal
  cases hr : e.reset with
  | empty sh ra re =>
    rw [hr] at hc
    simp only [Bool.and_eq_true, decide_eq_true_eq, beq_iff_eq] at hc
    obtain ⟨⟨hv, ht⟩, hterm⟩ := hc
    rw [ht, TermFn.eq_reachExit hterm]
    exact C14_empty_reaches sh ra re d hv [.turnAgent] plainTurn
  | rooms sh lh lw ys xs =>
    rw [hr] at hc
    simp only [Bool.and_eq_true, decide_eq_true_eq, beq_iff_eq, Bool.not_eq_true'] at hc
    obtain ⟨⟨⟨⟨⟨hv, hl⟩, sy⟩, sx⟩, ht⟩, hterm⟩ := hc
    rw [ht, TermFn.eq_reachExit hterm]
    exact C14_rooms sh lh lw ys xs d hv hl ((splitsOKb_iff _ _).mp sy) ((splitsOKb_iff _ _).mp sx) [.turnAgent] plainTurn
  | dynamicObstacles sh n ra =>
    rw [hr] at hc
    simp only [Bool.and_eq_true, Bool.or_eq_true, beq_iff_eq, Bool.not_eq_true'] at hc
    obtain ⟨⟨⟨hsn, hra⟩, ht⟩, hterm⟩ := hc
    rw [ht, TermFn.eq_bumpAny hterm, hra]
    rcases hsn with ⟨h1, h2⟩ | ⟨h1, h2⟩
    · rw [h1, h2]; exact C14_dynamic_obstacles_5x5 d
    · rw [h1, h2]; exact C14_dynamic_obstacles_7x7 d
  | keydoor sh =>
    rw [hr] at hc
    simp only [Bool.and_eq_true, decide_eq_true_eq, beq_iff_eq] at hc
    obtain ⟨⟨hv, ht⟩, hterm⟩ := hc
    rw [ht, TermFn.eq_reachExit hterm]
    obtain ⟨s, d', he, hp⟩ := C14_keydoor sh d ⟨[], []⟩ hv
    exact ⟨s, d', he, C14_certificate_sound _ _ _ _ s _ hp⟩
  | crossing sh n k =>
    rw [hr] at hc
    simp only [Bool.and_eq_true, decide_eq_true_eq, beq_iff_eq] at hc
    obtain ⟨⟨⟨hv, hk⟩, ht⟩, hterm⟩ := hc
    rw [ht, TermFn.eq_reachExit hterm, hk]
    exact C14_crossing sh n d hv [.turnAgent] plainTurn
  | teleport sh =>
    rw [hr] at hc
    simp only [Bool.and_eq_true, decide_eq_true_eq, beq_iff_eq] at hc
    obtain ⟨⟨hv, ht⟩, hterm⟩ := hc
    rw [ht, TermFn.eq_reachExit hterm]
    obtain ⟨s, d', he, hp⟩ := C14_teleport sh d ⟨[], []⟩ hv
    exact ⟨s, d', he, C14_certificate_sound _ _ _ _ s _ hp⟩
  | memory sh cs =>
    rw [hr] at hc
    simp only [Bool.and_eq_true, decide_eq_true_eq, beq_iff_eq] at hc
    obtain ⟨⟨⟨hv, hnd⟩, ht⟩, hterm⟩ := hc
    rw [ht, TermFn.eq_reachExit hterm]
    obtain ⟨s, d', he, hp⟩ := C14_memory sh cs d ⟨[], []⟩ hv hnd [.turnAgent] plainTurn
    exact ⟨s, d', he, C14_certificate_sound _ _ _ _ s _ hp⟩
  | memoryRooms sh lh lw ys xs cs nb ne =>
    rw [hr] at hc; cases hc

/-- every shipped environment except the four `memory_rooms` ones falls under a winnability theorem -/
theorem C14_shipped_classes :
    Gen.shippedEnvs.all (fun e => e.winClass || (match e.reset with | .memoryRooms _ _ _ _ _ _ _ _ => true | _ => false)) = true ∧
    (Gen.shippedEnvs.filter fun e => e.winClass).length = 17 := by decide

/-- **C14 for the shipped environments** (all but the `memory_rooms` ones, known finding F9): for every
stream of draws the reset succeeds and the rewarded goal is reachable under the environment's own
dynamics and termination. -/
theorem C14_shipped_winnable (e : Gen.ShippedEnv) (he : e ∈ Gen.shippedEnvs)
    (hnm : ∀ sh lh lw ys xs cs nb ne, e.reset ≠ .memoryRooms sh lh lw ys xs cs nb ne) (d : DrawSt) :
    ∃ s d', e.reset.run d = .ok (s, d') ∧ Reaches e.trans (stopOf e.term) e.goal s := by
  have h := List.all_eq_true.mp C14_shipped_classes.1 e he
  simp only [Bool.or_eq_true] at h
  rcases h with h | h
  · exact winnable_of_class e h d
  · cases hr : e.reset with
    | memoryRooms sh lh lw ys xs cs nb ne => exact absurd hr (hnm _ _ _ _ _ _ _ _)
    | _ => cases h

end GV
