/-
  C01, base case of every trajectory: the state a reset function returns lies in every state space
  that has the function's shape and declares the object types and colours the function uses.
  Together with `C01_history` (closure of every transition chain) this gives: every state along
  every run of an environment whose space declares what its reset function uses is in the space — in
  particular (Props/C01Shipped.lean, by `decide` on the regenerated shipped configurations) for every
  shipped environment.

  The statements are in the "whatever it returns" form: `reset … = .ok (s, d') → …`, for all
  parameter values and streams (invalid parameters make the premise false: `C13_*_rejects`).
-/
import GridVerse.Props.C01
import GridVerse.Props.C13MemoryRooms
import GridVerse.Props.C14Crossing
set_option linter.unusedSimpArgs false
set_option linter.unusedVariables false
namespace GV

/-- every cell holds an object of one of the kinds `ks`, coloured `NONE` or one of `cs`; the agent is
inside and empty-handed -/
structure Uses (ks : List Kind) (cs : List Color) (h w : Nat) (s : State) : Prop where
  wf : s.grid.WF
  gh : s.grid.h = h
  gw : s.grid.w = w
  cells : ∀ q, s.grid.contains q = true → (s.grid.at q).kind ∈ ks ∧ ((s.grid.at q).color = .none ∨ (s.grid.at q).color ∈ cs)
  pos : s.grid.contains s.agent.pos = true
  held : s.agent.held = .noneObj

theorem Uses.mono {ks ks' : List Kind} {cs cs' : List Color} {h w : Nat} {s : State} (u : Uses ks cs h w s)
    (hk : ∀ k ∈ ks, k ∈ ks') (hc : ∀ c ∈ cs, c ∈ cs') : Uses ks' cs' h w s :=
  ⟨u.wf, u.gh, u.gw, fun q hq => ⟨hk _ (u.cells q hq).1, (u.cells q hq).2.imp id (hc _)⟩, u.pos, u.held⟩

/-- … hence it conforms to every space of that shape declaring those kinds and colours -/
theorem Uses.conf {ks : List Kind} {cs : List Color} {s : State} (sp : StateSpace) (deep : Bool)
    (u : Uses ks cs sp.h sp.w s) (hk : ∀ k ∈ ks, k ∈ sp.kinds) (hc : ∀ c ∈ cs, c ∈ sp.colors)
    (hbox : Kind.box ∉ ks) : Conf sp deep s := by
  refine ⟨u.wf, u.gh, u.gw, ?_, u.pos, Or.inl u.held⟩
  intro q hq
  obtain ⟨h1, h2⟩ := u.cells q hq
  have hcol : colorOk sp.colors (s.grid.at q).color = true := by
    unfold colorOk
    rcases h2 with h | h
    · simp [h]
    · simp [hc _ h]
  cases ho : s.grid.at q with
  | box c => rw [ho] at h1; exact absurd h1 hbox
  | _ =>
    rw [ho] at h1 hcol
    simp only [okObj, Bool.and_eq_true, List.contains_eq_mem, decide_eq_true_eq]
    exact ⟨hk _ h1, hcol⟩

theorem interior_contains {h w : Nat} {q : Pos} {g : Grid} (hq : Interior h w q) (gh : g.h = h) (gw : g.w = w) :
    g.contains q = true := hq.contains gh gw

/-! ### the eight reset functions -/

theorem empty_uses (sh : Shape) (ra re : Bool) (d : DrawSt) (s : State) (d' : DrawSt)
    (he : resetEmpty sh ra re d = .ok (s, d')) : Uses [.wall, .floor, .exit] [] sh.h.toNat sh.w.toNat s := by
  by_cases hv : 4 ≤ sh.h ∧ 4 ≤ sh.w
  · obtain ⟨s1, d1, e1, ep, _, ⟨wf, gh, gw, hat⟩, hin, _, hheld, _, _⟩ := C13_empty_wf sh ra re d hv
    rw [e1] at he
    injection he with he; injection he with hs _; subst hs
    refine ⟨wf, gh, gw, ?_, hin.contains gh gw, hheld⟩
    intro q hq
    rw [hat q hq]
    split
    · simp [Obj.kind, Obj.color]
    · split <;> simp [Obj.kind, Obj.color]
  · rw [C13_empty_rejects sh ra re d hv] at he; cases he

theorem dynamicObstacles_uses (sh : Shape) (n : Int) (ra : Bool) (d : DrawSt) (s : State) (d' : DrawSt)
    (he : resetDynamicObstacles sh n ra d = .ok (s, d')) :
    Uses [.wall, .floor, .exit, .obstacle] [] sh.h.toNat sh.w.toNat s := by
  by_cases hv : 4 ≤ sh.h ∧ 4 ≤ sh.w
  · obtain ⟨s0, d0, e0, hok, hbad⟩ := C13_dynamic_obstacles sh n ra d hv
    have u0 := empty_uses sh ra false d s0 d0 e0
    by_cases hn : 0 ≤ n ∧ n ≤ (vacant s0).length
    · obtain ⟨s1, d1, obs, e1, hag, _, _, _, wf, gh, gw, hat⟩ := hok hn
      rw [e1] at he
      injection he with he; injection he with hs _; subst hs
      have hc : ∀ q, s1.grid.contains q = s0.grid.contains q := by intro q; simp [Grid.contains, gh, gw]
      refine ⟨wf, by rw [gh]; exact u0.gh, by rw [gw]; exact u0.gw, ?_, by rw [hag, hc]; exact u0.pos, by rw [hag]; exact u0.held⟩
      intro q hq
      rw [hat q]
      split
      · simp [Obj.kind, Obj.color]
      · have := u0.cells q (by rw [← hc]; exact hq)
        exact ⟨List.mem_of_mem_take (by
          have h3 : ([Kind.wall, .floor, .exit, .obstacle] : List Kind).take 3 = [.wall, .floor, .exit] := rfl
          rw [h3]; exact this.1), this.2⟩
    · rw [hbad hn] at he; cases he
  · rw [C13_dynamic_obstacles_rejects_small sh n ra d hv] at he; cases he

theorem teleport_uses (sh : Shape) (d : DrawSt) (s : State) (d' : DrawSt)
    (he : resetTeleport sh d = .ok (s, d')) :
    Uses [.wall, .floor, .exit, .telepod] [.red] sh.h.toNat sh.w.toNat s := by
  by_cases hv : 4 ≤ sh.h ∧ 4 ≤ sh.w
  · obtain ⟨s0, d0, e0, s1, d1, t1, t2, e1, hpos, _, hheld, _, ht1, _, wf, gh, gw, hat⟩ := C13_teleport_wf sh d hv
    have u0 := empty_uses sh false false ⟨[], []⟩ s0 d0 e0
    rw [e1] at he
    injection he with he; injection he with hs _; subst hs
    have hc : ∀ q, s1.grid.contains q = s0.grid.contains q := by intro q; simp [Grid.contains, gh, gw]
    obtain ⟨s0', d0', e0', ep, _, _, hin0, _, _, hfix, _⟩ := C13_empty_wf sh false false ⟨[], []⟩ hv
    rw [e0] at e0'
    injection e0' with e0'; injection e0' with hs0 _; subst hs0
    refine ⟨wf, by rw [gh]; exact u0.gh, by rw [gw]; exact u0.gw, ?_, ?_, hheld⟩
    · intro q hq
      rw [hat q]
      split
      · simp [Obj.kind, Obj.color]
      · have := u0.cells q (by rw [← hc]; exact hq)
        refine ⟨?_, this.2.imp id (fun h => by cases h)⟩
        have := this.1
        simp only [List.mem_cons, List.not_mem_nil, or_false] at this ⊢
        rcases this with h | h | h <;> simp [h]
    · rw [hpos, hc, ← (hfix rfl).1]; exact u0.pos
  · rw [C13_teleport_rejects sh d hv] at he; cases he

theorem keydoor_uses (sh : Shape) (d : DrawSt) (s : State) (d' : DrawSt)
    (he : resetKeydoor sh d = .ok (s, d')) :
    Uses [.wall, .floor, .exit, .key, .door] [.yellow] sh.h.toNat sh.w.toNat s := by
  by_cases hv : 4 ≤ sh.h ∧ 5 ≤ sh.w
  · obtain ⟨s0, d0, e0, s1, d1, xw, yd, yk, xk, ya, xa, e1, _, hxw, _, _, _, _, _, _, hpos, hya1, hya2, hxa1, hxa2, hheld,
      wf, gh, gw, hat⟩ := C13_keydoor_wf sh d hv
    have u0 := empty_uses sh false false ⟨[], []⟩ s0 d0 e0
    rw [e1] at he
    injection he with he; injection he with hs _; subst hs
    have hc : ∀ q, s1.grid.contains q = s0.grid.contains q := by intro q; simp [Grid.contains, gh, gw]
    refine ⟨wf, by rw [gh]; exact u0.gh, by rw [gw]; exact u0.gw, ?_, ?_, hheld⟩
    · intro q hq
      rw [hat q]
      split
      · simp [Obj.kind, Obj.color]
      · split
        · simp [Obj.kind, Obj.color]
        · split
          · simp [Obj.kind, Obj.color]
          · have := u0.cells q (by rw [← hc]; exact hq)
            refine ⟨?_, this.2.imp id (fun h => by cases h)⟩
            have := this.1
            simp only [List.mem_cons, List.not_mem_nil, or_false] at this ⊢
            rcases this with h | h | h <;> simp [h]
    · rw [hpos, hc, Grid.contains_iff, u0.gh, u0.gw]
      simp only
      omega
  · rw [C13_keydoor_rejects sh d hv] at he; cases he

theorem memory_uses (sh : Shape) (colors : List Color) (d : DrawSt) (hnd : colors.Nodup) (s : State) (d' : DrawSt)
    (he : resetMemory sh colors d = .ok (s, d')) :
    Uses [.wall, .floor, .exit, .beacon] colors sh.h.toNat sh.w.toNat s := by
  by_cases hv : MemoryValid sh colors
  · obtain ⟨s1, d1, good, bad, xg, xb, e1, hg, hb, _, _, hag, hfl, wf, gh, gw, hat⟩ := C13_memory_wf sh colors d hv hnd
    rw [e1] at he
    injection he with he; injection he with hs _; subst hs
    obtain ⟨hh, hw, _, _, _⟩ := hv
    refine ⟨wf, gh, gw, ?_, ?_, by rw [hag]⟩
    · intro q hq
      rw [hat q hq]
      split
      · simp [Obj.kind, Obj.color, hg]
      · split
        · simp [Obj.kind, Obj.color, hb]
        · split
          · simp [Obj.kind, Obj.color, hg]
          · split <;> simp [Obj.kind, Obj.color]
    · rw [hag, Grid.contains_iff, gh, gw]
      simp only
      omega
  · rw [C13_memory_rejects sh colors d hv] at he; cases he

/-- `rooms` (at least four rows; the numpy split vectors satisfy the code's own checks) -/
theorem rooms_uses (sh : Shape) (lh lw : Int) (ys xs : List Int) (d : DrawSt)
    (hv : 4 ≤ sh.h ∧ 3 ≤ sh.w) (sy : SplitsOK sh.h ys) (sx : SplitsOK sh.w xs) (s : State) (d' : DrawSt)
    (he : resetRooms sh lh lw ys xs d = .ok (s, d')) :
    Uses [.wall, .floor, .exit] [] sh.h.toNat sh.w.toNat s := by
  by_cases hbad : lh < 1 ∨ lw < 1
  · rw [C13_rooms_rejects sh lh lw ys xs d (hbad.elim Or.inl (fun h => Or.inr (Or.inl h)))] at he; cases he
  · have hl : 1 ≤ lh ∧ 1 ≤ lw := by omega
    obtain ⟨s1, d1, ep, e1, wf, gh, gw, _, hk, _, _, hpos, _, hheld⟩ := C13_rooms_wf sh lh lw ys xs d hv hl sy sx
    rw [e1] at he
    injection he with he; injection he with hs _; subst hs
    refine ⟨wf, gh, gw, ?_, hpos, hheld⟩
    intro q hq
    rcases hk q hq with h | h | ⟨_, h⟩ <;> simp [h, Obj.kind, Obj.color]

/-- `crossing` with wall rivers (what every shipped configuration uses) -/
theorem crossing_uses (sh : Shape) (n : Int) (d : DrawSt) (s : State) (d' : DrawSt)
    (he : resetCrossing sh n .wall d = .ok (s, d')) :
    Uses [.wall, .floor, .exit] [] sh.h.toNat sh.w.toNat s := by
  by_cases hv : 5 ≤ sh.h ∧ sh.h % 2 = 1 ∧ 5 ≤ sh.w ∧ sh.w % 2 = 1 ∧ 0 < n
  · obtain ⟨s1, d1, e1, wf, gh, gw, hag, _, _, hex, hk⟩ := C13_crossing_wf sh n d hv
    rw [e1] at he
    injection he with he; injection he with hs _; subst hs
    refine ⟨wf, gh, gw, ?_, ?_, by rw [hag]⟩
    · intro q hq
      by_cases hq2 : q = ⟨sh.h - 2, sh.w - 2⟩
      · rw [hq2, hex]; simp [Obj.kind, Obj.color]
      · rcases hk q hq hq2 with h | h <;> simp [h, Obj.kind, Obj.color]
    · rw [hag, Grid.contains_iff, gh, gw]
      simp only
      omega
  · have : sh.h < 5 ∨ sh.h % 2 = 0 ∨ sh.w < 5 ∨ sh.w % 2 = 0 ∨ n ≤ 0 := by omega
    rw [C13_crossing_rejects sh n .wall d this] at he; cases he

/-- `memory_rooms` (split vectors satisfying the code's own checks; colours given without repetition) -/
theorem memoryRooms_uses (sh : Shape) (lh lw : Int) (ys xs : List Int) (colors : List Color) (nb ne : Int)
    (d : DrawSt) (hh : 0 ≤ sh.h) (hw : 0 ≤ sh.w) (sy : SplitsOK sh.h ys) (sx : SplitsOK sh.w xs)
    (hcn : colors.Nodup) (s : State) (d' : DrawSt)
    (he : resetMemoryRooms sh lh lw ys xs colors nb ne d = .ok (s, d')) :
    Uses [.wall, .floor, .exit, .beacon] colors sh.h.toNat sh.w.toNat s := by
  by_cases hp : MemRoomsParams colors nb ne
  · by_cases hbad : lh < 1 ∨ lw < 1
    · have hg := roomsGrid_rejects sh lh lw ys xs d (hbad.elim Or.inl (fun h => Or.inr (Or.inl h)))
      obtain ⟨e', he', _⟩ := C13_memory_rooms_rejects_grid sh lh lw ys xs colors nb ne d _ hg
      rw [he'] at he; cases he
    · have hl : 1 ≤ lh ∧ 1 ≤ lw := by omega
      obtain ⟨g, d1, eg, rg, hok, hrej⟩ := C13_memory_rooms_summary sh lh lw ys xs colors nb ne d hh hw hl sy sx hp hcn
      by_cases hfit : 1 + nb.toNat + ne.toNat ≤ (floorPositions g).length ∧ ne.toNat ≤ colors.length
      · obtain ⟨s1, d1', exits, good, e1, wf, gh, gw, hpos, _, hheld, _, _, _, _, hcells, _, hgoodc, hexc⟩ := hok hfit
        rw [e1] at he
        injection he with he; injection he with hs _; subst hs
        refine ⟨wf, gh, gw, ?_, hpos, hheld⟩
        intro q hq
        have hc0 : g.contains q = true := by
          rw [Grid.contains_iff, rg.gh, rg.gw]; rw [Grid.contains_iff, gh, gw] at hq; exact hq
        rcases hcells q hq with ⟨c, hmem, hat⟩ | hat | ⟨hat, _⟩
        · rw [hat]
          exact ⟨by simp [Obj.kind], Or.inr (hexc (q, c) hmem)⟩
        · rw [hat]
          exact ⟨by simp [Obj.kind], Or.inr hgoodc⟩
        · rcases rg.kinds q hc0 with h | h <;> simp [hat, h, Obj.kind, Obj.color]
      · rw [hrej hfit] at he; cases he
  · rw [C13_memory_rooms_rejects_params sh lh lw ys xs colors nb ne d hp] at he; cases he

end GV
