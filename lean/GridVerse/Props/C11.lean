/-
  C11 — Stochastic dynamics obey their rules for every random outcome.

  "For every random outcome each moving obstacle either moves to one of its four neighbouring cells
  that was floor or, only if it has none at its turn, stays; obstacles are never lost, duplicated,
  moved twice or placed on non-floor cells, and every free neighbour is a possible destination. An
  agent standing on a telepod that has a same-coloured partner is sent to one of the other telepods
  of that colour - each of them being possible - and teleportation never displaces the agent
  otherwise."

  Random outcomes are answer streams `d : DrawSt`; every theorem quantifies over all of them.
-/
import GridVerse.Lemmas.Count
import GridVerse.Agree.Boundary
import GridVerse.Agree.Objects
set_option linter.unusedSimpArgs false
namespace GV

/-- The specification of one sweep of `move_obstacles` over the positions collected at the start:
at its turn an obstacle stays only if it has no free neighbour, otherwise it is swapped with one
of its free (in-grid, floor *now*) four-neighbours. -/
inductive Sweep : List Pos → Grid → Grid → Prop
  | nil (g : Grid) : Sweep [] g g
  | stay (p : Pos) (ps : List Pos) (g g' : Grid) :
      freeNbrs g p = [] → Sweep ps g g' → Sweep (p :: ps) g g'
  | move (p n : Pos) (ps : List Pos) (g g' : Grid) :
      n ∈ freeNbrs g p → Sweep ps (g.swap p n) g' → Sweep (p :: ps) g g'

/-- the free neighbours are exactly the in-grid floor cells among up/right/down/left -/
theorem C11_free_neighbours (g : Grid) (p n : Pos) :
    n ∈ freeNbrs g p ↔
      (n = ⟨p.y - 1, p.x⟩ ∨ n = ⟨p.y, p.x + 1⟩ ∨ n = ⟨p.y + 1, p.x⟩ ∨ n = ⟨p.y, p.x - 1⟩) ∧
      g.contains n = true ∧ g.at n = .floor := by
  rw [mem_freeNbrs, mem_boundary1]

/-- for every random outcome the sweep follows the specification -/
theorem C11_obstacles_sweep (ps : List Pos) (g : Grid) (d : DrawSt) :
    Sweep ps g (obstaclesFold ps g d).1 := by
  induction ps generalizing g d with
  | nil => exact Sweep.nil g
  | cons p ps ih =>
    rw [obstaclesFold_cons]
    rcases obstacleStep_cases g p d with ⟨hnone, hstep⟩ | ⟨n, hn, hstep⟩
    · have := ih g (obstacleStep g p d).2
      rw [hstep]
      exact Sweep.stay p ps g _ hnone this
    · have := ih (g.swap p n) (obstacleStep g p d).2
      rw [hstep]
      exact Sweep.move p n ps g _ hn this

theorem C11_obstacles_spec (s : State) (d : DrawSt) :
    Sweep (s.grid.find fun o => o.isKind .obstacle) s.grid (moveObstacles s d).1.grid ∧
    (moveObstacles s d).1.agent = s.agent := by
  rw [moveObstacles_eq]
  exact ⟨C11_obstacles_sweep _ _ _, rfl⟩

theorem obstacleStep_attain (g : Grid) (p n : Pos) (hn : n ∈ freeNbrs g p) (rest : List Nat) :
    ∃ i, ∀ log, (obstacleStep g p ⟨i :: rest, log⟩).1 = g.swap p n ∧
      (obstacleStep g p ⟨i :: rest, log⟩).2.ans = rest := by
  obtain ⟨i, hi, hget⟩ := List.getElem_of_mem hn
  refine ⟨i, fun log => ?_⟩
  rw [obstacleStep_def, drawChoice_cons _ _ _ _ hi]
  simp [List.getD, hi, hget]

theorem obstacleStep_stay (g : Grid) (p : Pos) (h : freeNbrs g p = []) (d : DrawSt) :
    (obstacleStep g p d).1 = g ∧ (obstacleStep g p d).2.ans = d.ans := by
  rw [obstacleStep_def, h]
  simp [drawChoice_zero, DrawSt.note]

/-- every behaviour the specification allows is produced by some random outcome: in particular
every free neighbour is a possible destination -/
theorem C11_obstacles_possible (ps : List Pos) (g g' : Grid) (h : Sweep ps g g') :
    ∃ ans, ∀ log, (obstaclesFold ps g ⟨ans, log⟩).1 = g' := by
  induction h with
  | nil g => exact ⟨[], fun _ => rfl⟩
  | stay p ps g g' hnone _ ih =>
    obtain ⟨ans, hans⟩ := ih
    refine ⟨ans, fun log => ?_⟩
    rw [obstaclesFold_cons]
    have hs := obstacleStep_stay g p hnone ⟨ans, log⟩
    rw [hs.1]
    have : (obstacleStep g p ⟨ans, log⟩).2 = ⟨ans, (obstacleStep g p ⟨ans, log⟩).2.log⟩ := by
      have := hs.2
      cases hd : (obstacleStep g p ⟨ans, log⟩).2 with
      | mk a l => rw [hd] at this; simp at this; rw [this]
    rw [this]
    exact hans _
  | move p n ps g g' hn _ ih =>
    obtain ⟨ans, hans⟩ := ih
    obtain ⟨i, hi⟩ := obstacleStep_attain g p n hn ans
    refine ⟨i :: ans, fun log => ?_⟩
    rw [obstaclesFold_cons]
    obtain ⟨h1, h2⟩ := hi log
    rw [h1]
    have : (obstacleStep g p ⟨i :: ans, log⟩).2 = ⟨ans, (obstacleStep g p ⟨i :: ans, log⟩).2.log⟩ := by
      cases hd : (obstacleStep g p ⟨i :: ans, log⟩).2 with
      | mk a l => rw [hd] at h2; simp at h2; rw [h2]
    rw [this]
    exact hans _

/-- one obstacle, one free neighbour: that neighbour is attainable -/
theorem C11_every_free_neighbour_possible (g : Grid) (p n : Pos) (hn : n ∈ freeNbrs g p) :
    ∃ ans, ∀ log, (obstacleStep g p ⟨ans, log⟩).1 = g.swap p n := by
  obtain ⟨i, hi⟩ := obstacleStep_attain g p n hn []
  exact ⟨[i], fun log => (hi log).1⟩

/-- obstacles are never lost or duplicated, and nothing else is either -/
theorem C11_obstacles_conserved (s : State) (d : DrawSt) (hw : s.grid.WF) (p : Obj → Bool) :
    (moveObstacles s d).1.grid.count p = s.grid.count p :=
  moveObstacles_count s d hw p

/-- only floor cells and obstacle cells ever change, into each other -/
theorem C11_obstacles_only_floor (s : State) (d : DrawSt) (hw : s.grid.WF) (q : Pos) :
    (moveObstacles s d).1.grid.at q = s.grid.at q ∨
    (s.grid.at q = .floor ∧ (moveObstacles s d).1.grid.at q = .obstacle) ∨
    (s.grid.at q = .obstacle ∧ (moveObstacles s d).1.grid.at q = .floor) := by
  rw [moveObstacles_eq]
  have hinv := obstaclesFold_inv (s.grid.find fun o => o.isKind .obstacle) s.grid d hw
    (Grid.find_nodup _ _)
    (fun p hp => by rw [Grid.mem_find] at hp; exact ⟨hp.1, isKind_obstacle _ hp.2⟩)
  rcases hinv.2.2.2 q with h | h | ⟨_, h⟩
  · exact Or.inl h
  · exact Or.inr (Or.inl h)
  · exact Or.inr (Or.inr h)

/-- no obstacle is moved twice: the positions swept are pairwise distinct, each holds an obstacle
when its turn comes, and a destination is never a position still to be swept -/
theorem C11_obstacles_once (p : Pos) (ps : List Pos) (g : Grid) (hg : g.WF) (hnd : (p :: ps).Nodup)
    (hobs : ∀ q ∈ p :: ps, g.contains q = true ∧ g.at q = .obstacle) (n : Pos)
    (hn : n ∈ freeNbrs g p) :
    n ∉ p :: ps ∧ (g.swap p n).at n = .obstacle ∧ (g.swap p n).at p = .floor ∧
    ∀ q ∈ ps, (g.swap p n).contains q = true ∧ (g.swap p n).at q = .obstacle := by
  rw [mem_freeNbrs] at hn
  obtain ⟨_, hnc, hnf⟩ := hn
  have hp := hobs p (by simp)
  have hnotin : n ∉ p :: ps := by
    intro hmem
    have := (hobs n hmem).2
    rw [hnf] at this; cases this
  have hat := Grid.at_swap g hg p n hp.1 hnc
  have hnp : n ≠ p := fun e => hnotin (by simp [e])
  refine ⟨hnotin, by rw [hat]; simp [hp.2], by rw [hat]; simp [Ne.symm hnp, hnf], ?_⟩
  intro q hq
  have hq' := hobs q (by simp [hq])
  have hqn : q ≠ n := fun e => hnotin (by simp [← e, hq])
  have hqp : q ≠ p := fun e => (List.nodup_cons.mp hnd).1 (by rw [← e]; exact hq)
  exact ⟨by simpa using hq'.1, by rw [hat]; simp [hqn, hqp, hq'.2]⟩

theorem C11_obstacles_positions (s : State) :
    (s.grid.find fun o => o.isKind .obstacle).Nodup ∧
    ∀ q, q ∈ (s.grid.find fun o => o.isKind .obstacle) ↔
      (s.grid.contains q = true ∧ s.grid.at q = .obstacle) := by
  refine ⟨Grid.find_nodup _ _, fun q => ?_⟩
  rw [Grid.mem_find]
  constructor
  · rintro ⟨h1, h2⟩; exact ⟨h1, isKind_obstacle _ h2⟩
  · rintro ⟨h1, h2⟩; exact ⟨h1, by rw [h2]; rfl⟩

/-! ### teleport -/

/-- the destinations: the *other* telepods of the agent's telepod's colour -/
theorem C11_targets (s : State) (c : Color) (q : Pos) :
    q ∈ teleportTargets s c ↔
      s.grid.contains q = true ∧ q ≠ s.agent.pos ∧ (s.grid.at q).kind = .telepod ∧ (s.grid.at q).color = c := by
  simp [teleportTargets, Grid.mem_positions, Obj.isKind, and_assoc]

/-- with a partner: for every random outcome the agent lands on one of the other same-coloured
telepods, keeping heading, held item and grid -/
theorem C11_teleport_paired (s : State) (d : DrawSt) (hw : s.grid.WF)
    (hc : s.grid.contains s.agent.pos = true) (c : Color) (ht : s.grid.at s.agent.pos = .telepod c)
    (hp : teleportTargets s c ≠ []) :
    ∃ s' d', teleport s d = .ok (s', d') ∧ s'.agent.pos ∈ teleportTargets s c ∧
      s'.grid = s.grid ∧ s'.agent.o = s.agent.o ∧ s'.agent.held = s.agent.held := by
  unfold teleport
  rw [Grid.pyGet_of_contains _ hw _ hc, ht]
  simp only [Obj.isKind, Obj.kind, Obj.color, beq_self_eq_true, if_true]
  have hne : (teleportTargets s c).isEmpty = false := by
    cases h : teleportTargets s c with
    | nil => exact absurd h hp
    | cons _ _ => rfl
  simp only [hne]
  cases hdc : drawChoice (teleportTargets s c).length d with
  | mk oi d1 =>
    cases oi with
    | none =>
      have := (drawChoice_none_iff _ d).mp (by rw [hdc])
      exact absurd (List.eq_nil_of_length_eq_zero this) hp
    | some i =>
      have hi := drawChoice_some_lt _ _ _ _ hdc
      refine ⟨_, _, rfl, ?_, rfl, rfl, rfl⟩
      simp [List.getD, hi]

/-- … and every one of them is a possible destination -/
theorem C11_teleport_possible (s : State) (hw : s.grid.WF) (hc : s.grid.contains s.agent.pos = true)
    (c : Color) (ht : s.grid.at s.agent.pos = .telepod c) (q : Pos) (hq : q ∈ teleportTargets s c) :
    ∃ ans, ∀ log, ∃ s' d', teleport s ⟨ans, log⟩ = .ok (s', d') ∧ s'.agent.pos = q := by
  obtain ⟨i, hi, hget⟩ := List.getElem_of_mem hq
  refine ⟨[i], fun log => ?_⟩
  unfold teleport
  rw [Grid.pyGet_of_contains _ hw _ hc, ht]
  simp only [Obj.isKind, Obj.kind, Obj.color, beq_self_eq_true, if_true]
  have hne : (teleportTargets s c).isEmpty = false := by
    cases h : teleportTargets s c with
    | nil => rw [h] at hi; simp at hi
    | cons _ _ => rfl
  simp only [hne, drawChoice_cons _ _ _ _ hi]
  exact ⟨_, _, rfl, by simp [List.getD, hi, hget]⟩

/-- otherwise — not on a telepod, or no partner — nothing moves and no draw is consumed -/
theorem C11_teleport_otherwise (s : State) (d : DrawSt) (hw : s.grid.WF)
    (hc : s.grid.contains s.agent.pos = true)
    (h : (s.grid.at s.agent.pos).kind ≠ .telepod ∨ teleportTargets s (s.grid.at s.agent.pos).color = []) :
    teleport s d = .ok (s, d) := by
  unfold teleport
  rw [Grid.pyGet_of_contains _ hw _ hc]
  simp only
  rcases h with h | h
  · have : (s.grid.at s.agent.pos).isKind .telepod = false := by simp [Obj.isKind, h]
    simp [this]
  · split
    · simp [h]
    · rfl

/-- in every case the new position is the old one or a destination telepod -/
theorem C11_teleport_spec (s s' : State) (d d' : DrawSt) (h : teleport s d = .ok (s', d')) :
    s'.grid = s.grid ∧ s'.agent.o = s.agent.o ∧ s'.agent.held = s.agent.held ∧
    (s'.agent.pos = s.agent.pos ∨
      ∃ t, s.grid.pyGet s.agent.pos = .ok t ∧ t.isKind .telepod = true ∧
        s'.agent.pos ∈ teleportTargets s t.color) :=
  teleport_ok s s' d d' h

/-! ### non-vacuity -/
example :
    let g : Grid := ⟨2, 3, [[.obstacle, .floor, .wall], [.floor, .telepod .red, .telepod .red]]⟩
    freeNbrs g ⟨0, 0⟩ = [⟨0, 1⟩, ⟨1, 0⟩] ∧
    teleportTargets ⟨g, ⟨⟨1, 1⟩, .F, .noneObj⟩⟩ .red = [⟨1, 2⟩] := by decide

end GV
