/-
  C13 / C14 for the `rooms` layout (continuation of Props/C13.lean and Props/C14.lean): the reset
  succeeds for every valid parameter set and every stream of draws, produces the room grid with one
  exit and the agent on distinct floor cells, and the exit is reachable from the agent through the
  room passages.
-/
import GridVerse.Lemmas.RoomsConn
import GridVerse.Props.C13
set_option linter.unusedSimpArgs false
namespace GV

/-- two distinct entries of a split vector are at least two apart -/
theorem gapped_sep {l : List Int} (hg : Gapped l) {a b : Int} (ha : a ∈ l) (hb : b ∈ l) (hab : a < b) : a + 2 ≤ b := by
  induction l with
  | nil => cases ha
  | cons c rest ih =>
    rcases List.mem_cons.mp ha with rfl | ha'
    · rcases List.mem_cons.mp hb with rfl | hb'
      · omega
      · exact hg.head_lt b hb'
    · rcases List.mem_cons.mp hb with rfl | hb'
      · have := hg.head_lt a ha'; omega
      · exact ih hg.tail ha' hb'

theorem splits_one_not_mem {n : Int} {l : List Int} (s : SplitsOK n l) : (1 : Int) ∉ l := by
  intro h
  have h0 : (0 : Int) ∈ l := List.mem_of_mem_head? s.first
  have := gapped_sep s.gapped h0 h (by omega)
  omega

/-- what the reset returns: the room grid with the exit on one floor cell and the agent on another -/
theorem rooms_reset (sh : Shape) (lh lw : Int) (ys xs : List Int) (d : DrawSt)
    (hv : 4 ≤ sh.h ∧ 3 ≤ sh.w) (hl : 1 ≤ lh ∧ 1 ≤ lw)
    (sy : SplitsOK sh.h ys) (sx : SplitsOK sh.w xs) :
    ∃ s d' g0 ep, resetRooms sh lh lw ys xs d = .ok (s, d') ∧
      RoomsFinal sh.h.toNat sh.w.toNat ys xs g0 s.grid ep ∧
      g0.contains s.agent.pos = true ∧ g0.at s.agent.pos = .floor ∧ s.agent.pos ≠ ep ∧
      s.agent.held = .noneObj := by
  obtain ⟨hh, hw⟩ := hv
  obtain ⟨g, d1, eg, rg⟩ := roomsGrid_spec sh lh lw ys xs d (by omega) (by omega) hl sy sx
  have ehh : ((sh.h.toNat : Nat) : Int) = sh.h := by omega
  have eww : ((sh.w.toNat : Nat) : Int) = sh.w := by omega
  have hcont : ∀ q : Pos, 0 ≤ q.y → q.y ≤ sh.h - 1 → 0 ≤ q.x → q.x ≤ sh.w - 1 → g.contains q = true := by
    intro q a b c e; rw [Grid.contains_iff, rg.gh, rg.gw]; omega
  -- two distinct floor cells exist
  have hx1 : (1 : Int) ∉ xs := splits_one_not_mem sx
  have hy1 : (1 : Int) ∉ ys := splits_one_not_mem sy
  have hlast : sh.h - 1 ∈ ys := List.mem_of_mem_getLast? sy.last
  have hmem : ∀ q : Pos, g.contains q = true → g.at q = .floor → q ∈ floorPositions g := by
    intro q hc hf
    unfold floorPositions
    rw [Grid.mem_find]; exact ⟨hc, by rw [hf]; rfl⟩
  have c1in := hcont ⟨1, 1⟩ (by simp) (by simp only; omega) (by simp) (by simp only; omega)
  have c1 : (⟨1, 1⟩ : Pos) ∈ floorPositions g := hmem _ c1in (rg.room _ c1in hy1 hx1)
  have c2 : ∃ q : Pos, q ≠ ⟨1, 1⟩ ∧ q ∈ floorPositions g := by
    by_cases h2 : (2 : Int) ∈ ys
    · -- rows 0, 2, ≥ 4: the cell (3, 1)
      have hne : (2 : Int) ≠ sh.h - 1 := by omega
      have h24 := gapped_sep sy.gapped h2 hlast (by omega)
      have h3 : (3 : Int) ∉ ys := by
        intro h3; have := gapped_sep sy.gapped h2 h3 (by omega); omega
      have cin := hcont ⟨3, 1⟩ (by simp) (by simp only; omega) (by simp) (by simp only; omega)
      exact ⟨⟨3, 1⟩, by simp, hmem _ cin (rg.room _ cin h3 hx1)⟩
    · have cin := hcont ⟨2, 1⟩ (by simp) (by simp only; omega) (by simp) (by simp only; omega)
      exact ⟨⟨2, 1⟩, by simp, hmem _ cin (rg.room _ cin h2 hx1)⟩
  obtain ⟨q2, hq2, c2⟩ := c2
  have hnd : (floorPositions g).Nodup := Grid.find_nodup _ _
  have hlen : 2 ≤ (floorPositions g).length := by
    have hsub : [(⟨1, 1⟩ : Pos), q2] ⊆ floorPositions g := by
      intro x hx; simp only [List.mem_cons, List.not_mem_nil, or_false] at hx
      rcases hx with rfl | rfl <;> assumption
    have hnd2 : [(⟨1, 1⟩ : Pos), q2].Nodup := by simp [Ne.symm hq2]
    have := List.Nodup.length_le_of_subset hnd2 hsub
    simpa using this
  obtain ⟨idx, d2, hc, hl2, hndi, hlt⟩ := drawChoiceNR_some (floorPositions g).length 2 hlen d1
  obtain ⟨k, d3, hk, _⟩ := drawChoice_pos 4 (by omega) d2
  match idx, hl2, hndi, hlt, hc with
  | [i1, i2], _, hndi, hlt, hc =>
    have l1 := hlt i1 (by simp)
    have l2 := hlt i2 (by simp)
    have hi : i1 ≠ i2 := by
      intro h; subst h; simp at hndi
    have ea : (floorPositions g).getD i1 ⟨0, 0⟩ = (floorPositions g)[i1] := by simp [List.getD, l1]
    have ee : (floorPositions g).getD i2 ⟨0, 0⟩ = (floorPositions g)[i2] := by simp [List.getD, l2]
    have ma : (floorPositions g)[i1] ∈ floorPositions g := List.getElem_mem l1
    have me : (floorPositions g)[i2] ∈ floorPositions g := List.getElem_mem l2
    have fa := (Grid.mem_find _ _ _).mp ma
    have fe := (Grid.mem_find _ _ _).mp me
    have isfloor : ∀ o : Obj, o.isKind .floor = true → o = .floor := by
      intro o h; cases o <;> simp [Obj.isKind, Obj.kind] at h ⊢
    have hne : (floorPositions g)[i1] ≠ (floorPositions g)[i2] := by
      intro h; exact hi ((List.getElem_inj hnd).mp h)
    have hset := Grid.setE_ok g (floorPositions g)[i2] (.exit .none) fe.1
    refine ⟨⟨g.setP (floorPositions g)[i2] (.exit .none), ⟨(floorPositions g)[i1], orientList.getD k .F, .noneObj⟩⟩,
      d3, g, (floorPositions g)[i2], ?_, ⟨rg, fe.1, isfloor _ fe.2, rfl⟩, fa.1, isfloor _ fa.2, hne, rfl⟩
    simp only [resetRooms, eg, hc, List.getD_cons_zero, List.getD_cons_succ, ea, ee, hk, hset]

/-- **C14 (`rooms`).**  For every shape with at least four rows, every layout and every split vector
accepted by the code's own checks (gaps of at least two, no duplicates), and every stream of draws:
the reset succeeds and the exit can be reached from the agent's cell with the shipped dynamics
`move_agent :: rest` (plain rest) under `reach_exit` termination. -/
theorem C14_rooms (sh : Shape) (lh lw : Int) (ys xs : List Int) (d : DrawSt)
    (hv : 4 ≤ sh.h ∧ 3 ≤ sh.w) (hl : 1 ≤ lh ∧ 1 ≤ lw)
    (sy : SplitsOK sh.h ys) (sx : SplitsOK sh.w xs)
    (rest : List TransAtom) (pr : PlainRest rest) :
    ∃ s d', resetRooms sh lh lw ys xs d = .ok (s, d') ∧
      Reaches (.moveAgent :: rest) (stopOf .reachExit) goalExit s := by
  obtain ⟨s, d', g0, ep, he, rf, ac, af, ane, _⟩ := rooms_reset sh lh lw ys xs d hv hl sy sx
  refine ⟨s, d', he, ?_⟩
  have ehh : ((sh.h.toNat : Nat) : Int) = sh.h := by omega
  have eww : ((sh.w.toNat : Nat) : Int) = sh.w := by omega
  have sy' : SplitsOK (sh.h.toNat : Nat) ys := by rw [ehh]; exact sy
  have sx' : SplitsOK (sh.w.toNat : Nat) xs := by rw [eww]; exact sx
  have conn := rf.floor_conn sy' sx' s.agent.pos ep ⟨ac, af⟩ ⟨rf.epIn, rf.epFloor⟩
  have wf : s.grid.WF := by rw [rf.eq]; exact Grid.setP_WF _ rf.base.wf _ _
  have hexit : (s.grid.at ep).isKind .exit = true := by
    rw [rf.eq, Grid.at_setP _ rf.base.wf _ _ rf.epIn, if_pos rfl]; rfl
  have := conn_reaches rest pr s.grid wf ep hexit s.agent.pos conn (Or.inl ane) s.agent.o s.agent.held
  exact this

/-- **C13 (`rooms`), structure.**  Under the same hypotheses the state is well formed: declared
shape, a closed wall boundary, walls and floor only apart from exactly one exit, the agent empty-handed
on a floor cell. -/
theorem C13_rooms_wf (sh : Shape) (lh lw : Int) (ys xs : List Int) (d : DrawSt)
    (hv : 4 ≤ sh.h ∧ 3 ≤ sh.w) (hl : 1 ≤ lh ∧ 1 ≤ lw)
    (sy : SplitsOK sh.h ys) (sx : SplitsOK sh.w xs) :
    ∃ s d' ep, resetRooms sh lh lw ys xs d = .ok (s, d') ∧
      s.grid.WF ∧ s.grid.h = sh.h.toNat ∧ s.grid.w = sh.w.toNat ∧
      (∀ q, s.grid.contains q = true → onBorder sh.h.toNat sh.w.toNat q → s.grid.at q = .wall) ∧
      (∀ q, s.grid.contains q = true → s.grid.at q = .wall ∨ s.grid.at q = .floor ∨ (q = ep ∧ s.grid.at q = .exit .none)) ∧
      s.grid.at ep = .exit .none ∧ (∀ q, s.grid.contains q = true → (s.grid.at q).isKind .exit = true → q = ep) ∧
      s.grid.contains s.agent.pos = true ∧ s.grid.at s.agent.pos = .floor ∧ s.agent.held = .noneObj := by
  obtain ⟨s, d', g0, ep, he, rf, ac, af, ane, hheld⟩ := rooms_reset sh lh lw ys xs d hv hl sy sx
  obtain ⟨hh, hw⟩ := hv
  have hat : ∀ q, s.grid.at q = if q = ep then .exit .none else g0.at q := by
    intro q; rw [rf.eq, Grid.at_setP _ rf.base.wf _ _ rf.epIn]
  have hc : ∀ q, s.grid.contains q = g0.contains q := fun q => rf.contains q
  refine ⟨s, d', ep, he, by rw [rf.eq]; exact Grid.setP_WF _ rf.base.wf _ _, by rw [rf.eq]; simp [rf.base.gh],
    by rw [rf.eq]; simp [rf.base.gw], ?_, ?_, by rw [hat, if_pos rfl], ?_, by rw [hc]; exact ac,
    by rw [hat, if_neg ane]; exact af, hheld⟩
  · -- the boundary: split rows/columns 0 and n-1; openings are strictly inside
    intro q hq hb
    rw [hc] at hq
    have hq' : 0 ≤ q.y ∧ q.y < sh.h ∧ 0 ≤ q.x ∧ q.x < sh.w := by
      rw [Grid.contains_iff, rf.base.gh, rf.base.gw] at hq; omega
    have hnf : g0.at q ≠ .floor := by
      intro hf
      have ehh : ((sh.h.toNat : Nat) : Int) = sh.h := by omega
      have eww : ((sh.w.toNat : Nat) : Int) = sh.w := by omega
      unfold onBorder at hb
      rw [ehh, eww] at hb
      have m0y : (0 : Int) ∈ ys := List.mem_of_mem_head? sy.first
      have mly : sh.h - 1 ∈ ys := List.mem_of_mem_getLast? sy.last
      have m0x : (0 : Int) ∈ xs := List.mem_of_mem_head? sx.first
      have mlx : sh.w - 1 ∈ xs := List.mem_of_mem_getLast? sx.last
      rcases rf.base.floors q hq hf with ⟨hy, hx⟩ | ⟨hy, px, hpx, a, b⟩ | ⟨hx, py, hpy, a, b⟩
      · rcases hb with h | h | h | h
        · exact hy (h ▸ m0y)
        · exact hy (h ▸ mly)
        · exact hx (h ▸ m0x)
        · exact hx (h ▸ mlx)
      · -- an opening in an inner wall row, strictly between two split columns
        obtain ⟨⟨b', hb'⟩, ⟨a', ha'⟩⟩ := inner_pairs hy
        have g1 := pairwise_gap sy.gapped hb'
        have g2 := pairwise_gap sy.gapped ha'
        have ba := sy.bounds a' (pairwise_mem ha').1
        have bb := sy.bounds b' (pairwise_mem hb').2
        have bx1 := sx.bounds px.1 (pairwise_mem hpx).1
        have bx2 := sx.bounds px.2 (pairwise_mem hpx).2
        simp only at g1 g2
        omega
      · obtain ⟨⟨b', hb'⟩, ⟨a', ha'⟩⟩ := inner_pairs hx
        have g1 := pairwise_gap sx.gapped hb'
        have g2 := pairwise_gap sx.gapped ha'
        have ba := sx.bounds a' (pairwise_mem ha').1
        have bb := sx.bounds b' (pairwise_mem hb').2
        have by1 := sy.bounds py.1 (pairwise_mem hpy).1
        have by2 := sy.bounds py.2 (pairwise_mem hpy).2
        simp only at g1 g2
        omega
    have hqe : q ≠ ep := by intro h; subst h; exact hnf rf.epFloor
    rw [hat, if_neg hqe]
    rcases rf.base.kinds q hq with h | h
    · exact h
    · exact absurd h hnf
  · intro q hq
    rw [hc] at hq
    rw [hat]
    by_cases hqe : q = ep
    · right; right; exact ⟨hqe, by rw [if_pos hqe]⟩
    · rw [if_neg hqe]
      rcases rf.base.kinds q hq with h | h
      · left; exact h
      · right; left; exact h
  · intro q hq hk
    rw [hc] at hq
    rw [hat] at hk
    by_cases hqe : q = ep
    · exact hqe
    · rw [if_neg hqe] at hk
      rcases rf.base.kinds q hq with h | h <;> (rw [h] at hk; simp [Obj.isKind, Obj.kind] at hk)

/-- the room grid cannot be built: non-positive layouts, split vectors with two lines less than two
apart (a repeated entry, or a "room" without interior) -/
theorem roomsGrid_rejects (sh : Shape) (lh lw : Int) (ys xs : List Int) (d : DrawSt)
    (hbad : lh < 1 ∨ lw < 1 ∨ tooClose ys = true ∨ tooClose xs = true) :
    roomsGrid sh lh lw ys xs d = .error .valueError := by
  unfold roomsGrid
  by_cases h1 : lh < 1 ∨ lw < 1
  · have : (decide (lh < 1) || decide (lw < 1)) = true := by simpa using h1
    simp [this]
  · have h1' : (decide (lh < 1) || decide (lw < 1)) = false := by
      simp only [Bool.or_eq_false_iff, decide_eq_false_iff_not]; omega
    rcases hbad with h | h | h | h
    · exact absurd (Or.inl h) h1
    · exact absurd (Or.inr h) h1
    · simp [h1', h]
    · by_cases hy : tooClose ys = true
      · simp [h1', hy]
      · have hy' : tooClose ys = false := by simpa using hy
        simp [h1', hy', h]

/-- the code's own checks reject everything else whatever the stream: non-positive layouts and split
vectors with two lines less than two apart (a side too short for the layout) -/
theorem C13_rooms_rejects (sh : Shape) (lh lw : Int) (ys xs : List Int) (d : DrawSt)
    (hbad : lh < 1 ∨ lw < 1 ∨ tooClose ys = true ∨ tooClose xs = true) :
    resetRooms sh lh lw ys xs d = .error .valueError := by
  simp only [resetRooms, roomsGrid_rejects sh lh lw ys xs d hbad]

/-- **F12 (repaired).**  Stated on the theorems' own hypothesis: a split vector that is not `Gapped`
(two adjacent wall lines, as `np.linspace(0, 6, 5, dtype=int) = [0, 1, 3, 4, 6]` for seven rows and four
rows of rooms) is rejected.  Before the repair the code only rejected repeated entries; `Gapped` was
then a hypothesis the proof of `C14_rooms` forced, and the excluded vectors were accepted by the code
and gave disconnected floors.  With numpy's end points (`0` first, `n - 1` last) acceptance is now
exactly `SplitsOK`, the hypothesis of `C13_rooms_wf` / `C14_rooms`. -/
theorem C13_rooms_rejects_adjacent (sh : Shape) (lh lw : Int) (ys xs : List Int) (d : DrawSt)
    (hbad : ¬ Gapped ys ∨ ¬ Gapped xs) :
    resetRooms sh lh lw ys xs d = .error .valueError := by
  apply C13_rooms_rejects
  rcases hbad with h | h
  · right; right; left
    cases hc : tooClose ys with
    | true => rfl
    | false => exact absurd ((tooClose_eq_false_iff ys).mp hc) h
  · right; right; right
    cases hc : tooClose xs with
    | true => rfl
    | false => exact absurd ((tooClose_eq_false_iff xs).mp hc) h

example : ¬ Gapped [0, 1, 3, 4, 6] ∧ tooClose [0, 1, 3, 4, 6] = true := by
  refine ⟨?_, by decide⟩
  simp [Gapped]

/-- the hypotheses are met by the shipped parameter sets (numpy's `linspace` vectors as recorded by
the harness): 7×7 and 9×9 with layout 2×2, 10×10 and 13×13 with layout 3×3 -/
example : SplitsOK 7 [0, 3, 6] ∧ tooClose [0, 3, 6] = false ∧ SplitsOK 9 [0, 4, 8] ∧ SplitsOK 10 [0, 3, 6, 9] ∧
    SplitsOK 13 [0, 4, 8, 12] ∧ tooClose [0, 4, 8, 12] = false := by
  refine ⟨⟨?_, rfl, rfl, by decide⟩, by decide, ⟨?_, rfl, rfl, by decide⟩, ⟨?_, rfl, rfl, by decide⟩,
    ⟨?_, rfl, rfl, by decide⟩, by decide⟩ <;> simp [Gapped]

end GV
