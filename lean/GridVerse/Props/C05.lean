/-
  C05 — Observations are sound: they never show anything that is not there.

  "For every state, view area and built-in observation function, each cell of the observation is
  either Hidden or is exactly the object at the world cell obtained by placing the view area at the
  agent's pose, and cells falling outside the grid are Hidden. The observation has the view area's
  shape, places the agent at the view's anchor cell facing forward and reports the held item
  unchanged; with the fully transparent function every in-grid cell of the view is shown."

  The theorems hold for *any* visibility function `V` (so for all four built-ins and every random
  outcome of the stochastic one): `from_visibility` is slice → rotate → mask, whatever the mask.
-/
import GridVerse.Lemmas.Premask
import GridVerse.Agree.Orient
import GridVerse.Agree.GridRot
set_option linter.unusedSimpArgs false
namespace GV

theorem C05_shape (V : Grid → Pos → Except PyErr Mask) (s : State) (a : Area) (ha : a.WF) (o : Obs)
    (h : fromVisibility V s a = .ok o) :
    o.grid.h = a.height ∧ o.grid.w = a.width ∧ o.grid.WF := by
  unfold fromVisibility at h
  simp only at h
  split at h
  · cases h
  · cases h
    exact ⟨(premask_shape s a ha).1, (premask_shape s a ha).2, Grid.tab_WF _ _ _⟩

/-- each observation cell is Hidden, or the world object at the cell the view places there -/
theorem C05_cell (V : Grid → Pos → Except PyErr Mask) (s : State) (a : Area) (ha : a.WF) (o : Obs)
    (h : fromVisibility V s a = .ok o) (i j : Nat) (hi : i < a.height) (hj : j < a.width) :
    o.grid.cell i j = .hidden ∨
    (s.grid.contains (viewWorld s a i j) = true ∧ o.grid.cell i j = s.grid.at (viewWorld s a i j)) := by
  unfold fromVisibility at h
  simp only at h
  split at h
  · cases h
  · rename_i m _
    cases h
    simp only
    obtain ⟨hh, hw⟩ := premask_shape s a ha
    rw [applyMask_cell _ _ _ _ (by rw [hh]; exact hi) (by rw [hw]; exact hj)]
    split
    · rw [premask_cell s a ha i j hi hj]
      by_cases hc : s.grid.contains (viewWorld s a i j) = true
      · right; exact ⟨hc, rfl⟩
      · left
        have : s.grid.contains (s.agent.transform.act ⟨a.ymin + i, a.xmin + j⟩) = false := by
          simpa [viewWorld] using hc
        exact Grid.at_of_not_contains _ _ this
    · left; rfl

/-- cells of the view falling outside the grid are Hidden -/
theorem C05_outside_hidden (V : Grid → Pos → Except PyErr Mask) (s : State) (a : Area) (ha : a.WF)
    (o : Obs) (h : fromVisibility V s a = .ok o) (i j : Nat) (hi : i < a.height) (hj : j < a.width)
    (hout : s.grid.contains (viewWorld s a i j) = false) : o.grid.cell i j = .hidden := by
  rcases C05_cell V s a ha o h i j hi hj with h1 | ⟨h1, _⟩
  · exact h1
  · rw [hout] at h1; cases h1

/-- the observation's agent: at the view's anchor cell, facing forward, same held item -/
theorem C05_agent (V : Grid → Pos → Except PyErr Mask) (s : State) (a : Area) (o : Obs)
    (h : fromVisibility V s a = .ok o) :
    o.agent = ⟨⟨-a.ymin, -a.xmin⟩, .F, s.agent.held⟩ := by
  unfold fromVisibility at h
  simp only at h
  split at h
  · cases h
  · cases h; rfl

/-- the anchor cell of the view is the agent's own world cell -/
theorem C05_anchor (s : State) (a : Area) (hy : a.ymin ≤ 0) (hx : a.xmin ≤ 0) :
    viewWorld s a (-a.ymin).toNat (-a.xmin).toNat = s.agent.pos := by
  unfold viewWorld Transform.act Agent.transform
  have h1 : a.ymin + ((-a.ymin).toNat : Int) = 0 := by omega
  have h2 : a.xmin + ((-a.xmin).toNat : Int) = 0 := by omega
  rw [h1, h2]
  cases s.agent.o <;> simp [Orient.act, Pos.add]

/-- with the fully transparent function every in-grid cell of the view is shown, and the
observation always exists -/
theorem C05_transparent_complete (s : State) (a : Area) (ha : a.WF) :
    ∃ o, fromVisibility (fun g p => .ok (visFullyTransparent g p)) s a = .ok o ∧
      ∀ i j, i < a.height → j < a.width → o.grid.cell i j = s.grid.at (viewWorld s a i j) := by
  refine ⟨_, rfl, ?_⟩
  intro i j hi hj
  obtain ⟨hh, hw⟩ := premask_shape s a ha
  simp only
  rw [applyMask_cell _ _ _ _ (by rw [hh]; exact hi) (by rw [hw]; exact hj)]
  simp only [visFullyTransparent, if_true]
  exact premask_cell s a ha i j hi hj

/-- the two documented refusals: the flood-fill view needs the agent on its bottom row, the
ray-traced views need the agent inside the view -/
theorem C05_errors (s : State) (a : Area) (ha : a.WF) (rays : List Ray) :
    (a.ymax ≠ 0 → fromVisibility visPartiallyOccluded s a = .error .notImplemented) ∧
    (a.ymax = 0 → ∃ o, fromVisibility visPartiallyOccluded s a = .ok o) ∧
    ((premask s a).contains (povPos a) = false →
      fromVisibility (visRaytracingChecked rays) s a = .error .valueError) ∧
    ((premask s a).contains (povPos a) = true →
      ∃ o, fromVisibility (visRaytracingChecked rays) s a = .ok o) := by
  obtain ⟨hh, _⟩ := premask_shape s a ha
  have hH : ((premask s a).h : Int) = a.ymax - a.ymin + 1 := by
    rw [hh]; simp only [Area.height]; have := ha.1; omega
  refine ⟨?_, ?_, ?_, ?_⟩
  · intro hy
    have : (povPos a).y ≠ ((premask s a).h : Int) - 1 := by simp only [povPos]; omega
    simp [fromVisibility, visPartiallyOccluded, this]
  · intro hy
    have : (povPos a).y = ((premask s a).h : Int) - 1 := by simp only [povPos]; omega
    simp [fromVisibility, visPartiallyOccluded, this]
  · intro hc; simp [fromVisibility, visRaytracingChecked, hc]
  · intro hc; simp [fromVisibility, visRaytracingChecked, hc]

/-! ### non-vacuity: the shipped 7×7 view on a 3×4 grid from an edge pose -/
example :
    let s : State := ⟨⟨3, 4, [[.wall, .wall, .wall, .wall], [.wall, .floor, .key .yellow, .wall],
      [.wall, .door .locked .yellow, .wall, .wall]]⟩, ⟨⟨1, 1⟩, .R, .noneObj⟩⟩
    let a : Area := ⟨-6, 0, -3, 3⟩
    a.WF ∧ viewWorld s a 6 3 = ⟨1, 1⟩ ∧ viewWorld s a 5 3 = ⟨1, 2⟩ ∧ viewWorld s a 6 4 = ⟨2, 1⟩ ∧
    (premask s a).cell 5 3 = .key .yellow ∧ (premask s a).cell 6 4 = .door .locked .yellow ∧
    (premask s a).cell 0 0 = .hidden := by decide

end GV
