/-
  C14 — Every initial state is winnable.

  "From every initial state produced by a built-in reset function, the rewarded goal - the exit, or
  for the memory tasks the exit whose colour matches the beacon - can be reached using the
  environment's own dynamics without first passing through a terminating state: through the river
  openings, the room passages, or, for key-door, by fetching the key and unlocking the door."

  `Reaches` is the statement; `checkPlan` decides it for a given plan; the `plan*` functions of
  `Model/Win.lean` are the witnesses, proved winning here for *every* parameter value and every
  stream of draws (`empty`, `memory`, `keydoor`), and run on the real environment by the
  correspondence.  For the layouts where no closed-form plan is proved (`rooms`, `crossing`,
  `teleport`, `memory_rooms`, `dynamic_obstacles`) what is proved is the soundness of the
  certificate check (`C14_certificate_sound`): a plan accepted by `checkPlan` — found by the model's
  breadth-first `solve` or by a search on the implementation — is a witness of `Reaches`; those
  reset functions are decided per instance (sampled seeds), which is stated as such in the
  manifest and evidence.
-/
import GridVerse.Lemmas.Walk
import GridVerse.Lemmas.KeyDoor
import GridVerse.Lemmas.Positions
import GridVerse.Props.C13
set_option linter.unusedSimpArgs false
namespace GV

/-- the goal can be reached from `s`: some actions and some resolution of the draws lead to a goal
state, no earlier step being terminating -/
inductive Reaches (fs : List TransAtom) (stop : State → Action → State → Bool) (goal : State → Bool) :
    State → Prop
  | here (s : State) : goal s = true → Reaches fs stop goal s
  | step (s : State) (a : Action) (d : DrawSt) (s' : State) (d' : DrawSt) :
      runChain fs s a d = .ok (s', d') → (goal s' = true ∨ stop s a s' = false) →
      Reaches fs stop goal s' → Reaches fs stop goal s

/-- **certificate soundness**: a plan that `checkPlan` accepts witnesses reachability -/
theorem C14_certificate_sound (fs : List TransAtom) (stop : State → Action → State → Bool) (goal : State → Bool)
    (acts : List Action) (s : State) (d : DrawSt) (h : checkPlan fs stop goal s acts d = true) :
    Reaches fs stop goal s := by
  induction acts generalizing s d with
  | nil => exact .here s h
  | cons a as ih =>
    simp only [checkPlan, Bool.or_eq_true] at h
    rcases h with h | h
    · exact .here s h
    · cases hr : runChain fs s a d with
      | error e => rw [hr] at h; cases h
      | ok p =>
        obtain ⟨s', d'⟩ := p
        rw [hr] at h
        simp only [Bool.and_eq_true, Bool.or_eq_true, Bool.not_eq_true'] at h
        exact .step s a d s' d' hr h.1 (ih s' d' h.2)

/-- the solver only ever returns accepted plans when its answer is re-checked, which is how the
driver uses it: `solve` proposes, `checkPlan` decides -/
theorem C14_solve_checked (fs : List TransAtom) (stop : State → Action → State → Bool) (goal : State → Bool)
    (s : State) (plan : List Action) (_ : solve fs stop goal s = some plan)
    (hc : checkPlan fs stop goal s plan ⟨[], []⟩ = true) : Reaches fs stop goal s :=
  C14_certificate_sound fs stop goal plan s _ hc

/-! ### the termination `reach_exit` and the two goals -/

theorem stop_reachExit_false (s0 : State) (a : Action) (s' : State) (wf : s'.grid.WF)
    (hc : s'.grid.contains s'.agent.pos = true) (hk : (s'.grid.at s'.agent.pos).isKind .exit = false) :
    stopOf .reachExit s0 a s' = false := by
  simp only [stopOf, TermFn.eval, termOverlap, Grid.pyGet_of_contains _ wf _ hc, hk]

/-- chains whose members other than the leading `move_agent` never act on a move action whatever
the grid: no second `move_agent`, no `teleport`, no `move_obstacles` -/
structure PlainRest (rest : List TransAtom) : Prop where
  noMove : TransAtom.moveAgent ∉ rest
  noTele : TransAtom.teleport ∉ rest
  noObst : TransAtom.moveObstacles ∉ rest

theorem PlainRest.quiet {rest : List TransAtom} (p : PlainRest rest) (s : State) : RestQuiet rest s :=
  ⟨p.noMove, fun h => absurd h p.noTele, fun h => absurd h p.noObst⟩

/-- the shipped chains of the tasks without telepods and obstacles -/
example : PlainRest [.turnAgent] := ⟨by decide, by decide, by decide⟩
example : PlainRest [.turnAgent, .actuateDoor, .pickndrop] := ⟨by decide, by decide, by decide⟩

theorem head_of_all_eq {l : List Pos} {p : Pos} (hne : p ∈ l) (hall : ∀ q ∈ l, q = p) (dflt : Pos) :
    l.headD dflt = p := by
  cases l with
  | nil => cases hne
  | cons x xs => exact hall x (List.mem_cons_self ..)

/-! ### `empty` -/

theorem empty_pass {h w : Nat} {ep : Pos} {s : State} (room : EmptyRoom h w ep s.grid) (rest : List TransAtom)
    (pr : PlainRest rest) (c : Pos) (hc : Interior h w c) :
    Pass rest (stopOf .reachExit) goalExit s c := by
  obtain ⟨wf, gh, gw, hat⟩ := room
  have hin : s.grid.contains c = true := hc.contains gh gw
  have hatc := hat c hin
  refine ⟨hin, ?_, pr.quiet _, ?_⟩
  · rw [hatc]
    by_cases he : c = ep
    · simp [he, Obj.blocksMovement]
    · simp [he, hc.not_border, Obj.blocksMovement]
  · by_cases he : c = ep
    · left
      subst he
      simp only [goalExit, withPos_grid, withPos_pos, hin, hatc, if_true, Bool.true_and]
      rfl
    · right
      intro s0 a _ _
      apply stop_reachExit_false
      · exact wf
      · exact hin
      · simp only [withPos_grid, withPos_pos, hatc, he, if_false, hc.not_border]
        rfl

/-- **C14 (`empty`).**  For every valid shape, both flags, every stream of draws, and every chain
`move_agent :: rest` whose rest is plain (in particular the shipped `[move_agent, turn_agent]`):
the reset succeeds and `planEmpty` — down/up the agent's column, then along the exit's row — wins
under `reach_exit` termination. -/
theorem C14_empty (sh : Shape) (ra re : Bool) (d d0 : DrawSt) (hv : 4 ≤ sh.h ∧ 4 ≤ sh.w)
    (rest : List TransAtom) (pr : PlainRest rest) :
    ∃ s d', resetEmpty sh ra re d = .ok (s, d') ∧
      checkPlan (.moveAgent :: rest) (stopOf .reachExit) goalExit s (planEmpty s) d0 = true := by
  obtain ⟨s, d', he, ep, hepi, room, hai, _, _, _, _⟩ := C13_empty_wf sh ra re d hv
  refine ⟨s, d', he, ?_⟩
  obtain ⟨wf, gh, gw, hat⟩ := room
  -- the exit the plan heads for is `ep`
  have hfe : firstExit s.grid = ep := by
    apply head_of_all_eq
    · rw [Grid.mem_find]
      refine ⟨hepi.contains gh gw, ?_⟩
      rw [hat ep (hepi.contains gh gw)]; simp [Obj.isKind, Obj.kind]
    · intro q hq
      rw [Grid.mem_find] at hq
      obtain ⟨hqc, hqk⟩ := hq
      rw [hat q hqc] at hqk
      by_cases hqe : q = ep
      · exact hqe
      · by_cases hb : onBorder sh.h.toNat sh.w.toNat q <;> simp [hqe, hb, Obj.isKind, Obj.kind] at hqk
  unfold planEmpty
  rw [hfe]
  have key := lplan_then rest (stopOf .reachExit) goalExit s ep [] d0
  rw [List.append_nil] at key
  obtain ⟨a1, a2, a3, a4⟩ := hai
  obtain ⟨e1, e2, e3, e4⟩ := hepi
  apply key
  · intro y hy
    apply empty_pass ⟨wf, gh, gw, hat⟩ rest pr
    unfold Btw at hy
    exact ⟨by simp only; omega, by simp only; omega, a3, a4⟩
  · intro x hx
    apply empty_pass ⟨wf, gh, gw, hat⟩ rest pr
    unfold Btw at hx
    exact ⟨e1, e2, by simp only; omega, by simp only; omega⟩
  · have hin : s.grid.contains ep = true := Interior.contains ⟨e1, e2, e3, e4⟩ gh gw
    simp only [checkPlan, goalExit, withPos_grid, withPos_pos, hin, hat ep hin, if_true, Bool.true_and]
    rfl

/-- … and therefore the goal is reachable -/
theorem C14_empty_reaches (sh : Shape) (ra re : Bool) (d : DrawSt) (hv : 4 ≤ sh.h ∧ 4 ≤ sh.w)
    (rest : List TransAtom) (pr : PlainRest rest) :
    ∃ s d', resetEmpty sh ra re d = .ok (s, d') ∧
      Reaches (.moveAgent :: rest) (stopOf .reachExit) goalExit s := by
  obtain ⟨s, d', he, hc⟩ := C14_empty sh ra re d ⟨[], []⟩ hv rest pr
  exact ⟨s, d', he, C14_certificate_sound _ _ _ _ s _ hc⟩

/-! ### `memory` -/

/-- **C14 (`memory`).**  For all valid parameters and every stream of draws: `planMemory` — up the
middle corridor to the top corridor, then sideways to the exit of the beacons' colour — reaches
that exit; no earlier step stands on an exit (in particular never on the other one). -/
theorem C14_memory (sh : Shape) (colors : List Color) (d d0 : DrawSt) (hv : MemoryValid sh colors)
    (hnd : colors.Nodup) (rest : List TransAtom) (pr : PlainRest rest) :
    ∃ s d', resetMemory sh colors d = .ok (s, d') ∧
      checkPlan (.moveAgent :: rest) (stopOf .reachExit) goalMemory s (planMemory s) d0 = true := by
  obtain ⟨s, d', good, bad, xg, xb, he, _, _, hgb, hx, hag, _, wf, gh, gw, hat⟩ :=
    C13_memory_wf sh colors d hv hnd
  refine ⟨s, d', he, ?_⟩
  obtain ⟨hh, hw, hodd, _, _⟩ := hv
  have hpos : s.agent.pos = ⟨sh.h / 2, sh.w / 2⟩ := by rw [hag]
  have hcont : ∀ q : Pos, 0 ≤ q.y → q.y < sh.h → 0 ≤ q.x → q.x < sh.w → s.grid.contains q = true := by
    intro q h1 h2 h3 h4
    rw [Grid.contains_iff, gh, gw]; omega
  -- facts about the special cells
  have hxg : xg = 1 ∨ xg = sh.w - 2 := by rcases hx with ⟨h, _⟩ | ⟨h, _⟩ <;> simp [h]
  have hxne : xg ≠ xb := by rcases hx with ⟨h1, h2⟩ | ⟨h1, h2⟩ <;> omega
  have hgc : s.grid.contains ⟨1, xg⟩ = true := hcont _ (by simp) (by simp; omega) (by simp only; omega) (by simp only; omega)
  have hatg : s.grid.at ⟨1, xg⟩ = .exit good := by rw [hat _ hgc]; simp
  -- every cell is one of five things
  have hcls : ∀ q, s.grid.contains q = true →
      (q = ⟨1, xg⟩ ∧ s.grid.at q = .exit good) ∨ (q = ⟨1, xb⟩ ∧ s.grid.at q = .exit bad) ∨
      s.grid.at q = .beacon good ∨ s.grid.at q = .floor ∨ s.grid.at q = .wall := by
    intro q hq
    rw [hat q hq]
    by_cases c1 : q = ⟨1, xg⟩
    · left; exact ⟨c1, if_pos c1⟩
    · right; rw [if_neg c1]
      by_cases c2 : q = ⟨1, xb⟩
      · left; exact ⟨c2, if_pos c2⟩
      · right; rw [if_neg c2]
        by_cases c3 : q = ⟨sh.h - 2, 1⟩ ∨ q = ⟨sh.h - 2, sh.w - 2⟩
        · left; exact if_pos c3
        · right; rw [if_neg c3]
          by_cases c4 : memoryFloor sh q
          · left; exact if_pos c4
          · right; exact if_neg c4
  -- the beacons all carry `good`
  have hbeacon : ∀ q, s.grid.contains q = true → (s.grid.at q).isKind .beacon = true → s.grid.at q = .beacon good := by
    intro q hq hk
    rcases hcls q hq with ⟨_, h⟩ | ⟨_, h⟩ | h | h | h
    · rw [h] at hk; simp [Obj.isKind, Obj.kind] at hk
    · rw [h] at hk; simp [Obj.isKind, Obj.kind] at hk
    · exact h
    · rw [h] at hk; simp [Obj.isKind, Obj.kind] at hk
    · rw [h] at hk; simp [Obj.isKind, Obj.kind] at hk
  have hb1c : s.grid.contains ⟨sh.h - 2, 1⟩ = true := hcont _ (by simp only; omega) (by simp only; omega) (by simp) (by simp only; omega)
  have hb1 : s.grid.at ⟨sh.h - 2, 1⟩ = .beacon good := by
    rw [hat _ hb1c]
    have n1 : (⟨sh.h - 2, 1⟩ : Pos) ≠ ⟨1, xg⟩ := by rw [Ne, Pos.ext_iff']; simp only; omega
    have n2 : (⟨sh.h - 2, 1⟩ : Pos) ≠ ⟨1, xb⟩ := by rw [Ne, Pos.ext_iff']; simp only; omega
    simp [n1, n2]
  -- the beacon the goal test and the plan look at carries `good`
  have hfb : ∃ bp rest', s.grid.find (fun b => b.isKind .beacon) = bp :: rest' ∧ s.grid.at bp = .beacon good := by
    have hm : (⟨sh.h - 2, 1⟩ : Pos) ∈ s.grid.find (fun b => b.isKind .beacon) := by
      rw [Grid.mem_find]; exact ⟨hb1c, by rw [hb1]; rfl⟩
    cases hl : s.grid.find (fun b => b.isKind .beacon) with
    | nil => rw [hl] at hm; cases hm
    | cons bp rest' =>
      refine ⟨bp, rest', rfl, ?_⟩
      have : bp ∈ s.grid.find (fun b => b.isKind .beacon) := by rw [hl]; exact List.mem_cons_self ..
      rw [Grid.mem_find] at this
      exact hbeacon bp this.1 this.2
  obtain ⟨bp, rest', hfind, hbp⟩ := hfb
  -- the plan's target is the good exit
  have hge : goodExit s.grid = ⟨1, xg⟩ := by
    unfold goodExit
    rw [hfind]
    simp only [hbp, Obj.color]
    apply head_of_all_eq
    · rw [Grid.mem_find]; refine ⟨hgc, ?_⟩; rw [hatg]; simp [Obj.isKind, Obj.kind, Obj.color]
    · intro q hq
      rw [Grid.mem_find] at hq
      obtain ⟨hqc, hqk⟩ := hq
      rcases hcls q hqc with ⟨h0, _⟩ | ⟨_, h⟩ | h | h | h
      · exact h0
      · rw [h] at hqk; simp [Obj.isKind, Obj.kind, Obj.color] at hqk; exact absurd hqk.symm hgb
      · rw [h] at hqk; simp [Obj.isKind, Obj.kind] at hqk
      · rw [h] at hqk; simp [Obj.isKind, Obj.kind] at hqk
      · rw [h] at hqk; simp [Obj.isKind, Obj.kind] at hqk
  -- a corridor cell is passable
  have hpass : ∀ c : Pos, memoryFloor sh c → c ≠ ⟨1, xb⟩ → c.y ≤ sh.h - 3 →
      Pass rest (stopOf .reachExit) goalMemory s c := by
    intro c hc hnb hy
    have hcc : s.grid.contains c = true := by
      apply hcont <;> (unfold memoryFloor at hc; omega)
    have hatc : s.grid.at c = if c = ⟨1, xg⟩ then .exit good else .floor := by
      rw [hat c hcc]
      by_cases c1 : c = ⟨1, xg⟩
      · simp [c1]
      · have c3 : ¬ (c = ⟨sh.h - 2, 1⟩ ∨ c = ⟨sh.h - 2, sh.w - 2⟩) := by
          rintro (h | h) <;> (rw [h] at hy; simp only at hy; omega)
        simp [c1, hnb, c3, hc]
    refine ⟨hcc, ?_, pr.quiet _, ?_⟩
    · rw [hatc]; split <;> rfl
    · by_cases c1 : c = ⟨1, xg⟩
      · left
        subst c1
        simp only [goalMemory, withPos_grid, withPos_pos, hgc, hatg, hfind, hbp, Bool.true_and]
        simp [Obj.isKind, Obj.kind, Obj.color]
      · right
        intro s0 a _ _
        apply stop_reachExit_false s0 a (withPos s c) wf hcc
        simp only [withPos_grid, withPos_pos, hatc, c1, if_false]
        rfl
  unfold planMemory
  rw [hge]
  have key := lplan_then rest (stopOf .reachExit) goalMemory s ⟨1, xg⟩ [] d0
  rw [List.append_nil] at key
  apply key
  · intro y hy
    rw [hpos] at hy ⊢
    unfold Btw at hy
    simp only at hy ⊢
    apply hpass
    · unfold memoryFloor
      simp only
      by_cases h1 : y = 1
      · left; exact ⟨Or.inl h1, by omega, by omega⟩
      · right; exact ⟨trivial, by omega, by omega⟩
    · rw [Ne, Pos.ext_iff']; simp only; rcases hx with ⟨_, h2⟩ | ⟨_, h2⟩ <;> omega
    · simp only; omega
  · intro x hx'
    rw [hpos] at hx'
    unfold Btw at hx'
    simp only at hx'
    by_cases hend : x = xg
    · -- the exit itself
      subst hend
      refine ⟨hgc, by rw [hatg]; rfl, pr.quiet _, Or.inl ?_⟩
      simp only [goalMemory, withPos_grid, withPos_pos, hgc, hatg, hfind, hbp, Bool.true_and]
      simp [Obj.isKind, Obj.kind, Obj.color]
    · apply hpass
      · unfold memoryFloor; simp only; left
        refine ⟨Or.inl trivial, ?_, ?_⟩ <;> (rcases hxg with h | h <;> omega)
      · rw [Ne, Pos.ext_iff']; simp only
        rcases hx with ⟨h1, h2⟩ | ⟨h1, h2⟩ <;> omega
      · simp only; omega
  · simp only [checkPlan, goalMemory, withPos_grid, withPos_pos, hgc, hatg, hfind, hbp, Bool.true_and]
    simp [Obj.isKind, Obj.kind, Obj.color]

/-! ### `keydoor` -/

/-- the reset's grid is the key-door room with the key on the floor and the door locked -/
theorem keydoor_room (sh : Shape) (d : DrawSt) (hv : 4 ≤ sh.h ∧ 5 ≤ sh.w) :
    ∃ s d' xw yd yk xk, resetKeydoor sh d = .ok (s, d') ∧
      2 ≤ xw ∧ xw ≤ sh.w - 3 ∧ 1 ≤ yd ∧ yd ≤ sh.h - 2 ∧ LeftOf sh xw ⟨yk, xk⟩ ∧ LeftOf sh xw s.agent.pos ∧
      s.agent.held = .noneObj ∧ KDGrid sh xw yd (some ⟨yk, xk⟩) false s.grid := by
  obtain ⟨s0, d0, he0, s, d', xw, yd, yk, xk, ya, xa, he, h1, h2, h3, h4, h5, h6, h7, h8, hpos, h9, h10, h11, h12,
    hheld, wf, gh, gw, hat⟩ := C13_keydoor_wf sh d hv
  obtain ⟨s0', d0', he0', ep, _, ⟨wf0, gh0, gw0, hat0⟩, _, _, _, _, hepfix⟩ :=
    C13_empty_wf sh false false ⟨[], []⟩ ⟨hv.1, by omega⟩
  rw [he0] at he0'
  obtain ⟨rfl, rfl⟩ : s0 = s0' ∧ d0 = d0' := by
    have := Except.ok.inj he0'
    exact ⟨congrArg Prod.fst this, congrArg Prod.snd this⟩
  have hep := hepfix rfl
  refine ⟨s, d', xw, yd, yk, xk, he, h1, h2, h3, h4, ⟨h5, h6, h7, h8⟩, by rw [hpos]; exact ⟨h9, h10, h11, h12⟩,
    hheld, wf, by rw [gh, gh0], by rw [gw, gw0], ?_⟩
  intro q hq
  have hq0 : s0.grid.contains q = true := by simpa [Grid.contains, gh, gw] using hq
  rw [hat q, hat0 q hq0, hep]
  unfold kdCell
  by_cases c0 : q = ⟨yk, xk⟩
  · simp [c0]
  · have : ¬ some q = some (⟨yk, xk⟩ : Pos) := by simpa using c0
    rw [if_neg c0, if_neg this]
    by_cases c1 : q = ⟨yd, xw⟩
    · simp [c1]
    · rw [if_neg c1, if_neg c1]

/-- last leg: the door is open, the agent stands left of it facing it -/
theorem keydoor_after_open (sh : Shape) (xw yd : Int) (s : State) (d0 : DrawSt) (hh : 4 ≤ sh.h)
    (hx1 : 2 ≤ xw) (hx2 : xw ≤ sh.w - 3) (hd1 : 1 ≤ yd) (hd2 : yd ≤ sh.h - 2)
    (room : KDGrid sh xw yd none true s.grid) (hpos : s.agent.pos = ⟨yd, xw - 1⟩) (ho : s.agent.o = .R) :
    checkPlan kdChain (stopOf .reachExit) goalExit s
      (walk .R .R 2 ++ (lPlan .R ⟨yd, xw + 1⟩ ⟨sh.h - 2, sh.w - 2⟩ ++ [])) d0 = true := by
  have hnokey : ∀ p, (none : Option Pos) = some p → p.x < xw := by intro p hp; cases hp
  have w := walk_then [.turnAgent, .actuateDoor, .pickndrop] (stopOf .reachExit) goalExit .R 2 s
  rw [ho] at w
  have e1 : shift s.agent.pos .R 1 = ⟨yd, xw⟩ := by
    rw [hpos]; simp only [shift, Pos.ofOrient, Pos.mk.injEq]; omega
  have e2 : shift s.agent.pos .R 2 = ⟨yd, xw + 1⟩ := by
    rw [hpos]; simp only [shift, Pos.ofOrient, Pos.mk.injEq]; omega
  apply w
  · intro k hk1 hk2
    have : k = 1 ∨ k = 2 := by omega
    rcases this with rfl | rfl
    · rw [e1]; exact kd_pass_door room hnokey hd1 hd2 hx1 hx2
    · rw [e2]; exact kd_pass_right room hnokey hx1 _ ⟨hd1, hd2, by simp only; omega, by simp only; omega⟩
  · rw [e2]
    have l := lplan_then [.turnAgent, .actuateDoor, .pickndrop] (stopOf .reachExit) goalExit
      (withPos s ⟨yd, xw + 1⟩) ⟨sh.h - 2, sh.w - 2⟩ [] d0
    simp only [withPos_o, withPos_pos, ho] at l
    apply l
    · intro y hy
      unfold Btw at hy
      have p := kd_pass_right (s := s) room hnokey hx1 ⟨y, xw + 1⟩ ⟨by simp only; omega, by simp only; omega, by simp only; omega, by simp only; omega⟩
      exact ⟨p.inside, p.free, p.quiet, p.go⟩
    · intro x hx'
      unfold Btw at hx'
      have p := kd_pass_right (s := s) room hnokey hx1 ⟨sh.h - 2, x⟩ ⟨by simp only; omega, by simp only; omega, by simp only; omega, by simp only; omega⟩
      exact ⟨p.inside, p.free, p.quiet, p.go⟩
    · have hr : RightOf sh xw ⟨sh.h - 2, sh.w - 2⟩ := by unfold RightOf; simp only; omega
      have hin : s.grid.contains ⟨sh.h - 2, sh.w - 2⟩ = true :=
        room.contains _ (by simp only; omega) (by simp only; omega) (by simp only; omega) (by simp only; omega)
      have hat := room.cell _ hin
      rw [kdCell_right hnokey hx1 hr, if_pos rfl] at hat
      simp only [checkPlan, goalExit, withPos_grid, withPos_pos, hin, hat, Bool.true_and]
      rfl

/-- middle leg: key in hand, standing where it was picked up -/
theorem keydoor_after_pick (sh : Shape) (xw yd : Int) (s : State) (d0 : DrawSt) (hh : 4 ≤ sh.h)
    (hx1 : 2 ≤ xw) (hx2 : xw ≤ sh.w - 3) (hd1 : 1 ≤ yd) (hd2 : yd ≤ sh.h - 2)
    (room : KDGrid sh xw yd none false s.grid) (hpos : LeftOf sh xw s.agent.pos)
    (hheld : s.agent.held = .key .yellow) :
    checkPlan kdChain (stopOf .reachExit) goalExit s
      (lPlan s.agent.o s.agent.pos ⟨yd, xw - 1⟩ ++ (turnsTo s.agent.o .R ++ (.actuate ::
        (walk .R .R 2 ++ (lPlan .R ⟨yd, xw + 1⟩ ⟨sh.h - 2, sh.w - 2⟩ ++ []))))) d0 = true := by
  have hbL : LeftOf sh xw ⟨yd, xw - 1⟩ := by unfold LeftOf; simp only; omega
  obtain ⟨a1, a2, a3, a4⟩ := hpos
  apply lplan_then [.turnAgent, .actuateDoor, .pickndrop] (stopOf .reachExit) goalExit s ⟨yd, xw - 1⟩
  · intro y hy
    unfold Btw at hy
    simp only at hy
    exact kd_pass_left room hx2 _ ⟨by simp only; omega, by simp only; omega, a3, a4⟩
  · intro x hx'
    unfold Btw at hx'
    simp only at hx'
    exact kd_pass_left room hx2 _ ⟨by simp only; omega, by simp only; omega, by simp only; omega, by simp only; omega⟩
  -- facing the door
  have hbin : s.grid.contains ⟨yd, xw - 1⟩ = true :=
    room.contains _ (by simp only; omega) (by simp only; omega) (by simp only; omega) (by simp only; omega)
  have hbat : s.grid.at ⟨yd, xw - 1⟩ = .floor := by
    rw [room.cell _ hbin, kdCell_left hx2 hbL]; simp
  have t := turns_then (stopOf .reachExit) goalExit (withPos s ⟨yd, xw - 1⟩) .R
  simp only [withPos_o] at t
  apply t
  · intro s0 a o'
    apply stop_false_of_not_exit s0 a (withO (withPos s ⟨yd, xw - 1⟩) o') room.wf
    · exact hbin
    · simp only [withO_grid, withO_pos, withPos_grid, withPos_pos, hbat]; rfl
  -- opening it
  have hdin : s.grid.contains ⟨yd, xw⟩ = true :=
    room.contains _ (by simp only; omega) (by simp only; omega) (by simp only; omega) (by simp only; omega)
  have hfr : (⟨yd, xw - 1⟩ : Pos).add (Pos.ofOrient .R) = ⟨yd, xw⟩ := by
    simp only [Pos.add, Pos.ofOrient, Pos.mk.injEq]; omega
  apply actuate_then (stopOf .reachExit) goalExit (withO (withPos s ⟨yd, xw - 1⟩) .R) .yellow
  · simp only [withO_grid, withO_pos, withO_o, withPos_grid, withPos_pos, hfr]; exact hdin
  · simp only [withO_grid, withO_pos, withO_o, withPos_grid, withPos_pos, hfr]
    rw [room.cell _ hdin]; simp [kdCell]
  · exact hheld
  · apply stop_false_of_not_exit
    · exact Grid.setP_WF _ room.wf _ _
    · simp only [Grid.contains_setP]; exact hbin
    · simp only [withO_grid, withO_pos, withO_o, withPos_grid, withPos_pos, hfr]
      rw [Grid.at_setP _ room.wf _ _ hdin]
      have : (⟨yd, xw - 1⟩ : Pos) ≠ ⟨yd, xw⟩ := by rw [Ne, Pos.ext_iff']; simp only; omega
      rw [if_neg this, hbat]; rfl
  · simp only [withO_grid, withO_pos, withO_o, withPos_grid, withPos_pos, hfr]
    apply keydoor_after_open sh xw yd _ d0 hh hx1 hx2 hd1 hd2
    · exact room.open hd1 hd2 hx1 hx2
    · rfl
    · rfl

/-- **C14 (`keydoor`).**  For every valid shape and every stream of draws, under the shipped
dynamics `[move_agent, turn_agent, actuate_door, pickndrop]`: `planKeydoor` — fetch the key,
unlock the door, walk through, reach the exit — wins. -/
theorem C14_keydoor (sh : Shape) (d d0 : DrawSt) (hv : 4 ≤ sh.h ∧ 5 ≤ sh.w) :
    ∃ s d', resetKeydoor sh d = .ok (s, d') ∧
      checkPlan kdChain (stopOf .reachExit) goalExit s (planKeydoor s) d0 = true := by
  obtain ⟨s, d', xw, yd, yk, xk, he, hx1, hx2, hd1, hd2, hkL, haL, hheld, room⟩ := keydoor_room sh d hv
  refine ⟨s, d', he, ?_⟩
  obtain ⟨hh, hw⟩ := hv
  have hkL' : 1 ≤ yk ∧ yk ≤ sh.h - 2 ∧ 1 ≤ xk ∧ xk < xw := hkL
  have hkeyx : ∀ p, some (⟨yk, xk⟩ : Pos) = some p → p.x < xw := by
    intro p hp; rw [← Option.some.inj hp]; exact hkL.2.2.2
  have hnokey : ∀ p, (none : Option Pos) = some p → p.x < xw := by intro p hp; cases hp
  have hkin : s.grid.contains ⟨yk, xk⟩ = true := by
    obtain ⟨a, b, c, e⟩ := hkL'
    exact room.contains _ (by simp only; omega) (by simp only; omega) (by simp only; omega) (by simp only; omega)
  have hdin : s.grid.contains ⟨yd, xw⟩ = true :=
    room.contains _ (by simp only; omega) (by simp only; omega) (by simp only; omega) (by simp only; omega)
  -- the plan's landmarks
  unfold planKeydoor
  simp only [kd_find_key room hkin, kd_find_door room hdin hkeyx, kd_find_exit room hkeyx hx1 hx2 hh]
  -- where the agent stands to pick the key up, and which way it faces
  generalize hstand : (if 1 < yk then (⟨yk - 1, xk⟩ : Pos) else ⟨yk + 1, xk⟩) = stand
  generalize hface : (if 1 < yk then Orient.B else Orient.F) = face
  have hsL : LeftOf sh xw stand := by
    obtain ⟨a, b, c, e⟩ := hkL'
    rw [← hstand]; unfold LeftOf; split <;> (simp only; omega)
  have hfront : stand.add (Pos.ofOrient face) = ⟨yk, xk⟩ := by
    rw [← hstand, ← hface]
    by_cases h : 1 < yk
    · simp only [h, if_true, Pos.add, Pos.ofOrient, Pos.mk.injEq]; omega
    · simp only [h, if_false, Pos.add, Pos.ofOrient, Pos.mk.injEq]; omega
  have hsne : stand ≠ ⟨yk, xk⟩ := by
    rw [← hstand]; split <;> (rw [Ne, Pos.ext_iff']; simp only; omega)
  -- phase 1: to the standing cell
  have key1 := lplan_then [.turnAgent, .actuateDoor, .pickndrop] (stopOf .reachExit) goalExit s stand
  apply key1
  · intro y hy
    apply kd_pass_left room hx2
    obtain ⟨a1, a2, a3, a4⟩ := haL
    obtain ⟨b1, b2, b3, b4⟩ := hsL
    unfold Btw at hy
    exact ⟨by simp only; omega, by simp only; omega, a3, a4⟩
  · intro x hx'
    apply kd_pass_left room hx2
    obtain ⟨a1, a2, a3, a4⟩ := haL
    obtain ⟨b1, b2, b3, b4⟩ := hsL
    unfold Btw at hx'
    exact ⟨b1, b2, by simp only; omega, by simp only; omega⟩
  -- phase 2: face the key
  have hsin : s.grid.contains stand = true := by
    obtain ⟨b1, b2, b3, b4⟩ := hsL
    exact room.contains _ (by omega) (by omega) (by omega) (by omega)
  have hsat : s.grid.at stand = .floor := by
    rw [room.cell _ hsin, kdCell_left hx2 hsL]
    have : ¬ some stand = some (⟨yk, xk⟩ : Pos) := by simpa using hsne
    rw [if_neg this]
  have t2 := turns_then (stopOf .reachExit) goalExit (withPos s stand) face
  simp only [withPos_o] at t2
  apply t2
  · intro s0 a o'
    apply stop_false_of_not_exit s0 a (withO (withPos s stand) o') room.wf
    · exact hsin
    · simp only [withO_grid, withO_pos, withPos_grid, withPos_pos, hsat]; rfl
  -- phase 3: pick the key up
  apply pick_then (stopOf .reachExit) goalExit (withO (withPos s stand) face) .yellow
  · simp only [withO_grid, withO_pos, withO_o, withPos_grid, withPos_pos, hfront]; exact hkin
  · simp only [withO_grid, withO_pos, withO_o, withPos_grid, withPos_pos, hfront]
    rw [room.cell _ hkin]; simp [kdCell]
  · exact hheld
  · apply stop_false_of_not_exit
    · exact Grid.setP_WF _ room.wf _ _
    · simp only [Grid.contains_setP]; exact hsin
    · simp only [withO_grid, withO_pos, withO_o, withPos_grid, withPos_pos, hfront]
      rw [Grid.at_setP _ room.wf _ _ hkin, if_neg hsne, hsat]; rfl
  · simp only [withO_grid, withO_pos, withO_o, withPos_grid, withPos_pos, hfront]
    have := keydoor_after_pick sh xw yd
      ⟨s.grid.setP ⟨yk, xk⟩ .floor, { (withO (withPos s stand) face).agent with held := .key .yellow }⟩ d0 hh hx1 hx2
      hd1 hd2 (room.pick hx2 hkL) hsL rfl
    exact this

end GV
