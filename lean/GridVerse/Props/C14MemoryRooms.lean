/-
  C14 for `memory_rooms` — what holds, and what does not.

  The full statement is false on the current tree (known finding F9: the exits are sampled among all
  floor cells, so a non-matching exit can separate the agent from the matching one; stepping on it
  terminates the episode without the reward).  What is proved here is the statement under exactly the
  side condition that names the finding's site: *if* the matching exit is connected to the agent
  through free cells none of which is another exit, *then* it can be reached without an earlier
  terminating step.  A `memory_rooms` state that meets the side condition and is nevertheless
  unwinnable would therefore be a different defect, and is reported as such by the check.
-/
import GridVerse.Lemmas.Conn
import GridVerse.Props.C13MemoryRooms
set_option linter.unusedSimpArgs false
namespace GV

/-- `e` can be reached from `p` through free cells, none of which (except `e` itself) is an exit -/
inductive ConnNoExit (g : Grid) (e : Pos) : Pos → Prop
  | refl : ConnNoExit g e e
  | step (p q : Pos) : Adj p q → Free g q → (q = e ∨ (g.at q).isKind .exit = false) → ConnNoExit g e q →
      ConnNoExit g e p

/-- the rewarded goal of the memory tasks does not depend on the agent's heading or hand -/
theorem goalMemory_at (g : Grid) (p : Pos) (o o' : Orient) (held held' : Obj) :
    goalMemory ⟨g, ⟨p, o, held⟩⟩ = goalMemory ⟨g, ⟨p, o', held'⟩⟩ := rfl

/-- under `move_agent :: rest` with a plain rest and `reach_exit` termination (the shipped memory
dynamics): a path of free non-exit cells to the matching exit wins -/
theorem connNoExit_reaches (rest : List TransAtom) (pr : PlainRest rest) (g : Grid) (wf : g.WF) (e : Pos)
    (hgoal : ∀ (o : Orient) (held : Obj), goalMemory ⟨g, ⟨e, o, held⟩⟩ = true) (p : Pos)
    (c : ConnNoExit g e p) :
    ∀ (o : Orient) (held : Obj), Reaches (.moveAgent :: rest) (stopOf .reachExit) goalMemory ⟨g, ⟨p, o, held⟩⟩ := by
  induction c with
  | refl => intro o held; exact .here _ (hgoal o held)
  | step p q adj fr hq _ ih =>
    intro o held
    obtain ⟨dir, rfl⟩ := adj
    have hrun := step_toward rest ⟨g, ⟨p, o, held⟩⟩ dir ⟨[], []⟩ fr.1 fr.2 (pr.quiet _)
    rcases hq with hqe | hne
    · -- the step lands on the matching exit
      refine .step _ _ _ _ _ hrun (Or.inl ?_) (.here _ ?_)
      · have := hgoal o held; rw [← hqe] at this; exact this
      · have := hgoal o held; rw [← hqe] at this; exact this
    · refine .step _ _ _ _ _ hrun (Or.inr ?_) (ih o held)
      exact stop_false_of_not_exit _ _ _ wf fr.1 hne

/-- **C14 (`memory_rooms`), partial.**  For every state the reset returns (for every parameter set and
stream of draws for which it succeeds, see `C13_memory_rooms_summary`; its grid is rectangular): if the
exit that matches the beacons is connected to the agent's cell through free cells that are not exits, it
can be reached under the shipped dynamics without an earlier terminating step. -/
theorem C14_memory_rooms_partial (sh : Shape) (lh lw : Int) (ys xs : List Int) (colors : List Color)
    (nb ne : Int) (d : DrawSt) (s : State) (d' : DrawSt)
    (_hreset : resetMemoryRooms sh lh lw ys xs colors nb ne d = .ok (s, d')) (wf : s.grid.WF)
    (rest : List TransAtom) (pr : PlainRest rest) (e : Pos)
    (hgoal : ∀ (o : Orient) (held : Obj), goalMemory ⟨s.grid, ⟨e, o, held⟩⟩ = true)
    (hside : ConnNoExit s.grid e s.agent.pos) :
    Reaches (.moveAgent :: rest) (stopOf .reachExit) goalMemory s :=
  connNoExit_reaches rest pr s.grid wf e hgoal s.agent.pos hside s.agent.o s.agent.held

/-- one step from `s` either stays put, or terminates without being the goal -/
def stuckStep (s : State) (a : Action) : Bool :=
  match runChain [.moveAgent, .turnAgent] s a ⟨[], []⟩ with
  | .ok (s', _) => decide (s'.agent.pos = s.agent.pos) || (stopOf .reachExit s a s' && !goalMemory s')
  | .error _ => false

/-- the side condition cannot be dropped: in the corridor `agent, wrong exit, matching exit` (beacon
colour = colour of the far exit) the only way to the goal leads over the other exit, and stepping on it
terminates the episode without the goal: every action either stays put or loses -/
example :
    let g : Grid := ⟨2, 3, [[.floor, .exit .red, .exit .blue], [.wall, .wall, .beacon .blue]]⟩
    let s : State := ⟨g, ⟨⟨0, 0⟩, .R, .noneObj⟩⟩
    goalMemory ⟨g, ⟨⟨0, 2⟩, .R, .noneObj⟩⟩ = true ∧ goalMemory s = false ∧ ∀ a, stuckStep s a = true := by
  refine ⟨by decide, by decide, ?_⟩
  intro a
  cases a <;> decide

/-- non-vacuity of the side condition: the same corridor with the exits exchanged satisfies it -/
example :
    let g : Grid := ⟨2, 3, [[.floor, .floor, .exit .blue], [.beacon .blue, .exit .red, .wall]]⟩
    ConnNoExit g ⟨0, 2⟩ ⟨0, 0⟩ := by
  intro g
  refine .step ⟨0, 0⟩ ⟨0, 1⟩ ⟨.R, by decide⟩ ⟨by decide, by decide⟩ (Or.inr (by decide)) ?_
  exact .step ⟨0, 1⟩ ⟨0, 2⟩ ⟨.R, by decide⟩ ⟨by decide, by decide⟩ (Or.inl rfl) .refl

end GV
