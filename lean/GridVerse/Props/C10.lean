/-
  C10 — Doors, keys and boxes respond only to a faced ACTUATE, and only as documented.

  "A door's status changes only when the agent uses ACTUATE while facing it, and then only towards
  open: a closed door opens, a locked door opens if and only if the agent holds a key of the door's
  colour, and an open door stays open; a box changes only when actuated while faced and is then
  replaced by its content. No other action, position or held item affects doors or boxes, and keys
  are not consumed."
-/
import GridVerse.Lemmas.Atoms
import GridVerse.Agree.Objects
import GridVerse.Agree.Actions
set_option linter.unusedSimpArgs false
namespace GV

theorem moveObstacles_at (s : State) (d : DrawSt) (hw : s.grid.WF) (q : Pos) :
    (moveObstacles s d).1.grid.at q = s.grid.at q ∨
    (s.grid.at q = .floor ∧ (moveObstacles s d).1.grid.at q = .obstacle) ∨
    (s.grid.at q = .obstacle ∧ (moveObstacles s d).1.grid.at q = .floor) := by
  rw [moveObstacles_eq]
  have hinv := obstaclesFold_inv (s.grid.find fun o => o.isKind .obstacle) s.grid d hw
    (Grid.find_nodup _ _)
    (fun p hp => by rw [Grid.mem_find] at hp; exact ⟨hp.1, isKind_obstacle _ hp.2⟩)
  rcases hinv.2.2.2 q with h | h | ⟨_, h⟩
  · exact Or.inl h
  · exact Or.inr (Or.inl h)
  · exact Or.inr (Or.inr h)

/-- One primitive transition and a cell holding a door: the door is untouched, unless the
transition is `actuate_door`, the action ACTUATE, the agent faces that cell, and the door was closed
or was locked with the matching key in hand — and then it is the same door, open. -/
theorem C10_door_atom (f : TransAtom) (s s' : State) (a : Action) (d d' : DrawSt) (hw : s.grid.WF)
    (q : Pos) (st : DoorStatus) (c : Color) (hq : s.grid.at q = .door st c)
    (h : f.run s a d = .ok (s', d')) :
    s'.grid.at q = .door st c ∨
    (f = .actuateDoor ∧ a = .actuate ∧ s.agent.front = q ∧ s'.grid.at q = .door .open c ∧
      (st = .closed ∨ (st = .locked ∧ s.agent.held = .key c))) := by
  cases f
  case moveAgent => left; rw [atom_grid_frame _ s s' a d d' (Or.inl rfl) h]; exact hq
  case turnAgent => left; rw [atom_grid_frame _ s s' a d d' (Or.inr (Or.inl rfl)) h]; exact hq
  case teleport => left; rw [atom_grid_frame _ s s' a d d' (Or.inr (Or.inr rfl)) h]; exact hq
  case pickndrop =>
    left
    simp only [TransAtom.run, Except.ok.injEq, Prod.mk.injEq] at h
    obtain ⟨rfl, _⟩ := h
    rw [pickndrop_eq]
    split
    · rename_i hf
      obtain ⟨_, hc, hk⟩ := hf
      simp only
      rw [Grid.at_setP _ hw _ _ hc]
      by_cases hqf : q = s.agent.front
      · subst hqf; rw [hq] at hk; simp [Obj.isKind, Obj.kind, Obj.holdable] at hk
      · rw [if_neg hqf]; exact hq
    · exact hq
  case moveObstacles =>
    left
    simp only [TransAtom.run, Except.ok.injEq] at h
    have : s' = (moveObstacles s d).1 := by rw [h]
    subst this
    rcases moveObstacles_at s d hw q with h1 | ⟨h1, _⟩ | ⟨h1, _⟩
    · rw [h1]; exact hq
    · rw [hq] at h1; cases h1
    · rw [hq] at h1; cases h1
  case actuateBox =>
    left
    simp only [TransAtom.run, Except.ok.injEq, Prod.mk.injEq] at h
    obtain ⟨rfl, _⟩ := h
    rcases actuateBox_eq s a with ⟨b, _, hc, hb, he⟩ | ⟨_, he⟩ <;> rw [he]
    · simp only
      rw [Grid.at_setP _ hw _ _ hc]
      by_cases hqf : q = s.agent.front
      · subst hqf; rw [hq] at hb; cases hb
      · rw [if_neg hqf]; exact hq
    · exact hq
  case actuateDoor =>
    simp only [TransAtom.run, Except.ok.injEq, Prod.mk.injEq] at h
    obtain ⟨rfl, _⟩ := h
    rcases actuateDoor_eq s a with ⟨⟨ha, hc, c', hfire⟩, c'', hcol, he⟩ | ⟨_, he⟩ <;> rw [he]
    · simp only
      rw [Grid.at_setP _ hw _ _ hc]
      by_cases hqf : q = s.agent.front
      · subst hqf
        right
        rw [hq] at hfire hcol
        simp only [Obj.color] at hcol
        subst hcol
        refine ⟨by simp, ha, by simp, by simp, ?_⟩
        rcases hfire with h1 | ⟨h1, h2⟩
        · cases h1; exact Or.inl rfl
        · cases h1; exact Or.inr ⟨rfl, h2⟩
      · left; rw [if_neg hqf]; exact hq
    · left; exact hq

/-- `actuate_door` itself: the faced door's status changes iff ACTUATE on a closed door, or on a
locked door with the matching key; the result is open -/
theorem C10_door_change_iff (s : State) (a : Action) (hw : s.grid.WF) (q : Pos) (st : DoorStatus)
    (c : Color) (hc : s.grid.contains q = true) (hq : s.grid.at q = .door st c) :
    ((actuateDoor s a).grid.at q ≠ .door st c ↔
      (a = .actuate ∧ s.agent.front = q ∧ (st = .closed ∨ (st = .locked ∧ s.agent.held = .key c)))) ∧
    ((actuateDoor s a).grid.at q ≠ .door st c → (actuateDoor s a).grid.at q = .door .open c) := by
  have key := C10_door_atom .actuateDoor s (actuateDoor s a) a ⟨[], []⟩ ⟨[], []⟩ hw q st c hq rfl
  constructor
  · constructor
    · intro hne
      rcases key with h | ⟨_, h1, h2, _, h4⟩
      · exact absurd h hne
      · exact ⟨h1, h2, h4⟩
    · rintro ⟨ha, hf, hst⟩
      -- the transition fires
      rcases actuateDoor_eq s a with ⟨_, c'', hcol, he⟩ | ⟨hnf, _⟩
      · rw [he]; simp only
        rw [hf] at he hcol ⊢
        rw [Grid.at_setP _ hw _ _ hc, if_pos rfl]
        rcases hst with rfl | ⟨rfl, _⟩ <;> simp
      · exfalso; apply hnf
        refine ⟨ha, by rw [hf]; exact hc, c, ?_⟩
        rw [hf, hq]
        rcases hst with rfl | ⟨rfl, hk⟩
        · exact Or.inl rfl
        · exact Or.inr ⟨rfl, hk⟩
  · intro hne
    rcases key with h | ⟨_, _, _, h3, _⟩
    · exact absurd h hne
    · exact h3

/-- an open door stays open under every transition, action and held item -/
theorem C10_open_stays_open (f : TransAtom) (s s' : State) (a : Action) (d d' : DrawSt)
    (hw : s.grid.WF) (q : Pos) (c : Color) (hq : s.grid.at q = .door .open c)
    (h : f.run s a d = .ok (s', d')) : s'.grid.at q = .door .open c := by
  rcases C10_door_atom f s s' a d d' hw q .open c hq h with h | ⟨_, _, _, _, h | ⟨h, _⟩⟩
  · exact h
  · cases h
  · cases h

/-- a locked door stays locked unless the agent holds the key of its colour -/
theorem C10_locked_needs_key (f : TransAtom) (s s' : State) (a : Action) (d d' : DrawSt)
    (hw : s.grid.WF) (q : Pos) (c : Color) (hq : s.grid.at q = .door .locked c)
    (hk : s.agent.held ≠ .key c) (h : f.run s a d = .ok (s', d')) :
    s'.grid.at q = .door .locked c := by
  rcases C10_door_atom f s s' a d d' hw q .locked c hq h with h | ⟨_, _, _, _, h | ⟨_, h⟩⟩
  · exact h
  · cases h
  · exact absurd h hk

/-- keys are not consumed: `actuate_door` never touches the agent -/
theorem C10_key_kept (s : State) (a : Action) : (actuateDoor s a).agent = s.agent := by
  rcases actuateDoor_eq s a with ⟨_, _, _, he⟩ | ⟨_, he⟩ <;> rw [he]

/-- One primitive transition and a cell holding a box: untouched, unless `actuate_box` with ACTUATE
while facing it, and then the cell holds the box's content. -/
theorem C10_box_atom (f : TransAtom) (s s' : State) (a : Action) (d d' : DrawSt) (hw : s.grid.WF)
    (q : Pos) (b : Obj) (hq : s.grid.at q = .box b) (h : f.run s a d = .ok (s', d')) :
    s'.grid.at q = .box b ∨
    (f = .actuateBox ∧ a = .actuate ∧ s.agent.front = q ∧ s'.grid.at q = b) := by
  cases f
  case moveAgent => left; rw [atom_grid_frame _ s s' a d d' (Or.inl rfl) h]; exact hq
  case turnAgent => left; rw [atom_grid_frame _ s s' a d d' (Or.inr (Or.inl rfl)) h]; exact hq
  case teleport => left; rw [atom_grid_frame _ s s' a d d' (Or.inr (Or.inr rfl)) h]; exact hq
  case pickndrop =>
    left
    simp only [TransAtom.run, Except.ok.injEq, Prod.mk.injEq] at h
    obtain ⟨rfl, _⟩ := h
    rw [pickndrop_eq]
    split
    · rename_i hf
      obtain ⟨_, hc, hk⟩ := hf
      simp only
      rw [Grid.at_setP _ hw _ _ hc]
      by_cases hqf : q = s.agent.front
      · subst hqf; rw [hq] at hk; simp [Obj.isKind, Obj.kind, Obj.holdable] at hk
      · rw [if_neg hqf]; exact hq
    · exact hq
  case moveObstacles =>
    left
    simp only [TransAtom.run, Except.ok.injEq] at h
    have : s' = (moveObstacles s d).1 := by rw [h]
    subst this
    rcases moveObstacles_at s d hw q with h1 | ⟨h1, _⟩ | ⟨h1, _⟩
    · rw [h1]; exact hq
    · rw [hq] at h1; cases h1
    · rw [hq] at h1; cases h1
  case actuateDoor =>
    left
    simp only [TransAtom.run, Except.ok.injEq, Prod.mk.injEq] at h
    obtain ⟨rfl, _⟩ := h
    rcases actuateDoor_eq s a with ⟨⟨_, hc, c', hfire⟩, c'', _, he⟩ | ⟨_, he⟩ <;> rw [he]
    · simp only
      rw [Grid.at_setP _ hw _ _ hc]
      by_cases hqf : q = s.agent.front
      · subst hqf; rw [hq] at hfire
        rcases hfire with h1 | ⟨h1, _⟩ <;> cases h1
      · rw [if_neg hqf]; exact hq
    · exact hq
  case actuateBox =>
    simp only [TransAtom.run, Except.ok.injEq, Prod.mk.injEq] at h
    obtain ⟨rfl, _⟩ := h
    rcases actuateBox_eq s a with ⟨b', ha, hc, hb, he⟩ | ⟨_, he⟩ <;> rw [he]
    · simp only
      rw [Grid.at_setP _ hw _ _ hc]
      by_cases hqf : q = s.agent.front
      · subst hqf
        right
        rw [hq] at hb; cases hb
        exact ⟨by simp, ha, by simp, by simp⟩
      · left; rw [if_neg hqf]; exact hq
    · left; exact hq

/-- a faced box is opened by ACTUATE -/
theorem C10_box_opens (s : State) (b : Obj) (hw : s.grid.WF)
    (hc : s.grid.contains s.agent.front = true) (hq : s.grid.at s.agent.front = .box b) :
    (actuateBox s .actuate).grid.at s.agent.front = b := by
  rcases actuateBox_eq s .actuate with ⟨b', _, _, hb, he⟩ | ⟨hnf, _⟩
  · rw [he]; simp only
    rw [Grid.at_setP _ hw _ _ hc, if_pos rfl]
    rw [hq] at hb; cases hb; rfl
  · exact absurd ⟨rfl, hc, b, hq⟩ hnf

/-! ### histories: a locked door is never found open unless the matching key was used -/

/-- a history at the granularity of primitive transitions -/
def runAtoms : List (TransAtom × Action) → State → DrawSt → Except PyErr (State × DrawSt)
  | [], s, d => .ok (s, d)
  | (f, a) :: l, s, d =>
    match f.run s a d with
    | .error e => .error e
    | .ok (s', d') => runAtoms l s' d'

theorem runChain_eq_runAtoms (fs : List TransAtom) (a : Action) (s : State) (d : DrawSt) :
    runChain fs s a d = runAtoms (fs.map fun f => (f, a)) s d := by
  induction fs generalizing s d with
  | nil => rfl
  | cons f fs ih =>
    simp only [runChain, List.map_cons, runAtoms]
    cases f.run s a d with
    | error e => rfl
    | ok r => obtain ⟨s1, d1⟩ := r; exact ih s1 d1

/-- Along any sequence of primitive transitions (any composition, any actions, any draws): if a cell
holds a locked door of colour `c` at the start and an open door at the end, then at some point in
between `actuate_door` ran with ACTUATE while the agent faced that cell holding the key of colour
`c`, the door still being locked. -/
theorem C10_history (l : List (TransAtom × Action)) (s s' : State) (d d' : DrawSt) (hw : s.grid.WF)
    (q : Pos) (c : Color) (hq : s.grid.at q = .door .locked c)
    (h : runAtoms l s d = .ok (s', d')) (hopen : s'.grid.at q ≠ .door .locked c) :
    ∃ l1 l2 s1 d1, l = l1 ++ (.actuateDoor, .actuate) :: l2 ∧ runAtoms l1 s d = .ok (s1, d1) ∧
      s1.agent.front = q ∧ s1.agent.held = .key c ∧ s1.grid.at q = .door .locked c := by
  induction l generalizing s d with
  | nil =>
    simp only [runAtoms, Except.ok.injEq, Prod.mk.injEq] at h
    obtain ⟨rfl, _⟩ := h
    exact absurd hq hopen
  | cons fa l ih =>
    obtain ⟨f, a⟩ := fa
    simp only [runAtoms] at h
    cases hr : f.run s a d with
    | error e => rw [hr] at h; cases h
    | ok r =>
      obtain ⟨s1, d1⟩ := r
      rw [hr] at h
      simp only at h
      rcases C10_door_atom f s s1 a d d1 hw q .locked c hq hr with hstay | ⟨hf, ha, hfront, _, hst⟩
      · -- still locked after this transition: the witness lies in the tail
        obtain ⟨l1, l2, s2, d2, hl, hrun, h1, h2, h3⟩ :=
          ih s1 d1 (atom_run_shape f s s1 a d d1 hw hr).1 hstay h
        refine ⟨(f, a) :: l1, l2, s2, d2, by rw [hl]; rfl, ?_, h1, h2, h3⟩
        simp only [runAtoms, hr]
        exact hrun
      · -- this transition opened it
        subst hf; subst ha
        rcases hst with h0 | ⟨_, hk⟩
        · cases h0
        · exact ⟨[], l, s, d, rfl, rfl, hfront, hk, hq⟩

/-! ### non-vacuity: the key-door situation of the shipped environments -/
example :
    let s : State := ⟨⟨3, 4, [[.wall, .wall, .wall, .wall], [.floor, .floor, .door .locked .yellow, .exit .none],
      [.wall, .wall, .wall, .wall]]⟩, ⟨⟨1, 1⟩, .R, .key .yellow⟩⟩
    s.grid.WF ∧ s.grid.at ⟨1, 2⟩ = .door .locked .yellow ∧ s.agent.front = ⟨1, 2⟩ ∧
    (actuateDoor s .actuate).grid.at ⟨1, 2⟩ = .door .open .yellow ∧
    (actuateDoor { s with agent := { s.agent with held := .key .red } } .actuate).grid.at ⟨1, 2⟩ = .door .locked .yellow := by
  refine ⟨⟨rfl, ?_⟩, by decide, by decide, by decide, by decide⟩
  intro r hr; simp at hr; rcases hr with h | h | h <;> subst h <;> rfl

end GV
