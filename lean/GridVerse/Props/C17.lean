/-
  C17 — Configurations build exactly the environment they describe, or are rejected.

  "Every shipped YAML configuration - whose packaged copy is identical and which every registered
  gym id points to - validates and builds an environment that behaves exactly like the one
  assembled by hand from the named components with the given parameters (parameters a component
  does not accept being ignored); building leaves the input data unchanged and is repeatable, and a
  component obtained by name with parameters behaves like the underlying function called with those
  parameters. Unknown component names, missing required parameters and malformed shapes, colours or
  actions are rejected with a schema or value error rather than building a different environment."

  The theorems about `Gen.*` are re-proved on every run against the data regenerated from /repo
  (registries through `inspect.signature`, the 21 YAML files, `STRING_TO_YAML_FILE`, a byte
  comparison of the packaged copies).  Behavioural equality with the hand-assembled environment is
  the correspondence's part (same histories from the real factory, from hand assembly, and from the
  model).
-/
import GridVerse.Agree.Registry
set_option linter.unusedSimpArgs false
namespace GV

/-! ### a component obtained by name -/

/-- success: the name is registered, every required keyword was given, and exactly the given
keywords the function accepts are bound (the others are ignored), in the given order -/
theorem C17_factory_ok (reg : List Sig) (name : String) (kw : List String) (sig : Sig) (sel : List String)
    (h : factoryCheck reg name kw = .ok (sig, sel)) :
    sig ∈ reg ∧ sig.name = name ∧ (∀ k ∈ sig.required, k ∈ kw) ∧
    sel = kw.filter (fun k => (sig.required ++ sig.optional).contains k) ∧
    (∀ k, k ∈ sel ↔ k ∈ kw ∧ (k ∈ sig.required ∨ k ∈ sig.optional)) := by
  unfold factoryCheck at h
  cases hf : reg.find? (fun s => s.name == name) with
  | none => rw [hf] at h; cases h
  | some s =>
    rw [hf] at h
    simp only at h
    split at h
    · rename_i hall
      simp only [Except.ok.injEq, Prod.mk.injEq] at h
      obtain ⟨rfl, rfl⟩ := h
      have hmem := List.mem_of_find?_eq_some hf
      have hname := List.find?_some hf
      refine ⟨hmem, by simpa using hname, ?_, rfl, ?_⟩
      · intro k hk
        have := List.all_eq_true.mp hall k hk
        simpa using this
      · intro k
        simp [List.mem_filter]
    · cases h

/-- an unknown name is a `ValueError` -/
theorem C17_factory_unknown (reg : List Sig) (name : String) (kw : List String)
    (h : ∀ s ∈ reg, s.name ≠ name) : factoryCheck reg name kw = .error .valueError := by
  unfold factoryCheck
  have : reg.find? (fun s => s.name == name) = none := by
    rw [List.find?_eq_none]
    intro s hs
    simpa using h s hs
  rw [this]

/-- a missing required keyword is a `ValueError` (for the first registered function of that name) -/
theorem C17_factory_missing (reg : List Sig) (name : String) (kw : List String) (sig : Sig)
    (hf : reg.find? (fun s => s.name == name) = some sig) (k : String) (hk : k ∈ sig.required)
    (hmiss : k ∉ kw) : factoryCheck reg name kw = .error .valueError := by
  unfold factoryCheck
  rw [hf]
  simp only
  have : sig.required.all kw.contains = false := by
    rw [Bool.eq_false_iff]
    intro hall
    have := List.all_eq_true.mp hall k hk
    exact hmiss (by simpa using this)
  simp [this]

/-! ### rejection of malformed data -/

theorem C17_schema_first (r : Regs) (y : Yaml) (h : okEnv r y = false) :
    buildDesc r y = .error .schemaError := by
  simp [buildDesc, h]

/-- a malformed `shape` / `layout` (not a pair of positive integers) or colour list inside any
function entry fails the schema -/
theorem C17_bad_reserved_value (r : Regs) (fuel : Nat) (m : List (String × Yaml)) (k : String) (v : Yaml)
    (hmem : (k, v) ∈ m)
    (hbad : (k = "shape" ∧ okPosIntPair v = false) ∨ (k = "layout" ∧ okPosIntPair v = false) ∨
            (k = "colors" ∧ okColors r v = false)) :
    okFunction r (fuel + 1) (.map m) = false := by
  simp only [okFunction, Bool.and_eq_false_iff]
  right
  rw [List.all_eq_false]
  refine ⟨(k, v), hmem, ?_⟩
  rcases hbad with ⟨rfl, h⟩ | ⟨rfl, h⟩ | ⟨rfl, h⟩ <;> simp [h]

theorem mapM_asStr (names : List String) : (names.map Yaml.str).mapM Yaml.asStr? = some names := by
  induction names with
  | nil => rfl
  | cons a as ih => simp only [List.map_cons, List.mapM_cons, Yaml.asStr?, ih]; rfl

/-- an action name that is not an action, a duplicate, or an empty list is not an action space -/
theorem C17_bad_actions (r : Regs) (names : List String)
    (h : names = [] ∨ (∃ n ∈ names, n ∉ r.actions) ∨ names.eraseDups.length ≠ names.length) :
    okActions r (.list (names.map Yaml.str)) = false := by
  have hm := mapM_asStr names
  simp only [okActions, okNameList, hm]
  rcases h with rfl | ⟨n, hn, hbad⟩ | hd
  · simp
  · have : names.all r.actions.contains = false := by
      rw [List.all_eq_false]; exact ⟨n, hn, by simpa using hbad⟩
    simp [this]
  · have : allDistinct names = false := by simp [allDistinct, hd]
    simp [this]

/-- same for colours -/
theorem C17_bad_colors (r : Regs) (names : List String)
    (h : names = [] ∨ (∃ n ∈ names, n ∉ r.colors) ∨ names.eraseDups.length ≠ names.length) :
    okColors r (.list (names.map Yaml.str)) = false := by
  have hm := mapM_asStr names
  simp only [okColors, okNameList, hm]
  rcases h with rfl | ⟨n, hn, hbad⟩ | hd
  · simp
  · have : names.all r.colors.contains = false := by
      rw [List.all_eq_false]; exact ⟨n, hn, by simpa using hbad⟩
    simp [this]
  · have : allDistinct names = false := by simp [allDistinct, hd]
    simp [this]

/-- a pair of positive integers is exactly that -/
theorem C17_shape_iff (a b : Int) : okPosIntPair (.list [.int a, .int b]) = true ↔ 0 < a ∧ 0 < b := by
  simp [okPosIntPair, Yaml.asPyInt?]

/-! ### what a successful build consists of -/

theorem filter_sel_eq {β} (params : List (String × β)) (acc : String → Bool) :
    params.filter (fun kv => ((params.map (·.1)).filter acc).contains kv.1) =
      params.filter (fun kv => acc kv.1) := by
  apply List.filter_congr
  intro kv hkv
  cases h : acc kv.1 with
  | true =>
    simp only [List.contains_eq_mem, List.mem_filter, List.mem_map, decide_eq_true_eq]
    exact ⟨⟨kv, hkv, rfl⟩, h⟩
  | false =>
    simp only [List.contains_eq_mem, List.mem_filter, decide_eq_false_iff_not]
    intro hh; rw [h] at hh; exact absurd hh.2 (by simp)

theorem keys_filter_sel {β} (params : List (String × β)) (acc : String → Bool) :
    (params.filter (fun kv => ((params.map (·.1)).filter acc).contains kv.1)).map (·.1) =
      (params.map (·.1)).filter acc := by
  rw [filter_sel_eq, List.filter_map]
  rfl

/-- a plain component (no nested components, no reserved conversions): the function registered
under the given name, bound to exactly the accepted keywords among the given ones -/
theorem C17_build_plain (r : Regs) (fuel : Nat) (kind : RegKind) (name : String) (params : List (String × Yaml))
    (hplain : ∀ kv ∈ params, kv.1 ∉ ["name", "transition_functions", "reward_functions", "terminating_functions",
      "reward_function", "distance_function", "visibility_function", "area", "object_type", "colors"])
    (hcustom : isCustom name = false) (c : Comp)
    (h : buildComp r (fuel + 1) kind (.map (("name", .str name) :: params)) = .ok c) :
    ∃ sig, factoryCheck (r.of kind) name (params.map (·.1)) = .ok (sig, c.keys) ∧
      (match c with | .mk n kws subs => n = name ∧ subs = [] ∧
        kws = params.filter (fun kv => (sig.required ++ sig.optional).contains kv.1)) := by
  have hlk : ∀ key, key ∈ ["transition_functions", "reward_functions", "terminating_functions",
      "reward_function", "distance_function", "visibility_function", "area", "object_type", "colors"] →
      params.lookup key = none := by
    intro key hkey
    rw [List.lookup_eq_none_iff]
    intro kv hkv
    have := hplain kv hkv
    simp only [bne_iff_ne, ne_eq]
    intro he
    apply this
    rw [← he]
    simp only [List.mem_cons, List.not_mem_nil, or_false] at hkey ⊢
    right; exact hkey
  have hrest : (("name", Yaml.str name) :: params).filter (fun kv => kv.1 != "name") = params := by
    simp only [List.filter_cons, bne_self_eq_false, Bool.false_eq_true, if_false]
    rw [List.filter_eq_self]
    intro kv hkv
    have := hplain kv hkv
    simp only [List.mem_cons, not_or] at this
    simpa using this.1
  simp only [buildComp, List.lookup_cons, beq_self_eq_true, hrest] at h
  simp only [hlk "transition_functions" (by simp), hlk "reward_functions" (by simp),
    hlk "terminating_functions" (by simp), hlk "reward_function" (by simp),
    hlk "distance_function" (by simp), hlk "visibility_function" (by simp), hlk "area" (by simp),
    hlk "object_type" (by simp), hlk "colors" (by simp), hcustom] at h
  simp only [Bool.not_true, Bool.false_eq_true, if_false, List.append_nil] at h
  cases hfc : factoryCheck (r.of kind) name (params.map (·.1)) with
  | error e => rw [hfc] at h; cases h
  | ok p =>
    obtain ⟨sig, sel⟩ := p
    rw [hfc] at h
    simp only [Except.ok.injEq] at h
    subst h
    obtain ⟨_, _, _, hsel, _⟩ := C17_factory_ok _ _ _ _ _ hfc
    subst hsel
    refine ⟨sig, ?_, rfl, by simp, filter_sel_eq params _⟩
    simp only [Comp.keys, keys_filter_sel]

/-- **values are carried verbatim.**  In a plain component every accepted keyword that was given is
bound to exactly the value given for it — whatever the value (`0`, `0.0`, `false`, `null` are values,
not "left out") — and nothing else is bound. -/
theorem C17_values_verbatim (r : Regs) (fuel : Nat) (kind : RegKind) (name : String) (params : List (String × Yaml))
    (hplain : ∀ kv ∈ params, kv.1 ∉ ["name", "transition_functions", "reward_functions", "terminating_functions",
      "reward_function", "distance_function", "visibility_function", "area", "object_type", "colors"])
    (hcustom : isCustom name = false) (n : String) (kws : List (String × Yaml)) (subs : List Comp)
    (h : buildComp r (fuel + 1) kind (.map (("name", .str name) :: params)) = .ok (.mk n kws subs)) :
    ∃ sig, sig ∈ r.of kind ∧ sig.name = name ∧
      ∀ k v, (k, v) ∈ kws ↔ ((k, v) ∈ params ∧ (k ∈ sig.required ∨ k ∈ sig.optional)) := by
  obtain ⟨sig, hfc, hc⟩ := C17_build_plain r fuel kind name params hplain hcustom _ h
  obtain ⟨hmem, hname, _⟩ := C17_factory_ok _ _ _ _ _ hfc
  obtain ⟨_, _, hk⟩ := hc
  refine ⟨sig, hmem, hname, ?_⟩
  intro k v
  rw [hk]
  simp [List.mem_filter]

/-- e.g. a living reward of `0.0` and an `absolute_counts` of `false` are what gets bound -/
example : (buildComp Gen.regs 3 .reward (.map [("name", .str "living_reward"), ("reward", .float 0 1)])).toOption.map
    (fun c => match c with | .mk _ kws _ => kws) = some [("reward", .float 0 1)] := by rfl

/-! ### groups of components keep every entry -/

theorem mapM_except_spec {α β ε} (f : α → Except ε β) : ∀ (l : List α) (r : List β), l.mapM f = .ok r →
    r.length = l.length ∧ ∀ (i : Nat) (h : i < l.length) (h' : i < r.length), f l[i] = .ok r[i] := by
  intro l
  induction l with
  | nil =>
    intro r h
    simp only [List.mapM_nil, pure, Except.pure, Except.ok.injEq] at h
    subst h
    exact ⟨rfl, fun i h => absurd h (by simp)⟩
  | cons a rest ih =>
    intro r h
    rw [List.mapM_cons] at h
    cases ha : f a with
    | error e => rw [ha] at h; cases h
    | ok b =>
      cases hr : List.mapM f rest with
      | error e => rw [ha, hr] at h; cases h
      | ok bs =>
        rw [ha, hr] at h
        simp only [bind, Except.bind, pure, Except.pure, Except.ok.injEq] at h
        subst h
        obtain ⟨hl, hp⟩ := ih bs hr
        refine ⟨by simp [hl], ?_⟩
        intro i hi hi'
        cases i with
        | zero => simpa using ha
        | succ j => simpa using hp j (by simpa using hi) (by simpa using hi')

/-- **a group keeps every listed entry.**  The summed rewards of a description are built entry by
entry, in the order written: the `reduce_sum` component has exactly the sub-components that the
entries build on their own — two entries naming the same function with other parameters stay two. -/
theorem C17_group_keeps_every_entry (r : Regs) (fuel : Nat) (l : List Yaml) (c : Comp)
    (hsig : r.reward.find? (fun s => s.name == "reduce_sum") = some ⟨"reduce_sum", ["reward_functions"], []⟩)
    (h : buildComp r (fuel + 1) .reward (.map [("name", .str "reduce_sum"), ("reward_functions", .list l)]) = .ok c) :
    ∃ subs, l.mapM (buildComp r fuel .reward) = .ok subs ∧
      (match c with | .mk n _ ss => n = "reduce_sum" ∧ ss = subs) := by
  have hrest : ([("name", Yaml.str "reduce_sum"), ("reward_functions", Yaml.list l)] : List (String × Yaml)).filter
      (fun kv => kv.1 != "name") = [("reward_functions", .list l)] := by
    simp +decide [List.filter]
  have hname : ([("name", Yaml.str "reduce_sum"), ("reward_functions", Yaml.list l)] : List (String × Yaml)).lookup "name"
      = some (.str "reduce_sum") := by simp [List.lookup]
  unfold buildComp at h
  simp only [hname, hrest] at h
  have l1 : ([("reward_functions", Yaml.list l)] : List (String × Yaml)).lookup "transition_functions" = none := by simp +decide [List.lookup]
  have l2 : ([("reward_functions", Yaml.list l)] : List (String × Yaml)).lookup "reward_functions" = some (.list l) := by simp [List.lookup]
  have l3 : ([("reward_functions", Yaml.list l)] : List (String × Yaml)).lookup "terminating_functions" = none := by simp +decide [List.lookup]
  have l4 : ([("reward_functions", Yaml.list l)] : List (String × Yaml)).lookup "reward_function" = none := by simp +decide [List.lookup]
  have l5 : ([("reward_functions", Yaml.list l)] : List (String × Yaml)).lookup "distance_function" = none := by simp +decide [List.lookup]
  have l6 : ([("reward_functions", Yaml.list l)] : List (String × Yaml)).lookup "visibility_function" = none := by simp +decide [List.lookup]
  have l7 : ([("reward_functions", Yaml.list l)] : List (String × Yaml)).lookup "area" = none := by simp +decide [List.lookup]
  have l8 : ([("reward_functions", Yaml.list l)] : List (String × Yaml)).lookup "object_type" = none := by simp +decide [List.lookup]
  have l9 : ([("reward_functions", Yaml.list l)] : List (String × Yaml)).lookup "colors" = none := by simp +decide [List.lookup]
  simp only [l1, l2, l3, l4, l5, l6, l7, l8, l9] at h
  cases hm : List.mapM (buildComp r fuel RegKind.reward) l with
  | error e => rw [hm] at h; cases h
  | ok s2 =>
    rw [hm] at h
    refine ⟨s2, rfl, ?_⟩
    have hc : isCustom "reduce_sum" = false := by decide
    have hfc : factoryCheck (r.of RegKind.reward) "reduce_sum" ["reward_functions"] =
        .ok (⟨"reduce_sum", ["reward_functions"], []⟩, ["reward_functions"]) := by
      simp +decide [factoryCheck, Regs.of, hsig]
    simp only [Bool.not_true, Bool.false_eq_true, if_false, hc, List.map, hfc] at h
    simp +decide at h
    subst h
    simp

theorem C17_group_entrywise (r : Regs) (fuel : Nat) (l : List Yaml) (n : String) (kws : List (String × Yaml)) (subs : List Comp)
    (hsig : r.reward.find? (fun s => s.name == "reduce_sum") = some ⟨"reduce_sum", ["reward_functions"], []⟩)
    (h : buildComp r (fuel + 1) .reward (.map [("name", .str "reduce_sum"), ("reward_functions", .list l)]) = .ok (.mk n kws subs)) :
    subs.length = l.length ∧ ∀ (i : Nat) (hi : i < l.length) (hi' : i < subs.length),
      buildComp r fuel .reward l[i] = .ok subs[i] := by
  obtain ⟨ss, hm, hc⟩ := C17_group_keeps_every_entry r fuel l _ hsig h
  obtain ⟨_, rfl⟩ := hc
  exact mapM_except_spec _ l subs hm

/-- the same for the chained transition functions (the order written is the order applied) and for the
tests of a `reduce_any` -/
theorem C17_chain_keeps_every_entry (r : Regs) (fuel : Nat) (l : List Yaml) (c : Comp)
    (hsig : r.transition.find? (fun s => s.name == "chain") = some ⟨"chain", ["transition_functions"], []⟩)
    (h : buildComp r (fuel + 1) .transition (.map [("name", .str "chain"), ("transition_functions", .list l)]) = .ok c) :
    ∃ subs, l.mapM (buildComp r fuel .transition) = .ok subs ∧
      (match c with | .mk n _ ss => n = "chain" ∧ ss = subs) := by
  have hrest : ([("name", Yaml.str "chain"), ("transition_functions", Yaml.list l)] : List (String × Yaml)).filter
      (fun kv => kv.1 != "name") = [("transition_functions", .list l)] := by
    simp +decide [List.filter]
  have hname : ([("name", Yaml.str "chain"), ("transition_functions", Yaml.list l)] : List (String × Yaml)).lookup "name"
      = some (.str "chain") := by simp [List.lookup]
  unfold buildComp at h
  simp only [hname, hrest] at h
  have l1 : ([("transition_functions", Yaml.list l)] : List (String × Yaml)).lookup "reward_functions" = none := by simp +decide [List.lookup]
  have l2 : ([("transition_functions", Yaml.list l)] : List (String × Yaml)).lookup "transition_functions" = some (.list l) := by simp [List.lookup]
  have l3 : ([("transition_functions", Yaml.list l)] : List (String × Yaml)).lookup "terminating_functions" = none := by simp +decide [List.lookup]
  have l4 : ([("transition_functions", Yaml.list l)] : List (String × Yaml)).lookup "reward_function" = none := by simp +decide [List.lookup]
  have l5 : ([("transition_functions", Yaml.list l)] : List (String × Yaml)).lookup "distance_function" = none := by simp +decide [List.lookup]
  have l6 : ([("transition_functions", Yaml.list l)] : List (String × Yaml)).lookup "visibility_function" = none := by simp +decide [List.lookup]
  have l7 : ([("transition_functions", Yaml.list l)] : List (String × Yaml)).lookup "area" = none := by simp +decide [List.lookup]
  have l8 : ([("transition_functions", Yaml.list l)] : List (String × Yaml)).lookup "object_type" = none := by simp +decide [List.lookup]
  have l9 : ([("transition_functions", Yaml.list l)] : List (String × Yaml)).lookup "colors" = none := by simp +decide [List.lookup]
  simp only [l1, l2, l3, l4, l5, l6, l7, l8, l9] at h
  cases hm : List.mapM (buildComp r fuel RegKind.transition) l with
  | error e => rw [hm] at h; cases h
  | ok s2 =>
    rw [hm] at h
    refine ⟨s2, rfl, ?_⟩
    have hc : isCustom "chain" = false := by decide
    have hfc : factoryCheck (r.of RegKind.transition) "chain" ["transition_functions"] =
        .ok (⟨"chain", ["transition_functions"], []⟩, ["transition_functions"]) := by
      simp +decide [factoryCheck, Regs.of, hsig]
    simp only [Bool.not_true, Bool.false_eq_true, if_false, hc, List.map, hfc] at h
    simp +decide at h
    subst h
    simp

theorem C17_reduce_any_keeps_every_entry (r : Regs) (fuel : Nat) (l : List Yaml) (c : Comp)
    (hsig : r.terminating.find? (fun s => s.name == "reduce_any") = some ⟨"reduce_any", ["terminating_functions"], []⟩)
    (h : buildComp r (fuel + 1) .terminating (.map [("name", .str "reduce_any"), ("terminating_functions", .list l)]) = .ok c) :
    ∃ subs, l.mapM (buildComp r fuel .terminating) = .ok subs ∧
      (match c with | .mk n _ ss => n = "reduce_any" ∧ ss = subs) := by
  have hrest : ([("name", Yaml.str "reduce_any"), ("terminating_functions", Yaml.list l)] : List (String × Yaml)).filter
      (fun kv => kv.1 != "name") = [("terminating_functions", .list l)] := by
    simp +decide [List.filter]
  have hname : ([("name", Yaml.str "reduce_any"), ("terminating_functions", Yaml.list l)] : List (String × Yaml)).lookup "name"
      = some (.str "reduce_any") := by simp [List.lookup]
  unfold buildComp at h
  simp only [hname, hrest] at h
  have l1 : ([("terminating_functions", Yaml.list l)] : List (String × Yaml)).lookup "transition_functions" = none := by simp +decide [List.lookup]
  have l2 : ([("terminating_functions", Yaml.list l)] : List (String × Yaml)).lookup "terminating_functions" = some (.list l) := by simp [List.lookup]
  have l3 : ([("terminating_functions", Yaml.list l)] : List (String × Yaml)).lookup "reward_functions" = none := by simp +decide [List.lookup]
  have l4 : ([("terminating_functions", Yaml.list l)] : List (String × Yaml)).lookup "reward_function" = none := by simp +decide [List.lookup]
  have l5 : ([("terminating_functions", Yaml.list l)] : List (String × Yaml)).lookup "distance_function" = none := by simp +decide [List.lookup]
  have l6 : ([("terminating_functions", Yaml.list l)] : List (String × Yaml)).lookup "visibility_function" = none := by simp +decide [List.lookup]
  have l7 : ([("terminating_functions", Yaml.list l)] : List (String × Yaml)).lookup "area" = none := by simp +decide [List.lookup]
  have l8 : ([("terminating_functions", Yaml.list l)] : List (String × Yaml)).lookup "object_type" = none := by simp +decide [List.lookup]
  have l9 : ([("terminating_functions", Yaml.list l)] : List (String × Yaml)).lookup "colors" = none := by simp +decide [List.lookup]
  simp only [l1, l2, l3, l4, l5, l6, l7, l8, l9] at h
  cases hm : List.mapM (buildComp r fuel RegKind.terminating) l with
  | error e => rw [hm] at h; cases h
  | ok s2 =>
    rw [hm] at h
    refine ⟨s2, rfl, ?_⟩
    have hc : isCustom "reduce_any" = false := by decide
    have hfc : factoryCheck (r.of RegKind.terminating) "reduce_any" ["terminating_functions"] =
        .ok (⟨"reduce_any", ["terminating_functions"], []⟩, ["terminating_functions"]) := by
      simp +decide [factoryCheck, Regs.of, hsig]
    simp only [Bool.not_true, Bool.false_eq_true, if_false, hc, List.map, hfc] at h
    simp +decide at h
    subst h
    simp

example : Gen.regs.transition.find? (fun s => s.name == "chain") = some ⟨"chain", ["transition_functions"], []⟩ ∧
    Gen.regs.terminating.find? (fun s => s.name == "reduce_any") = some ⟨"reduce_any", ["terminating_functions"], []⟩ := by decide

/-- the regenerated reward registry has that entry -/
example : Gen.regs.reward.find? (fun s => s.name == "reduce_sum") = some ⟨"reduce_sum", ["reward_functions"], []⟩ := by decide

/-! ### the shipped configurations, the packaged copies, the registered ids -/

/-- every shipped configuration validates and builds (statically) -/
theorem C17_shipped_build :
    Gen.shippedConfigs.all (fun c => isOkE (buildDesc Gen.regs c.2)) = true := by decide

/-- 21 files, each with a byte-identical packaged copy, and nothing else packaged -/
theorem C17_shipped_packaged :
    Gen.shippedConfigs.length = 21 ∧ Gen.packagedIdentical.all (·.2) = true ∧
    Gen.packagedFiles = Gen.shippedConfigs.map (·.1) := by decide

/-- every registered gym id points to a packaged (hence shipped) file, and every shipped file has
an id -/
theorem C17_registered_ids :
    Gen.registeredIds.all (fun kv => Gen.packagedFiles.contains kv.2) = true ∧
    Gen.packagedFiles.all (fun f => Gen.registeredIds.any (·.2 == f)) = true ∧
    (Gen.registeredIds.map (·.1)).eraseDups.length = Gen.registeredIds.length := by decide

/-- every shipped configuration uses only registered built-in components with all required
parameters given (no custom module) -/
theorem C17_shipped_components :
    Gen.shippedConfigs.all (fun c =>
      match buildDesc Gen.regs c.2 with
      | .ok d => (Gen.regs.reset.any fun s => match d.reset with | .mk n _ _ => s.name == n) &&
                 (match d.transition with | .mk n _ subs => n == "chain" && !subs.isEmpty) &&
                 (match d.reward with | .mk n _ subs => n == "reduce_sum" && !subs.isEmpty)
      | .error _ => false) = true := by decide

/-! ### non-vacuity -/
example : (factoryCheck Gen.regs.reward "reach_exit" ["reward_on", "colour", "reward_off"]).map (·.2) =
    .ok ["reward_on", "reward_off"] := by rfl
example : factoryCheck Gen.regs.reset "keydoor" [] = .error .valueError := by rfl

end GV
