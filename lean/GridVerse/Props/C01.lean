/-
  C01 — Every step from a valid state is a valid transition (closure and totality).

  "For any environment assembled from the built-in reset, transition, reward, observation and
  termination components, taking any action of the action space in any state of the declared state
  space (that meets the components' documented preconditions) returns, without raising, a next
  state that is again in the state space - same grid shape, only declared object types, agent
  inside the grid, held item of a declared type - together with a finite float reward and a boolean
  termination flag, and the observation of any such state lies in the declared observation space.
  Actions outside the action space are rejected with ValueError and change nothing. The
  space-membership predicates themselves accept exactly the states and observations that conform."

  Documented preconditions, made explicit: `Floor` is a declared type when `pickndrop` is part of
  the dynamics (it leaves Floor behind); the contents of boxes are (recursively) declared when
  `actuate_box` is; the distance rewards need exactly one object of their type and
  `reach_exit_memory` needs a beacon.  Rewards are finite sums of the (finite) parameters and
  parameter × integer-distance products.
-/
import GridVerse.Lemmas.Flat
import GridVerse.Lemmas.Premask
import GridVerse.Model.Env
import GridVerse.Props.C04
import GridVerse.Props.C08
import GridVerse.Agree.Objects
import GridVerse.Agree.Actions
set_option linter.unusedSimpArgs false
namespace GV

/-- declared type and colour; with `deep`, box contents recursively as well -/
def okObj (sp : StateSpace) (deep : Bool) : Obj → Bool
  | .box c => sp.kinds.contains .box && (!deep || okObj sp deep c)
  | o => sp.kinds.contains o.kind && colorOk sp.colors o.color

theorem okObj_shallow (sp : StateSpace) (deep : Bool) (o : Obj) (h : okObj sp deep o = true) :
    sp.kinds.contains o.kind = true ∧ colorOk sp.colors o.color = true := by
  cases o <;> simp_all [okObj, Obj.kind, Obj.color, colorOk]

theorem okObj_false_iff (sp : StateSpace) (o : Obj) :
    okObj sp false o = true ↔ (sp.kinds.contains o.kind = true ∧ colorOk sp.colors o.color = true) := by
  cases o <;> simp [okObj, Obj.kind, Obj.color, colorOk]

/-- a state that conforms to the space -/
structure Conf (sp : StateSpace) (deep : Bool) (s : State) : Prop where
  wf : s.grid.WF
  h : s.grid.h = sp.h
  w : s.grid.w = sp.w
  cells : ∀ q, s.grid.contains q = true → okObj sp deep (s.grid.at q) = true
  pos : s.grid.contains s.agent.pos = true
  held : s.agent.held = .noneObj ∨ okObj sp deep s.agent.held = true

/-- the membership predicate accepts exactly the conforming states (for rectangular grids — the
shape Python derives from the lists) -/
theorem C01_contains_iff (sp : StateSpace) (s : State) (hw : s.grid.WF) :
    sp.contains s = true ↔ Conf sp false s := by
  simp only [StateSpace.contains, Bool.and_eq_true, beq_iff_eq, Bool.or_eq_true]
  rw [Grid.flat_all_iff _ hw, Grid.flat_all_iff _ hw]
  constructor
  · rintro ⟨⟨⟨⟨⟨⟨e1, e2⟩, hk⟩, hc⟩, hp⟩, hh⟩, hhc⟩
    refine ⟨hw, e1, e2, fun q hq => (okObj_false_iff sp _).mpr ⟨hk q hq, hc q hq⟩, hp, ?_⟩
    rcases hh with h | h
    · left; revert h; cases s.agent.held <;> simp [Obj.kind]
    · right; exact (okObj_false_iff sp _).mpr ⟨h, hhc⟩
  · intro c
    refine ⟨⟨⟨⟨⟨⟨c.h, c.w⟩, fun q hq => ((okObj_false_iff sp _).mp (c.cells q hq)).1⟩,
      fun q hq => ((okObj_false_iff sp _).mp (c.cells q hq)).2⟩, c.pos⟩, ?_⟩, ?_⟩
    · rcases c.held with h | h
      · left; rw [h]; rfl
      · right; exact ((okObj_false_iff sp _).mp h).1
    · rcases c.held with h | h
      · rw [h]; rfl
      · exact ((okObj_false_iff sp _).mp h).2

theorem Conf.contains {sp : StateSpace} {deep : Bool} {s : State} (c : Conf sp deep s) :
    sp.contains s = true := by
  rw [C01_contains_iff sp s c.wf]
  exact ⟨c.wf, c.h, c.w, fun q hq => (okObj_false_iff sp _).mpr (okObj_shallow sp deep _ (c.cells q hq)),
    c.pos, c.held.imp id fun h => (okObj_false_iff sp _).mpr (okObj_shallow sp deep _ h)⟩

/-! ### closure of the dynamics -/

theorem conf_setP {sp : StateSpace} {deep : Bool} {s : State} (c : Conf sp deep s) (p : Pos) (o : Obj)
    (hp : s.grid.contains p = true) (ho : okObj sp deep o = true) (ag : Agent)
    (hpos : s.grid.contains ag.pos = true) (hheld : ag.held = .noneObj ∨ okObj sp deep ag.held = true) :
    Conf sp deep ⟨s.grid.setP p o, ag⟩ := by
  refine ⟨Grid.setP_WF _ c.wf _ _, c.h, c.w, ?_, by simpa using hpos, hheld⟩
  intro q hq
  simp only
  rw [Grid.at_setP _ c.wf _ _ hp]
  split
  · exact ho
  · exact c.cells q (by simpa using hq)

/-- every primitive transition maps conforming states to conforming states, for every action and
every random outcome -/
theorem C01_atom_closed (sp : StateSpace) (deep : Bool) (f : TransAtom)
    (hfloor : f = .pickndrop → sp.kinds.contains .floor = true)
    (hdeep : f = .actuateBox → deep = true)
    (s s' : State) (a : Action) (d d' : DrawSt) (c : Conf sp deep s) (h : f.run s a d = .ok (s', d')) :
    Conf sp deep s' := by
  cases f
  case moveAgent =>
    simp only [TransAtom.run, Except.ok.injEq, Prod.mk.injEq] at h
    obtain ⟨rfl, _⟩ := h
    unfold moveAgent; simp only []
    repeat' split
    all_goals first
      | exact c
      | exact ⟨c.wf, c.h, c.w, c.cells, by assumption, c.held⟩
  case turnAgent =>
    simp only [TransAtom.run, Except.ok.injEq, Prod.mk.injEq] at h
    obtain ⟨rfl, _⟩ := h
    unfold turnAgent
    cases a.turnOrient
    · exact c
    · exact ⟨c.wf, c.h, c.w, c.cells, c.pos, c.held⟩
  case pickndrop =>
    simp only [TransAtom.run, Except.ok.injEq, Prod.mk.injEq] at h
    obtain ⟨rfl, _⟩ := h
    rw [pickndrop_eq]
    split
    · rename_i hf
      obtain ⟨_, hc, _⟩ := hf
      apply conf_setP c _ _ hc
      · -- what is put down: the held object, or Floor for an empty hand
        unfold pndPut
        split
        · have hf := hfloor rfl
          simp only [List.contains_eq_mem, decide_eq_true_eq] at hf
          simp [okObj, Obj.kind, Obj.color, colorOk, hf]
        · rename_i hn
          rcases c.held with h0 | h0
          · rw [h0] at hn; simp [Obj.isKind, Obj.kind] at hn
          · exact h0
      · exact c.pos
      · -- what is picked up: the (conforming) object in front, or nothing
        simp only [pndHeld]
        split
        · right; exact c.cells _ hc
        · left; rfl
    · exact c
  case moveObstacles =>
    simp only [TransAtom.run, Except.ok.injEq] at h
    have : s' = (moveObstacles s d).1 := by rw [h]
    subst this
    have hshape := atom_run_shape .moveObstacles s (moveObstacles s d).1 a d (moveObstacles s d).2 c.wf
      (by simp only [TransAtom.run])
    refine ⟨hshape.1, by rw [hshape.2.1, c.h], by rw [hshape.2.2, c.w], ?_, ?_, c.held⟩
    · intro q hq
      have hq0 : s.grid.contains q = true := by
        simp only [Grid.contains, hshape.2.1, hshape.2.2] at hq ⊢; exact hq
      -- whatever kind shows up after the sweep was present before (counts are preserved)
      have hpres : ∀ o : Obj, (moveObstacles s d).1.grid.at q = o →
          ∃ q1, s.grid.contains q1 = true ∧ s.grid.at q1 = o := by
        intro o ho
        have hcnt := moveObstacles_count s d c.wf (fun x => x == o)
        have hpos : 0 < (moveObstacles s d).1.grid.count (fun x => x == o) :=
          (Grid.count_pos_iff _ hshape.1 _).mpr ⟨q, hq, by simp [ho]⟩
        rw [hcnt] at hpos
        obtain ⟨q1, hq1, he⟩ := (Grid.count_pos_iff _ c.wf _).mp hpos
        exact ⟨q1, hq1, by simpa using he⟩
      obtain ⟨q1, hq1, he⟩ := hpres _ rfl
      rw [← he]; exact c.cells q1 hq1
    · simp only [Grid.contains, hshape.2.1, hshape.2.2]; exact c.pos
  case actuateDoor =>
    simp only [TransAtom.run, Except.ok.injEq, Prod.mk.injEq] at h
    obtain ⟨rfl, _⟩ := h
    rcases actuateDoor_eq s a with ⟨⟨_, hc, c', hfire⟩, c'', hcol, he⟩ | ⟨_, he⟩ <;> rw [he]
    · apply conf_setP c _ _ hc _ _ c.pos c.held
      have hfront := c.cells _ hc
      rcases hfire with h1 | ⟨h1, _⟩ <;> rw [h1] at hfront hcol <;>
        simp only [Obj.color] at hcol <;> subst hcol <;>
        simpa [okObj, Obj.kind, Obj.color] using hfront
    · exact c
  case actuateBox =>
    simp only [TransAtom.run, Except.ok.injEq, Prod.mk.injEq] at h
    obtain ⟨rfl, _⟩ := h
    rcases actuateBox_eq s a with ⟨b, _, hc, hb, he⟩ | ⟨_, he⟩ <;> rw [he]
    · apply conf_setP c _ _ hc _ _ c.pos c.held
      have hfront := c.cells _ hc
      rw [hb] at hfront
      have hd := hdeep rfl
      subst hd
      simp only [okObj, Bool.and_eq_true, Bool.not_true, Bool.false_or] at hfront
      exact hfront.2
    · exact c
  case teleport =>
    obtain ⟨hg, _, hh, hp⟩ := teleport_ok s s' d d' h
    refine ⟨by rw [hg]; exact c.wf, by rw [hg]; exact c.h, by rw [hg]; exact c.w,
      by rw [hg]; exact c.cells, ?_, by rw [hh]; exact c.held⟩
    rw [hg]
    rcases hp with hp | ⟨t, _, _, hp⟩
    · rw [hp]; exact c.pos
    · simp only [teleportTargets, List.mem_filter, Grid.mem_positions] at hp
      exact hp.1

/-- the preconditions a chain of transitions puts on the space -/
def ChainPre (sp : StateSpace) (deep : Bool) (fs : List TransAtom) : Prop :=
  (TransAtom.pickndrop ∈ fs → sp.kinds.contains .floor = true) ∧ (TransAtom.actuateBox ∈ fs → deep = true)

/-- … hence every composition is closed *and total*: from a conforming state no built-in chain
raises, whatever the action and the random outcome -/
theorem C01_trans_closed (sp : StateSpace) (deep : Bool) (fs : List TransAtom) (hpre : ChainPre sp deep fs)
    (s : State) (a : Action) (d : DrawSt) (c : Conf sp deep s) :
    ∃ s' d', runChain fs s a d = .ok (s', d') ∧ Conf sp deep s' := by
  induction fs generalizing s d with
  | nil => exact ⟨s, d, rfl, c⟩
  | cons f fs ih =>
    have htot : ∃ s1 d1, f.run s a d = .ok (s1, d1) := by
      cases f
      case teleport =>
        simp only [TransAtom.run, teleport, Grid.pyGet_of_contains _ c.wf _ c.pos]
        split
        · split
          · exact ⟨_, _, rfl⟩
          · split <;> exact ⟨_, _, rfl⟩
        · exact ⟨_, _, rfl⟩
      all_goals exact ⟨_, _, rfl⟩
    obtain ⟨s1, d1, h1⟩ := htot
    have c1 := C01_atom_closed sp deep f (fun e => hpre.1 (by simp [e])) (fun e => hpre.2 (by simp [e]))
      s s1 a d d1 c h1
    obtain ⟨s', d', h2, c2⟩ := ih ⟨fun hm => hpre.1 (by simp [hm]), fun hm => hpre.2 (by simp [hm])⟩ s1 d1 c1
    exact ⟨s', d', by simp only [runChain, h1, h2], c2⟩

/-! ### totality of rewards and termination -/

/-- the documented preconditions of the reward components on a transition `(s, a, s')` -/
def RewAtom.PreOK (s s' : State) : RewAtom → Prop
  | .proportional _ k _ => ∃ p, uniquePos s'.grid k = .ok p
  | .gettingCloser _ k _ _ => (∃ p, uniquePos s.grid k = .ok p) ∧ (∃ p, uniquePos s'.grid k = .ok p)
  | .gettingCloserSP k _ _ => (∃ p, uniquePos s.grid k = .ok p) ∧ (∃ p, uniquePos s'.grid k = .ok p)
  | .reachExitMemory _ _ => ∃ bp, bp ∈ s'.grid.find fun b => b.isKind .beacon
  | _ => True

/-- every built-in reward component returns a value on conforming transitions -/
theorem C01_reward_total (sp : StateSpace) (deep : Bool) (f : RewAtom) (s : State) (a : Action) (s' : State)
    (c : Conf sp deep s) (c' : Conf sp deep s') (hpre : f.PreOK s s') : ∃ t, f.eval s a s' = .ok t := by
  have hget : s'.grid.pyGet s'.agent.pos = .ok (s'.grid.at s'.agent.pos) :=
    Grid.pyGet_of_contains _ c'.wf _ c'.pos
  cases f
  case overlap k on off => simp only [RewAtom.eval, rewOverlap, hget]; exact ⟨_, rfl⟩
  case living r => exact ⟨_, rfl⟩
  case reachExit on off => simp only [RewAtom.eval, rewOverlap, hget]; exact ⟨_, rfl⟩
  case bumpObstacle r => simp only [RewAtom.eval, rewOverlap, hget]; exact ⟨_, rfl⟩
  case proportional dist k per =>
    obtain ⟨p, hp⟩ := hpre
    cases dist <;> simp only [RewAtom.eval, hp] <;> exact ⟨_, rfl⟩
  case gettingCloser dist k cl fu =>
    obtain ⟨⟨p, hp⟩, ⟨p', hp'⟩⟩ := hpre
    simp only [RewAtom.eval, hp, hp']; exact ⟨_, rfl⟩
  case gettingCloserSP k cl fu =>
    obtain ⟨⟨p, hp⟩, ⟨p', hp'⟩⟩ := hpre
    simp only [RewAtom.eval, hp, hp']; exact ⟨_, rfl⟩
  case bumpWall r => exact ⟨_, rfl⟩
  case actuateDoor ro rc =>
    simp only [RewAtom.eval]
    by_cases ha : a = .actuate
    · by_cases hc : s.grid.contains s.agent.front = true
      · have hc' : s'.grid.contains s.agent.front = true := by
          simp only [Grid.contains, c'.h, c'.w] at hc ⊢
          simp only [Grid.contains, c.h, c.w] at hc
          exact hc
        simp only [ha, hc, if_true, Grid.pyGet_of_contains _ c'.wf _ hc']
        cases s.grid.at s.agent.front <;> first | exact ⟨_, rfl⟩ | skip
        cases s'.grid.at s.agent.front <;> exact ⟨_, rfl⟩
      · simp [ha, hc]
    · simp [ha]
  case pickndrop k pi dr => exact ⟨_, rfl⟩
  case reachExitMemory g b =>
    obtain ⟨bp, hbp⟩ := hpre
    simp only [RewAtom.eval, hget]
    cases hfind : (s'.grid.find fun b => b.isKind .beacon) with
    | nil => rw [hfind] at hbp; cases hbp
    | cons x xs => exact ⟨_, rfl⟩

theorem C01_rewards_total (sp : StateSpace) (deep : Bool) (fs : List RewAtom) (s : State) (a : Action)
    (s' : State) (c : Conf sp deep s) (c' : Conf sp deep s') (hpre : ∀ f ∈ fs, f.PreOK s s') :
    ∃ ts, rewParts fs s a s' = .ok ts ∧ ts.length = fs.length := by
  induction fs with
  | nil => exact ⟨[], rfl, rfl⟩
  | cons f fs ih =>
    obtain ⟨t, ht⟩ := C01_reward_total sp deep f s a s' c c' (hpre f (by simp))
    obtain ⟨ts, hts, hl⟩ := ih (fun g hg => hpre g (by simp [hg]))
    exact ⟨t :: ts, by simp [rewParts, ht, hts], by simp [hl]⟩

mutual
/-- every termination function, however nested, returns a Boolean on conforming next states -/
theorem C01_term_total (s : State) (a : Action) (s' : State)
    (hget : ∃ o, s'.grid.pyGet s'.agent.pos = .ok o) : (f : TermFn) → ∃ b, f.eval s a s' = .ok b
  | .overlap k => by obtain ⟨o, ho⟩ := hget; simp only [TermFn.eval, termOverlap, ho]; exact ⟨_, rfl⟩
  | .reachExit => by obtain ⟨o, ho⟩ := hget; simp only [TermFn.eval, termOverlap, ho]; exact ⟨_, rfl⟩
  | .bumpObstacle => by obtain ⟨o, ho⟩ := hget; simp only [TermFn.eval, termOverlap, ho]; exact ⟨_, rfl⟩
  | .bumpWall => ⟨_, rfl⟩
  | .any l => by
    obtain ⟨b, hb⟩ := C01_termAny_total s a s' hget l
    exact ⟨b, by simp [TermFn.eval, hb]⟩
  | .all l => by
    obtain ⟨b, hb⟩ := C01_termAll_total s a s' hget l
    exact ⟨b, by simp [TermFn.eval, hb]⟩
theorem C01_termAny_total (s : State) (a : Action) (s' : State)
    (hget : ∃ o, s'.grid.pyGet s'.agent.pos = .ok o) : (l : List TermFn) → ∃ b, TermFn.evalAny l s a s' = .ok b
  | [] => ⟨false, rfl⟩
  | f :: fs => by
    obtain ⟨b, hb⟩ := C01_term_total s a s' hget f
    obtain ⟨b2, hb2⟩ := C01_termAny_total s a s' hget fs
    cases b
    · exact ⟨b2, by simp [TermFn.evalAny, hb, hb2]⟩
    · exact ⟨true, by simp [TermFn.evalAny, hb]⟩
theorem C01_termAll_total (s : State) (a : Action) (s' : State)
    (hget : ∃ o, s'.grid.pyGet s'.agent.pos = .ok o) : (l : List TermFn) → ∃ b, TermFn.evalAll l s a s' = .ok b
  | [] => ⟨true, rfl⟩
  | f :: fs => by
    obtain ⟨b, hb⟩ := C01_term_total s a s' hget f
    obtain ⟨b2, hb2⟩ := C01_termAll_total s a s' hget fs
    cases b
    · exact ⟨false, by simp [TermFn.evalAll, hb]⟩
    · exact ⟨b2, by simp [TermFn.evalAll, hb, hb2]⟩
end

/-! ### the functional step -/

/-- From a conforming state, for any action of the action space, with the debug checks on or off,
`functional_step` returns: a conforming next state, one reward part per reward component, a
Boolean.  (Reward preconditions are required of the transition actually taken.) -/
theorem C01_step_closed (e : EnvSpec) (deep : Bool) (hpre : ChainPre e.stateSpace deep e.trans)
    (s : State) (a : Action) (d : DrawSt) (c : Conf e.stateSpace deep s) (ha : e.actions.contains a = true)
    (hrew : ∀ s', Conf e.stateSpace deep s' → ∀ f ∈ e.rewards, f.PreOK s s') :
    ∃ r, e.functionalStep s a d = .ok r ∧ Conf e.stateSpace deep r.next ∧
      r.reward.length = e.rewards.length := by
  obtain ⟨s', d', hrun, c'⟩ := C01_trans_closed e.stateSpace deep e.trans hpre s a d c
  obtain ⟨ts, hts, hl⟩ := C01_rewards_total e.stateSpace deep e.rewards s a s' c c' (hrew s' c')
  obtain ⟨b, hb⟩ := C01_term_total s a s' ⟨_, Grid.pyGet_of_contains _ c'.wf _ c'.pos⟩ e.term
  refine ⟨⟨s', ts, b, d'⟩, ?_, c', hl⟩
  simp [EnvSpec.functionalStep, c.contains, c'.contains, ha, hrun, hts, hb]

/-- actions outside the action space are rejected with ValueError … -/
theorem C01_bad_action (e : EnvSpec) (s : State) (a : Action) (d : DrawSt)
    (hs : e.debug = true → e.stateSpace.contains s = true) (ha : e.actions.contains a = false) :
    e.functionalStep s a d = .error .valueError := by
  unfold EnvSpec.functionalStep
  by_cases hd : e.debug = true
  · simp [hd, hs hd, ha]
  · have : e.debug = false := by simpa using hd
    simp [this, ha]

/-- … and change nothing on the stateful interface -/
theorem C01_bad_action_changes_nothing (e : EnvSpec) (m : Machine) (a : Action) (s : State)
    (hst : m.state = some s) (hs : e.debug = true → e.stateSpace.contains s = true)
    (ha : e.actions.contains a = false) :
    m.exec e (.step a) = (m, .err .valueError) := by
  simp [Machine.exec, hst, C01_bad_action e s a m.d hs ha]

/-- all states along any history of an environment whose reset conforms are conforming -/
theorem C01_history (e : EnvSpec) (deep : Bool) (hpre : ChainPre e.stateSpace deep e.trans)
    (acts : List Action) (s s' : State) (d d' : DrawSt) (c : Conf e.stateSpace deep s)
    (h : runHistory e.trans acts s d = .ok (s', d')) : Conf e.stateSpace deep s' := by
  induction acts generalizing s d with
  | nil => simp only [runHistory, Except.ok.injEq, Prod.mk.injEq] at h; obtain ⟨rfl, _⟩ := h; exact c
  | cons a as ih =>
    simp only [runHistory] at h
    obtain ⟨s1, d1, h1, c1⟩ := C01_trans_closed e.stateSpace deep e.trans hpre s a d c
    rw [h1] at h
    exact ih s1 d1 c1 h

/-! ### observations of conforming states lie in the observation space -/

/-- for any visibility function: when the observation space has the view's shape, declares the
state space's types and colours, and the view contains the agent's cell -/
theorem C01_obs_closed (sp : StateSpace) (osp : ObsSpace) (deep : Bool) (V : Grid → Pos → Except PyErr Mask)
    (s : State) (a : Area) (ha : a.WF) (c : Conf sp deep s) (o : Obs) (h : fromVisibility V s a = .ok o)
    (hh : osp.h = a.height) (hw : osp.w = a.width)
    (hk : ∀ k, sp.kinds.contains k = true → osp.kinds.contains k = true)
    (hc : ∀ col, colorOk sp.colors col = true → colorOk osp.colors col = true)
    (hy : a.ymin ≤ 0 ∧ 0 ≤ a.ymax) (hx : a.xmin ≤ 0 ∧ 0 ≤ a.xmax) :
    osp.contains o = true := by
  have hshape : o.grid.h = a.height ∧ o.grid.w = a.width ∧ o.grid.WF := by
    unfold fromVisibility at h; simp only at h
    split at h
    · cases h
    · cases h; exact ⟨(premask_shape s a ha).1, (premask_shape s a ha).2, Grid.tab_WF _ _ _⟩
  have hagent : o.agent = ⟨⟨-a.ymin, -a.xmin⟩, .F, s.agent.held⟩ := by
    unfold fromVisibility at h; simp only at h
    split at h
    · cases h
    · cases h; rfl
  have hcell : ∀ i j, i < a.height → j < a.width →
      o.grid.cell i j = .hidden ∨
      (s.grid.contains (viewWorld s a i j) = true ∧ o.grid.cell i j = s.grid.at (viewWorld s a i j)) := by
    intro i j hi hj
    unfold fromVisibility at h; simp only at h
    split at h
    · cases h
    · cases h
      simp only
      obtain ⟨e1, e2⟩ := premask_shape s a ha
      rw [applyMask_cell _ _ _ _ (by rw [e1]; exact hi) (by rw [e2]; exact hj)]
      split
      · rw [premask_cell s a ha i j hi hj]
        by_cases hcn : s.grid.contains (viewWorld s a i j) = true
        · right; exact ⟨hcn, rfl⟩
        · left
          have : s.grid.contains (s.agent.transform.act ⟨a.ymin + i, a.xmin + j⟩) = false := by
            simpa [viewWorld] using hcn
          exact Grid.at_of_not_contains _ _ this
      · left; rfl
  obtain ⟨e1, e2, owf⟩ := hshape
  simp only [ObsSpace.contains, Bool.and_eq_true, beq_iff_eq, decide_eq_true_eq, Bool.or_eq_true]
  rw [Grid.flat_all_iff _ owf, Grid.flat_all_iff _ owf]
  have hcells : ∀ q, o.grid.contains q = true →
      (o.grid.at q = .hidden ∨ ∃ q', s.grid.contains q' = true ∧ o.grid.at q = s.grid.at q') := by
    intro q hq
    rw [Grid.at_of_contains _ _ hq]
    rw [Grid.contains_iff, e1, e2] at hq
    rcases hcell q.y.toNat q.x.toNat (by omega) (by omega) with h1 | ⟨h1, h2⟩
    · exact Or.inl h1
    · exact Or.inr ⟨_, h1, h2⟩
  have hh1 : 0 < a.height := by simp only [Area.height]; have := ha.1; omega
  have hw1 : 0 < a.width := by simp only [Area.width]; have := ha.2; omega
  refine ⟨⟨⟨⟨⟨⟨⟨⟨⟨by rw [e1, hh], by rw [e2, hw]⟩, ?_⟩, ?_⟩, ?_⟩, ?_⟩, ?_⟩, ?_⟩, ?_⟩, ?_⟩
  · intro q hq
    simp only [Bool.or_eq_true, beq_iff_eq]
    rcases hcells q hq with h1 | ⟨q', hq', h1⟩
    · left; rw [h1]; rfl
    · right; rw [h1]; exact hk _ (okObj_shallow sp deep _ (c.cells q' hq')).1
  · intro q hq
    rcases hcells q hq with h1 | ⟨q', hq', h1⟩
    · rw [h1]; rfl
    · rw [h1]; exact hc _ (okObj_shallow sp deep _ (c.cells q' hq')).2
  · rw [hagent]; simp only; omega
  · rw [hagent, hh]; simp only [Area.height]; omega
  · rw [hagent]; simp only; omega
  · rw [hagent, hw]; simp only [Area.width]; omega
  · rw [hagent]; simp only
    rcases c.held with h0 | h0
    · left; rw [h0]; rfl
    · right; exact hk _ (okObj_shallow sp deep _ h0).1
  · rw [hagent]; simp only
    rcases c.held with h0 | h0
    · rw [h0]; rfl
    · exact hc _ (okObj_shallow sp deep _ h0).2

/-! ### non-vacuity: a conforming key-door state on an edge, facing outward -/
example :
    let sp : StateSpace := ⟨3, 3, [.wall, .floor, .exit, .door, .key], [.yellow]⟩
    let s : State := ⟨⟨3, 3, [[.floor, .key .yellow, .wall], [.floor, .door .locked .yellow, .exit .none],
      [.floor, .floor, .floor]]⟩, ⟨⟨0, 0⟩, .F, .key .yellow⟩⟩
    sp.contains s = true ∧ ChainPre sp false [.moveAgent, .turnAgent, .actuateDoor, .pickndrop] ∧
    (runChain [.moveAgent, .turnAgent, .actuateDoor, .pickndrop] s .moveF ⟨[], []⟩).toOption.map
      (fun r => r.1.agent.pos) = some ⟨0, 0⟩ := by
  refine ⟨by decide, ⟨fun _ => by decide, fun h => by simp at h⟩, by decide⟩

end GV
