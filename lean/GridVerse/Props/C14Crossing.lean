/-
  C13 / C14 for the `crossing` layout with wall rivers (continuation of Props/C13.lean, C14.lean).
-/
import GridVerse.Lemmas.Crossing
import GridVerse.Props.C13
set_option linter.unusedSimpArgs false
namespace GV

/-! ### the sampled rivers -/

theorem mem_pyRange2 (a b x : Int) : x ∈ pyRange2 a b ↔ ∃ k : Nat, k < ((b - a + 1) / 2).toNat ∧ x = a + 2 * (k : Int) := by
  simp only [pyRange2, List.mem_map, List.mem_range]
  constructor
  · rintro ⟨k, hk, rfl⟩; exact ⟨k, hk, rfl⟩
  · rintro ⟨k, hk, rfl⟩; exact ⟨k, hk, rfl⟩

theorem pyRange2_nodup (a b : Int) : (pyRange2 a b).Nodup := by
  unfold pyRange2 List.Nodup
  rw [List.pairwise_map]
  apply List.Pairwise.imp _ List.nodup_range
  intro i j hij h
  apply hij
  omega

/-- candidate rivers of one side of odd length `n ≥ 5`: the even coordinates in `[2, n-3]` -/
theorem pyRange2_bounds (n x : Int) (hn : n % 2 = 1) (hx : x ∈ pyRange2 2 (n - 2)) : 2 ≤ x ∧ x ≤ n - 3 ∧ x % 2 = 0 := by
  rw [mem_pyRange2] at hx
  obtain ⟨k, hk, rfl⟩ := hx
  omega

/-- `map snd` is injective on pairs with the same first component -/
theorem nodup_map_snd {l : List (Bool × Int)} (hnd : l.Nodup) (b : Bool) (hb : ∀ p ∈ l, p.1 = b) :
    (l.map Prod.snd).Nodup := by
  induction l with
  | nil => exact List.nodup_nil
  | cons p rest ih =>
    rw [List.nodup_cons] at hnd
    simp only [List.map_cons, List.nodup_cons, List.mem_map]
    refine ⟨?_, ih hnd.2 (fun q hq => hb q (List.mem_cons_of_mem _ hq))⟩
    rintro ⟨q, hq, hqs⟩
    apply hnd.1
    have h1 := hb p (List.mem_cons_self ..)
    have h2 := hb q (List.mem_cons_of_mem _ hq)
    have : q = p := by
      cases p; cases q; simp only at h1 h2 hqs; simp [h1, h2, hqs]
    exact this ▸ hq

/-- whatever the shuffle, the chosen rivers of one direction are fine -/
theorem rivers_ok (sh : Shape) (hh : sh.h % 2 = 1) (hw : sh.w % 2 = 1) (n : Nat) (d : DrawSt) :
    let rivers : List (Bool × Int) :=
      ((pyRange2 2 (sh.h - 2)).map fun i => (true, i)) ++ ((pyRange2 2 (sh.w - 2)).map fun j => (false, j))
    let chosen := (((drawShuffle rivers.length d).1.map fun i => rivers.getD i (true, 0))).take n
    RiversOK sh.h (sortInts ((chosen.filter fun r => r.1).map fun r => r.2)) ∧
    RiversOK sh.w (sortInts ((chosen.filter fun r => !r.1).map fun r => r.2)) := by
  intro rivers chosen
  have hrnd : rivers.Nodup := by
    rw [List.nodup_append]
    refine ⟨?_, ?_, ?_⟩
    · rw [List.Nodup, List.pairwise_map]
      apply List.Pairwise.imp _ (pyRange2_nodup _ _)
      intro a b hab h; exact hab (by simpa using h)
    · rw [List.Nodup, List.pairwise_map]
      apply List.Pairwise.imp _ (pyRange2_nodup _ _)
      intro a b hab h; exact hab (by simpa using h)
    · intro a ha b hb hab
      simp only [List.mem_map] at ha hb
      obtain ⟨_, _, rfl⟩ := ha
      obtain ⟨_, _, hb'⟩ := hb
      rw [← hb'] at hab
      simp at hab
  have hperm := shuffled_perm rivers (true, 0) d
  have hcnd : chosen.Nodup := (List.take_sublist _ _).nodup (hperm.nodup_iff.mpr hrnd)
  have hcmem : ∀ p ∈ chosen, p ∈ rivers := fun p hp => hperm.subset (List.mem_of_mem_take hp)
  constructor
  · refine ⟨sortInts_sorted _, ?_, ?_⟩
    · exact (sortInts_perm _).nodup_iff.mpr
        (nodup_map_snd (hcnd.filter _) true (fun p hp => by simpa using (List.mem_filter.mp hp).2))
    · intro x hx
      have hx' := (sortInts_perm _).subset hx
      simp only [List.mem_map, List.mem_filter] at hx'
      obtain ⟨p, ⟨hp, hp1⟩, rfl⟩ := hx'
      have := hcmem p hp
      simp only [rivers, List.mem_append, List.mem_map] at this
      rcases this with ⟨i, hi, rfl⟩ | ⟨j, _, rfl⟩
      · exact pyRange2_bounds sh.h i hh hi
      · simp at hp1
  · refine ⟨sortInts_sorted _, ?_, ?_⟩
    · exact (sortInts_perm _).nodup_iff.mpr
        (nodup_map_snd (hcnd.filter _) false (fun p hp => by simpa using (List.mem_filter.mp hp).2))
    · intro x hx
      have hx' := (sortInts_perm _).subset hx
      simp only [List.mem_map, List.mem_filter] at hx'
      obtain ⟨p, ⟨hp, hp1⟩, rfl⟩ := hx'
      have := hcmem p hp
      simp only [rivers, List.mem_append, List.mem_map] at this
      rcases this with ⟨i, _, rfl⟩ | ⟨j, hj, rfl⟩
      · simp at hp1
      · exact pyRange2_bounds sh.w j hw hj

theorem count_map_const {α : Type} (l : List α) (b c : Bool) :
    (l.map fun _ => b).count c = if b = c then l.length else 0 := by
  induction l with
  | nil => simp
  | cons x xs ih =>
    simp only [List.map_cons, List.count_cons, ih, List.length_cons]
    cases b <;> cases c <;> simp

/-- the shuffled path has one right step per vertical river and one down step per horizontal one -/
theorem path_counts (H V : List Int) (d : DrawSt) :
    let path0 := (V.map fun _ => true) ++ (H.map fun _ => false)
    let path := (drawShuffle path0.length d).1.map fun i => path0.getD i true
    path.count true = V.length ∧ path.count false = H.length := by
  intro path0 path
  have hperm : path.Perm path0 := shuffled_perm path0 true d
  have c1 : path0.count true = V.length := by
    simp only [path0, List.count_append, count_map_const]; simp
  have c2 : path0.count false = H.length := by
    simp only [path0, List.count_append, count_map_const]; simp
  exact ⟨by rw [hperm.count_eq, c1], by rw [hperm.count_eq, c2]⟩

/-! ### the reset -/

theorem mem_pyRange' (a b v : Int) : v ∈ pyRange a b ↔ a ≤ v ∧ v < b := by
  simp only [pyRange, mem_intRange]; omega

/-- drawing the rivers over the walled room -/
theorem cross_base (sh : Shape) (H V : List Int) (hh : 5 ≤ sh.h) (hw : 5 ≤ sh.w)
    (rh : RiversOK sh.h H) (rv : RiversOK sh.w V) :
    ∃ s0 d0 g1 g2, resetEmpty sh false false ⟨[], []⟩ = .ok (s0, d0) ∧
      drawAll s0.grid (cartesian H (pyRange 1 (sh.w - 1))) .wall = .ok g1 ∧
      drawAll g1 (cartesian (pyRange 1 (sh.h - 1)) V) .wall = .ok g2 ∧ CrossBase sh H V g2 := by
  obtain ⟨s0, d0, he0, ep, _, ⟨wf0, gh0, gw0, hat0⟩, _, _, _, _, hepfix⟩ :=
    C13_empty_wf sh false false ⟨[], []⟩ ⟨by omega, by omega⟩
  have hep := hepfix rfl
  have hc0 : ∀ q : Pos, 0 ≤ q.y → q.y ≤ sh.h - 1 → 0 ≤ q.x → q.x ≤ sh.w - 1 → s0.grid.contains q = true := by
    intro q a b c e; rw [Grid.contains_iff, gh0, gw0]; omega
  obtain ⟨g1, e1, wf1, gh1, gw1, hat1⟩ := drawAll_spec s0.grid wf0 (cartesian H (pyRange 1 (sh.w - 1))) .wall (by
    intro p hp
    rw [mem_cartesian', mem_pyRange'] at hp
    have := rh.mem p.y hp.1
    exact hc0 p (by omega) (by omega) (by omega) (by omega))
  have hc1 : ∀ q : Pos, g1.contains q = s0.grid.contains q := by
    intro q; simp [Grid.contains, gh1, gw1]
  obtain ⟨g2, e2, wf2, gh2, gw2, hat2⟩ := drawAll_spec g1 wf1 (cartesian (pyRange 1 (sh.h - 1)) V) .wall (by
    intro p hp
    rw [mem_cartesian', mem_pyRange'] at hp
    have := rv.mem p.x hp.2
    rw [hc1]
    exact hc0 p (by omega) (by omega) (by omega) (by omega))
  refine ⟨s0, d0, g1, g2, he0, e1, e2, wf2, by rw [gh2, gh1, gh0], by rw [gw2, gw1, gw0], ?_⟩
  intro q hq
  have hq0 : s0.grid.contains q = true := by
    rw [← hc1]; simpa [Grid.contains, gh2, gw2] using hq
  rw [hat2 q, hat1 q, hat0 q hq0, hep]
  simp only [mem_cartesian', mem_pyRange']
  unfold baseCell
  by_cases c2 : q.x ∈ V ∧ 1 ≤ q.y ∧ q.y ≤ sh.h - 2
  · have : (1 ≤ q.y ∧ q.y < sh.h - 1) ∧ q.x ∈ V := ⟨⟨c2.2.1, by omega⟩, c2.1⟩
    rw [if_pos this, if_pos (Or.inr c2)]
  · have : ¬ ((1 ≤ q.y ∧ q.y < sh.h - 1) ∧ q.x ∈ V) := by
      rintro ⟨⟨a, b⟩, c⟩; exact c2 ⟨c, a, by omega⟩
    rw [if_neg this]
    by_cases c1 : q.y ∈ H ∧ 1 ≤ q.x ∧ q.x ≤ sh.w - 2
    · have : q.y ∈ H ∧ 1 ≤ q.x ∧ q.x < sh.w - 1 := ⟨c1.1, c1.2.1, by omega⟩
      rw [if_pos this, if_pos (Or.inl c1)]
    · have : ¬ (q.y ∈ H ∧ 1 ≤ q.x ∧ q.x < sh.w - 1) := by
        rintro ⟨a, b, c⟩; exact c1 ⟨a, b, by omega⟩
      have hno : ¬ ((q.y ∈ H ∧ 1 ≤ q.x ∧ q.x ≤ sh.w - 2) ∨ (q.x ∈ V ∧ 1 ≤ q.y ∧ q.y ≤ sh.h - 2)) := by
        rintro (h | h)
        · exact c1 h
        · exact c2 h
      rw [if_neg this, if_neg hno]

/-- the grid the loop starts from satisfies its invariant in the top-left room -/
theorem cross_inv_init {sh : Shape} {H V : List Int} {g2 : Grid} (b : CrossBase sh H V g2)
    (hh : 5 ≤ sh.h) (hw : 5 ≤ sh.w) (rh : RiversOK sh.h H) (rv : RiversOK sh.w V) :
    CrossInv sh H V g2 g2 0 0 := by
  refine ⟨b.wf, rfl, rfl, fun q h => h, ?_, fun q => Or.inl rfl⟩
  intro c hc
  have sH := limits_ok hh rh
  have sV := limits_ok hw rv
  have pH := getD_pair_mem (0 :: (H ++ [sh.h - 1])) 0 (by simp)
  have pV := getD_pair_mem (0 :: (V ++ [sh.w - 1])) 0 (by simp)
  have gH := pairwise_gap sH.gapped pH
  have gV := pairwise_gap sV.gapped pV
  unfold InRoom at hc
  simp only [Nat.zero_add, List.getD_cons_zero] at gH gV hc
  obtain ⟨c1, c2, c3, c4⟩ := hc
  apply conn_rect g2 1 ((0 :: (H ++ [sh.h - 1])).getD 1 0 - 1) 1 ((0 :: (V ++ [sh.w - 1])).getD 1 0 - 1)
  · intro q q1 q2 q3 q4
    apply cross_room_free b hh hw rh rv 0 0 (by simp) (by simp) q
    unfold InRoom
    simp only [Nat.zero_add, List.getD_cons_zero]
    omega
  · simp only; omega
  · omega

/-- what the reset computes: rivers, then the opened path ending in the last room -/
theorem crossing_reset (sh : Shape) (n : Int) (d : DrawSt)
    (hv : 5 ≤ sh.h ∧ sh.h % 2 = 1 ∧ 5 ≤ sh.w ∧ sh.w % 2 = 1 ∧ 0 < n) :
    ∃ s d' H V g2, resetCrossing sh n .wall d = .ok (s, d') ∧ RiversOK sh.h H ∧ RiversOK sh.w V ∧
      CrossBase sh H V g2 ∧ CrossInv sh H V g2 s.grid H.length V.length ∧
      s.agent = ⟨⟨1, 1⟩, .R, .noneObj⟩ := by
  obtain ⟨hh, hh2, hw, hw2, hn⟩ := hv
  have c1 : (decide (sh.h < 5) || sh.h % 2 == 0) = false := by
    have : (sh.h % 2 == 0) = false := by simp; omega
    simp [this]; omega
  have c2 : (decide (sh.w < 5) || sh.w % 2 == 0) = false := by
    have : (sh.w % 2 == 0) = false := by simp; omega
    simp [this]; omega
  have c3 : ¬ n ≤ 0 := by omega
  -- the sampled rivers
  generalize hrivers : (((pyRange2 2 (sh.h - 2)).map fun i => (true, i)) ++
    ((pyRange2 2 (sh.w - 2)).map fun j => (false, j)) : List (Bool × Int)) = rivers
  have hok := rivers_ok sh hh2 hw2 n.toNat d
  simp only [hrivers] at hok
  generalize hsh : drawShuffle rivers.length d = shuf at hok
  obtain ⟨perm, d1⟩ := shuf
  simp only at hok
  generalize hH : sortInts (((perm.map fun i => rivers.getD i (true, 0)).take n.toNat |>.filter fun r => r.1).map fun r => r.2) = H at hok
  generalize hV : sortInts (((perm.map fun i => rivers.getD i (true, 0)).take n.toNat |>.filter fun r => !r.1).map fun r => r.2) = V at hok
  obtain ⟨rh, rv⟩ := hok
  obtain ⟨s0, d0, g1, g2, he0, e1, e2, base⟩ := cross_base sh H V hh hw rh rv
  -- the shuffled path
  have hcnt := path_counts H V d1
  simp only at hcnt
  generalize hsh2 : drawShuffle ((V.map fun _ => true) ++ (H.map fun _ => false)).length d1 = shuf2 at hcnt
  obtain ⟨perm2, d2⟩ := shuf2
  have hcnt : (perm2.map fun i => ((V.map fun _ => true) ++ (H.map fun _ => false)).getD i true).count true = V.length ∧
      (perm2.map fun i => ((V.map fun _ => true) ++ (H.map fun _ => false)).getD i true).count false = H.length := hcnt
  obtain ⟨g3, d3, hrun, inv⟩ := crossingPath_spec base hh hw rh rv
    (perm2.map fun i => ((V.map fun _ => true) ++ (H.map fun _ => false)).getD i true) 0 0 g2 d2
    (by omega) (by omega) (cross_inv_init base hh hw rh rv)
  rw [hcnt.1, hcnt.2] at inv
  simp only [Nat.zero_add] at inv
  refine ⟨⟨g3, ⟨⟨1, 1⟩, .R, .noneObj⟩⟩, d3, H, V, g2, ?_, rh, rv, base, inv, rfl⟩
  simp only [resetCrossing, c1, c2, c3, Bool.false_eq_true, if_false, he0, hrivers, hsh, hH, hV, Kind.default?,
    e1, e2, hsh2, List.nil_append, List.cons_append, List.singleton_append]
  rw [hrun]

/-- the exit cell of a crossing state: in the last room, still holding the exit -/
theorem crossing_exit {sh : Shape} {H V : List Int} {g2 g : Grid} (hh : 5 ≤ sh.h) (hw : 5 ≤ sh.w)
    (rh : RiversOK sh.h H) (rv : RiversOK sh.w V) (base : CrossBase sh H V g2)
    (inv : CrossInv sh H V g2 g H.length V.length) :
    Conn g ⟨1, 1⟩ ⟨sh.h - 2, sh.w - 2⟩ ∧ g.at ⟨sh.h - 2, sh.w - 2⟩ = .exit .none ∧ g2.at ⟨sh.h - 2, sh.w - 2⟩ = .exit .none := by
  have sH := limits_ok hh rh
  have sV := limits_ok hw rv
  have pH := getD_pair_mem (0 :: (H ++ [sh.h - 1])) H.length (by simp)
  have pV := getD_pair_mem (0 :: (V ++ [sh.w - 1])) V.length (by simp)
  have lastH : (0 :: (H ++ [sh.h - 1])).getD (H.length + 1) 0 = sh.h - 1 := by simp [List.getD]
  have lastV : (0 :: (V ++ [sh.w - 1])).getD (V.length + 1) 0 = sh.w - 1 := by simp [List.getD]
  have gH := pairwise_gap sH.gapped pH
  have gV := pairwise_gap sV.gapped pV
  have bH := sH.bounds _ (pairwise_mem pH).1
  have bV := sV.bounds _ (pairwise_mem pV).1
  simp only at gH gV bH bV
  rw [lastH] at gH
  rw [lastV] at gV
  have hroom : InRoom (0 :: (H ++ [sh.h - 1])) (0 :: (V ++ [sh.w - 1])) H.length V.length ⟨sh.h - 2, sh.w - 2⟩ := by
    refine ⟨?_, ?_, ?_, ?_⟩
    · simp only; omega
    · rw [lastH]; simp only; omega
    · simp only; omega
    · rw [lastV]; simp only; omega
  have fr2 := cross_room_free base hh hw rh rv H.length V.length (by simp) (by simp) _ hroom
  have hat2 : g2.at ⟨sh.h - 2, sh.w - 2⟩ = .exit .none := by
    rw [base.cell _ fr2.1]
    have hno : ¬ (((⟨sh.h - 2, sh.w - 2⟩ : Pos).y ∈ H ∧ 1 ≤ (⟨sh.h - 2, sh.w - 2⟩ : Pos).x ∧ (⟨sh.h - 2, sh.w - 2⟩ : Pos).x ≤ sh.w - 2) ∨
        ((⟨sh.h - 2, sh.w - 2⟩ : Pos).x ∈ V ∧ 1 ≤ (⟨sh.h - 2, sh.w - 2⟩ : Pos).y ∧ (⟨sh.h - 2, sh.w - 2⟩ : Pos).y ≤ sh.h - 2)) := by
      rintro (⟨h, _⟩ | ⟨h, _⟩)
      · have := rh.mem _ h; simp only at this; omega
      · have := rv.mem _ h; simp only at this; omega
    rw [if_neg hno]; unfold baseCell; rw [if_pos rfl]
  refine ⟨inv.conn _ hroom, ?_, hat2⟩
  rcases inv.kinds ⟨sh.h - 2, sh.w - 2⟩ with h | ⟨_, h, _⟩
  · rw [h, hat2]
  · rw [hat2] at h; cases h

/-- **C14 (`crossing`).**  For every odd shape of at least 5×5, every positive river count and every
stream of draws, with wall rivers: the reset succeeds and the exit can be reached from the agent's
cell (through the openings of the sampled path). -/
theorem C14_crossing (sh : Shape) (n : Int) (d : DrawSt)
    (hv : 5 ≤ sh.h ∧ sh.h % 2 = 1 ∧ 5 ≤ sh.w ∧ sh.w % 2 = 1 ∧ 0 < n)
    (rest : List TransAtom) (pr : PlainRest rest) :
    ∃ s d', resetCrossing sh n .wall d = .ok (s, d') ∧
      Reaches (.moveAgent :: rest) (stopOf .reachExit) goalExit s := by
  obtain ⟨s, d', H, V, g2, he, rh, rv, base, inv, hag⟩ := crossing_reset sh n d hv
  refine ⟨s, d', he, ?_⟩
  obtain ⟨conn, hat, _⟩ := crossing_exit hv.1 hv.2.2.1 rh rv base inv
  have := conn_reaches rest pr s.grid inv.wf ⟨sh.h - 2, sh.w - 2⟩ (by rw [hat]; rfl) ⟨1, 1⟩ conn
    (Or.inl (by rw [Ne, Pos.ext_iff']; simp only; omega)) .R .noneObj
  have hs : s = ⟨s.grid, ⟨⟨1, 1⟩, .R, .noneObj⟩⟩ := by cases s; simp only at hag; rw [hag]
  rw [hs]; exact this

/-- **C13 (`crossing`), structure.**  The state is well formed: declared shape, closed wall boundary,
walls / floor and the single exit in the far interior corner, the agent empty-handed at (1, 1) facing
right on a floor cell. -/
theorem C13_crossing_wf (sh : Shape) (n : Int) (d : DrawSt)
    (hv : 5 ≤ sh.h ∧ sh.h % 2 = 1 ∧ 5 ≤ sh.w ∧ sh.w % 2 = 1 ∧ 0 < n) :
    ∃ s d', resetCrossing sh n .wall d = .ok (s, d') ∧
      s.grid.WF ∧ s.grid.h = sh.h.toNat ∧ s.grid.w = sh.w.toNat ∧
      s.agent = ⟨⟨1, 1⟩, .R, .noneObj⟩ ∧ s.grid.at ⟨1, 1⟩ = .floor ∧
      (∀ q, s.grid.contains q = true → onBorder sh.h.toNat sh.w.toNat q → s.grid.at q = .wall) ∧
      s.grid.at ⟨sh.h - 2, sh.w - 2⟩ = .exit .none ∧
      (∀ q, s.grid.contains q = true → q ≠ ⟨sh.h - 2, sh.w - 2⟩ → s.grid.at q = .wall ∨ s.grid.at q = .floor) := by
  obtain ⟨s, d', H, V, g2, he, rh, rv, base, inv, hag⟩ := crossing_reset sh n d hv
  obtain ⟨hh, _, hw, _, _⟩ := hv
  obtain ⟨_, hatE, hat2E⟩ := crossing_exit hh hw rh rv base inv
  have hc : ∀ q, s.grid.contains q = g2.contains q := by
    intro q; simp [Grid.contains, inv.gh, inv.gw]
  -- every cell of the river grid is a wall, floor, or the exit
  have k2 : ∀ q, g2.contains q = true → (g2.at q = .wall ∨ g2.at q = .floor ∨ (q = ⟨sh.h - 2, sh.w - 2⟩ ∧ g2.at q = .exit .none)) ∧
      (onBorder sh.h.toNat sh.w.toNat q → g2.at q = .wall) := by
    intro q hq
    rw [base.cell q hq]
    have hq' : 0 ≤ q.y ∧ q.y < sh.h ∧ 0 ≤ q.x ∧ q.x < sh.w := by
      rw [Grid.contains_iff, base.gh, base.gw] at hq; omega
    by_cases hr : (q.y ∈ H ∧ 1 ≤ q.x ∧ q.x ≤ sh.w - 2) ∨ (q.x ∈ V ∧ 1 ≤ q.y ∧ q.y ≤ sh.h - 2)
    · rw [if_pos hr]; exact ⟨Or.inl rfl, fun _ => rfl⟩
    · rw [if_neg hr]
      unfold baseCell
      by_cases he' : q = ⟨sh.h - 2, sh.w - 2⟩
      · rw [if_pos he']
        refine ⟨Or.inr (Or.inr ⟨he', rfl⟩), ?_⟩
        intro hb; exfalso; rw [he'] at hb; unfold onBorder at hb; simp only at hb; omega
      · rw [if_neg he']
        by_cases hb : onBorder sh.h.toNat sh.w.toNat q
        · rw [if_pos hb]; exact ⟨Or.inl rfl, fun _ => rfl⟩
        · rw [if_neg hb]; exact ⟨Or.inr (Or.inl rfl), fun h => absurd h hb⟩
  have h11 : s.grid.at ⟨1, 1⟩ = .floor := by
    have fr := cross_room_free base hh hw rh rv 0 0 (by simp) (by simp) ⟨1, 1⟩ (by
      have sH := limits_ok hh rh
      have sV := limits_ok hw rv
      have gH := pairwise_gap sH.gapped (getD_pair_mem (0 :: (H ++ [sh.h - 1])) 0 (by simp))
      have gV := pairwise_gap sV.gapped (getD_pair_mem (0 :: (V ++ [sh.w - 1])) 0 (by simp))
      unfold InRoom
      simp only [Nat.zero_add, List.getD_cons_zero] at gH gV ⊢
      omega)
    have h2 : g2.at ⟨1, 1⟩ = .floor := by
      rcases (k2 _ fr.1).1 with h | h | ⟨h, _⟩
      · have := fr.2; rw [h] at this; cases this
      · exact h
      · rw [Pos.ext_iff'] at h; simp only at h; omega
    rcases inv.kinds ⟨1, 1⟩ with h | ⟨h, _, _⟩
    · rw [h, h2]
    · exact h
  refine ⟨s, d', he, inv.wf, by rw [inv.gh, base.gh], by rw [inv.gw, base.gw], hag, h11, ?_, hatE, ?_⟩
  · intro q hq hb
    rw [hc] at hq
    rcases inv.kinds q with h | ⟨_, _, hi⟩
    · rw [h]; exact (k2 q hq).2 hb
    · exact absurd hb hi.not_border
  · intro q hq hne
    rw [hc] at hq
    rcases inv.kinds q with h | ⟨h, _, _⟩
    · rw [h]
      rcases (k2 q hq).1 with h' | h' | ⟨h', _⟩
      · exact Or.inl h'
      · exact Or.inr h'
      · exact absurd h' hne
    · exact Or.inr h

/-- … and the parameter checks reject everything else whatever the stream -/
theorem C13_crossing_rejects (sh : Shape) (n : Int) (k : Kind) (d : DrawSt)
    (hbad : sh.h < 5 ∨ sh.h % 2 = 0 ∨ sh.w < 5 ∨ sh.w % 2 = 0 ∨ n ≤ 0) :
    resetCrossing sh n k d = .error .valueError := by
  unfold resetCrossing
  by_cases c1 : sh.h < 5 ∨ sh.h % 2 = 0
  · have : (decide (sh.h < 5) || sh.h % 2 == 0) = true := by simpa using c1
    simp [this]
  · have c1' : (decide (sh.h < 5) || sh.h % 2 == 0) = false := by
      simp only [Bool.or_eq_false_iff, decide_eq_false_iff_not, beq_eq_false_iff_ne]; omega
    by_cases c2 : sh.w < 5 ∨ sh.w % 2 = 0
    · have : (decide (sh.w < 5) || sh.w % 2 == 0) = true := by simpa using c2
      simp [c1', this]
    · have c2' : (decide (sh.w < 5) || sh.w % 2 == 0) = false := by
        simp only [Bool.or_eq_false_iff, decide_eq_false_iff_not, beq_eq_false_iff_ne]; omega
      have hn : n ≤ 0 := by omega
      simp [c1', c2', hn]

end GV
