/-
  C01 / C15 "in particular … every trajectory of every shipped environment".

  `Generated/Envs.lean` is regenerated from the shipped YAML files on every run: for each shipped
  environment its declared state space, its reset function with the parameter values written in the
  file (for the room layouts: with the split vectors numpy computes), and its chain of transition
  functions.  The Boolean `ShippedEnv.ok` collects the decidable side conditions of the reset
  theorems (Props/C01Resets.lean) and of the closure theorem (`ChainPre`); `decide` checks it for all
  21 files.  The conclusion is unbounded: for every stream of draws and every sequence of actions,
  whatever the random outcomes, the run does not raise and every state along it is in the declared
  state space.
-/
import GridVerse.Props.C01Resets
import GridVerse.Props.C15
import GridVerse.Generated.Envs
set_option linter.unusedSimpArgs false
set_option linter.unusedVariables false
namespace GV

/-- the decidable side conditions: the space has the reset function's shape and declares the kinds
and colours it uses; the parameters are in the range the reset theorems cover; the chain's
preconditions on the space hold -/
def Gen.ShippedEnv.ok (e : Gen.ShippedEnv) : Bool :=
  let sub (ks : List Kind) : Bool := ks.all fun k => e.space.kinds.contains k
  let subc (cs : List Color) : Bool := cs.all fun c => e.space.colors.contains c
  let dims (sh : Shape) : Bool := e.space.h == sh.h.toNat && e.space.w == sh.w.toNat
  let chain : Bool := (!e.trans.contains .pickndrop || e.space.kinds.contains .floor) && !e.trans.contains .actuateBox
  chain && match e.reset with
  | .empty sh _ _ => dims sh && sub [.wall, .floor, .exit]
  | .rooms sh _ _ ys xs =>
    dims sh && sub [.wall, .floor, .exit] && decide (4 ≤ sh.h ∧ 3 ≤ sh.w) && splitsOKb sh.h ys && splitsOKb sh.w xs
  | .dynamicObstacles sh _ _ => dims sh && sub [.wall, .floor, .exit, .obstacle]
  | .keydoor sh => dims sh && sub [.wall, .floor, .exit, .key, .door] && subc [.yellow]
  | .crossing sh _ k => dims sh && sub [.wall, .floor, .exit] && k == .wall
  | .teleport sh => dims sh && sub [.wall, .floor, .exit, .telepod] && subc [.red]
  | .memory sh cs => dims sh && sub [.wall, .floor, .exit, .beacon] && subc cs && decide cs.Nodup
  | .memoryRooms sh _ _ ys xs cs _ _ =>
    dims sh && sub [.wall, .floor, .exit, .beacon] && subc cs && decide cs.Nodup &&
      decide (0 ≤ sh.h ∧ 0 ≤ sh.w) && splitsOKb sh.h ys && splitsOKb sh.w xs

theorem sub_of_all {ks : List Kind} {l : List Kind} (h : (ks.all fun k => l.contains k) = true) : ∀ k ∈ ks, k ∈ l := by
  intro k hk
  have := List.all_eq_true.mp h k hk
  simpa using this

theorem subc_of_all {cs : List Color} {l : List Color} (h : (cs.all fun c => l.contains c) = true) : ∀ c ∈ cs, c ∈ l := by
  intro c hc
  have := List.all_eq_true.mp h c hc
  simpa using this

/-- whatever the reset function of an `ok` environment returns conforms to the declared space -/
theorem reset_conf_of_ok (e : Gen.ShippedEnv) (hok : e.ok = true) (d : DrawSt) (s : State) (d' : DrawSt)
    (he : e.reset.run d = .ok (s, d')) : Conf e.space false s := by
  unfold Gen.ShippedEnv.ok at hok
  simp only [Bool.and_eq_true] at hok
  obtain ⟨_, hr⟩ := hok
  have dimsE : ∀ sh : Shape, ((e.space.h == sh.h.toNat) = true ∧ (e.space.w == sh.w.toNat) = true) →
      e.space.h = sh.h.toNat ∧ e.space.w = sh.w.toNat := by
    intro sh h; simpa using h
  cases hrs : e.reset with
  | empty sh ra re =>
    rw [hrs] at hr he
    simp only [Bool.and_eq_true] at hr
    obtain ⟨hd, hs⟩ := hr
    obtain ⟨eh, ew⟩ := dimsE sh hd
    have u := empty_uses sh ra re d s d' he
    rw [← eh, ← ew] at u
    exact u.conf e.space false (sub_of_all hs) (by intro c hc; cases hc) (by decide)
  | rooms sh lh lw ys xs =>
    rw [hrs] at hr he
    simp only [Bool.and_eq_true, decide_eq_true_eq] at hr
    obtain ⟨⟨⟨⟨hd, hs⟩, hv⟩, sy⟩, sx⟩ := hr
    obtain ⟨eh, ew⟩ := dimsE sh hd
    have u := rooms_uses sh lh lw ys xs d hv ((splitsOKb_iff _ _).mp sy) ((splitsOKb_iff _ _).mp sx) s d' he
    rw [← eh, ← ew] at u
    exact u.conf e.space false (sub_of_all hs) (by intro c hc; cases hc) (by decide)
  | dynamicObstacles sh n ra =>
    rw [hrs] at hr he
    simp only [Bool.and_eq_true] at hr
    obtain ⟨hd, hs⟩ := hr
    obtain ⟨eh, ew⟩ := dimsE sh hd
    have u := dynamicObstacles_uses sh n ra d s d' he
    rw [← eh, ← ew] at u
    exact u.conf e.space false (sub_of_all hs) (by intro c hc; cases hc) (by decide)
  | keydoor sh =>
    rw [hrs] at hr he
    simp only [Bool.and_eq_true] at hr
    obtain ⟨⟨hd, hs⟩, hc⟩ := hr
    obtain ⟨eh, ew⟩ := dimsE sh hd
    have u := keydoor_uses sh d s d' he
    rw [← eh, ← ew] at u
    exact u.conf e.space false (sub_of_all hs) (subc_of_all hc) (by decide)
  | crossing sh n k =>
    rw [hrs] at hr he
    simp only [Bool.and_eq_true] at hr
    obtain ⟨⟨hd, hs⟩, hk⟩ := hr
    have hk' : k = .wall := by simpa using hk
    subst hk'
    obtain ⟨eh, ew⟩ := dimsE sh hd
    have u := crossing_uses sh n d s d' he
    rw [← eh, ← ew] at u
    exact u.conf e.space false (sub_of_all hs) (by intro c hc; cases hc) (by decide)
  | teleport sh =>
    rw [hrs] at hr he
    simp only [Bool.and_eq_true] at hr
    obtain ⟨⟨hd, hs⟩, hc⟩ := hr
    obtain ⟨eh, ew⟩ := dimsE sh hd
    have u := teleport_uses sh d s d' he
    rw [← eh, ← ew] at u
    exact u.conf e.space false (sub_of_all hs) (subc_of_all hc) (by decide)
  | memory sh cs =>
    rw [hrs] at hr he
    simp only [Bool.and_eq_true, decide_eq_true_eq] at hr
    obtain ⟨⟨⟨hd, hs⟩, hc⟩, hnd⟩ := hr
    obtain ⟨eh, ew⟩ := dimsE sh hd
    have u := memory_uses sh cs d hnd s d' he
    rw [← eh, ← ew] at u
    exact u.conf e.space false (sub_of_all hs) (subc_of_all hc) (by decide)
  | memoryRooms sh lh lw ys xs cs nb ne =>
    rw [hrs] at hr he
    simp only [Bool.and_eq_true, decide_eq_true_eq] at hr
    obtain ⟨⟨⟨⟨⟨⟨hd, hs⟩, hc⟩, hnd⟩, hpos⟩, sy⟩, sx⟩ := hr
    obtain ⟨eh, ew⟩ := dimsE sh hd
    have u := memoryRooms_uses sh lh lw ys xs cs nb ne d hpos.1 hpos.2 ((splitsOKb_iff _ _).mp sy)
      ((splitsOKb_iff _ _).mp sx) hnd s d' he
    rw [← eh, ← ew] at u
    exact u.conf e.space false (sub_of_all hs) (subc_of_all hc) (by decide)

theorem chainPre_of_ok (e : Gen.ShippedEnv) (hok : e.ok = true) : ChainPre e.space false e.trans := by
  unfold Gen.ShippedEnv.ok at hok
  simp only [Bool.and_eq_true, Bool.or_eq_true, Bool.not_eq_true'] at hok
  obtain ⟨⟨hp, hb⟩, _⟩ := hok
  constructor
  · intro hm
    rcases hp with h | h
    · have : e.trans.contains TransAtom.pickndrop = true := by simpa using hm
      rw [h] at this; cases this
    · exact h
  · intro hm
    have : e.trans.contains TransAtom.actuateBox = true := by simpa using hm
    rw [hb] at this; cases this

/-- every run from a conforming state stays conforming and never raises -/
theorem history_total (sp : StateSpace) (fs : List TransAtom) (hpre : ChainPre sp false fs) (acts : List Action)
    (s : State) (d : DrawSt) (c : Conf sp false s) :
    ∃ s2 d2, runHistory fs acts s d = .ok (s2, d2) ∧ Conf sp false s2 := by
  induction acts generalizing s d with
  | nil => exact ⟨s, d, rfl, c⟩
  | cons a as ih =>
    obtain ⟨s1, d1, e1, c1⟩ := C01_trans_closed sp false fs hpre s a d c
    obtain ⟨s2, d2, e2, c2⟩ := ih s1 d1 c1
    exact ⟨s2, d2, by simp only [runHistory, e1, e2], c2⟩

/-- the side conditions hold for every shipped environment (regenerated data) -/
theorem C01_shipped_side_conditions : Gen.shippedEnvs.all Gen.ShippedEnv.ok = true := by decide

/-- **C01 for the shipped environments.**  For each of them, every stream of draws and every sequence
of actions: if the reset returns a state, then the whole run is defined (no step raises) and ends —
hence passes only — in states of the declared state space, which the space's own membership
predicate accepts. -/
theorem C01_shipped_trajectories (e : Gen.ShippedEnv) (he : e ∈ Gen.shippedEnvs) (d : DrawSt) (s : State) (d' : DrawSt)
    (hr : e.reset.run d = .ok (s, d')) (acts : List Action) :
    ∃ s2 d2, runHistory e.trans acts s d' = .ok (s2, d2) ∧ Conf e.space false s2 ∧ e.space.contains s2 = true := by
  have hok : e.ok = true := List.all_eq_true.mp C01_shipped_side_conditions e he
  have c0 := reset_conf_of_ok e hok d s d' hr
  obtain ⟨s2, d2, h1, c2⟩ := history_total e.space e.trans (chainPre_of_ok e hok) acts s d' c0
  exact ⟨s2, d2, h1, c2, (C01_contains_iff e.space s2 c2.wf).mpr c2⟩


theorem shipped_big_enough : Gen.shippedEnvs.all (fun e => decide (2 ≤ e.space.h) && decide (2 ≤ e.space.w)) = true := by
  decide

/-- **C15 for the shipped environments.**  At every point of every run (any draws, any actions) the
state converts, in each of the three encodings, into the representation's declared space. -/
theorem C15_shipped_trajectories (e : Gen.ShippedEnv) (he : e ∈ Gen.shippedEnvs) (d : DrawSt) (s : State) (d' : DrawSt)
    (hr : e.reset.run d = .ok (s, d')) (acts : List Action) (enc : Enc) (debug : Bool) :
    ∃ s2 d2 r, runHistory e.trans acts s d' = .ok (s2, d2) ∧ stateConvert enc e.space debug s2 = .ok r ∧
      (stateSpaceOf enc e.space).containsState r = true := by
  obtain ⟨s2, d2, h1, c2, h2⟩ := C01_shipped_trajectories e he d s d' hr acts
  have hb := List.all_eq_true.mp shipped_big_enough e he
  simp only [Bool.and_eq_true, decide_eq_true_eq] at hb
  obtain ⟨r, hr1, hr2⟩ := C15_state enc e.space debug s2 c2.wf h2 hb.1 hb.2
  exact ⟨s2, d2, r, h1, hr1, hr2⟩

/-- all 21 shipped files are covered -/
example : Gen.shippedEnvs.length = 21 := by decide

end GV
