/-
  C15 — Numeric representations always lie inside their declared spaces.

  "For every state or observation space and each representation (default, no-overlap, compact),
  converting any member state or observation yields, key by key, arrays whose shape, dtype and
  bounds satisfy the representation's declared space, and the same holds for the spaces advertised
  at the gym layer. In particular this holds at every step of every trajectory of every shipped
  environment."

  dtype: the `grid`, `agent_id_grid`, `item` arrays are integer lists in the model and the `agent`
  array is a list of fractions, matching the categorical / discrete / continuous space types; that
  numpy produces `int64` / `float64` arrays is checked by the correspondence (`Space.contains`
  evaluated on every converted array).
-/
import GridVerse.Lemmas.Repr
import GridVerse.Agree.Objects
set_option linter.unusedSimpArgs false
namespace GV

theorem objInBounds_three (u1 u2 u3 v1 v2 v3 : Int) (h1 : 0 ≤ v1 ∧ v1 ≤ u1) (h2 : 0 ≤ v2 ∧ v2 ≤ u2)
    (h3 : 0 ≤ v3 ∧ v3 ≤ u3) : objInBounds [u1, u2, u3] [v1, v2, v3] = true := by
  simp [objInBounds, h1.1, h1.2, h2.1, h2.2, h3.1, h3.2]

/-- every object whose type and colour belong to the representation's sets encodes within the
declared bounds — default and no-overlap encodings -/
theorem C15_obj_default (c : ReprCtx) (o : Obj) (hk : o.kind ∈ c.kinds) (hc : o.color ∈ c.colors) :
    ∃ v, objConvert .default c o = .ok v ∧ objInBounds (objUpper .default c) v = true := by
  obtain ⟨h1, h2, h3⟩ := c.bounds o hk hc
  refine ⟨_, rfl, ?_⟩
  apply objInBounds_three <;> constructor <;> omega

theorem C15_obj_noOverlap (c : ReprCtx) (o : Obj) (hk : o.kind ∈ c.kinds) (hc : o.color ∈ c.colors) :
    ∃ v, objConvert .noOverlap c o = .ok v ∧ objInBounds (objUpper .noOverlap c) v = true := by
  obtain ⟨h1, h2, h3⟩ := c.bounds o hk hc
  refine ⟨_, rfl, ?_⟩
  apply objInBounds_three <;> constructor <;> omega

theorem compactType_bounds (c : ReprCtx) (k : Kind) (hk : k ∈ c.kinds) :
    0 ≤ c.compactType k ∧ c.compactType k ≤ (c.sortedKinds.length : Int) - 1 := by
  obtain ⟨i, hi, hlt, _⟩ := indexOf?_mem c.sortedKinds k ((mem_sortedKinds c k).mpr hk)
  simp only [ReprCtx.compactType, hi]
  omega

theorem compactState_bounds (c : ReprCtx) (k : Kind) (j : Nat) (hk : k ∈ c.kinds) (hj : j < k.numStates) :
    0 ≤ c.compactState k j ∧
    c.compactState k j ≤ ((c.sortedKinds.length + c.totalStates : Nat) : Int) - 1 ∧ 0 < c.totalStates := by
  have hm := (mem_sortedKinds c k).mpr hk
  have hsum := sum_takeWhile_add_le c.sortedKinds k hm
  have : c.sortedKinds.contains k = true := by simpa using hm
  simp only [ReprCtx.compactState, this, hj, decide_true, Bool.and_self, if_true,
    ReprCtx.statesBefore, ReprCtx.totalStates]
  refine ⟨by omega, ?_, by omega⟩
  have : c.sortedKinds.length + ((c.sortedKinds.takeWhile fun x => x != k).map Kind.numStates).sum + j
      < c.sortedKinds.length + (c.sortedKinds.map Kind.numStates).sum := by omega
  omega

theorem compactColor_bounds (c : ReprCtx) (col : Color) (hc : col ∈ c.colors) :
    0 ≤ c.compactColor col ∧
    c.compactColor col ≤
      ((c.sortedKinds.length + c.totalStates + c.sortedColors.length : Nat) : Int) - 1 ∧
    0 < c.sortedColors.length := by
  obtain ⟨i, hi, hlt, _⟩ := indexOf?_mem c.sortedColors col ((mem_sortedColors c col).mpr hc)
  simp only [ReprCtx.compactColor, hi]
  refine ⟨by omega, ?_, by omega⟩
  have : c.sortedKinds.length + c.totalStates + i < c.sortedKinds.length + c.totalStates + c.sortedColors.length := by
    omega
  omega

/-- … and the compact encoding -/
theorem C15_obj_compact (c : ReprCtx) (o : Obj) (hk : o.kind ∈ c.kinds) (hc : o.color ∈ c.colors) :
    ∃ v, objConvert .compact c o = .ok v ∧ objInBounds (objUpper .compact c) v = true := by
  obtain ⟨h1, h2, h3⟩ := c.bounds o hk hc
  have hd : (decide (o.kind.typeIndex < c.dims.types) && decide (o.stateIndex < c.dims.states) &&
      decide (o.color.value < c.dims.colors)) = true := by
    have d1 : o.kind.typeIndex < c.dims.types := by show _ < c.maxType + 1; omega
    have d2 : o.stateIndex < c.dims.states := by show _ < c.maxState + 1; omega
    have d3 : o.color.value < c.dims.colors := by show _ < c.maxColor + 1; omega
    simp [d1, d2, d3]
  refine ⟨[c.compactType o.kind, c.compactState o.kind o.stateIndex, c.compactColor o.color],
    by simp only [objConvert, hd, if_true], ?_⟩
  obtain ⟨t1, t2⟩ := compactType_bounds c o.kind hk
  obtain ⟨s1, s2, s3⟩ := compactState_bounds c o.kind o.stateIndex hk (stateIndex_lt_numStates o)
  obtain ⟨c1, c2, c3⟩ := compactColor_bounds c o.color hc
  have e2 : (if c.totalStates = 0 then (-1 : Int) else ((c.sortedKinds.length + c.totalStates : Nat) : Int) - 1)
      = ((c.sortedKinds.length + c.totalStates : Nat) : Int) - 1 := by
    rw [if_neg]; omega
  have e3 : (if c.sortedColors.length = 0 then (-1 : Int)
      else ((c.sortedKinds.length + c.totalStates + c.sortedColors.length : Nat) : Int) - 1)
      = ((c.sortedKinds.length + c.totalStates + c.sortedColors.length : Nat) : Int) - 1 := by
    rw [if_neg]; omega
  simp only [objUpper, e2, e3]
  exact objInBounds_three _ _ _ _ _ _ ⟨t1, t2⟩ ⟨s1, s2⟩ ⟨c1, c2⟩

theorem C15_obj (enc : Enc) (c : ReprCtx) (o : Obj) (hk : o.kind ∈ c.kinds) (hc : o.color ∈ c.colors) :
    ∃ v, objConvert enc c o = .ok v ∧ objInBounds (objUpper enc c) v = true := by
  cases enc
  · exact C15_obj_default c o hk hc
  · exact C15_obj_noOverlap c o hk hc
  · exact C15_obj_compact c o hk hc

/-! ### whole states and observations -/

theorem mem_flat_cell (g : Grid) (hg : g.WF) (i j : Nat) (hi : i < g.h) (hj : j < g.w) :
    g.cell i j ∈ g.flat := by
  obtain ⟨hl, hr⟩ := hg
  have h1 : i < g.cells.length := by omega
  have hrow := hr _ (List.getElem_mem h1)
  have h2 : j < (g.cells[i]).length := by omega
  simp only [Grid.flat, List.mem_flatten]
  refine ⟨g.cells[i], List.getElem_mem h1, ?_⟩
  have : g.cell i j = (g.cells[i])[j] := by simp [Grid.cell, h1, h2]
  rw [this]; exact List.getElem_mem h2

theorem colorOk_mem (colors : List Color) (c : Color) (h : colorOk colors c = true) :
    c ∈ Color.none :: colors := by
  simp only [colorOk, Bool.or_eq_true, beq_iff_eq, List.contains_eq_mem, decide_eq_true_eq] at h
  rcases h with h | h
  · simp [h]
  · simp [h]

/-- the `grid` array has the grid's shape and every entry lies within the object bounds -/
theorem gridConvert_in_space (enc : Enc) (c : ReprCtx) (g : Grid) (hg : g.WF)
    (hcells : ∀ o ∈ g.flat, o.kind ∈ c.kinds ∧ o.color ∈ c.colors) :
    ∃ r, gridConvert enc c g = .ok r ∧
      (⟨g.h, g.w, objUpper enc c⟩ : ReprSpace).containsGrid r = true := by
  unfold gridConvert
  have hrow : ∀ i ∈ List.range g.h, ∃ row,
      mapE (fun (j : Nat) => objConvert enc c (g.cell i j)) (List.range g.w) = .ok row ∧
      (row.length = g.w ∧ ∀ v ∈ row, objInBounds (objUpper enc c) v = true) := by
    intro i hi
    have hi' := List.mem_range.mp hi
    obtain ⟨row, hrow, hlen, hP⟩ := mapE_ok (fun (j : Nat) => objConvert enc c (g.cell i j))
      (fun _ v => objInBounds (objUpper enc c) v = true) (List.range g.w) (by
        intro j hj
        have hj' := List.mem_range.mp hj
        obtain ⟨hk, hc⟩ := hcells _ (mem_flat_cell g hg i j hi' hj')
        exact C15_obj enc c _ hk hc)
    refine ⟨row, hrow, by simpa using hlen, ?_⟩
    intro v hv
    obtain ⟨k, hk, rfl⟩ := List.getElem_of_mem hv
    exact hP k (by simpa [hlen] using hk) hk
  obtain ⟨rows, hrows, hlen, hP⟩ := mapE_ok _ (fun _ (row : List (List Int)) => row.length = g.w ∧
      ∀ v ∈ row, objInBounds (objUpper enc c) v = true) (List.range g.h) hrow
  refine ⟨rows, hrows, ?_⟩
  simp only [ReprSpace.containsGrid, Bool.and_eq_true, beq_iff_eq, List.all_eq_true]
  refine ⟨by simpa using hlen, ?_⟩
  intro row hrow'
  obtain ⟨k, hk, rfl⟩ := List.getElem_of_mem hrow'
  obtain ⟨h1, h2⟩ := hP k (by simpa [hlen] using hk) hk
  exact ⟨h1, h2⟩

theorem agentIdGrid_in_space (g : Grid) (p : Pos) (hp : g.contains p = true) (u : List Int) :
    ∃ r, agentIdGrid g p = .ok r ∧ (⟨g.h, g.w, u⟩ : ReprSpace).containsAgentId r = true := by
  rw [Grid.contains_iff] at hp
  obtain ⟨h1, h2, h3, h4⟩ := hp
  unfold agentIdGrid
  simp only [h1, h2, h3, h4, and_self, if_true]
  refine ⟨_, rfl, ?_⟩
  simp only [ReprSpace.containsAgentId, List.length_map, List.length_range, beq_self_eq_true,
    Bool.true_and, List.all_eq_true]
  intro row hrow
  obtain ⟨i, _, rfl⟩ := List.mem_map.mp hrow
  simp only [List.length_map, List.length_range, beq_self_eq_true, Bool.true_and, List.all_eq_true,
    Bool.and_eq_true, decide_eq_true_eq]
  intro v hv
  obtain ⟨j, _, rfl⟩ := List.mem_map.mp hv
  split <;> omega

theorem agentArray_in_space (g : Grid) (a : Agent) (hp : g.contains a.pos = true) (hh : 2 ≤ g.h)
    (hw : 2 ≤ g.w) : ∃ r, agentArray g a = .ok r ∧ ReprSpace.containsAgent r = true := by
  rw [Grid.contains_iff] at hp
  obtain ⟨h1, h2, h3, h4⟩ := hp
  unfold agentArray
  have : ¬ (g.h = 1 ∨ g.w = 1) := by omega
  simp only [this, if_false]
  refine ⟨_, rfl, ?_⟩
  simp only [ReprSpace.containsAgent, List.range_succ, List.range_zero]
  cases a.o <;> simp [Orient.value] <;> omega

/-- C15 for states: a member of the state space (rectangular grid, at least 2×2 — one row or column
divides by zero) converts, with the debug check on or off, to a dictionary inside the declared
space, key by key -/
theorem C15_state (enc : Enc) (sp : StateSpace) (debug : Bool) (s : State) (hg : s.grid.WF)
    (hm : sp.contains s = true) (hh : 2 ≤ sp.h) (hw : 2 ≤ sp.w) :
    ∃ r, stateConvert enc sp debug s = .ok r ∧ (stateSpaceOf enc sp).containsState r = true := by
  simp only [StateSpace.contains, Bool.and_eq_true, beq_iff_eq, List.all_eq_true, Bool.or_eq_true,
    List.contains_eq_mem, decide_eq_true_eq] at hm
  obtain ⟨⟨⟨⟨⟨⟨eh, ew⟩, hkinds⟩, hcols⟩, hpos⟩, hheld⟩, hheldc⟩ := hm
  have hcells : ∀ o ∈ s.grid.flat, o.kind ∈ (ReprCtx.ofState sp).kinds ∧ o.color ∈ (ReprCtx.ofState sp).colors := by
    intro o ho
    exact ⟨by simp [ReprCtx.ofState, hkinds o ho], colorOk_mem _ _ (hcols o ho)⟩
  obtain ⟨rg, hrg, hsg⟩ := gridConvert_in_space enc (ReprCtx.ofState sp) s.grid hg hcells
  obtain ⟨ra, hra, hsa⟩ := agentIdGrid_in_space s.grid s.agent.pos hpos (objUpper enc (ReprCtx.ofState sp))
  obtain ⟨rp, hrp, hsp⟩ := agentArray_in_space s.grid s.agent hpos (by omega) (by omega)
  have hheld' : s.agent.held.kind ∈ (ReprCtx.ofState sp).kinds := by
    rcases hheld with h | h
    · simp [ReprCtx.ofState, h]
    · simp [ReprCtx.ofState, h]
  obtain ⟨ri, hri, hsi⟩ := C15_obj enc (ReprCtx.ofState sp) s.agent.held hheld' (colorOk_mem _ _ hheldc)
  have hcont : sp.contains s = true := by
    simp only [StateSpace.contains, Bool.and_eq_true, beq_iff_eq, List.all_eq_true, Bool.or_eq_true,
      List.contains_eq_mem, decide_eq_true_eq]
    exact ⟨⟨⟨⟨⟨⟨eh, ew⟩, hkinds⟩, hcols⟩, hpos⟩, hheld⟩, hheldc⟩
  refine ⟨⟨rg, ra, rp, ri⟩, ?_, ?_⟩
  · simp [stateConvert, hcont, hrg, hra, hrp, hri]
  · simp only [ReprSpace.containsState, stateSpaceOf, Bool.and_eq_true]
    rw [← eh, ← ew]
    exact ⟨⟨⟨hsg, hsa⟩, hsp⟩, hsi⟩

/-- C15 for observations (Hidden cells allowed, any shape with at least one row and column) -/
theorem C15_obs (enc : Enc) (sp : ObsSpace) (debug : Bool) (o : Obs) (hg : o.grid.WF)
    (hm : sp.contains o = true) :
    ∃ r, obsConvert enc sp debug o = .ok r ∧ (obsSpaceOf enc sp).containsObs r = true := by
  have hm0 := hm
  simp only [ObsSpace.contains, Bool.and_eq_true, beq_iff_eq, List.all_eq_true, Bool.or_eq_true,
    List.contains_eq_mem, decide_eq_true_eq] at hm
  obtain ⟨⟨⟨⟨⟨⟨⟨⟨⟨eh, ew⟩, hkinds⟩, hcols⟩, hy0⟩, hy1⟩, hx0⟩, hx1⟩, hheld⟩, hheldc⟩ := hm
  have hcells : ∀ c ∈ o.grid.flat, c.kind ∈ (ReprCtx.ofObs sp).kinds ∧ c.color ∈ (ReprCtx.ofObs sp).colors := by
    intro c hc
    refine ⟨?_, colorOk_mem _ _ (hcols c hc)⟩
    rcases hkinds c hc with h | h
    · simp [ReprCtx.ofObs, h]
    · simp [ReprCtx.ofObs, h]
  obtain ⟨rg, hrg, hsg⟩ := gridConvert_in_space enc (ReprCtx.ofObs sp) o.grid hg hcells
  have hpos : o.grid.contains o.agent.pos = true := by
    rw [Grid.contains_iff, eh, ew]; exact ⟨hy0, hy1, hx0, hx1⟩
  obtain ⟨ra, hra, hsa⟩ := agentIdGrid_in_space o.grid o.agent.pos hpos (objUpper enc (ReprCtx.ofObs sp))
  have hheld' : o.agent.held.kind ∈ (ReprCtx.ofObs sp).kinds := by
    rcases hheld with h | h
    · simp [ReprCtx.ofObs, h]
    · simp [ReprCtx.ofObs, h]
  obtain ⟨ri, hri, hsi⟩ := C15_obj enc (ReprCtx.ofObs sp) o.agent.held hheld' (colorOk_mem _ _ hheldc)
  refine ⟨⟨rg, ra, ri⟩, ?_, ?_⟩
  · simp [obsConvert, hm0, hrg, hra, hri]
  · simp only [ReprSpace.containsObs, obsSpaceOf, Bool.and_eq_true]
    rw [← eh, ← ew]
    exact ⟨⟨hsg, hsa⟩, hsi⟩

/-- what the membership predicate does *not* cover: an undeclared colour falls outside the bounds
(why `StateSpace.contains` had to check colours — findings/F8) -/
example :
    let c : ReprCtx := ReprCtx.ofState ⟨3, 3, [.floor, .key], [.red]⟩
    objConvert .default c (.key .blue) = .ok [6, 0, 3] ∧
    objInBounds (objUpper .default c) [6, 0, 3] = false := ⟨rfl, by decide⟩

/-! ### non-vacuity -/
example :
    let sp : StateSpace := ⟨2, 2, [.wall, .floor, .door, .key], [.yellow]⟩
    let s : State := ⟨⟨2, 2, [[.wall, .door .locked .yellow], [.floor, .key .yellow]]⟩, ⟨⟨1, 0⟩, .L, .key .yellow⟩⟩
    sp.contains s = true ∧ s.grid.WF := by
  refine ⟨by decide, rfl, ?_⟩
  intro r hr; simp at hr; rcases hr with h | h <;> subst h <;> rfl

end GV
