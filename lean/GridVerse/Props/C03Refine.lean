/-
  C03, continued — the reference-level layer refines the pure layer.

  Props/C03.lean says where the assignments of `transition_with_copy` can land (frames, freshness).
  This file says *what it computes*: reading the result back (`Heap.abs`) gives exactly the state the
  pure transition chain (`runChain`, the function every other property file reasons about) computes
  from the value of the input, with the same draws consumed — for every chain of the seven in-place
  transition functions, every action and every stream of draws.  Together with
  `C03_step_input_unchanged` this is purity in full: the functional step is a function of the input's
  *value*, and that function is the pure model's.

  The proof needs no hypothesis about aliasing inside the *input* state: `fast_copy` (pickle) allocates
  a node of its own for every object (`load_rep`: the copy is a separated representation), and on
  separated representations each in-place function refines its pure counterpart and keeps the
  representation separated (`Lemmas/Refine.lean`; the only in-place change of an object node is the
  door opening, and the door's node occurs once).
-/
import GridVerse.Lemmas.RefineLoad
set_option linter.unusedSimpArgs false
namespace GV

/-- **the in-place dynamics on a separated heap state compute the pure dynamics** (any chain, any
action, any draws), and keep the state separated -/
theorem C03_inplace_refines (fs : List TransAtom) (hp : Heap) (s : HState) (st : State) (R : Rep hp s st)
    (a : Action) (d : DrawSt) :
    ∃ st' d', runChain fs st a d = .ok (st', d') ∧ Rep (hRunChain fs hp s a d).1 s st' ∧
      (hRunChain fs hp s a d).1.abs s = st' ∧ (hRunChain fs hp s a d).2 = d' := by
  obtain ⟨st', d', h1, h2, h3⟩ := chain_rep fs R a d
  exact ⟨st', d', h1, h2, h2.core.abs, h3⟩

/-- **C03 (refinement of the functional step).**  For every heap and every state in it whose value is
a rectangular grid with the agent inside — whatever the sharing between its nodes —, the state
returned by `transition_with_copy` denotes exactly the pure next state of the input's value, and the
same draws are consumed. -/
theorem C03_step_refines (fs : List TransAtom) (hp : Heap) (s : HState) (a : Action) (d : DrawSt)
    (wf : (hp.abs s).grid.WF) (hin : (hp.abs s).grid.contains (hp.abs s).agent.pos = true) :
    ∃ st' d', runChain fs (hp.abs s) a d = .ok (st', d') ∧
      (hFunctionalStep fs hp s a d).2.1.abs (hFunctionalStep fs hp s a d).1 = st' ∧
      (hFunctionalStep fs hp s a d).2.2 = d' := by
  have R : Rep (hp.fastCopy s).2 (hp.fastCopy s).1 (hp.abs s) := load_rep (hp.abs s) wf hin hp
  obtain ⟨st', d', h1, _, h3, h4⟩ := C03_inplace_refines fs (hp.fastCopy s).2 (hp.fastCopy s).1 (hp.abs s) R a d
  exact ⟨st', d', h1, h3, h4⟩

/-- history independence at the reference level: two heaps, two states of the same value — the two
functional steps return states of the same value (whatever else either heap contains, whatever was
computed before) -/
theorem C03_step_value_only (fs : List TransAtom) (hp1 hp2 : Heap) (s1 s2 : HState) (a : Action) (d : DrawSt)
    (hv : hp1.abs s1 = hp2.abs s2) (wf : (hp1.abs s1).grid.WF)
    (hin : (hp1.abs s1).grid.contains (hp1.abs s1).agent.pos = true) :
    (hFunctionalStep fs hp1 s1 a d).2.1.abs (hFunctionalStep fs hp1 s1 a d).1 =
      (hFunctionalStep fs hp2 s2 a d).2.1.abs (hFunctionalStep fs hp2 s2 a d).1 ∧
    (hFunctionalStep fs hp1 s1 a d).2.2 = (hFunctionalStep fs hp2 s2 a d).2.2 := by
  obtain ⟨st1, d1, e1, a1, b1⟩ := C03_step_refines fs hp1 s1 a d wf hin
  obtain ⟨st2, d2, e2, a2, b2⟩ := C03_step_refines fs hp2 s2 a d (hv ▸ wf) (hv ▸ hin)
  rw [hv, e2] at e1
  injection e1 with e1
  injection e1 with e11 e12
  exact ⟨by rw [a1, a2, e11], by rw [b1, b2, e12]⟩

/-- the hypotheses are met, e.g., by the unpickled copy of any rectangular state with the agent inside:
a 2×2 room with a closed door and a box holding a key, key in hand -/
example :
    let st : State := ⟨⟨2, 2, [[.floor, .door .closed .red], [.box (.key .blue), .wall]]⟩, ⟨⟨0, 0⟩, .R, .key .red⟩⟩
    st.grid.WF ∧ st.grid.contains st.agent.pos = true ∧
    (Heap.empty.load st).2.abs (Heap.empty.load st).1 = st ∧
    Rep (Heap.empty.load st).2 (Heap.empty.load st).1 st := by
  intro st
  have wf : st.grid.WF := ⟨rfl, by intro r hr; simp [st] at hr; rcases hr with rfl | rfl <;> rfl⟩
  exact ⟨wf, by decide, load_abs st _, load_rep st wf (by decide) _⟩

end GV
