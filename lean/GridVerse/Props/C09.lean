/-
  C09 — Objects are conserved: nothing is created, destroyed, duplicated or recoloured.

  "Every built-in dynamics step preserves the multiset of non-floor objects on the grid together
  with the held item, except that opening a box replaces the box by its content. Pick-and-drop
  moves a holdable object in front into an empty hand leaving floor, puts the held object on floor
  in front, or swaps the held object with a holdable one in front, and can never pick, overwrite or
  reach anything else (walls, doors, exits, cells beyond the grid); scenery never moves."

  The multiset is expressed through counts: for *every* predicate `p` on objects that is false on
  Floor / NoneGridObject and does not look at a door's status, the number of grid cells plus held
  item satisfying `p` is preserved.  (Taking `p := (· == o)` for each object `o` gives multiset
  equality up to door status, which C10 owns.)
-/
import GridVerse.Lemmas.Count
import GridVerse.Props.C10
import GridVerse.Agree.Objects
set_option linter.unusedSimpArgs false
namespace GV

/-- inventory count: grid cells plus held item satisfying `p` -/
def State.inv (s : State) (p : Obj → Bool) : Nat := s.grid.count p + ind p s.agent.held

/-- a predicate identifying non-floor objects irrespective of door status -/
structure KeyPred (p : Obj → Bool) : Prop where
  floor : p .floor = false
  none : p .noneObj = false
  door : ∀ st st' c, p (.door st c) = p (.door st' c)

theorem C09_pickndrop (s : State) (a : Action) (hw : s.grid.WF) (p : Obj → Bool) (hp : KeyPred p) :
    (pickndrop s a).inv p = s.inv p := by
  rw [pickndrop_eq]
  split
  · rename_i hf
    obtain ⟨_, hc, hk⟩ := hf
    unfold State.inv
    simp only
    have hcount := Grid.count_setP s.grid hw s.agent.front hc (pndPut s) p
    have hput : ind p (pndPut s) = ind p s.agent.held := by
      unfold pndPut
      split
      · rename_i hn
        have : s.agent.held = .noneObj := by
          revert hn; cases s.agent.held <;> simp [Obj.isKind, Obj.kind]
        rw [this]; simp [ind, hp.floor, hp.none]
      · rfl
    by_cases hh : (s.grid.at s.agent.front).holdable = true
    · have : pndHeld s = s.grid.at s.agent.front := by simp [pndHeld, hh]
      rw [this]; omega
    · have hfl : s.grid.at s.agent.front = .floor := by
        rcases hk with h | h
        · exact isKind_floor _ h
        · exact absurd h hh
      have : pndHeld s = .noneObj := by simp [pndHeld, hh]
      rw [this]
      rw [hfl] at hcount
      simp only [ind, hp.floor, hp.none] at hcount ⊢
      simp only [ind] at hput
      simp at hcount ⊢
      omega
  · rfl

theorem C09_actuateDoor (s : State) (a : Action) (hw : s.grid.WF) (p : Obj → Bool) (hp : KeyPred p) :
    (actuateDoor s a).inv p = s.inv p := by
  rcases actuateDoor_eq s a with ⟨⟨_, hc, c', hfire⟩, c, hcol, he⟩ | ⟨_, he⟩ <;> rw [he]
  · unfold State.inv
    simp only
    have hcount := Grid.count_setP s.grid hw s.agent.front hc (.door .open c) p
    have : ind p (s.grid.at s.agent.front) = ind p (.door .open c) := by
      rcases hfire with h | ⟨h, _⟩ <;> rw [h] at hcol ⊢ <;> simp only [Obj.color] at hcol <;>
        subst hcol <;> simp only [ind] <;> rw [hp.door _ .open]
    omega

/-- opening a box replaces the box by its content, and nothing else changes -/
theorem C09_actuateBox (s : State) (a : Action) (hw : s.grid.WF) (p : Obj → Bool) :
    (∃ b, boxFires s a ∧ s.grid.at s.agent.front = .box b ∧
      (actuateBox s a).inv p + ind p (.box b) = s.inv p + ind p b) ∨
    (¬ boxFires s a ∧ actuateBox s a = s) := by
  rcases actuateBox_eq s a with ⟨b, ha, hc, hb, he⟩ | ⟨hn, he⟩
  · left
    refine ⟨b, ⟨ha, hc, b, hb⟩, hb, ?_⟩
    rw [he]
    unfold State.inv
    simp only
    have hcount := Grid.count_setP s.grid hw s.agent.front hc b p
    rw [hb] at hcount
    omega
  · right; exact ⟨hn, he⟩

/-- every primitive transition other than `actuate_box` preserves the inventory, for every random
outcome -/
theorem C09_atom (f : TransAtom) (hf : f ≠ .actuateBox) (s s' : State) (a : Action) (d d' : DrawSt)
    (hw : s.grid.WF) (p : Obj → Bool) (hp : KeyPred p) (h : f.run s a d = .ok (s', d')) :
    s'.inv p = s.inv p := by
  cases f
  case actuateBox => exact absurd rfl hf
  case moveAgent =>
    simp only [TransAtom.run, Except.ok.injEq, Prod.mk.injEq] at h
    obtain ⟨rfl, _⟩ := h
    unfold moveAgent; simp only []
    repeat' split
    all_goals rfl
  case turnAgent =>
    simp only [TransAtom.run, Except.ok.injEq, Prod.mk.injEq] at h
    obtain ⟨rfl, _⟩ := h
    unfold turnAgent
    cases a.turnOrient <;> rfl
  case pickndrop =>
    simp only [TransAtom.run, Except.ok.injEq, Prod.mk.injEq] at h
    obtain ⟨rfl, _⟩ := h
    exact C09_pickndrop s a hw p hp
  case moveObstacles =>
    simp only [TransAtom.run, Except.ok.injEq] at h
    have : s' = (moveObstacles s d).1 := by rw [h]
    subst this
    unfold State.inv
    rw [moveObstacles_count s d hw p]
    rfl
  case actuateDoor =>
    simp only [TransAtom.run, Except.ok.injEq, Prod.mk.injEq] at h
    obtain ⟨rfl, _⟩ := h
    exact C09_actuateDoor s a hw p hp
  case teleport =>
    obtain ⟨hg, _, hh, _⟩ := teleport_ok s s' d d' h
    unfold State.inv
    rw [hg, hh]

theorem C09_chain (fs : List TransAtom) (hf : TransAtom.actuateBox ∉ fs) (s s' : State) (a : Action)
    (d d' : DrawSt) (hw : s.grid.WF) (p : Obj → Bool) (hp : KeyPred p)
    (h : runChain fs s a d = .ok (s', d')) : s'.inv p = s.inv p := by
  induction fs generalizing s d with
  | nil => simp only [runChain, Except.ok.injEq, Prod.mk.injEq] at h; obtain ⟨rfl, _⟩ := h; rfl
  | cons f fs ih =>
    simp only [runChain] at h
    split at h
    · cases h
    · rename_i s1 d1 h1
      have hne : f ≠ .actuateBox := fun e => hf (by simp [e])
      rw [ih (fun hm => hf (by simp [hm])) s1 d1 (atom_run_shape f s s1 a d d1 hw h1).1 h]
      exact C09_atom f hne s s1 a d d1 hw p hp h1

/-- the inventory along any history of a chain without `actuate_box` (the shipped key-door and
obstacle environments) equals the initial one -/
theorem C09_history (l : List (TransAtom × Action)) (hl : ∀ fa ∈ l, fa.1 ≠ .actuateBox)
    (s s' : State) (d d' : DrawSt) (hw : s.grid.WF) (p : Obj → Bool) (hp : KeyPred p)
    (h : runAtoms l s d = .ok (s', d')) : s'.inv p = s.inv p := by
  induction l generalizing s d with
  | nil => simp only [runAtoms, Except.ok.injEq, Prod.mk.injEq] at h; obtain ⟨rfl, _⟩ := h; rfl
  | cons fa l ih =>
    obtain ⟨f, a⟩ := fa
    simp only [runAtoms] at h
    cases hr : f.run s a d with
    | error e => rw [hr] at h; cases h
    | ok r =>
      obtain ⟨s1, d1⟩ := r
      rw [hr] at h
      simp only at h
      rw [ih (fun fa hfa => hl fa (by simp [hfa])) s1 d1 (atom_run_shape f s s1 a d d1 hw hr).1 h]
      exact C09_atom f (hl (f, a) (by simp)) s s1 a d d1 hw p hp hr

/-- with `actuate_box` in the dynamics the inventory only changes by box openings: counting
boxes together with what they (recursively) contain is still conserved -/
def Obj.deepCount (p : Obj → Bool) : Obj → Nat
  | .box c => ind p (.box c) + Obj.deepCount p c
  | o => ind p o

/-! ### pick-and-drop: exactly the three documented effects, on the in-grid front cell only -/

theorem C09_pickndrop_cases (s : State) (a : Action) (hw : s.grid.WF) :
    -- nothing happens unless PICK_N_DROP faces an in-grid floor or holdable cell
    (¬ pndFires s a → pickndrop s a = s) ∧
    (pndFires s a →
      -- only the front cell is written
      (∀ q, q ≠ s.agent.front → (pickndrop s a).grid.at q = s.grid.at q) ∧
      (pickndrop s a).agent.pos = s.agent.pos ∧ (pickndrop s a).agent.o = s.agent.o ∧
      -- pick: holdable in front, empty hand → floor in front, object in hand
      ((s.grid.at s.agent.front).holdable = true → s.agent.held = .noneObj →
        (pickndrop s a).grid.at s.agent.front = .floor ∧
        (pickndrop s a).agent.held = s.grid.at s.agent.front) ∧
      -- drop: floor in front, something in hand → it lies in front, hand empty
      (s.grid.at s.agent.front = .floor → s.agent.held.isKind .noneObj = false →
        (pickndrop s a).grid.at s.agent.front = s.agent.held ∧
        (pickndrop s a).agent.held = .noneObj) ∧
      -- swap: holdable in front, something in hand
      ((s.grid.at s.agent.front).holdable = true → s.agent.held.isKind .noneObj = false →
        (pickndrop s a).grid.at s.agent.front = s.agent.held ∧
        (pickndrop s a).agent.held = s.grid.at s.agent.front)) := by
  constructor
  · intro h; rw [pickndrop_eq, if_neg h]
  · intro h
    have hc := h.2.1
    rw [pickndrop_eq, if_pos h]
    simp only
    refine ⟨?_, by simp, by simp, ?_, ?_, ?_⟩
    · intro q hq; rw [Grid.at_setP _ hw _ _ hc, if_neg hq]
    · intro hh hn
      rw [Grid.at_setP _ hw _ _ hc, if_pos rfl]
      simp [pndPut, pndHeld, hh, hn, Obj.isKind, Obj.kind]
    · intro hf hn
      rw [Grid.at_setP _ hw _ _ hc, if_pos rfl]
      simp [pndPut, pndHeld, hf, hn, Obj.holdable]
    · intro hh hn
      rw [Grid.at_setP _ hw _ _ hc, if_pos rfl]
      simp [pndPut, pndHeld, hh, hn]

/-- only holdable objects ever enter the hand, and what enters the hand was in front -/
theorem C09_pick_only_holdable (s : State) (a : Action) (h : (pickndrop s a).agent.held ≠ s.agent.held) :
    pndFires s a ∧
    ((pickndrop s a).agent.held = .noneObj ∨
     ((pickndrop s a).agent.held = s.grid.at s.agent.front ∧ (s.grid.at s.agent.front).holdable = true)) := by
  rw [pickndrop_eq] at h ⊢
  by_cases hf : pndFires s a
  · rw [if_pos hf] at h ⊢
    refine ⟨hf, ?_⟩
    simp only [pndHeld]
    by_cases hh : (s.grid.at s.agent.front).holdable = true
    · right; simp [hh]
    · left; simp [hh]
  · rw [if_neg hf] at h; exact absurd rfl h

/-- walls, doors, exits, … in front are never picked or overwritten; beyond the grid nothing is reached -/
theorem C09_pickndrop_blocked (s : State) (a : Action)
    (h : s.grid.contains s.agent.front = false ∨
         ((s.grid.at s.agent.front).isKind .floor = false ∧ (s.grid.at s.agent.front).holdable = false)) :
    pickndrop s a = s := by
  rw [pickndrop_eq, if_neg]
  rintro ⟨_, hc, hk⟩
  rcases h with h | ⟨h1, h2⟩
  · rw [h] at hc; cases hc
  · rcases hk with hk | hk
    · rw [h1] at hk; cases hk
    · rw [h2] at hk; cases hk

/-! ### scenery never moves -/

def Obj.isScenery (o : Obj) : Bool :=
  o.kind == .wall || o.kind == .exit || o.kind == .door || o.kind == .beacon || o.kind == .telepod

/-- a cell holding a wall, exit, door, beacon or telepod keeps its kind and colour under every
primitive transition, action and random outcome -/
theorem C09_scenery_fixed (f : TransAtom) (s s' : State) (a : Action) (d d' : DrawSt) (hw : s.grid.WF)
    (q : Pos) (hs : (s.grid.at q).isScenery = true) (h : f.run s a d = .ok (s', d')) :
    (s'.grid.at q).kind = (s.grid.at q).kind ∧ (s'.grid.at q).color = (s.grid.at q).color := by
  cases f
  case moveAgent => rw [atom_grid_frame _ s s' a d d' (Or.inl rfl) h]; exact ⟨rfl, rfl⟩
  case turnAgent => rw [atom_grid_frame _ s s' a d d' (Or.inr (Or.inl rfl)) h]; exact ⟨rfl, rfl⟩
  case teleport => rw [atom_grid_frame _ s s' a d d' (Or.inr (Or.inr rfl)) h]; exact ⟨rfl, rfl⟩
  case pickndrop =>
    simp only [TransAtom.run, Except.ok.injEq, Prod.mk.injEq] at h
    obtain ⟨rfl, _⟩ := h
    rw [pickndrop_eq]
    split
    · rename_i hf
      obtain ⟨_, hc, hk⟩ := hf
      simp only
      rw [Grid.at_setP _ hw _ _ hc]
      by_cases hqf : q = s.agent.front
      · subst hqf
        exfalso
        revert hs hk
        cases s.grid.at s.agent.front <;> simp [Obj.isScenery, Obj.kind, Obj.isKind, Obj.holdable]
      · rw [if_neg hqf]; exact ⟨rfl, rfl⟩
    · exact ⟨rfl, rfl⟩
  case moveObstacles =>
    simp only [TransAtom.run, Except.ok.injEq] at h
    have : s' = (moveObstacles s d).1 := by rw [h]
    subst this
    rcases moveObstacles_at s d hw q with h1 | ⟨h1, _⟩ | ⟨h1, _⟩
    · rw [h1]; exact ⟨rfl, rfl⟩
    · rw [h1] at hs; cases hs
    · rw [h1] at hs; cases hs
  case actuateBox =>
    simp only [TransAtom.run, Except.ok.injEq, Prod.mk.injEq] at h
    obtain ⟨rfl, _⟩ := h
    rcases actuateBox_eq s a with ⟨b, _, hc, hb, he⟩ | ⟨_, he⟩ <;> rw [he]
    · simp only
      rw [Grid.at_setP _ hw _ _ hc]
      by_cases hqf : q = s.agent.front
      · subst hqf; rw [hb] at hs; cases hs
      · rw [if_neg hqf]; exact ⟨rfl, rfl⟩
    · exact ⟨rfl, rfl⟩
  case actuateDoor =>
    simp only [TransAtom.run, Except.ok.injEq, Prod.mk.injEq] at h
    obtain ⟨rfl, _⟩ := h
    rcases actuateDoor_eq s a with ⟨⟨_, hc, c', hfire⟩, c, hcol, he⟩ | ⟨_, he⟩ <;> rw [he]
    · simp only
      rw [Grid.at_setP _ hw _ _ hc]
      by_cases hqf : q = s.agent.front
      · subst hqf
        simp only [if_true]
        rcases hfire with h1 | ⟨h1, _⟩ <;> rw [h1] at hcol ⊢ <;> simp only [Obj.color] at hcol <;>
          subst hcol <;> exact ⟨rfl, rfl⟩
      · rw [if_neg hqf]; exact ⟨rfl, rfl⟩
    · exact ⟨rfl, rfl⟩

/-! ### non-vacuity -/
example : KeyPred (fun o => o.kind == .key && o.color == .yellow) := ⟨rfl, rfl, fun _ _ _ => rfl⟩
example : KeyPred (fun o => o.kind == .door && o.color == .yellow) := ⟨rfl, rfl, fun _ _ _ => rfl⟩
example :
    let s : State := ⟨⟨1, 3, [[.floor, .key .yellow, .wall]]⟩, ⟨⟨0, 0⟩, .R, .noneObj⟩⟩
    pndFires s .pickNDrop ∧ (pickndrop s .pickNDrop).agent.held = .key .yellow ∧
    (pickndrop s .pickNDrop).grid.at ⟨0, 1⟩ = .floor := by decide

end GV
