/-
  C20 — The gym adapter is a faithful view of the wrapped environment.

  "At the gym layer, action index i executes the i-th action of the action space; reset returns the
  observation of the fresh state and step returns the observation of the post-step state together
  with the inner reward and termination flag, all inside the advertised gym spaces. The state
  wrapper returns the state representation instead and passes the observation through the info
  dictionary, and switching representation updates the advertised space consistently."

  The adapter is delegation; these theorems pin the delegation down (which state each returned
  array is the representation of), the weight of the tie is the gym-history correspondence.  "Inside
  the advertised spaces" is C15 applied to the returned representations.
-/
import GridVerse.Props.C04
import GridVerse.Agree.Actions
set_option linter.unusedSimpArgs false
namespace GV

/-- action index `i` is the `i`-th action of the action space (Python indexing) -/
theorem C20_action_index (acts : List Action) (i : Nat) (h : i < acts.length) :
    (ActionSpace.mk acts).intToAction i = .ok acts[i] := by
  simp [ActionSpace.intToAction, pyIdx, h]

theorem C20_action_index_out_of_range (acts : List Action) (i : Int)
    (h : (acts.length : Int) ≤ i ∨ i < -(acts.length : Int)) :
    (ActionSpace.mk acts).intToAction i = .error .indexError := by
  simp only [ActionSpace.intToAction, pyIdx]
  rcases h with h | h
  · have h0 : 0 ≤ i := by omega
    have : acts[i.toNat]? = none := by
      apply List.getElem?_eq_none; omega
    simp [h0, this]
  · have h0 : ¬ 0 ≤ i := by omega
    have h1 : ¬ -(acts.length : Int) ≤ i := by omega
    simp [h0, h1]

/-- `reset`: the returned array is the representation of the observation of the fresh state; the
machine afterwards holds that state with that observation memoised -/
theorem C20_reset {Rep} (e : EnvSpec) (o : OuterSpec Rep) (m : Machine) (f : Obs → Except PyErr Rep)
    (hf : o.obsRep = some f) (s : State) (d1 : DrawSt) (hr : e.functionalReset m.d = .ok (s, d1))
    (ob : Obs) (d2 : DrawSt) (ho : e.functionalObservation s d1 = .ok (ob, d2)) (r : Rep)
    (hc : f ob = .ok r) :
    gymReset e o m = (⟨some s, some ob, d2⟩, .reset r) := by
  simp [gymReset, Machine.exec, hr, outerObs, hf, ho, hc]

/-- `step i`: runs the inner step with the `i`-th action; returns the representation of the
observation of the post-step state, the inner reward and the inner termination flag -/
theorem C20_step {Rep} (e : EnvSpec) (o : OuterSpec Rep) (m : Machine) (f : Obs → Except PyErr Rep)
    (hf : o.obsRep = some f) (i : Int) (a : Action) (ha : e.actions.intToAction i = .ok a)
    (s : State) (hs : m.state = some s) (res : StepResult) (hstep : e.functionalStep s a m.d = .ok res)
    (ob : Obs) (d2 : DrawSt) (ho : e.functionalObservation res.next res.d = .ok (ob, d2)) (r : Rep)
    (hc : f ob = .ok r) :
    gymStep e o m i = (⟨some res.next, some ob, d2⟩, .step r res.reward res.terminal) := by
  simp [gymStep, ha, Machine.exec, hs, hstep, outerObs, hf, ho, hc]

/-- a bad index never reaches the environment -/
theorem C20_step_bad_index {Rep} (e : EnvSpec) (o : OuterSpec Rep) (m : Machine) (i : Int)
    (err : PyErr) (ha : e.actions.intToAction i = .error err) : gymStep e o m i = (m, .err err) := by
  simp [gymStep, ha]

/-- the state wrapper: the state representation of the post-step state, the observation
representation in `info['observation']`, same reward and flag -/
theorem C20_state_wrapper {Rep} (e : EnvSpec) (o : OuterSpec Rep) (m : Machine)
    (f : Obs → Except PyErr Rep) (g : State → Except PyErr Rep) (hf : o.obsRep = some f)
    (hg : o.stateRep = some g) (i : Int) (a : Action) (ha : e.actions.intToAction i = .ok a)
    (s : State) (hs : m.state = some s) (res : StepResult) (hstep : e.functionalStep s a m.d = .ok res)
    (ob : Obs) (d2 : DrawSt) (ho : e.functionalObservation res.next res.d = .ok (ob, d2))
    (r rs : Rep) (hc : f ob = .ok r) (hcs : g res.next = .ok rs) :
    gymStateStep e o m i =
      (⟨some res.next, some ob, d2⟩, .stateStep rs res.reward res.terminal r) := by
  simp [gymStateStep, C20_step e o m f hf i a ha s hs res hstep ob d2 ho r hc, outerState, hg,
    Machine.exec, hcs]

/-- the state wrapper's `reset`: the state representation of the fresh state (the observation is
computed and memoised on the way, exactly as the wrapped `reset` does) -/
theorem C20_state_wrapper_reset {Rep} (e : EnvSpec) (o : OuterSpec Rep) (m : Machine)
    (f : Obs → Except PyErr Rep) (g : State → Except PyErr Rep) (hf : o.obsRep = some f)
    (hg : o.stateRep = some g) (s : State) (d1 : DrawSt) (hr : e.functionalReset m.d = .ok (s, d1))
    (ob : Obs) (d2 : DrawSt) (ho : e.functionalObservation s d1 = .ok (ob, d2)) (r rs : Rep)
    (hc : f ob = .ok r) (hcs : g s = .ok rs) :
    gymStateReset e o m = (⟨some s, some ob, d2⟩, .reset rs) := by
  simp [gymStateReset, C20_reset e o m f hf s d1 hr ob d2 ho r hc, outerState, hg, Machine.exec, hcs]

/-- switching representation: subsequent returns are conversions by the new representation (the
advertised space is rebuilt from the same representation object, C15 gives membership) -/
theorem C20_set_representation {Rep} (e : EnvSpec) (o : OuterSpec Rep) (f' : Obs → Except PyErr Rep)
    (m : Machine) (ob : Obs) (hm : m.obs = some ob) (r : Rep) (hc : f' ob = .ok r) :
    outerObs e { o with obsRep := some f' } m = (m, .rep r) := by
  simp [outerObs, Machine.exec, hm, hc]

/-! ### non-vacuity -/
example : (ActionSpace.mk [.moveF, .turnL, .actuate]).intToAction 2 = .ok .actuate ∧
    (ActionSpace.mk [.moveF, .turnL, .actuate]).intToAction 3 = .error .indexError ∧
    (ActionSpace.mk [.moveF, .turnL, .actuate]).intToAction (-1) = .ok .actuate := ⟨rfl, rfl, rfl⟩

end GV
