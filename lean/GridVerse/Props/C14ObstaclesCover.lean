/- kernel-checked finite facts about the shipped `dynamic_obstacles` rooms: the tables cover every
   layout the reset can pick, the number of vacant cells, and that the fixed-agent empty room consumes
   no draw (see Props/C14Obstacles.lean).  Depends on the model only. -/
import GridVerse.Lemmas.ObstacleCert
import GridVerse.Props.C14ObstaclesData
namespace GV

theorem room5_fixed (d : DrawSt) : resetEmpty ⟨5, 5⟩ false false d = .ok (room ⟨5, 5⟩, d) := by rfl
theorem room7_fixed (d : DrawSt) : resetEmpty ⟨7, 7⟩ false false d = .ok (room ⟨7, 7⟩, d) := by rfl

theorem certs5_ok : Cert.obstacles5x5.all (certOK (room ⟨5, 5⟩)) = true := by decide +kernel

theorem certs5_cover : ∀ i, i < 7 → ∃ row ∈ Cert.obstacles5x5, row.1 = [i] := by decide +kernel

theorem certs7_coverb : ((List.range 23).all fun i => (List.range 23).all fun j =>
    i == j || Cert.obstacles7x7.any fun row => row.1 == [i, j]) = true := by decide +kernel

theorem certs7_cover : ∀ i, i < 23 → ∀ j, j < 23 → i ≠ j → ∃ row ∈ Cert.obstacles7x7, row.1 = [i, j] := by
  intro i hi j hj hij
  have h := certs7_coverb
  rw [List.all_eq_true] at h
  have h1 := h i (List.mem_range.mpr hi)
  rw [List.all_eq_true] at h1
  have h2 := h1 j (List.mem_range.mpr hj)
  simp only [Bool.or_eq_true, beq_iff_eq, List.any_eq_true] at h2
  rcases h2 with h2 | ⟨row, hr, he⟩
  · exact absurd h2 hij
  · exact ⟨row, hr, he⟩

theorem vacant5' : ((floorPositions (room ⟨5, 5⟩).grid).filter fun p => p != (room ⟨5, 5⟩).agent.pos).length = 7 := by
  decide +kernel

theorem vacant7' : ((floorPositions (room ⟨7, 7⟩).grid).filter fun p => p != (room ⟨7, 7⟩).agent.pos).length = 23 := by
  decide +kernel

end GV
