/-
  C17 — the registries a description's names are resolved against.

  "A configuration names its components; the factory resolves each name in the matching registry."
  That resolution is only as stable as the registries: these theorems say that a *refused*
  registration (name taken, signature not following the protocol) leaves the registry as it was, that
  an accepted one is found under exactly its name and displaces nothing, and — by induction over any
  history of attempts, accepted or refused, e.g. custom modules imported one after the other — that a
  name, once registered, resolves to the same function for ever (`C17_registered_names_stable`), so
  the shipped names mean the shipped functions whatever else is registered later.
-/
import GridVerse.Model.Registry
namespace GV

theorem Registry.lookup_append_of_some {F} (r r' : Registry F) (n : String) (f : F)
    (h : r.lookup n = some f) : Registry.lookup (r ++ r') n = some f := by
  unfold Registry.lookup at h ⊢
  cases hf : r.find? (fun p => p.1 == n) with
  | none => simp [hf] at h
  | some p => simp [List.find?_append, hf] at h ⊢; exact h

/-- refused for a taken name: `ValueError`, the registry is the same list -/
theorem C17_register_taken_name {F} (r : Registry F) (a : RegAttempt F) (g : F) (hs : a.sigOK = true)
    (h : r.lookup (a.asName.getD a.fnName) = some g) : r.register a = (r, some .valueError) := by
  simp [Registry.register, hs, h]

/-- refused for its signature: `TypeError`, the registry is the same list (whatever the name) -/
theorem C17_register_bad_signature {F} (r : Registry F) (a : RegAttempt F) (hs : a.sigOK = false) :
    r.register a = (r, some .typeError) := by
  simp [Registry.register, hs]

/-- any refusal leaves the registry unchanged -/
theorem C17_register_refused_changes_nothing {F} (r : Registry F) (a : RegAttempt F) (e : RegErr)
    (h : (r.register a).2 = some e) : (r.register a).1 = r := by
  unfold Registry.register at h ⊢
  split
  · rfl
  · simp only
    split
    · rfl
    · rename_i h1 h2; simp [h1, h2] at h

/-- accepted: found under exactly the chosen name, every other name resolves as before -/
theorem C17_register_accepted {F} (r : Registry F) (a : RegAttempt F) (h : (r.register a).2 = none) :
    (r.register a).1.lookup (a.asName.getD a.fnName) = some a.fn ∧
    ∀ n, n ≠ a.asName.getD a.fnName → (r.register a).1.lookup n = r.lookup n := by
  unfold Registry.register at h ⊢
  split at h
  · cases h
  · rename_i h1
    simp only at h
    split at h
    · cases h
    · rename_i h2
      simp only [h1, h2]
      have hnone : r.find? (fun p => p.1 == a.asName.getD a.fnName) = none := by
        unfold Registry.lookup at h2
        cases hf : r.find? (fun p => p.1 == a.asName.getD a.fnName) with
        | none => rfl
        | some p => simp [hf] at h2
      constructor
      · simp [Registry.lookup, List.find?_append, hnone]
      · intro n hn
        have hne : (a.asName.getD a.fnName == n) = false := by
          simp; exact fun hc => hn hc.symm
        simp only [Bool.false_eq_true, ↓reduceIte, Registry.lookup, List.find?_append]
        cases hf : r.find? (fun p => p.1 == n) with
        | some p => simp
        | none => simp [List.find?, hne]

/-- one attempt never changes what a registered name resolves to -/
theorem C17_register_keeps {F} (r : Registry F) (a : RegAttempt F) (n : String) (f : F)
    (h : r.lookup n = some f) : (r.register a).1.lookup n = some f := by
  unfold Registry.register
  split
  · exact h
  · simp only
    split
    · exact h
    · exact Registry.lookup_append_of_some r _ n f h

/-- for every history of registration attempts — accepted or refused, under the function's own name
or another — a name that is registered resolves to the same function afterwards -/
theorem C17_registered_names_stable {F} (r : Registry F) (as : List (RegAttempt F)) (n : String) (f : F)
    (h : r.lookup n = some f) : (r.registerAll as).lookup n = some f := by
  induction as generalizing r with
  | nil => exact h
  | cons a as ih => exact ih _ (C17_register_keeps r a n f h)

/-! ### non-vacuity -/
example :
    let r : Registry Nat := [("reach_exit", 1), ("bump_into_wall", 2)]
    let r' := r.registerAll [⟨7, "reach_exit", none, true⟩, ⟨8, "mine", some "bump_into_wall", true⟩,
      ⟨9, "mine", none, false⟩, ⟨10, "mine", none, true⟩, ⟨11, "other", some "mine", true⟩]
    r' = [("reach_exit", 1), ("bump_into_wall", 2), ("mine", 10)] ∧
    (r.register ⟨7, "reach_exit", none, true⟩).2 = some .valueError := by decide

end GV
