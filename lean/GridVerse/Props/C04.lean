/-
  C04 — The stateful interface mirrors the functional one; observations are never stale.

  "Driving an environment with reset and step yields exactly the trajectory obtained by threading
  states through the functional interface with the same seed. The current observation always
  belongs to the current state: it is recomputed after every reset and step, computed at most once
  per state so repeated reads return the same observation without consuming randomness, and asking
  for the state before the first reset raises; the numeric outer environment exposes exactly the
  representations of the inner state and observation."
-/
import GridVerse.Model.Env
set_option linter.unusedSimpArgs false
namespace GV

/-! ### reset / step are the functional interface applied to the stored state -/

theorem C04_reset_is_functional (e : EnvSpec) (m : Machine) (s : State) (d' : DrawSt)
    (h : e.functionalReset m.d = .ok (s, d')) :
    m.exec e .reset = (⟨some s, none, d'⟩, .unit) := by
  simp [Machine.exec, h]

theorem C04_step_is_functional (e : EnvSpec) (m : Machine) (s : State) (a : Action) (r : StepResult)
    (hs : m.state = some s) (h : e.functionalStep s a m.d = .ok r) :
    m.exec e (.step a) = (⟨some r.next, none, r.d⟩, .stepRes r.reward r.terminal) := by
  simp [Machine.exec, hs, h]

/-- failures leave the machine untouched -/
theorem C04_failure_changes_nothing (e : EnvSpec) (m : Machine) (op : Op) (err : PyErr)
    (h : (m.exec e op).2 = .err err) : (m.exec e op).1 = m := by
  cases op with
  | setSeed ans => simp [Machine.exec] at h
  | reset =>
    simp only [Machine.exec] at h ⊢
    split <;> simp_all
  | step a =>
    simp only [Machine.exec] at h ⊢
    split
    · rfl
    · split <;> simp_all
  | readState =>
    simp only [Machine.exec] at h ⊢
    split <;> rfl
  | readObs =>
    simp only [Machine.exec] at h ⊢
    split
    · rfl
    · split
      · rfl
      · split <;> simp_all

/-- the trajectory of states obtained by threading the functional interface -/
def threadStates (e : EnvSpec) : List Action → State → DrawSt → Except PyErr (List State × DrawSt)
  | [], _, d => .ok ([], d)
  | a :: as, s, d =>
    match e.functionalStep s a d with
    | .error err => .error err
    | .ok r =>
      match threadStates e as r.next r.d with
      | .error err => .error err
      | .ok (l, d') => .ok (r.next :: l, d')

/-- the stateful machine, stepped without reads, visits exactly the threaded states and ends with
the same generator state -/
theorem C04_trajectory (e : EnvSpec) (acts : List Action) (s : State) (d : DrawSt)
    (l : List State) (d' : DrawSt) (h : threadStates e acts s d = .ok (l, d')) :
    (Machine.run e ⟨some s, none, d⟩ (acts.map Op.step)).1 =
      ⟨some (l.getLastD s), none, d'⟩ := by
  induction acts generalizing s d l with
  | nil =>
    simp only [threadStates, Except.ok.injEq, Prod.mk.injEq] at h
    obtain ⟨rfl, rfl⟩ := h
    rfl
  | cons a as ih =>
    simp only [threadStates] at h
    cases hf : e.functionalStep s a d with
    | error err => simp only [hf] at h; cases h
    | ok r =>
      simp only [hf] at h
      cases ht : threadStates e as r.next r.d with
      | error err => simp only [ht] at h; cases h
      | ok p =>
        obtain ⟨l', d''⟩ := p
        simp only [ht, Except.ok.injEq, Prod.mk.injEq] at h
        obtain ⟨rfl, rfl⟩ := h
        simp only [List.map_cons, Machine.run, Machine.exec, hf]
        rw [ih r.next r.d l' ht]
        cases l' <;> simp [List.getLastD]

/-! ### the memoised observation belongs to the current state -/

/-- the memo, when present, is an observation the functional interface produced for the *current*
state -/
def Machine.Fresh (e : EnvSpec) (m : Machine) : Prop :=
  ∀ o, m.obs = some o → ∃ s d0 d1, m.state = some s ∧ e.functionalObservation s d0 = .ok (o, d1)

theorem C04_fresh_init (e : EnvSpec) (d : DrawSt) : (Machine.init d).Fresh e := by
  intro o h; simp [Machine.init] at h

theorem C04_fresh_step (e : EnvSpec) (m : Machine) (op : Op) (hf : m.Fresh e) :
    (m.exec e op).1.Fresh e := by
  cases op with
  | setSeed ans => exact hf
  | reset =>
    simp only [Machine.exec]
    split
    · exact hf
    · intro o h; simp at h
  | step a =>
    simp only [Machine.exec]
    split
    · exact hf
    · split
      · exact hf
      · intro o h; simp at h
  | readState =>
    simp only [Machine.exec]
    split <;> exact hf
  | readObs =>
    simp only [Machine.exec]
    split
    · exact hf
    · split
      · exact hf
      · rename_i s hs
        split
        · exact hf
        · rename_i o d' hobs
          intro o' ho'
          simp only [Option.some.injEq] at ho'
          subst ho'
          exact ⟨s, m.d, d', hs, hobs⟩

/-- freshness holds after any sequence of operations -/
theorem C04_fresh_always (e : EnvSpec) (d : DrawSt) (ops : List Op) :
    (Machine.run e (Machine.init d) ops).1.Fresh e := by
  have key : ∀ (m : Machine), m.Fresh e → (Machine.run e m ops).1.Fresh e := by
    induction ops with
    | nil => intro m hm; exact hm
    | cons op ops ih => intro m hm; exact ih _ (C04_fresh_step e m op hm)
  exact key _ (C04_fresh_init e d)

/-- reset and step invalidate the memo: the next read recomputes -/
theorem C04_invalidate (e : EnvSpec) (m : Machine) (op : Op) (hop : op = .reset ∨ ∃ a, op = .step a)
    (hok : ∀ err, (m.exec e op).2 ≠ .err err) : (m.exec e op).1.obs = none := by
  rcases hop with rfl | ⟨a, rfl⟩
  · simp only [Machine.exec] at hok ⊢
    cases hr : e.functionalReset m.d with
    | error err => simp only [hr] at hok; exact absurd rfl (hok err)
    | ok p => rfl
  · simp only [Machine.exec] at hok ⊢
    cases hs : m.state with
    | none => simp only [hs] at hok; exact absurd rfl (hok _)
    | some s =>
      simp only [hs] at hok ⊢
      cases hr : e.functionalStep s a m.d with
      | error err => simp only [hr] at hok; exact absurd rfl (hok err)
      | ok r => rfl

/-- a successful read of the observation is idempotent: the second read returns the same
observation and leaves the machine — in particular the generator — unchanged -/
theorem C04_read_idempotent (e : EnvSpec) (m : Machine) (o : Obs) (h : (m.exec e .readObs).2 = .obs o) :
    (m.exec e .readObs).1.exec e .readObs = ((m.exec e .readObs).1, .obs o) := by
  simp only [Machine.exec] at h ⊢
  split at h
  · rename_i o' ho'
    simp only [Out.obs.injEq] at h
    subst h
    simp [ho']
  · split at h
    · cases h
    · split at h
      · cases h
      · simp only [Out.obs.injEq] at h
        subst h
        simp

/-- at most one observation is computed per state: with a memo present no draw is consumed -/
theorem C04_memo_no_draw (e : EnvSpec) (m : Machine) (o : Obs) (h : m.obs = some o) :
    m.exec e .readObs = (m, .obs o) := by
  simp [Machine.exec, h]

/-- reading the state never changes anything -/
theorem C04_read_state_pure (e : EnvSpec) (m : Machine) : (m.exec e .readState).1 = m := by
  simp only [Machine.exec]
  split <;> rfl

/-- before the first reset: state, step and observation raise RuntimeError and change nothing -/
theorem C04_before_reset (e : EnvSpec) (d : DrawSt) (a : Action) :
    (Machine.init d).exec e .readState = (Machine.init d, .err .runtimeError) ∧
    (Machine.init d).exec e (.step a) = (Machine.init d, .err .runtimeError) ∧
    (Machine.init d).exec e .readObs = (Machine.init d, .err .runtimeError) := by
  simp [Machine.exec, Machine.init]

/-- the first read after a reset/step computes the observation of exactly the stored state with the
environment's own generator -/
theorem C04_read_computes (e : EnvSpec) (m : Machine) (s : State) (hs : m.state = some s)
    (hn : m.obs = none) :
    (∀ err, e.functionalObservation s m.d = .error err → m.exec e .readObs = (m, .err err)) ∧
    (∀ o d', e.functionalObservation s m.d = .ok (o, d') →
      m.exec e .readObs = ({ m with obs := some o, d := d' }, .obs o)) := by
  constructor
  · intro err h; simp [Machine.exec, hs, hn, h]
  · intro o d' h; simp [Machine.exec, hs, hn, h]

/-! ### the outer environment exposes exactly the representations -/

theorem C04_outer_state {Rep} (e : EnvSpec) (o : OuterSpec Rep) (m : Machine) (s : State)
    (f : State → Except PyErr Rep) (hf : o.stateRep = some f) (hs : m.state = some s) :
    outerState e o m = (m, match f s with | .ok r => .rep r | .error err => .err err) := by
  simp only [outerState, hf, Machine.exec, hs]
  cases f s <;> rfl

theorem C04_outer_obs {Rep} (e : EnvSpec) (o : OuterSpec Rep) (m : Machine) (ob : Obs)
    (f : Obs → Except PyErr Rep) (hf : o.obsRep = some f) (h : (m.exec e .readObs).2 = .obs ob) :
    outerObs e o m = ((m.exec e .readObs).1, match f ob with | .ok r => .rep r | .error err => .err err) := by
  simp only [outerObs, hf]
  cases hx : m.exec e .readObs with
  | mk m' out =>
    rw [hx] at h
    simp only at h
    subst h
    simp only
    cases f ob <;> rfl

theorem C04_outer_missing {Rep} (e : EnvSpec) (m : Machine) :
    outerState e (⟨none, none⟩ : OuterSpec Rep) m = (m, .err .runtimeError) ∧
    outerObs e (⟨none, none⟩ : OuterSpec Rep) m = (m, .err .runtimeError) := ⟨rfl, rfl⟩

/-! ### non-vacuity: a concrete environment and history -/
example :
    let e : EnvSpec := {
      stateSpace := ⟨4, 4, [.wall, .floor, .exit], [.none]⟩, actions := ⟨Action.all⟩,
      obsSpace := ⟨2, 3, [.wall, .floor, .exit], [.none]⟩,
      reset := fun d => .ok (⟨Grid.fill 4 4 .floor, ⟨⟨1, 1⟩, .R, .noneObj⟩⟩, d),
      trans := [.moveAgent, .turnAgent], rewards := [.living (-1)],
      observe := observeOf .ft ⟨-1, 0, -1, 1⟩ [], term := .reachExit, debug := true }
    let r := Machine.run e (Machine.init ⟨[], []⟩) [.reset, .readObs, .step .moveF, .readObs, .readObs]
    r.1.state = some ⟨Grid.fill 4 4 .floor, ⟨⟨1, 2⟩, .R, .noneObj⟩⟩ ∧ r.1.obs.isSome = true := by
  decide

end GV
