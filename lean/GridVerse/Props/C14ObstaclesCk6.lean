/- kernel re-check of chunk 6 of the 7×7 two-obstacle certificates (see Props/C14Obstacles.lean) -/
import GridVerse.Lemmas.ObstacleCert
import GridVerse.Props.C14ObstaclesData
namespace GV

theorem certs7_ok_6 : Cert.obstacles7x7_6.all (certOK (room ⟨7, 7⟩)) = true := by decide +kernel

end GV
