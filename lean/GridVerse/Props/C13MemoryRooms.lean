/-
  C13 for `memory_rooms` (continuation of Props/C13.lean and Props/C14Rooms.lean).

  The room grid is the one of `rooms` (`roomsGrid_spec`: walls on the split rows and columns, one
  passage per shared wall segment, a closed boundary).  On top of it the function samples
  `1 + num_beacons + num_exits` distinct floor cells (agent, beacons, exits) and `num_exits` distinct
  colours; every beacon gets the first sampled colour, the i-th exit the i-th colour.  The theorems
  give the complete description of the result for every stream of draws, and the exact set of
  parameter values on which the call raises `ValueError` instead.
-/
import GridVerse.Props.C14Rooms
set_option linter.unusedSimpArgs false
set_option linter.unusedVariables false
namespace GV

/-- picking distinct cells of a duplicate-free list by distinct indices -/
theorem picked_of_nodup (ps : List Pos) (hps : ps.Nodup) (idx : List Nat) (hnd : idx.Nodup)
    (hlt : ∀ i ∈ idx, i < ps.length) :
    (idx.map fun i => ps.getD i ⟨0, 0⟩).Nodup ∧ ∀ p ∈ (idx.map fun i => ps.getD i ⟨0, 0⟩), p ∈ ps := by
  constructor
  · rw [List.Nodup, List.pairwise_map]
    apply List.Pairwise.imp_of_mem _ hnd
    intro a b ha hb hab h
    apply hab
    have h1 := hlt a ha
    have h2 := hlt b hb
    simp only [List.getD, List.getElem?_eq_getElem h1, List.getElem?_eq_getElem h2, Option.getD_some] at h
    exact (List.getElem_inj hps).mp h
  · intro p hp
    obtain ⟨i, hi, rfl⟩ := List.mem_map.mp hp
    have := hlt i hi
    simp [List.getD, this]

/-- picking distinct colours of a duplicate-free list by distinct indices -/
theorem picked_colors (cs : List Color) (hcs : cs.Nodup) (idx : List Nat) (hnd : idx.Nodup)
    (hlt : ∀ i ∈ idx, i < cs.length) :
    (idx.map fun i => cs.getD i .none).Nodup ∧ ∀ c ∈ (idx.map fun i => cs.getD i .none), c ∈ cs := by
  constructor
  · rw [List.Nodup, List.pairwise_map]
    apply List.Pairwise.imp_of_mem _ hnd
    intro a b ha hb hab h
    apply hab
    have h1 := hlt a ha
    have h2 := hlt b hb
    simp only [List.getD, List.getElem?_eq_getElem h1, List.getElem?_eq_getElem h2, Option.getD_some] at h
    exact (List.getElem_inj hcs).mp h
  · intro p hp
    obtain ⟨i, hi, rfl⟩ := List.mem_map.mp hp
    have := hlt i hi
    simp [List.getD, this]

/-- `grid[p] = o` for a list of (position, object) pairs with distinct in-grid positions: each listed
cell holds its object, every other cell is untouched -/
theorem placeAll_spec : ∀ (l : List (Pos × Obj)) (g : Grid), g.WF → (∀ po ∈ l, g.contains po.1 = true) →
    (l.map Prod.fst).Nodup →
    ∃ g', placeAll g l = .ok g' ∧ g'.WF ∧ g'.h = g.h ∧ g'.w = g.w ∧
      (∀ po ∈ l, g'.at po.1 = po.2) ∧ (∀ q, q ∉ l.map Prod.fst → g'.at q = g.at q) := by
  intro l
  induction l with
  | nil => intro g hg _ _; exact ⟨g, rfl, hg, rfl, rfl, by simp, by simp⟩
  | cons po rest ih =>
    intro g hg hin hnd
    obtain ⟨p, o⟩ := po
    have hp : g.contains p = true := hin (p, o) (List.mem_cons_self)
    simp only [List.map_cons, List.nodup_cons] at hnd
    obtain ⟨g', e', wf', gh', gw', hin', hout'⟩ := ih (g.setP p o) (Grid.setP_WF g hg p o)
      (by intro po hpo; simp only [Grid.contains_setP]; exact hin po (List.mem_cons_of_mem _ hpo)) hnd.2
    refine ⟨g', ?_, wf', by rw [gh']; simp, by rw [gw']; simp, ?_, ?_⟩
    · simp only [placeAll, Grid.setE_ok g p o hp]; exact e'
    · intro po hpo
      rcases List.mem_cons.mp hpo with rfl | h
      · simp only
        rw [hout' p hnd.1, Grid.at_setP g hg p o hp, if_pos rfl]
      · exact hin' po h
    · intro q hq
      simp only [List.map_cons, List.mem_cons, not_or] at hq
      rw [hout' q hq.2, Grid.at_setP g hg p o hp, if_neg hq.1]

theorem mem_floorPositions (g : Grid) (p : Pos) :
    p ∈ floorPositions g ↔ g.contains p = true ∧ g.at p = .floor := by
  unfold floorPositions
  rw [Grid.mem_find]
  constructor
  · rintro ⟨h1, h2⟩; exact ⟨h1, isKind_floor _ h2⟩
  · rintro ⟨h1, h2⟩; exact ⟨h1, by rw [h2]; rfl⟩

/-- the parameter checks of `memory_rooms` that do not depend on the room grid -/
def MemRoomsParams (colors : List Color) (nb ne : Int) : Prop :=
  colors.contains .none = false ∧ 2 ≤ colors.length ∧ 1 ≤ nb ∧ 2 ≤ ne

/-- **C13 (`memory_rooms`), structure.**  Whenever the room grid `g` can be built (see
`roomsGrid_spec`) and the requested objects fit — `1 + num_beacons + num_exits` floor cells and
`num_exits` colours are available — the reset succeeds for every stream of draws and returns `g` with
the agent, the beacons and the exits on pairwise distinct floor cells: all beacons carry the first
sampled colour, the exits carry pairwise distinct colours of the declared set, the first exit being
the one that matches the beacons; every other cell is a cell of `g`. -/
theorem C13_memory_rooms_wf (sh : Shape) (lh lw : Int) (ys xs : List Int) (colors : List Color)
    (nb ne : Int) (d : DrawSt) (g : Grid) (d1 : DrawSt)
    (hg : roomsGrid sh lh lw ys xs d = .ok (g, d1)) (wf : g.WF)
    (hp : MemRoomsParams colors nb ne) (hcn : colors.Nodup)
    (hfit : 1 + nb.toNat + ne.toNat ≤ (floorPositions g).length) (hcol : ne.toNat ≤ colors.length) :
    ∃ (s : State) (d' : DrawSt) (cells : List Pos) (sample : List Color),
      resetMemoryRooms sh lh lw ys xs colors nb ne d = .ok (s, d') ∧
      cells.length = 1 + nb.toNat + ne.toNat ∧ cells.Nodup ∧
      (∀ p ∈ cells, g.contains p = true ∧ g.at p = .floor) ∧
      sample.length = ne.toNat ∧ sample.Nodup ∧ (∀ c ∈ sample, c ∈ colors ∧ c ≠ .none) ∧
      s.agent.pos = cells.headD ⟨0, 0⟩ ∧ s.agent.held = .noneObj ∧
      s.grid.WF ∧ s.grid.h = g.h ∧ s.grid.w = g.w ∧
      (∀ p ∈ (cells.drop 1).take nb.toNat, s.grid.at p = .beacon (sample.headD .none)) ∧
      (∀ pc ∈ (cells.drop (1 + nb.toNat)).zip sample, s.grid.at pc.1 = .exit pc.2) ∧
      (∀ q, q ∉ cells.drop 1 → s.grid.at q = g.at q) := by
  obtain ⟨hc0, hc2, hb1, he2⟩ := hp
  have hps := Grid.find_nodup g fun o => o.isKind .floor
  obtain ⟨idx, d2, e2, l2, nd2, lt2⟩ := drawChoiceNR_some (floorPositions g).length (1 + nb.toNat + ne.toNat) hfit d1
  obtain ⟨k, d3, e3, _⟩ := drawChoice_pos 4 (by omega) d2
  obtain ⟨ci, d4, e4, l4, nd4, lt4⟩ := drawChoiceNR_some colors.length ne.toNat hcol d3
  obtain ⟨cnd, cmem⟩ := picked_of_nodup (floorPositions g) hps idx nd2 lt2
  obtain ⟨snd, smem⟩ := picked_colors colors hcn ci nd4 lt4
  -- abbreviations
  generalize hcells : (idx.map fun i => (floorPositions g).getD i ⟨0, 0⟩) = cells at cnd cmem
  generalize hsample : (ci.map fun i => colors.getD i .none) = sample at snd smem
  have hcl : cells.length = 1 + nb.toNat + ne.toNat := by rw [← hcells]; simp [l2]
  have hsl : sample.length = ne.toNat := by rw [← hsample]; simp [l4]
  -- the placement list
  let beacons := ((cells.drop 1).take nb.toNat).map fun p => (p, Obj.beacon (sample.headD .none))
  let exits := ((cells.drop (1 + nb.toNat)).zip sample).map fun pc => (pc.1, Obj.exit pc.2)
  have hfst : (beacons ++ exits).map Prod.fst =
      (cells.drop 1).take nb.toNat ++ ((cells.drop (1 + nb.toNat)).zip sample).map Prod.fst := by
    simp only [beacons, exits, List.map_append, List.map_map]
    congr 1
    · exact List.map_id' _ |>.symm ▸ (by simp [Function.comp_def])
  have hzipfst : ((cells.drop (1 + nb.toNat)).zip sample).map Prod.fst = cells.drop (1 + nb.toNat) := by
    rw [List.map_fst_zip]
    simp [hcl, hsl]
  have hsplit : cells.drop 1 = (cells.drop 1).take nb.toNat ++ cells.drop (1 + nb.toNat) := by
    have := (List.take_append_drop nb.toNat (cells.drop 1)).symm
    rw [List.drop_drop] at this
    exact this
  have hfst' : (beacons ++ exits).map Prod.fst = cells.drop 1 := by
    rw [hfst, hzipfst, ← hsplit]
  have hdn : (cells.drop 1).Nodup := List.Nodup.sublist (List.drop_sublist 1 cells) cnd
  have hin : ∀ po ∈ beacons ++ exits, g.contains po.1 = true := by
    intro po hpo
    have : po.1 ∈ (beacons ++ exits).map Prod.fst := List.mem_map_of_mem hpo
    rw [hfst'] at this
    exact ((mem_floorPositions g _).mp (cmem _ (List.mem_of_mem_drop this))).1
  obtain ⟨g', eg', wf', gh', gw', hin', hout'⟩ := placeAll_spec (beacons ++ exits) g wf hin (by rw [hfst']; exact hdn)
  refine ⟨⟨g', ⟨cells.headD ⟨0, 0⟩, orientList.getD k .F, .noneObj⟩⟩, d4, cells, sample, ?_, hcl, cnd,
    fun p hp => (mem_floorPositions g p).mp (cmem p hp), hsl, snd, ?_, rfl, rfl, wf', gh', gw', ?_, ?_, ?_⟩
  · have n1 : ¬ colors.length < 2 := by omega
    have n2 : ¬ nb < 1 := by omega
    have n3 : ¬ ne < 2 := by omega
    simp only [resetMemoryRooms, hc0, n1, n2, n3, decide_false, Bool.false_eq_true, if_false, hg, e2, e3, e4,
      hcells, hsample]
    simp only [beacons, exits] at eg'
    rw [eg']
  · intro c hc
    refine ⟨smem c hc, ?_⟩
    intro h
    subst h
    have := smem _ hc
    have h2 : colors.contains Color.none = true := by simpa using this
    rw [hc0] at h2
    cases h2
  · intro p hp
    have : (p, Obj.beacon (sample.headD .none)) ∈ beacons ++ exits :=
      List.mem_append_left _ (List.mem_map.mpr ⟨p, hp, rfl⟩)
    exact hin' _ this
  · intro pc hpc
    have : (pc.1, Obj.exit pc.2) ∈ beacons ++ exits :=
      List.mem_append_right _ (List.mem_map.mpr ⟨pc, hpc, rfl⟩)
    exact hin' _ this
  · intro q hq
    apply hout'
    rw [hfst']
    exact hq

/-- **C13 (`memory_rooms`), rejection.**  Every parameter combination that cannot be honoured raises
`ValueError`, whatever the stream: `NONE` among the colours, fewer than two colours, no beacon,
fewer than two exits, a room grid that cannot be built (`C13_rooms_rejects`), more objects than floor
cells, more exits than colours. -/
theorem C13_memory_rooms_rejects_params (sh : Shape) (lh lw : Int) (ys xs : List Int) (colors : List Color)
    (nb ne : Int) (d : DrawSt) (hbad : ¬ MemRoomsParams colors nb ne) :
    resetMemoryRooms sh lh lw ys xs colors nb ne d = .error .valueError := by
  unfold MemRoomsParams at hbad
  unfold resetMemoryRooms
  by_cases h0 : colors.contains .none = true
  · rw [if_pos h0]
  · rw [if_neg h0]
    by_cases h1 : colors.length < 2
    · rw [if_pos (by simpa using h1)]
    · rw [if_neg (by simpa using h1)]
      by_cases h2 : nb < 1
      · rw [if_pos (by simpa using h2)]
      · rw [if_neg (by simpa using h2)]
        by_cases h3 : ne < 2
        · rw [if_pos (by simpa using h3)]
        · exfalso; apply hbad; exact ⟨by simpa using h0, by omega, by omega, by omega⟩

theorem C13_memory_rooms_rejects_grid (sh : Shape) (lh lw : Int) (ys xs : List Int) (colors : List Color)
    (nb ne : Int) (d : DrawSt) (e : PyErr) (hg : roomsGrid sh lh lw ys xs d = .error e) :
    ∃ e', resetMemoryRooms sh lh lw ys xs colors nb ne d = .error e' ∧ (e' = e ∨ e' = .valueError) := by
  unfold resetMemoryRooms
  split
  · exact ⟨_, rfl, Or.inr rfl⟩
  · split
    · exact ⟨_, rfl, Or.inr rfl⟩
    · split
      · exact ⟨_, rfl, Or.inr rfl⟩
      · split
        · exact ⟨_, rfl, Or.inr rfl⟩
        · rw [hg]; exact ⟨_, rfl, Or.inl rfl⟩

theorem C13_memory_rooms_rejects_fit (sh : Shape) (lh lw : Int) (ys xs : List Int) (colors : List Color)
    (nb ne : Int) (d : DrawSt) (g : Grid) (d1 : DrawSt)
    (hg : roomsGrid sh lh lw ys xs d = .ok (g, d1)) (hp : MemRoomsParams colors nb ne)
    (hbad : (floorPositions g).length < 1 + nb.toNat + ne.toNat ∨ colors.length < ne.toNat) :
    resetMemoryRooms sh lh lw ys xs colors nb ne d = .error .valueError := by
  obtain ⟨hc0, hc2, hb1, he2⟩ := hp
  have n1 : ¬ colors.length < 2 := by omega
  have n2 : ¬ nb < 1 := by omega
  have n3 : ¬ ne < 2 := by omega
  simp only [resetMemoryRooms, hc0, n1, n2, n3, decide_false, Bool.false_eq_true, if_false, hg]
  by_cases hf : (floorPositions g).length < 1 + nb.toNat + ne.toNat
  · have hn := drawChoiceNR_none (floorPositions g).length (1 + nb.toNat + ne.toNat) hf d1
    cases hx : drawChoiceNR (floorPositions g).length (1 + nb.toNat + ne.toNat) d1 with
    | mk o dd => rw [hx] at hn; simp only at hn; subst hn; rfl
  · have hf' : 1 + nb.toNat + ne.toNat ≤ (floorPositions g).length := by omega
    have hcl : colors.length < ne.toNat := by
      rcases hbad with h | h
      · exact absurd h hf
      · exact h
    obtain ⟨idx, d2, e2, _⟩ := drawChoiceNR_some (floorPositions g).length (1 + nb.toNat + ne.toNat) hf' d1
    rw [e2]
    simp only
    cases e3 : drawChoice 4 d2 with
    | mk o d3 =>
      cases o with
      | none => rfl
      | some k =>
        simp only
        have hn := drawChoiceNR_none colors.length ne.toNat hcl d3
        cases hx : drawChoiceNR colors.length ne.toNat d3 with
        | mk o dd => rw [hx] at hn; simp only at hn; subst hn; rfl

/-- **C13 (`memory_rooms`), summary in the property's words.**  Under the hypotheses of
`roomsGrid_spec` the successful result has the requested shape and an unbroken wall boundary; the
agent is inside, empty-handed, on a floor cell (so neither an exit nor a beacon); there are exactly
`num_exits` exits, of pairwise distinct colours, and every beacon's colour is the colour of exactly
one of them (the first). -/
theorem C13_memory_rooms_summary (sh : Shape) (lh lw : Int) (ys xs : List Int) (colors : List Color)
    (nb ne : Int) (d : DrawSt)
    (hh : 0 ≤ sh.h) (hw : 0 ≤ sh.w) (hl : 1 ≤ lh ∧ 1 ≤ lw)
    (sy : SplitsOK sh.h ys) (sx : SplitsOK sh.w xs)
    (hp : MemRoomsParams colors nb ne) (hcn : colors.Nodup) :
    ∃ g d1, roomsGrid sh lh lw ys xs d = .ok (g, d1) ∧ RoomsGrid sh.h.toNat sh.w.toNat ys xs g ∧
      ((1 + nb.toNat + ne.toNat ≤ (floorPositions g).length ∧ ne.toNat ≤ colors.length) →
        ∃ (s : State) (d' : DrawSt) (exits : List (Pos × Color)) (good : Color),
          resetMemoryRooms sh lh lw ys xs colors nb ne d = .ok (s, d') ∧
          s.grid.WF ∧ s.grid.h = sh.h.toNat ∧ s.grid.w = sh.w.toNat ∧
          s.grid.contains s.agent.pos = true ∧ s.grid.at s.agent.pos = .floor ∧ s.agent.held = .noneObj ∧
          exits.length = ne.toNat ∧ (exits.map Prod.fst).Nodup ∧ (exits.map Prod.snd).Nodup ∧
          (exits.head?.map Prod.snd = some good) ∧
          (∀ q, s.grid.contains q = true →
            (∃ c, (q, c) ∈ exits ∧ s.grid.at q = .exit c) ∨ s.grid.at q = .beacon good ∨
            (s.grid.at q = g.at q ∧ ∀ c, (q, c) ∉ exits)) ∧
          (∀ pc ∈ exits, s.grid.at pc.1 = .exit pc.2) ∧
          good ∈ colors ∧ (∀ pc ∈ exits, pc.2 ∈ colors)) ∧
      (¬ (1 + nb.toNat + ne.toNat ≤ (floorPositions g).length ∧ ne.toNat ≤ colors.length) →
        resetMemoryRooms sh lh lw ys xs colors nb ne d = .error .valueError) := by
  obtain ⟨g, d1, eg, rg⟩ := roomsGrid_spec sh lh lw ys xs d hh hw hl sy sx
  refine ⟨g, d1, eg, rg, ?_, ?_⟩
  · rintro ⟨hfit, hcol⟩
    obtain ⟨s, d', cells, sample, he, hcl, cnd, cfl, hsl, snd, smem, hag, hheld, wf', gh', gw', hbe, hex, hout⟩ :=
      C13_memory_rooms_wf sh lh lw ys xs colors nb ne d g d1 eg rg.wf hp hcn hfit hcol
    have hne0 : cells ≠ [] := by intro h; rw [h] at hcl; simp at hcl; omega
    obtain ⟨c0, crest, rfl⟩ := List.exists_cons_of_ne_nil hne0
    simp only [List.drop_succ_cons, List.drop_zero, List.headD_cons] at hbe hex hout hag
    rw [List.nodup_cons] at cnd
    have hzl : (crest.drop nb.toNat).length = sample.length := by
      simp only [List.length_cons] at hcl
      simp [hsl]; omega
    have hzfst : ((crest.drop nb.toNat).zip sample).map Prod.fst = crest.drop nb.toNat := by
      rw [List.map_fst_zip]; omega
    have hzsnd : ((crest.drop nb.toNat).zip sample).map Prod.snd = sample := by
      rw [List.map_snd_zip]; omega
    have hex' : ∀ pc ∈ (crest.drop nb.toNat).zip sample, s.grid.at pc.1 = .exit pc.2 := by
      intro pc hpc; apply hex; simpa [Nat.add_comm] using hpc
    have hc : ∀ q, s.grid.contains q = g.contains q := by
      intro q; simp [Grid.contains, gh', gw']
    have hne2 : 2 ≤ sample.length := by obtain ⟨_, _, _, h⟩ := hp; omega
    obtain ⟨good, srest, hsamp⟩ : ∃ a r, sample = a :: r := by
      cases sample with
      | nil => simp at hne2
      | cons a r => exact ⟨a, r, rfl⟩
    refine ⟨s, d', (crest.drop nb.toNat).zip sample, good, he, wf', by rw [gh', rg.gh], by rw [gw', rg.gw],
      ?_, ?_, hheld, ?_, ?_, ?_, ?_, ?_, hex', ?_, ?_⟩
    · rw [hag, hc]; exact (cfl c0 List.mem_cons_self).1
    · rw [hag, hout c0 cnd.1]; exact (cfl c0 List.mem_cons_self).2
    · simp [hzl, hsl]
    · rw [hzfst]; exact List.Nodup.sublist (List.drop_sublist _ _) cnd.2
    · rw [hzsnd]; exact snd
    · have hdne : crest.drop nb.toNat ≠ [] := by
        intro h; rw [h] at hzl; simp at hzl; omega
      obtain ⟨e0, erest, hde⟩ := List.exists_cons_of_ne_nil hdne
      rw [hde, hsamp]; simp
    · intro q hq
      by_cases hqc : q ∈ crest
      · have hsp : crest = crest.take nb.toNat ++ crest.drop nb.toNat := (List.take_append_drop _ _).symm
        rw [hsp, List.mem_append] at hqc
        rcases hqc with hb | he'
        · right; left
          have := hbe q hb
          rw [hsamp] at this
          simpa using this
        · left
          rw [← hzfst] at he'
          obtain ⟨pc, hpc, rfl⟩ := List.mem_map.mp he'
          exact ⟨pc.2, hpc, hex' pc hpc⟩
      · right; right
        refine ⟨hout q hqc, ?_⟩
        intro c hmem
        have : q ∈ ((crest.drop nb.toNat).zip sample).map Prod.fst := List.mem_map.mpr ⟨(q, c), hmem, rfl⟩
        rw [hzfst] at this
        exact hqc (List.mem_of_mem_drop this)
    · exact (smem good (by rw [hsamp]; exact List.mem_cons_self)).1
    · intro pc hpc
      have : pc.2 ∈ ((crest.drop nb.toNat).zip sample).map Prod.snd := List.mem_map.mpr ⟨pc, hpc, rfl⟩
      rw [hzsnd] at this
      exact (smem pc.2 this).1
  · intro hbad
    apply C13_memory_rooms_rejects_fit sh lh lw ys xs colors nb ne d g d1 eg hp
    omega

/-- non-vacuity: the shipped 7×7 parameter set (layout 2×2, three colours, 3 beacons, 2 exits) meets
the hypotheses, and the reset succeeds on the all-zero stream -/
example : MemRoomsParams [.red, .green, .blue] 3 2 ∧ SplitsOK 7 [0, 3, 6] ∧ tooClose [0, 3, 6] = false ∧
    (resetMemoryRooms ⟨7, 7⟩ 2 2 [0, 3, 6] [0, 3, 6] [.red, .green, .blue] 3 2 ⟨[], []⟩).toBool = true := by
  refine ⟨⟨by decide, by decide, by decide, by decide⟩, ⟨?_, rfl, rfl, by decide⟩, by decide, by decide⟩
  simp [Gapped]

end GV
