/-
  C06 — Hidden cells carry no information (occlusion is non-interfering and monotone).

  "For the deterministic occluding observation functions (partially occluded and ray-traced),
  replacing the content of any world cell that is reported Hidden, or that lies outside the view,
  leaves the observation unchanged. The agent's own cell is always visible, a cell is visible only
  if an unbroken chain of adjacent transparent visible cells links it to the agent, making a visible
  opaque cell transparent never hides a cell that was visible, and the stochastic variant only ever
  shows cells the deterministic ray-traced view can show and always shows cells every ray reaches
  lit."

  Ray-traced statements hold for *any* fan of rays (the fan the code computes with floating point
  is validated separately, C19).
-/
import GridVerse.Lemmas.FloodClosure
import GridVerse.Lemmas.Premask
import GridVerse.Agree.Objects
set_option linter.unusedSimpArgs false
namespace GV

/-- the opacity map of a view grid -/
def Grid.opq (g : Grid) : Pos → Bool := fun q => (g.at q).blocksVision

/-- two view grids of the same shape -/
def SameShape (g g' : Grid) : Prop := g.h = g'.h ∧ g.w = g'.w

theorem SameShape.contains {g g' : Grid} (h : SameShape g g') (q : Pos) : g'.contains q = g.contains q := by
  simp only [Grid.contains, h.1, h.2]

/-! ### non-interference -/

/-- flood fill: if the grids' opacity differs only on cells the fill does not mark, the masks are
equal -/
theorem C06_po_noninterference (g g' : Grid) (p : Pos) (hs : SameShape g g') (m : Mask)
    (hm : visPartiallyOccluded g p = .ok m)
    (hd : ∀ q, g'.opq q ≠ g.opq q → m q = false) :
    visPartiallyOccluded g' p = .ok m := by
  unfold visPartiallyOccluded at hm ⊢
  rw [← hs.1]
  split at hm
  · cases hm
  · rename_i hy
    simp only [Except.ok.injEq] at hm
    simp only [hy, if_false]
    have hcont : g'.contains = g.contains := funext (hs.contains)
    have hfuel : floodFuel g' = floodFuel g := by simp [floodFuel, hs.1, hs.2]
    have hl : floodLeft g' p = floodLeft g p := by
      unfold floodLeft
      rw [hcont, hfuel]
      apply mkVis_noninterf
      intro q hq
      by_cases hne : g'.opq q = g.opq q
      · exact hne.symm
      · have := hd q hne
        rw [← hm] at this
        simp only [Bool.or_eq_false_iff, List.contains_eq_mem, decide_eq_false_iff_not] at this
        exact absurd hq this.1
    have hr : floodRight g' p = floodRight g p := by
      unfold floodRight
      rw [hcont, hfuel]
      apply mkVis_noninterf
      intro q hq
      by_cases hne : g'.opq q = g.opq q
      · exact hne.symm
      · have := hd q hne
        rw [← hm] at this
        simp only [Bool.or_eq_false_iff, List.contains_eq_mem, decide_eq_false_iff_not] at this
        exact absurd hq this.2
    rw [hl, hr, ← hm]

/-- one ray: opacity differing only at cells the ray does not reach lit leaves its marks unchanged -/
theorem rayMarks_noninterf' (g g' : Grid) (light : Bool) (r : Ray)
    (h : ∀ q, g'.opq q ≠ g.opq q → (q, true) ∉ rayMarks g light r) :
    rayMarks g' light r = rayMarks g light r := by
  induction r generalizing light with
  | nil => rfl
  | cons p ps ih =>
    simp only [rayMarks]
    have htail : ∀ l, (∀ q, g'.opq q ≠ g.opq q → (q, true) ∉ rayMarks g l ps) →
        rayMarks g' l ps = rayMarks g l ps := fun l hl => ih l hl
    by_cases hne : g'.opq p = g.opq p
    · have : (g'.at p).blocksVision = (g.at p).blocksVision := hne
      rw [this]
      congr 1
      apply htail
      intro q hq hmem
      exact h q hq (by simp [rayMarks, hmem])
    · have hl : light = false := by
        cases light
        · rfl
        · exact absurd (by simp [rayMarks]) (h p hne)
      subst hl
      simp only [Bool.false_and]
      congr 1
      apply htail
      intro q hq hmem
      exact h q hq (by simp [rayMarks, hmem])

/-- ray tracing over any fan: opacity differing only at invisible cells leaves the mask unchanged -/
theorem C06_rt_noninterference (g g' : Grid) (rays : List Ray)
    (hd : ∀ q, g'.opq q ≠ g.opq q → visRaytracing g rays q = false) :
    visRaytracing g' rays = visRaytracing g rays := by
  have hmarks : ∀ r ∈ rays, rayMarks g' true r = rayMarks g true r := by
    intro r hr
    apply rayMarks_noninterf'
    intro q hq hmem
    have := hd q hq
    simp only [visRaytracing, decide_eq_false_iff_not] at this
    exact this ((countsNum_pos_iff g rays q).mpr ⟨r, hr, hmem⟩)
  funext q
  simp only [visRaytracing]
  congr 1
  unfold countsNum
  congr 2
  apply List.map_congr_left
  intro r hr
  rw [hmarks r hr]

/-- a visibility function is non-interfering when changing view cells it reports invisible (in a
way that keeps the shape) neither changes its verdict on any cell nor makes it fail -/
def NonInterfering (V : Grid → Pos → Except PyErr Mask) : Prop :=
  ∀ g g' p m, SameShape g g' → V g p = .ok m → (∀ q, g'.at q ≠ g.at q → m q = false) → V g' p = .ok m

theorem C06_po_nonInterfering : NonInterfering visPartiallyOccluded := by
  intro g g' p m hs hm hd
  apply C06_po_noninterference g g' p hs m hm
  intro q hq
  apply hd q
  intro h; apply hq; simp only [Grid.opq, h]

theorem C06_rt_nonInterfering (rays : List Ray) : NonInterfering (visRaytracingChecked rays) := by
  intro g g' p m hs hm hd
  unfold visRaytracingChecked at hm ⊢
  rw [hs.contains]
  split at hm
  · simp only [Except.ok.injEq] at hm
    rename_i hc
    simp only [hc, if_true, Except.ok.injEq]
    rw [← hm]
    apply C06_rt_noninterference
    intro q hq
    rw [hm]
    apply hd q
    intro h; apply hq; simp only [Grid.opq, h]
  · cases hm

/-- Observation level: two states with the same agent whose grids have the same shape and differ
only at world cells that the observation of the first reports as masked out (or that lie outside
the view) have the same observation. -/
theorem C06_obs_noninterference (V : Grid → Pos → Except PyErr Mask) (hV : NonInterfering V)
    (s s' : State) (a : Area) (ha : a.WF) (hag : s'.agent = s.agent)
    (g0 : Grid) (m : Mask) (hpre : g0 = premask s a) (hm : V g0 (povPos a) = .ok m)
    (hd : ∀ i j, i < a.height → j < a.width →
      s'.grid.at (viewWorld s a i j) ≠ s.grid.at (viewWorld s a i j) → m ⟨i, j⟩ = false) :
    fromVisibility V s' a = fromVisibility V s a := by
  subst hpre
  obtain ⟨hh, hw⟩ := premask_shape s a ha
  obtain ⟨hh', hw'⟩ := premask_shape s' a ha
  have hss : SameShape (premask s a) (premask s' a) := ⟨by rw [hh, hh'], by rw [hw, hw']⟩
  have hvw : ∀ i j, viewWorld s' a i j = viewWorld s a i j := by
    intro i j; simp only [viewWorld, Agent.transform, hag]
  -- cells of the two pre-mask views
  have hcell : ∀ i j, i < a.height → j < a.width →
      (premask s' a).cell i j ≠ (premask s a).cell i j → m ⟨i, j⟩ = false := by
    intro i j hi hj hne
    apply hd i j hi hj
    rw [premask_cell s' a ha i j hi hj, premask_cell s a ha i j hi hj] at hne
    have := hvw i j
    simp only [viewWorld] at this
    rw [this] at hne
    exact hne
  have hm' : V (premask s' a) (povPos a) = .ok m := by
    apply hV _ _ _ _ hss hm
    intro q hq
    by_cases hc : (premask s a).contains q = true
    · have hc' : (premask s' a).contains q = true := by rw [hss.contains]; exact hc
      rw [Grid.at_of_contains _ _ hc, Grid.at_of_contains _ _ hc'] at hq
      rw [Grid.contains_iff, hh, hw] at hc
      have := hcell q.y.toNat q.x.toNat (by omega) (by omega) hq
      have e : (⟨(q.y.toNat : Int), (q.x.toNat : Int)⟩ : Pos) = q := by
        rw [Pos.ext_iff']; simp only; omega
      rw [e] at this; exact this
    · have hc0 : (premask s a).contains q = false := by simpa using hc
      have hc' : (premask s' a).contains q = false := by rw [hss.contains]; exact hc0
      rw [Grid.at_of_not_contains _ _ hc0, Grid.at_of_not_contains _ _ hc'] at hq
      exact absurd rfl hq
  unfold fromVisibility
  simp only [hm, hm', hag]
  congr 2
  unfold applyMask
  rw [hh, hw, hh', hw']
  apply Grid.tab_congr
  intro i j hi hj
  by_cases hmij : m ⟨i, j⟩ = true
  · simp only [hmij, if_true]
    by_cases hne : (premask s' a).cell i j = (premask s a).cell i j
    · exact hne
    · have := hcell i j hi hj hne
      rw [hmij] at this; cases this
  · simp [hmij]

/-! ### the agent's own cell is visible -/

theorem C06_po_self_visible (g : Grid) (p : Pos) (hp : g.contains p = true) (m : Mask)
    (hm : visPartiallyOccluded g p = .ok m) : m p = true := by
  unfold visPartiallyOccluded at hm
  split at hm
  · cases hm
  · simp only [Except.ok.injEq] at hm
    rw [← hm]
    have : p ∈ floodLeft g p := by
      unfold floodLeft floodFuel
      exact mkVis_self _ _ _ _ p hp
    simp [this]

/-- for rays: as soon as some ray of the fan starts at the origin (C19: all of them do) -/
theorem C06_rt_self_visible (g : Grid) (p : Pos) (rays : List Ray)
    (h : ∃ r ∈ rays, r.head? = some p) : visRaytracing g rays p = true := by
  obtain ⟨r, hr, hhead⟩ := h
  simp only [visRaytracing, decide_eq_true_eq]
  rw [countsNum_pos_iff]
  refine ⟨r, hr, ?_⟩
  cases r with
  | nil => cases hhead
  | cons a as => simp only [List.head?_cons, Option.some.injEq] at hhead; subst hhead; simp [rayMarks]

/-! ### visibility means an unbroken chain of transparent visible cells from the agent -/

/-- flood fill: a visible cell is reachable from the agent's cell through in-view transparent
cells, each step going to an edge- or corner-adjacent cell (up, sideways, or diagonally up) -/
theorem C06_po_chain (g : Grid) (p : Pos) (m : Mask) (hm : visPartiallyOccluded g p = .ok m) (q : Pos)
    (hq : m q = true) :
    Reach g.opq g.contains poNextLeft p q ∨ Reach g.opq g.contains poNextRight p q := by
  unfold visPartiallyOccluded at hm
  split at hm
  · cases hm
  · simp only [Except.ok.injEq] at hm
    rw [← hm] at hq
    simp only [Bool.or_eq_true, List.contains_eq_mem, decide_eq_true_eq] at hq
    rcases hq with h | h
    · left; exact mkVis_sound _ _ _ _ _ _ h
    · right; exact mkVis_sound _ _ _ _ _ _ h

/-- … and every cell along such a chain is itself visible (so the chain is a chain of *visible*
cells): reachability is exactly visibility -/
theorem C06_po_visible_iff (g : Grid) (p : Pos) (m : Mask) (hm : visPartiallyOccluded g p = .ok m)
    (q : Pos) :
    m q = true ↔ (Reach g.opq g.contains poNextLeft p q ∨ Reach g.opq g.contains poNextRight p q) := by
  constructor
  · exact C06_po_chain g p m hm q
  · intro h
    unfold visPartiallyOccluded at hm
    split at hm
    · cases hm
    · simp only [Except.ok.injEq] at hm
      rw [← hm]
      simp only [Bool.or_eq_true, List.contains_eq_mem, decide_eq_true_eq]
      rcases h with h | h
      · left
        exact mkVis_complete _ _ _ muLeft (muLeft_dec g) _ _ (muLeft_fuel g p) q h
      · right
        exact mkVis_complete _ _ _ (muRight g) (muRight_dec g) _ _ (muRight_fuel g p) q h

theorem poNext_adjacent (p n : Pos) (h : n ∈ poNextLeft p ∨ n ∈ poNextRight p) :
    (p.y - n.y).natAbs ≤ 1 ∧ (p.x - n.x).natAbs ≤ 1 ∧ n ≠ p := by
  simp only [poNextLeft, poNextRight, List.mem_cons, List.not_mem_nil, or_false] at h
  rcases h with (rfl | rfl | rfl) | (rfl | rfl | rfl) <;>
    refine ⟨by simp only []; omega, by simp only []; omega, ?_⟩ <;>
    (intro e; have := congrArg Pos.y e; have := congrArg Pos.x e; simp only [] at *; omega)

/-- rays: a visible cell lies on some ray all of whose earlier cells are transparent and visible -/
theorem rayMarks_prefix (g : Grid) (r : Ray) (light : Bool) (k : Nat) (hk : k < r.length)
    (h : (rayMarks g light r)[k]? = some (r[k], true)) :
    light = true ∧ ∀ j (hj : j < k), (g.at (r[j]'(by omega))).blocksVision = false ∧
      (rayMarks g light r)[j]? = some (r[j]'(by omega), true) := by
  induction r generalizing light k with
  | nil => simp at hk
  | cons p ps ih =>
    cases k with
    | zero =>
      simp only [rayMarks, List.getElem?_cons_zero, List.getElem_cons_zero, Option.some.injEq,
        Prod.mk.injEq, true_and] at h
      exact ⟨h, fun j hj => absurd hj (Nat.not_lt_zero _)⟩
    | succ k =>
      simp only [rayMarks, List.getElem?_cons_succ, List.getElem_cons_succ] at h
      have hk' : k < ps.length := by simpa using hk
      obtain ⟨hl, hrest⟩ := ih _ k hk' h
      simp only [Bool.and_eq_true, Bool.not_eq_true'] at hl
      refine ⟨hl.1, ?_⟩
      intro j hj
      cases j with
      | zero => simp [rayMarks, hl.1, hl.2]
      | succ j =>
        have := hrest j (by omega)
        simp only [rayMarks, List.getElem_cons_succ, List.getElem?_cons_succ]
        exact this

theorem rayMarks_length (g : Grid) (light : Bool) (r : Ray) : (rayMarks g light r).length = r.length := by
  induction r generalizing light with
  | nil => rfl
  | cons p ps ih => simp [rayMarks, ih]

theorem rayMarks_fst (g : Grid) (light : Bool) (r : Ray) (k : Nat) (hk : k < r.length) :
    ∃ b, (rayMarks g light r)[k]? = some (r[k], b) := by
  induction r generalizing light k with
  | nil => simp at hk
  | cons p ps ih =>
    cases k with
    | zero => exact ⟨light, by simp [rayMarks]⟩
    | succ k =>
      obtain ⟨b, hb⟩ := ih (light && !(g.at p).blocksVision) k (by simpa using hk)
      exact ⟨b, by simpa [rayMarks] using hb⟩

theorem C06_rt_chain (g : Grid) (rays : List Ray) (q : Pos) (hq : visRaytracing g rays q = true) :
    ∃ r ∈ rays, ∃ k, ∃ hk : k < r.length, r[k] = q ∧
      ∀ j (hj : j < k), (g.at (r[j]'(by omega))).blocksVision = false ∧
        visRaytracing g rays (r[j]'(by omega)) = true := by
  simp only [visRaytracing, decide_eq_true_eq] at hq
  obtain ⟨r, hr, hmem⟩ := (countsNum_pos_iff g rays q).mp hq
  obtain ⟨k, hk, hget⟩ := List.getElem_of_mem hmem
  have hk' : k < r.length := by rw [rayMarks_length] at hk; exact hk
  obtain ⟨b, hb⟩ := rayMarks_fst g true r k hk'
  have hget' : (rayMarks g true r)[k]? = some (q, true) := by
    rw [List.getElem?_eq_getElem hk, hget]
  rw [hget'] at hb
  simp only [Option.some.injEq, Prod.mk.injEq] at hb
  obtain ⟨hqk, hbt⟩ := hb
  refine ⟨r, hr, k, hk', hqk.symm, ?_⟩
  have hpre := rayMarks_prefix g r true k hk' (by rw [hget', hqk])
  intro j hj
  obtain ⟨h1, h2⟩ := hpre.2 j hj
  refine ⟨h1, ?_⟩
  simp only [visRaytracing, decide_eq_true_eq]
  rw [countsNum_pos_iff]
  exact ⟨r, hr, List.mem_of_getElem? h2⟩

/-! ### monotonicity: making opaque cells transparent never hides a visible cell -/

theorem C06_po_monotone (g g' : Grid) (p : Pos) (hs : SameShape g g')
    (hle : ∀ c, g'.opq c = true → g.opq c = true) (m m' : Mask)
    (hm : visPartiallyOccluded g p = .ok m) (hm' : visPartiallyOccluded g' p = .ok m') (q : Pos)
    (hq : m q = true) : m' q = true := by
  rw [C06_po_visible_iff g p m hm] at hq
  rw [C06_po_visible_iff g' p m' hm']
  have hcont : g'.contains = g.contains := funext (hs.contains)
  rw [hcont]
  rcases hq with h | h
  · left; exact Reach.mono hle h
  · right; exact Reach.mono hle h

theorem C06_rt_monotone (g g' : Grid) (rays : List Ray)
    (hle : ∀ c, g'.opq c = true → g.opq c = true) (q : Pos)
    (hq : visRaytracing g rays q = true) : visRaytracing g' rays q = true := by
  simp only [visRaytracing, decide_eq_true_eq] at hq ⊢
  rw [countsNum_pos_iff] at hq ⊢
  obtain ⟨r, hr, hmem⟩ := hq
  exact ⟨r, hr, rayMarks_monotone g g' hle true true (fun h => h) r q hmem⟩

/-! ### the stochastic variant -/

/-- shown ⇒ some ray reaches the cell lit (the deterministic view can show it); every ray reaches
it lit ⇒ shown — for every uniform draw `u = m / 2^53 ∈ [0, 1)` and every float quotient `p`
satisfying the IEEE facts `flDivOK` -/
theorem C06_stochastic_bounds (n d : Nat) (p : Prob) (hp : flDivOK n d p = true) (m : Nat)
    (hm : m < 9007199254740992) :
    (shownStochastic m p = true → 0 < n) ∧ (n = d → 0 < d → shownStochastic m p = true) := by
  unfold flDivOK at hp
  simp only [Bool.and_eq_true, bne_iff_ne, ne_eq] at hp
  obtain ⟨hden, hrest⟩ := hp
  constructor
  · intro hs
    simp only [shownStochastic, decide_eq_true_eq] at hs
    by_cases hd0 : d = 0
    · simp only [hd0, beq_self_eq_true, if_true, beq_iff_eq] at hrest
      rw [hrest] at hs; omega
    · by_cases hn0 : n = 0
      · simp only [hd0, beq_iff_eq, if_false, hn0, beq_self_eq_true, if_true] at hrest
        rw [hrest] at hs; omega
      · omega
  · intro hnd hd
    subst hnd
    have hn0 : n ≠ 0 := by omega
    simp only [beq_iff_eq, hn0, if_false, beq_self_eq_true, if_true] at hrest
    simp only [shownStochastic, decide_eq_true_eq]
    rw [hrest]
    have : 0 < p.den := Nat.pos_of_ne_zero hden
    rw [Nat.mul_comm p.den]
    exact Nat.mul_lt_mul_of_pos_right hm this

/-- a shown cell of the stochastic view is a cell the deterministic ray-traced view shows -/
theorem C06_stochastic_subset (g : Grid) (rays : List Ray) (q : Pos) (p : Prob) (m : Nat)
    (hm : m < 9007199254740992) (hp : flDivOK (countsNum g rays q) (countsDen rays q) p = true)
    (hs : shownStochastic m p = true) : visRaytracing g rays q = true := by
  have := (C06_stochastic_bounds _ _ p hp m hm).1 hs
  simp only [visRaytracing, decide_eq_true_eq]
  omega

/-- the comparison before the repair (`<=`) showed never-lit cells on a zero draw (findings/F5) -/
example : shownStochasticLe 0 ⟨0, 1⟩ = true ∧ flDivOK 0 3 ⟨0, 1⟩ = true ∧ shownStochastic 0 ⟨0, 1⟩ = false := by
  decide

/-! ### non-vacuity: a wall row hides what is behind it -/
example :
    let g : Grid := ⟨3, 3, [[.floor, .key .red, .floor], [.wall, .wall, .wall], [.floor, .floor, .floor]]⟩
    ∃ m, visPartiallyOccluded g ⟨2, 1⟩ = .ok m ∧ m ⟨2, 1⟩ = true ∧ m ⟨1, 1⟩ = true ∧ m ⟨0, 1⟩ = false := by
  exact ⟨_, rfl, by decide, by decide, by decide⟩

end GV
